#!/usr/bin/env python3
"""check.py — one entry point for every property.

  check.py Cxx --tier quick|thorough      run the check of property Cxx
  check.py Cxx --replay FILE              re-run one recorded case
  check.py --build-only                   MANIFEST.setup_cmd: build everything

What a check does (DESIGN §2.4):
  1. regenerate coq/Grammar.v from /repo/jsonpath.peg, `make` the Coq project (no-op when
     nothing changed), compile the property's theorem file and read its Print Assumptions
  2. build the Go runner against /repo's working tree with -tags verif
  3. corpus first, then generated cases: implementation vs extracted model on the
     property's projection, plus the property's direct oracles on the implementation
  4. evidence; VIOLATION lines for anything not listed in known_findings.json
"""
import argparse
import fcntl
import glob
import json
import os
import re
import shutil
import subprocess
import sys
import time

ROOT = os.path.dirname(os.path.dirname(os.path.abspath(__file__)))
sys.path.insert(0, os.path.join(ROOT, 'gen'))
import core  # noqa: E402

BUILD = core.BUILD
COQ = os.path.join(ROOT, 'coq')
REPO = os.environ.get('VERIF_REPO', '/repo')
GOENV = dict(os.environ, GOFLAGS='-mod=mod', GOPROXY='off', GOSUMDB='off', GOTOOLCHAIN='local',
             CGO_ENABLED='1')


def log(msg):
    sys.stderr.write('[check] %s\n' % msg)
    sys.stderr.flush()


def sh(cmd, cwd=None, env=None, timeout=3000, check=True):
    p = subprocess.run(cmd, cwd=cwd, env=env, capture_output=True, text=True, timeout=timeout)
    if check and p.returncode != 0:
        raise RuntimeError('command failed: %s\n%s\n%s' % (' '.join(cmd), p.stdout[-3000:], p.stderr[-3000:]))
    return p


class BuildState:
    def __init__(self):
        self.coq_failed = []       # .v files that did not compile
        self.coq_log = ''
        self.grammar_changed = False
        self.grammar_info = {}
        self.translator_error = None
        self.go_error = None


def prop_files():
    return sorted(glob.glob(os.path.join(COQ, 'Prop_C*.v')))


def build(need_race=False, full=False):
    """idempotent; takes a lock so that checks may be launched concurrently"""
    os.makedirs(BUILD, exist_ok=True)
    st = BuildState()
    with open(os.path.join(BUILD, '.lock'), 'w') as lk:
        fcntl.flock(lk, fcntl.LOCK_EX)
        # 1. translator
        p = sh([sys.executable, os.path.join(ROOT, 'tools', 'peg2coq.py'), os.path.join(REPO, 'jsonpath.peg'),
                os.path.join(REPO, 'jsonpath.peg.go'), os.path.join(COQ, 'Grammar.v'),
                os.path.join(BUILD, 'grammar.json')], check=False)
        if p.returncode != 0:
            st.translator_error = p.stderr.strip()
        else:
            st.grammar_info = json.load(open(os.path.join(BUILD, 'grammar.json')))
            st.grammar_changed = st.grammar_info.get('changed', False)
        # 2. Coq
        if not os.path.exists(os.path.join(COQ, 'Makefile')) or \
                os.path.getmtime(os.path.join(COQ, '_CoqProject')) > os.path.getmtime(os.path.join(COQ, 'Makefile')):
            sh(['coq_makefile', '-f', '_CoqProject', '-o', 'Makefile'], cwd=COQ)
        p = sh(['make', '-k', '-j16'], cwd=COQ, check=False, timeout=3400)
        st.coq_log = (p.stdout + p.stderr)[-20000:]
        open(os.path.join(BUILD, 'coq_make.log'), 'w').write(p.stdout + p.stderr)
        if p.returncode != 0:
            for m in re.finditer(r'\[Makefile:\d+: (\S+)\.vo\] Error', p.stdout + p.stderr):
                st.coq_failed.append(m.group(1) + '.v')
            if not st.coq_failed:
                st.coq_failed.append('?')
        # 2b. Print Assumptions of the property files
        adir = os.path.join(BUILD, 'assumptions')
        os.makedirs(adir, exist_ok=True)
        todo = []
        for pf in prop_files():
            base = os.path.basename(pf)[:-2]
            vo = pf[:-2] + '.vo'
            out = os.path.join(adir, base + '.txt')
            if os.path.exists(vo) and (not os.path.exists(out) or os.path.getmtime(out) < os.path.getmtime(vo)):
                todo.append((pf, out))
        procs = []
        for pf, out in todo:
            procs.append((out, subprocess.Popen(['coqc', '-Q', '.', 'JP', '-o', os.path.join(adir, os.path.basename(pf)[:-2] + '.vo'),
                                                 os.path.basename(pf)], cwd=COQ, stdout=subprocess.PIPE,
                                                stderr=subprocess.STDOUT, text=True)))
        for out, pr in procs:
            text, _ = pr.communicate()
            if pr.returncode == 0:
                open(out, 'w').write(text)
        # 3. extraction -> driver
        ml = os.path.join(COQ, 'model.ml')
        odir = os.path.join(BUILD, 'ocaml')
        os.makedirs(odir, exist_ok=True)
        drv = os.path.join(odir, 'driver')
        srcs = [ml, os.path.join(COQ, 'model.mli'), os.path.join(ROOT, 'ocaml', 'driver.ml')]
        if all(os.path.exists(s) for s in srcs) and \
                (not os.path.exists(drv) or any(os.path.getmtime(s) > os.path.getmtime(drv) for s in srcs)):
            for s in srcs:
                shutil.copy(s, odir)
            sh(['ocamlfind', 'ocamlopt', '-package', 'zarith', '-linkpkg', '-w', '-a',
                'model.mli', 'model.ml', 'driver.ml', '-o', 'driver.new'], cwd=odir)
            os.replace(os.path.join(odir, 'driver.new'), drv)
        # 4. Go runner, always rebuilt from /repo's working tree (go's build cache makes it cheap)
        src = os.path.join(ROOT, 'go', 'runner')
        rdir = os.path.join(BUILD, 'runner_src')
        os.makedirs(rdir, exist_ok=True)
        for f in os.listdir(src):
            if f.endswith('.go'):
                shutil.copy(os.path.join(src, f), rdir)
        shutil.copy(os.path.join(REPO, 'go.sum'), os.path.join(rdir, 'go.sum'))
        gomod = open(os.path.join(src, 'go.mod')).read()
        want = re.sub(r'replace github.com/AsaiYusuke/jsonpath => .*', 'replace github.com/AsaiYusuke/jsonpath => ' + REPO, gomod)
        open(os.path.join(rdir, 'go.mod'), 'w').write(want)
        p = sh(['go', 'build', '-tags', 'verif', '-o', os.path.join(BUILD, 'runner.new'), '.'], cwd=rdir, env=GOENV, check=False)
        if p.returncode != 0:
            st.go_error = (p.stdout + p.stderr)[-3000:]
        else:
            os.replace(os.path.join(BUILD, 'runner.new'), core.RUNNER)
            if need_race or full:
                p = sh(['go', 'build', '-race', '-tags', 'verif', '-o', os.path.join(BUILD, 'runner_race.new'), '.'],
                       cwd=rdir, env=GOENV, check=False)
                if p.returncode != 0:
                    st.go_error = (p.stdout + p.stderr)[-3000:]
                else:
                    os.replace(os.path.join(BUILD, 'runner_race.new'), core.RUNNER_RACE)
    return st


FORBIDDEN = re.compile(r'\b(Admitted|admit|Axiom|Parameter|Conjecture|Unset Guard|bypass_check|Admit Obligations|'
                       r'Unset Positivity|type-in-type|Unset Universe Checking)\b')


def forbidden_vernacular():
    bad = []
    for f in glob.glob(os.path.join(COQ, '*.v')):
        text = re.sub(r'\(\*.*?\*\)', '', open(f).read(), flags=re.S)
        for m in FORBIDDEN.finditer(text):
            bad.append('%s: %s' % (os.path.basename(f), m.group(0)))
    return bad


def theorem_info(pid):
    """theorem names in Prop_<pid>.v, its Print Assumptions text, whether it compiled"""
    pf = os.path.join(COQ, 'Prop_%s.v' % pid)
    if not os.path.exists(pf):
        return None
    text = open(pf).read()
    names = re.findall(r'^\s*(?:Theorem|Corollary)\s+(\w+)', text, flags=re.M)
    out = os.path.join(BUILD, 'assumptions', 'Prop_%s.txt' % pid)
    vo = pf[:-2] + '.vo'
    compiled = os.path.exists(vo) and os.path.getmtime(vo) >= os.path.getmtime(pf)
    assumptions = open(out).read() if os.path.exists(out) and compiled else ''
    statements = []
    for m in re.finditer(r'^\s*(?:Theorem|Corollary)\s+(\w+)\s*:?(.*?)\n\s*Proof\.', text, flags=re.M | re.S):
        statements.append({'theorem': m.group(1), 'statement': ' '.join(m.group(2).split())[:600]})
    return {'file': pf, 'names': names, 'compiled': compiled, 'assumptions': assumptions, 'statements': statements}


def cone_of(pid):
    """the .v files the property's theorem file depends on (transitively), from coqdep"""
    pf = 'Prop_%s.v' % pid
    deps = {}
    p = sh(['coqdep', '-Q', '.', 'JP'] + [os.path.basename(f) for f in glob.glob(os.path.join(COQ, '*.v'))], cwd=COQ, check=False)
    for line in p.stdout.splitlines():
        m = re.match(r'(\S+)\.vo.*?:\s*(.*)', line)
        if m:
            deps[m.group(1) + '.v'] = [d[:-3] + '.v' for d in m.group(2).split() if d.endswith('.vo')]
    seen, todo = set(), [pf]
    while todo:
        f = todo.pop()
        if f in seen:
            continue
        seen.add(f)
        todo.extend(deps.get(f, []))
    return seen


def main():
    ap = argparse.ArgumentParser()
    ap.add_argument('prop', nargs='?')
    ap.add_argument('--tier', default=os.environ.get('VERIF_TIER', 'quick'))
    ap.add_argument('--replay')
    ap.add_argument('--build-only', action='store_true')
    ap.add_argument('--coqchk', action='store_true', help='re-check every compiled file with the independent checker and print the axioms')
    ap.add_argument('--seed', type=int, default=int(os.environ.get('VERIF_SEED', '20260927')))
    args = ap.parse_args()

    if args.coqchk:
        st = build(full=False)
        mods = ['JP.' + os.path.basename(f)[:-2] for f in prop_files()]
        p = subprocess.run(['coqchk', '-silent', '-o', '-Q', COQ, 'JP'] + mods, capture_output=True, text=True, timeout=7200)
        out = p.stdout + p.stderr
        open(os.path.join(BUILD, 'coqchk.log'), 'w').write(out)
        sys.stdout.write(out[-3000:])
        sys.exit(p.returncode)
    if args.build_only:
        st = build(full=True)
        bad = forbidden_vernacular()
        if st.translator_error or st.coq_failed or st.go_error or bad:
            log('build problems: translator=%s coq_failed=%s go=%s forbidden=%s' %
                (st.translator_error, st.coq_failed, st.go_error, bad))
            sys.stderr.write(st.coq_log[-3000:])
            sys.exit(1)
        log('build ok')
        return

    import props
    pid = args.prop
    if pid not in props.REGISTRY:
        sys.stderr.write('unknown property %s\n' % pid)
        sys.exit(2)
    t0 = time.time()
    prop = props.REGISTRY[pid]
    st = build(need_race=prop.needs_race)
    ctx = props.Context(pid=pid, tier=args.tier, seed=args.seed, build=st, root=ROOT, repo=REPO)
    ctx.theorems = theorem_info(pid)
    ctx.forbidden = forbidden_vernacular()
    ctx.cone = cone_of(pid) if ctx.theorems else set()
    core.load_kinds() if not st.go_error else None
    if args.replay:
        rc = props.replay(ctx, prop, args.replay)
    else:
        rc = props.run_check(ctx, prop, t0)
    sys.exit(rc)


if __name__ == '__main__':
    main()
