#!/bin/bash
# setup.sh — build the whole framework from files on disk, offline:
#   1. regenerate coq/Grammar.v from /repo/jsonpath.peg (translator)
#   2. full .vo build of the Coq development (coq_makefile + make -j16), capturing the output of
#      every Properties file (Print Assumptions) under build/assumptions/
#   3. extraction -> OCaml driver
#   4. Go runner (plain and -race) against /repo's working tree with -tags verif
set -e
cd "$(dirname "$0")/.."
exec python3 bin/check.py --build-only "$@"
