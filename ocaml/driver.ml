(* driver.ml — runs the extracted Coq model (model.ml) on harness cases and prints one
   canonical observation line per case, in the format the Go runner prints.

   Input: one S-expression per line
     (case ID (path CP...) (cfg (HEXNAME...) (HEXNAME...) ACC) (pf (HEXTEXT M E | HEXTEXT err)...)
           (rx (HEXTEXT 0|1)...) (rm (HEXRE HEXSUBJ 0|1)...) (docs DOC...) (mode MODE))
     DOC ::= z | t | f | (n M E) | (pinf) | (ninf) | (nan) | (j HEX NUM) | (s HEX) | (a DOC...)
           | (o (HEX DOC)...) | (x HEXTY ID SELFEQ)
   Output: ID \t P=<parse outcome> [\t R<i>=<outcome> \t C<i>=<calls> \t L<i>=<locations>]... *)

module ZA = Z
open Model

(* ---------- S-expressions ---------- *)
type sx = A of Stdlib.String.t | L of sx list

let parse_sx (s : Stdlib.String.t) : sx =
  let n = Stdlib.String.length s in
  let pos = ref 0 in
  let rec skip () = while !pos < n && (s.[!pos] = ' ' || s.[!pos] = '\t') do incr pos done
  and item () =
    skip ();
    if !pos >= n then failwith "sexp: unexpected end";
    if s.[!pos] = '(' then begin
      incr pos;
      let items = ref [] in
      let fin = ref false in
      while not !fin do
        skip ();
        if !pos >= n then failwith "sexp: unterminated list";
        if s.[!pos] = ')' then (incr pos; fin := true)
        else items := item () :: !items
      done;
      L (List.rev !items)
    end else begin
      let st = !pos in
      while !pos < n && s.[!pos] <> ' ' && s.[!pos] <> '(' && s.[!pos] <> ')' && s.[!pos] <> '\t' do incr pos done;
      A (Stdlib.String.sub s st (!pos - st))
    end
  in
  item ()

(* ---------- conversions OCaml <-> extracted Coq data ---------- *)
let rec pos_of_int (i : int) : positive =
  if i = 1 then XH else if i land 1 = 0 then XO (pos_of_int (i lsr 1)) else XI (pos_of_int (i lsr 1))
let n_of_int (i : int) : n = if i = 0 then N0 else Npos (pos_of_int i)
let rec nat_of_int (i : int) : nat = if i = 0 then O else S (nat_of_int (i - 1))
let rec int_of_nat (x : nat) : int = match x with O -> 0 | S y -> 1 + int_of_nat y

(* arbitrary-precision decimal <-> Coq Z, through Zarith *)
let rec pos_of_zarith (v : ZA.t) : positive =
  if ZA.equal v ZA.one then XH
  else if ZA.is_even v then XO (pos_of_zarith (ZA.shift_right v 1))
  else XI (pos_of_zarith (ZA.shift_right v 1))
let z_of_zarith (v : ZA.t) : z =
  if ZA.sign v = 0 then Z0 else if ZA.sign v > 0 then Zpos (pos_of_zarith v) else Zneg (pos_of_zarith (ZA.neg v))
let rec zarith_of_pos (p : positive) : ZA.t =
  match p with
  | XH -> ZA.one
  | XO q -> ZA.shift_left (zarith_of_pos q) 1
  | XI q -> ZA.succ (ZA.shift_left (zarith_of_pos q) 1)
let zarith_of_z (v : z) : ZA.t =
  match v with Z0 -> ZA.zero | Zpos p -> zarith_of_pos p | Zneg p -> ZA.neg (zarith_of_pos p)
let z_of_string (s : Stdlib.String.t) : z = z_of_zarith (ZA.of_string s)
let string_of_z (v : z) : Stdlib.String.t = ZA.to_string (zarith_of_z v)

let ascii_of_char (c : char) : ascii =
  let i = Char.code c in
  let b k = (i lsr k) land 1 = 1 in
  Ascii (b 0, b 1, b 2, b 3, b 4, b 5, b 6, b 7)
let char_of_ascii (a : ascii) : char =
  match a with Ascii (b0, b1, b2, b3, b4, b5, b6, b7) ->
    let v b k = if b then 1 lsl k else 0 in
    Char.chr (v b0 0 + v b1 1 + v b2 2 + v b3 3 + v b4 4 + v b5 5 + v b6 6 + v b7 7)
let coq_string (s : Stdlib.String.t) : string =
  let r = ref EmptyString in
  for i = Stdlib.String.length s - 1 downto 0 do r := String (ascii_of_char s.[i], !r) done;
  !r
let ocaml_string (s : string) : Stdlib.String.t =
  let b = Buffer.create 16 in
  let rec go = function EmptyString -> () | String (a, r) -> Buffer.add_char b (char_of_ascii a); go r in
  go s; Buffer.contents b

let unhex (h : Stdlib.String.t) : Stdlib.String.t =
  if h = "-" then "" else begin
    let n = Stdlib.String.length h / 2 in
    Stdlib.String.init n (fun i -> Char.chr (int_of_string ("0x" ^ Stdlib.String.sub h (2 * i) 2)))
  end
let hex (s : Stdlib.String.t) : Stdlib.String.t =
  if s = "" then "-" else begin
    let b = Buffer.create (2 * Stdlib.String.length s) in
    Stdlib.String.iter (fun c -> Buffer.add_string b (Printf.sprintf "%02x" (Char.code c))) s;
    Buffer.contents b
  end
let hexc (s : string) = hex (ocaml_string s)

(* ---------- documents ---------- *)
let num_of_sx (l : sx list) : num =
  match l with
  | [A m; A e] -> Fin (z_of_string m, z_of_string e)
  | [A "pinf"] -> PInf
  | [A "ninf"] -> NInf
  | [A "nan"] -> NaN
  | _ -> failwith "bad number"

let rec doc_of_sx (x : sx) : value =
  match x with
  | A "z" -> VNull
  | A "t" -> VBool true
  | A "f" -> VBool false
  | L (A "n" :: r) -> VNum (num_of_sx r)
  | L (A "j" :: A h :: r) -> VJNum (coq_string (unhex h), num_of_sx r)
  | L [A "s"; A h] -> VStr (coq_string (unhex h))
  | L (A "a" :: items) -> VArr (List.map doc_of_sx items)
  | L (A "o" :: items) ->
      VObj (List.map (function L [A k; v] -> (coq_string (unhex k), doc_of_sx v) | _ -> failwith "bad member") items)
  | L [A "x"; A ty; A id; A se] -> VOpaque (coq_string (unhex ty), z_of_string id, se = "1")
  | _ -> failwith "bad document"

(* ---------- canonical rendering ---------- *)
let render_num (x : num) : Stdlib.String.t =
  match x with
  | Fin (m, e) -> Printf.sprintf "n(%s,%s)" (string_of_z m) (string_of_z e)
  | PInf -> "n(pinf)" | NInf -> "n(ninf)" | NaN -> "n(nan)"

let rec render_value (v : value) : Stdlib.String.t =
  match v with
  | VNull -> "z"
  | VBool true -> "t"
  | VBool false -> "f"
  | VNum x -> render_num x
  | VJNum (s, _) -> Printf.sprintf "j(%s)" (hexc s)
  | VStr s -> Printf.sprintf "s(%s)" (hexc s)
  | VArr l -> "[" ^ Stdlib.String.concat "," (List.map render_value l) ^ "]"
  | VObj m ->
      let items = List.map (fun (k, v) -> (ocaml_string k, v)) m in
      let items = List.sort (fun (a, _) (b, _) -> compare a b) items in
      "{" ^ Stdlib.String.concat "," (List.map (fun (k, v) -> hex k ^ ":" ^ render_value v) items) ^ "}"
  | VOpaque (ty, id, _) -> Printf.sprintf "x(%s,%s)" (hexc ty) (string_of_z id)

let render_loc (l : loc option) : Stdlib.String.t =
  match l with
  | None -> "?"
  | Some steps ->
      "/" ^ Stdlib.String.concat "/" (List.map (function
        | PKey k -> "k" ^ hexc k
        | PIdx i -> "i" ^ string_of_z i) steps)

let render_res (r : res) : Stdlib.String.t =
  match r with
  | RVal v -> render_value v
  | RAcc (settable, _, v) -> Printf.sprintf "A(%d,%s)" (if settable then 1 else 0) (render_value v)

let render_res_loc (r : res) : Stdlib.String.t =
  match r with
  | RVal _ -> "v"
  | RAcc (false, _, _) -> "nil"
  | RAcc (true, l, _) -> render_loc l

let render_rerr (e : rerr) : Stdlib.String.t =
  match e with
  | EMember b -> Printf.sprintf "mne:%s" (hexc b.text)
  | EType (b, expected, found) -> Printf.sprintf "tum:%s:%s:%s" (hexc b.text) (ocaml_string expected) (hexc found)
  | EFunc b -> Printf.sprintf "ff:%s" (hexc b.text)

let render_call (c : call) : Stdlib.String.t =
  match c with
  | CallF (f, v) -> Printf.sprintf "F(%s,%s)" (ocaml_string f) (render_value v)
  | CallA (f, l) -> Printf.sprintf "G(%s,[%s])" (ocaml_string f) (Stdlib.String.concat "," (List.map render_value l))

let render_perr (e : perr) : Stdlib.String.t =
  match e with
  | ESyntax (pos, r) ->
      Printf.sprintf "syn:%d:%s" (int_of_nat pos)
        (match r with RUnrecognized -> "unrecognized" | RTwoCurrent -> "twocurrent" | RValueGroup -> "valuegroup")
  | EArgument a -> Printf.sprintf "arg:%s" (hexc a)
  | EFuncNotFound t -> Printf.sprintf "fnf:%s" (hexc t)
  | ENotSupported (f, p) -> Printf.sprintf "nsp:%s:%s" (hexc f) (hexc p)

(* ---------- tree dump (same format as VerifDumpTree in the Go hooks) ---------- *)
let b01 b = if b then "1" else "0"
let render_basic (b : basic) =
  Printf.sprintf "%s|%s|%s%s" (hexc b.text) (hexc b.ctext) (b01 b.vgroup) (b01 b.accessor)
let render_idx (i : idx) = Printf.sprintf "%s%s" (string_of_z i.number) (if i.omitted then "o" else "")
let render_sub (s : subscript) =
  match s with
  | SubIndex n -> Printf.sprintf "i%s" (string_of_z n)
  | SubSlicePos (a, b, c) -> Printf.sprintf "p%s:%s:%s" (render_idx a) (render_idx b) (render_idx c)
  | SubSliceNeg (a, b, c) -> Printf.sprintf "m%s:%s:%s" (render_idx a) (render_idx b) (render_idx c)
  | SubWild -> "w"
let rec render_node (n : node) : Stdlib.String.t =
  match n with Node (k, b, nx) ->
    let ks = match k with
      | KRoot -> "root" | KCurrent -> "cur"
      | KSingle key -> "single(" ^ hexc key ^ ")"
      | KWild -> "wild"
      | KMulti (ids, aw, uq) ->
          "multi(" ^ b01 aw ^ ";" ^ Stdlib.String.concat ";" (List.map render_node (nodes_list ids)) ^
          (match uq with OSome u -> ";U" ^ render_node u | ONone -> "") ^ ")"
      | KRec (mr, lr) -> "rec(" ^ b01 mr ^ b01 lr ^ ")"
      | KUnion subs -> "union(" ^ Stdlib.String.concat "," (List.map render_sub subs) ^ ")"
      | KFilter q -> "filter(" ^ render_query q ^ ")"
      | KFFun _ -> "ffun"
      | KAgg (_, p) -> "agg(" ^ render_node p ^ ")"
    in
    "<" ^ ks ^ "|" ^ render_basic b ^ ">" ^ (match nx with OSome m -> render_node m | ONone -> "")
and nodes_list (ns : nodes) = match ns with NNil -> [] | NCons (n, r) -> n :: nodes_list r
and render_query (q : query) =
  match q with
  | QAnd (a, b) -> "and(" ^ render_query a ^ "," ^ render_query b ^ ")"
  | QOr (a, b) -> "or(" ^ render_query a ^ "," ^ render_query b ^ ")"
  | QNot a -> "not(" ^ render_query a ^ ")"
  | QCmp (l, r, c) -> "cmp(" ^ render_cmp c ^ "," ^ render_cparam l ^ "," ^ render_cparam r ^ ")"
  | QParam p -> render_pq p
and render_cparam (p : cparam) = match p with CP (pq, lit) -> render_pq pq ^ (if lit then "L" else "")
and render_pq (p : pquery) =
  match p with
  | PqLit v -> "lit(" ^ render_value v ^ ")"
  | PqCur n -> "pcur(" ^ render_node n ^ ")"
  | PqRoot n -> "proot(" ^ render_node n ^ ")"
and render_cmp (c : comparator) =
  match c with
  | CDirectEq VdNumeric -> "eqnum" | CDirectEq VdBool -> "eqbool" | CDirectEq VdString -> "eqstr"
  | CDirectEq VdNil -> "eqnil" | CDeepEq -> "deep" | CLt -> "lt" | CLe -> "le" | CGt -> "gt" | CGe -> "ge"
  | CRegex re -> "re(" ^ hexc re ^ ")"

(* ---------- one case ---------- *)
exception Oracle_miss of Stdlib.String.t

let run_case (x : sx) : Stdlib.String.t =
  match x with
  | L (A "case" :: A id :: fields) ->
      let field name = List.find_map (function L (A n :: r) when n = name -> Some r | _ -> None) fields in
      let getf name = match field name with Some r -> r | None -> [] in
      let path = List.map (function A c -> n_of_int (int_of_string c) | _ -> failwith "bad cp") (getf "path") in
      let names = function L l -> List.map (function A h -> coq_string (unhex h) | _ -> failwith "bad name") l | _ -> failwith "bad names" in
      let cfg = match getf "cfg" with
        | [f; a; A acc] -> { cfg_filters = names f; cfg_aggs = names a; cfg_accessor = (acc = "1") }
        | _ -> { cfg_filters = []; cfg_aggs = []; cfg_accessor = false } in
      let pf_tab = Hashtbl.create 16 in
      List.iter (function
        | L [A h; A "err"] -> Hashtbl.replace pf_tab (unhex h) None
        | L (A h :: r) -> Hashtbl.replace pf_tab (unhex h) (Some (num_of_sx r))
        | _ -> failwith "bad pf") (getf "pf");
      let rx_tab = Hashtbl.create 16 in
      List.iter (function L [A h; A b] -> Hashtbl.replace rx_tab (unhex h) (b = "1") | _ -> failwith "bad rx") (getf "rx");
      let rm_tab = Hashtbl.create 16 in
      List.iter (function L [A r; A s; A b] -> Hashtbl.replace rm_tab (unhex r, unhex s) (b = "1") | _ -> failwith "bad rm") (getf "rm");
      let parse_float (s : string) =
        let k = ocaml_string s in
        match Hashtbl.find_opt pf_tab k with Some v -> v | None -> raise (Oracle_miss ("pf:" ^ hex k)) in
      let regex_ok (s : string) =
        let k = ocaml_string s in
        match Hashtbl.find_opt rx_tab k with Some v -> v | None -> raise (Oracle_miss ("rx:" ^ hex k)) in
      let regex_match (r : string) (s : string) =
        let k = (ocaml_string r, ocaml_string s) in
        match Hashtbl.find_opt rm_tab k with Some v -> v | None -> raise (Oracle_miss ("rm:" ^ hex (fst k) ^ ":" ^ hex (snd k))) in
      let mode = match getf "mode" with [A m] -> m | _ -> "eval" in
      let b = Buffer.create 256 in
      Buffer.add_string b id;
      (try
        (* (pinned 1): parse with the grammar of the pinned tree instead of the regenerated one *)
        let parse_path = if getf "pinned" = [A "1"] then parse_path_pinned else parse_path in
        (match parse_path cfg parse_float regex_ok path with
         | ParseErr e -> Buffer.add_string b ("\tP=" ^ render_perr e)
         | ParseCrash s -> Buffer.add_string b ("\tP=crash:" ^ hexc s)
         | ParseOk t ->
             Buffer.add_string b "\tP=ok";
             (match getf "keyq" with
              | A q :: k ->
                  let cps = List.map (function A c -> n_of_int (int_of_string c) | _ -> failwith "bad cp") k in
                  let want = if q = "0" then dot_path cps else key_path (n_of_int (int_of_string q)) cps in
                  Buffer.add_string b (if want = path then "\tKP=1" else "\tKP=0")
              | _ -> ());
             (match getf "keyc" with
              | [] -> ()
              | steps ->
                  let cp l = List.map (function A c -> n_of_int (int_of_string c) | _ -> failwith "bad cp") l in
                  let plain = function
                    | A "0" :: k -> SDot (cp k)
                    | A "1" :: k -> SIdx (cp k)
                    | [A "2"] -> SWild true
                    | [A "3"] -> SWild false
                    | A "5" :: L a :: L b :: rest ->
                        SSlice (cp a, cp b, (match rest with [L c] -> Some (cp c) | _ -> None))
                    | A "6" :: subs ->
                        let sub = function
                          | L (A "i" :: k) -> UIdx (cp k)
                          | L [A "w"] -> UWild
                          | L (A "s" :: L a :: L b :: rest) -> USlice (cp a, cp b, (match rest with [L c] -> Some (cp c) | _ -> None))
                          | _ -> failwith "bad subscript" in
                        (match List.map sub subs with u :: us -> SUnion (u, us) | [] -> failwith "empty union")
                    | A q :: k -> SBr (n_of_int (int_of_string q), cp k)
                    | _ -> failwith "bad step" in
                  let rstep_of = function
                    | L (A "4" :: inner) -> RRec (plain inner)
                    | L l -> RPlain (plain l)
                    | _ -> failwith "bad step" in
                  let is_filter = function L (A "7" :: _) | L (A "8" :: _) | L (A "9" :: _) | L (A "10" :: _) | L (A "11" :: _) | L (A "12" :: _) | L (A "13" :: _) | L (A "14" :: _) | L (A "15" :: _) -> true | _ -> false in
                  let op_of = function "0" -> OEq | "1" -> ONe | "2" -> OLt | "3" -> OLe | "4" -> OGt | "5" -> OGe | _ -> failwith "bad operator" in
                  let bq_of = function
                    | L (A "e" :: inner) -> BE (List.map rstep_of inner)
                    | L (A "n" :: inner) -> BN (List.map rstep_of inner)
                    | L (A "c" :: L inner :: A o :: lit) -> BC (List.map rstep_of inner, op_of o, cp lit)
                    | L (A "re" :: j) -> BRE (List.map rstep_of j)
                    | L (A "rn" :: j) -> BRN (List.map rstep_of j)
                    | L [A "cr"; L inner; A o; L j] -> BCR (List.map rstep_of inner, op_of o, List.map rstep_of j)
                    | L [A "rl"; L inner; A o; L j] -> BRL (List.map rstep_of j, op_of o, List.map rstep_of inner)
                    | L [A "pq"; L inner; A ne; L j] -> BPQ (List.map rstep_of inner, ne = "1", List.map rstep_of j)
                    | L (A "x" :: L inner :: body) -> BX (List.map rstep_of inner, cp body)
                    | L (A "cl" :: L inner :: A o :: lit) -> BCL (cp lit, op_of o, List.map rstep_of inner)
                    | L [A k; L inner; A ne; L lv] when k = "l" || k = "ll" ->
                        let l = match lv with
                          | A "s" :: A q :: body -> LStr (n_of_int (int_of_string q), cp body)
                          | [A "b"; A b; A sp] -> LBool (b = "1", nat_of_int (int_of_string sp))
                          | [A "n"; A sp] -> LNull (nat_of_int (int_of_string sp))
                          | _ -> failwith "bad literal" in
                        if k = "l" then BL (List.map rstep_of inner, ne = "1", l) else BLL (l, ne = "1", List.map rstep_of inner)
                    | _ -> failwith "bad basic query" in
                  let rec qt_of = function
                    | L [A "b"; b] -> TB (bq_of b)
                    | L [A "p"; q] -> TP (qt_of q)
                    | L [A "a"; l; r] -> TA (qt_of l, qt_of r)
                    | L [A "o"; l; r] -> TO (qt_of l, qt_of r)
                    | _ -> failwith "bad query tree" in
                  let rec fstep_of = function
                    | L [A "15"; t] -> FT (qt_of t)
                    | L [A "11"; inner] -> FR (fstep_of inner)
                    | L (A "12" :: L inner :: A g0 :: A a :: A o :: A b :: A g1 :: lit) ->
                        FCS (List.map rstep_of inner, nat_of_int (int_of_string g0), nat_of_int (int_of_string a), op_of o,
                             nat_of_int (int_of_string b), nat_of_int (int_of_string g1), cp lit)
                    | L (A "13" :: A neg :: A g0 :: A gn :: A g1 :: inner) ->
                        FES (neg = "1", nat_of_int (int_of_string g0), nat_of_int (int_of_string gn), List.map rstep_of inner, nat_of_int (int_of_string g1))
                    | L (A "7" :: inner) -> FE (List.map rstep_of inner)
                    | L (A "9" :: inner) -> FN (List.map rstep_of inner)
                    | L (A "10" :: conjs) ->
                        FQ (List.map (function L bs -> List.map bq_of bs | _ -> failwith "bad conjunction") conjs)
                    | L (A "8" :: L inner :: A o :: lit) -> FC (List.map rstep_of inner, op_of o, cp lit)
                    | L (A "14" :: A g0 :: conjs) ->
                        (* a query in disjunctive form with blanks: every conjunction (gap elem...), every elem (gap e neg gn trail inner...) | (gap c (inner) a o b trail lit...) *)
                        let nat s = nat_of_int (int_of_string s) in
                        let elem_of = function
                          | L (A g :: A "e" :: A neg :: A gn :: A trail :: inner) -> (nat g, (SBE (neg = "1", nat gn, List.map rstep_of inner), nat trail))
                          | L (A g :: A "c" :: L inner :: A a :: A o :: A b :: A trail :: lit) -> (nat g, (SBC (List.map rstep_of inner, nat a, op_of o, nat b, cp lit), nat trail))
                          | _ -> failwith "bad spaced basic query" in
                        let conj_of = function
                          | L (A g :: e0 :: es) -> (nat g, ((snd (elem_of e0)), List.map elem_of es))
                          | _ -> failwith "bad spaced conjunction" in
                        (match List.map conj_of conjs with
                         | (_, c0) :: cs -> FQS (nat g0, (c0, cs))
                         | [] -> failwith "empty spaced query")
                    | x -> FS (rstep_of x) in
                  let fs = List.map fstep_of steps in
                  let ks = if List.exists is_filter steps then [] else List.map rstep_of steps in
                  let text = match getf "nodollar", getf "pad", ks with
                    | [A "1"], _, _ when getf "keyf" <> [] ->
                        (match fs with
                         | FS (RPlain s0) :: rest -> fchain_fun_path0 s0 rest (List.map (function L l -> cp l | _ -> failwith "bad function name") (getf "keyf"))
                         | _ -> failwith "a $-less path begins with a plain step")
                    | _, [A a; A b], _ when getf "keyf" <> [] ->
                        fpadded_fun_path (nat_of_int (int_of_string a)) (nat_of_int (int_of_string b)) fs
                          (List.map (function L l -> cp l | _ -> failwith "bad function name") (getf "keyf"))
                    | _ when List.exists is_filter steps && getf "keyf" <> [] ->
                        fchain_fun_path fs (List.map (function L l -> cp l | _ -> failwith "bad function name") (getf "keyf"))
                    | [A "1"], _, _ when List.exists is_filter steps ->
                        (match fs with FS (RPlain s0) :: rest -> fchain_path0 s0 rest | _ -> failwith "a $-less path begins with a plain step")
                    | _, [A a; A b], _ when List.exists is_filter steps -> fpadded_path (nat_of_int (int_of_string a)) (nat_of_int (int_of_string b)) fs
                    | _ when List.exists is_filter steps -> fchain_path fs
                    | _ when getf "keyf" <> [] ->
                        chain_fun_path ks (List.map (function L l -> cp l | _ -> failwith "bad function name") (getf "keyf"))
                    | [A "1"], _, RPlain s0 :: rest -> chain_path0 s0 rest
                    | _, [A a; A b], _ -> padded_path (nat_of_int (int_of_string a)) (nat_of_int (int_of_string b)) ks
                    | _ -> chain_path ks in
                  (* the premises of the theorems about such texts: every step well-formed (fstep_ok, and fstep_okp with the case's oracles),
                     every function name spellable *)
                  let keyf_names = List.map (function L l -> cp l | _ -> failwith "bad function name") (getf "keyf") in
                  let premises = List.for_all fstep_ok fs && List.for_all (fstep_okp parse_float regex_ok) fs && List.for_all fname_ok keyf_names in
                  Buffer.add_string b (if text <> path then "\tKP=0" else if premises then "\tKP=1" else "\tKP=P"));
             if not (wf_node t) then Buffer.add_string b "\tWF=0";
             if not (acc_clean t) then Buffer.add_string b "\tWF=0";
             if not (ctext_ok t) then Buffer.add_string b "\tWF=0";
             (if cfg.cfg_accessor then
                match parse_path { cfg with cfg_accessor = false } parse_float regex_ok path with
                | ParseOk t0 -> if erase t <> t0 then Buffer.add_string b "\tWF=0"
                | _ -> Buffer.add_string b "\tWF=0");
             if mode = "tree" then Buffer.add_string b ("\tT=" ^ render_node t);
             let st = ref st_init in
             List.iteri (fun i d ->
               let doc = doc_of_sx d in
               let (o, st') = eval_doc regex_match t doc (next_call_state !st) in
               st := st';
               let r = match o with
                 | OOk rs -> "ok:[" ^ Stdlib.String.concat "," (List.map render_res rs) ^ "]"
                 | OErr e -> render_rerr e
                 | OPanic s -> "panic:" ^ hexc s in
               Buffer.add_string b (Printf.sprintf "\tR%d=%s" i r);
               (let sr = spec_doc regex_match t doc in
                let srend = if sr = [] then "fail" else "ok:[" ^ Stdlib.String.concat "," (List.map render_res sr) ^ "]" in
                let mrend = match o with OOk _ -> r | OErr _ -> "fail" | OPanic _ -> r in
                if srend <> mrend then Buffer.add_string b (Printf.sprintf "\tS%d=%s" i srend));
               (match o with
                | OPanic _ -> ()
                | _ ->
                    let se = spec_err regex_match t doc in
                    let me = match o with OErr e -> Some e | _ -> None in
                    if se <> me then
                      Buffer.add_string b (Printf.sprintf "\tS%d=err:%s" i (match se with Some e -> render_rerr e | None -> "none")));
               (if filters_call_free t && (match o with OPanic _ -> false | _ -> true) then
                  let sc = spec_calls regex_match t doc in
                  if sc <> st'.calls then
                    Buffer.add_string b (Printf.sprintf "\tS%d=calls:%s" i (Stdlib.String.concat ";" (List.map render_call sc))));
               Buffer.add_string b (Printf.sprintf "\tC%d=%s" i (Stdlib.String.concat ";" (List.map render_call st'.calls)));
               (match o with
                | OOk rs when cfg.cfg_accessor ->
                    Buffer.add_string b (Printf.sprintf "\tL%d=%s" i (Stdlib.String.concat "," (List.map render_res_loc rs)))
                | _ -> ());
               if st'.wlog <> [] then Buffer.add_string b (Printf.sprintf "\tW%d=%d" i (List.length st'.wlog)))
               (getf "docs"))
      with Oracle_miss k -> Buffer.add_string b ("\tORACLE_MISS=" ^ k));
      Buffer.contents b
  | _ -> failwith "bad case"

let () =
  try
    while true do
      let line = input_line stdin in
      if Stdlib.String.length line > 0 then begin
        let out = try run_case (parse_sx line) with Failure m -> "?\tDRIVER_ERROR=" ^ m in
        print_string out; print_newline ()
      end
    done
  with End_of_file -> ()
