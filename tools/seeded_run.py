#!/usr/bin/env python3
"""seeded_run.py — run registered checks against every seeded change: apply it to /repo, run the check of the
property it breaks (and optionally all checks), undo it straight afterwards.  Writes seeded/<id>/detection.json.
usage: seeded_run.py [--all-props] [ids...]"""
import glob, json, os, subprocess, sys, time
ROOT = os.path.dirname(os.path.dirname(os.path.abspath(__file__)))
allp = '--all-props' in sys.argv
ids = [a for a in sys.argv[1:] if not a.startswith('--')] or sorted(os.path.basename(d) for d in glob.glob(os.path.join(ROOT, 'seeded', '*')) if os.path.isdir(d))
assert subprocess.run(['git', '-C', '/repo', 'status', '--porcelain'], capture_output=True, text=True).stdout.strip() == '', '/repo is not clean'
for sid in ids:
    d = os.path.join(ROOT, 'seeded', sid)
    meta = json.load(open(os.path.join(d, 'meta.json')))
    props = ['C%02d' % i for i in range(1, 21)] if allp else [meta['breaks_property']] + list(meta.get('also_check', []))
    out = {}
    try:
        subprocess.run(['git', '-C', '/repo', 'apply', os.path.join(d, 'patch.diff')], check=True)
        for pid in props:
            t = time.time()
            p = subprocess.run([sys.executable, os.path.join(ROOT, 'bin', 'check.py'), pid, '--tier', 'quick'], capture_output=True, text=True, cwd=ROOT)
            viol = [l for l in p.stdout.splitlines() if l.startswith('VIOLATION')]
            out[pid] = {'exit': p.returncode, 'violation_lines': viol[:3], 'wall_s': round(time.time() - t, 1)}
            if viol:
                rp = viol[0].split('replay=')[1].split()[0]
                try:
                    v = json.load(open(rp))
                    out[pid]['what'] = v.get('what', '')[:300]
                    out[pid]['kind'] = v.get('kind')
                except Exception:
                    pass
    finally:
        subprocess.run(['git', '-C', '/repo', 'checkout', '--', '.'], check=True)
        subprocess.run(['git', '-C', '/repo', 'clean', '-fdq'], check=True)
    json.dump({'seeded': sid, 'checks': out, 'detected_by': sorted(k for k, v in out.items() if v['exit'] != 0)},
              open(os.path.join(d, 'detection.json'), 'w'), indent=1)
    print(sid, 'detected by', sorted(k for k, v in out.items() if v['exit'] != 0))
# restore the evidence and build for the unchanged tree
subprocess.run([sys.executable, os.path.join(ROOT, 'bin', 'check.py'), '--build-only'], cwd=ROOT)
