#!/usr/bin/env python3
"""mkmanifest.py — writes MANIFEST.json from the table below (claimed properties) and lists
every other property of properties.jsonl under not_applicable with its reason."""
import json
import os
import sys

ROOT = os.path.dirname(os.path.dirname(os.path.abspath(__file__)))
sys.path.insert(0, ROOT)
from tools.claims import CLAIMS, NOT_CLAIMED  # noqa: E402

props = [json.loads(l) for l in open(os.path.join(ROOT, 'properties.jsonl'))]
checks = []
for p in props:
    pid = p['id']
    if pid not in CLAIMS:
        continue
    c = CLAIMS[pid]
    checks.append({
        'property_id': pid,
        'quick_cmd': 'python3 bin/check.py %s --tier quick' % pid,
        'thorough_cmd': 'python3 bin/check.py %s --tier thorough' % pid,
        'evidence_file': 'evidence/%s.json' % pid,
        'replay_cmd_template': 'python3 bin/check.py %s --replay {path}' % pid,
        'engine': 'coq-model+correspondence',
        'level_claimed': {'category': 'proof', 'text': c['text'], 'design_ref': c.get('design_ref', 'DESIGN.md §6 ' + pid)},
        'level_note': c['note'],
        'technique': c['technique'],
    })
na = [{'property_id': p['id'], 'reason': NOT_CLAIMED.get(p['id'], 'check not built yet')} for p in props if p['id'] not in CLAIMS]
m = {
    'version': 1,
    'setup_cmd': 'bash bin/setup.sh',
    'hooks': {
        'guard': 'verif',
        'enable': 'go build -tags verif (the runner in go/runner is built against /repo with this tag on every check)',
        'baseline_off_cmd': 'cd /repo && GOFLAGS=-mod=mod GOPROXY=off GOSUMDB=off GOTOOLCHAIN=local go test -json -vet=off -count=1 -timeout 25m ./...',
        'source_commits': ['2e211e5'],
        'add_only': True,
    },
    'engines': [{
        'name': 'coq-model+correspondence', 'path': 'bin/check.py',
        'serves_properties': sorted(CLAIMS),
        'kind_free_text': 'Coq 8.16.1 development in coq/ (model of the evaluator, parser actions, PEG interpreter; grammar '
                          'regenerated from /repo/jsonpath.peg by tools/peg2coq.py; property theorems in coq/Prop_Cxx.v) + '
                          'correspondence check: the model extracted to OCaml (ExtrOcamlBasic) and the library built from '
                          '/repo with -tags verif run on the same generated cases, compared on per-property projections',
    }],
    'checks': checks,
    'not_applicable': na,
    'notes': 'See DESIGN.md. known_findings.json lists fixed defects (fix: commits in /repo) and any known finding.',
}
json.dump(m, open(os.path.join(ROOT, 'MANIFEST.json'), 'w'), indent=1)
print('claimed: %s; not claimed: %s' % (sorted(CLAIMS), [x['property_id'] for x in na]))
