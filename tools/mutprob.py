#!/usr/bin/env python3
"""mutprob.py — developer tool: how often does the quick dynamic check of a seeded change's own property
detect it, over several seeds?  Works in a scratch worktree (never in /repo).
usage: mutprob.py <nseeds> [ids...]   (env MP_WT scratch worktree, MP_BUILD build dir)"""
import glob, json, os, subprocess, sys
ROOT = os.path.dirname(os.path.dirname(os.path.abspath(__file__)))
ns = int(sys.argv[1])
ids = sys.argv[2:] or sorted(os.path.basename(d) for d in glob.glob(os.path.join(ROOT, 'seeded', '*')) if os.path.isdir(d))
wt = os.environ.get('MP_WT', '/tmp/mp/wt')
bd = os.environ.get('MP_BUILD', '/tmp/mp/build')
env = dict(os.environ, GOFLAGS='-mod=mod', GOPROXY='off', GOSUMDB='off', GOTOOLCHAIN='local', VERIF_REPO=wt, VERIF_BUILD=bd)
def sh(cmd, cwd=None, timeout=1800):
    return subprocess.run(cmd, cwd=cwd, env=env, capture_output=True, text=True, timeout=timeout, shell=isinstance(cmd, str))
if not os.path.isdir(wt):
    os.makedirs(os.path.dirname(wt), exist_ok=True)
    p = sh(['git', '-C', '/repo', 'worktree', 'add', '--detach', wt, 'HEAD']); assert p.returncode == 0, p.stderr
seeds = [20260927] + [1000 + 77 * i for i in range(ns - 1)]
res = {}
for sid in ids:
    d = os.path.join(ROOT, 'seeded', sid)
    pid = json.load(open(os.path.join(d, 'meta.json')))['breaks_property']
    sh('git checkout -q -- . && git clean -fdq', cwd=wt)
    p = sh(['git', 'apply', os.path.join(d, 'patch.diff')], cwd=wt)
    if p.returncode != 0:
        print(sid, 'patch does not apply', flush=True); continue
    p = sh([sys.executable, os.path.join(ROOT, 'bin', 'check.py'), '--build-only'])
    procs = [(s, subprocess.Popen([sys.executable, os.path.join(ROOT, 'tools', 'dyn.py'), pid, 'quick', str(s)], env=env,
                                  stdout=subprocess.PIPE, stderr=subprocess.PIPE, text=True)) for s in seeds]
    hit = []
    for s, pr in procs:
        o, e = pr.communicate(timeout=1800)
        line = [l for l in o.splitlines() if l.startswith(pid + ':')]
        n = int(line[0].split(' violations')[0].split()[-1]) if line else -1
        hit.append(n != 0)
    res[sid] = sum(hit)
    print(sid, pid, '%d/%d' % (sum(hit), len(hit)), 'default-seed:%s' % hit[0], flush=True)
sh('git checkout -q -- . && git clean -fdq', cwd=wt)
json.dump(res, open(os.path.join(bd, 'mutprob.json'), 'w'), indent=1)
