#!/usr/bin/env python3
"""peg2coq.py — translate /repo/jsonpath.peg (pointlander/peg syntax) into coq/Grammar.v.

Run at the start of every check: the grammar part of the Coq model is regenerated from
the source, so every theorem about the grammar is re-checked against what the grammar
says now.  Also cross-checks each action's text against the `case ruleActionN:` body in
jsonpath.peg.go (the generated parser embeds the actions verbatim).

Usage: peg2coq.py <jsonpath.peg> <jsonpath.peg.go> <out Grammar.v> <out grammar.json>
Exit status 0 on success; 2 if the grammar cannot be translated (syntax the translator does
not know); the action cross-check result is written into grammar.json, not the exit status.
"""
import json
import re
import sys


class PegSyntaxError(Exception):
    pass


def read_action(src, i):
    """src[i] == '{' ; return (text, next index) honouring nested braces and Go literals."""
    assert src[i] == '{'
    depth = 0
    j = i
    n = len(src)
    while j < n:
        c = src[j]
        if c == '{':
            depth += 1
        elif c == '}':
            depth -= 1
            if depth == 0:
                return src[i + 1:j], j + 1
        elif c == '"':
            j += 1
            while j < n and src[j] != '"':
                if src[j] == '\\':
                    j += 1
                j += 1
        elif c == '`':
            j += 1
            while j < n and src[j] != '`':
                j += 1
        elif c == "'":
            # Go rune literal
            j += 1
            while j < n and src[j] != "'":
                if src[j] == '\\':
                    j += 1
                j += 1
        elif c == '/' and j + 1 < n and src[j + 1] == '/':
            while j < n and src[j] != '\n':
                j += 1
            continue
        j += 1
    raise PegSyntaxError('unterminated action at offset %d' % i)


def read_char(src, i):
    """Read one (possibly escaped) character of a literal or class; return (code point, next)."""
    c = src[i]
    if c != '\\':
        return ord(c), i + 1
    d = src[i + 1]
    simple = {'a': 7, 'b': 8, 'e': 27, 'f': 12, 'n': 10, 'r': 13, 't': 9, 'v': 11,
              "'": 39, '"': 34, '[': 91, ']': 93, '-': 45, '\\': 92}
    if d == '0' and i + 2 < len(src) and src[i + 2] in 'xX':
        m = re.compile(r'[0-9a-fA-F]+').match(src, i + 3)
        if not m:
            raise PegSyntaxError('bad hex escape at offset %d' % i)
        return int(m.group(0), 16), m.end()
    if d in '01234567':
        m = re.compile(r'[0-7]{1,3}').match(src, i + 1)
        return int(m.group(0), 8), m.end()
    if d in simple:
        return simple[d], i + 2
    raise PegSyntaxError('unknown escape \\%s at offset %d' % (d, i))


def tokenize(src):
    toks = []
    i, n = 0, len(src)
    ident = re.compile(r'[A-Za-z_][A-Za-z_0-9]*')
    while i < n:
        c = src[i]
        if c in ' \t\r\n':
            i += 1
        elif c == '#':
            while i < n and src[i] != '\n':
                i += 1
        elif src.startswith('<-', i):
            toks.append(('ARROW', None)); i += 2
        elif c == '<':
            toks.append(('COPEN', None)); i += 1
        elif c == '>':
            toks.append(('CCLOSE', None)); i += 1
        elif c in '/()*+?!&.':
            toks.append((c, None)); i += 1
        elif c == '{':
            text, i = read_action(src, i)
            toks.append(('ACTION', text))
        elif c == "'":
            i += 1
            chars = []
            while src[i] != "'":
                ch, i = read_char(src, i)
                chars.append(ch)
            i += 1
            toks.append(('LIT', chars))
        elif c == '"':
            raise PegSyntaxError('double-quoted (case-insensitive) literals are not supported by the translator')
        elif c == '[':
            i += 1
            neg = False
            if src[i] == '^':
                neg = True
                i += 1
            ranges = []
            while src[i] != ']':
                lo, i = read_char(src, i)
                if src[i] == '-' and src[i + 1] != ']':
                    hi, i = read_char(src, i + 1)
                else:
                    hi = lo
                ranges.append((lo, hi))
            i += 1
            toks.append(('CLASS', (neg, ranges)))
        else:
            m = ident.match(src, i)
            if not m:
                raise PegSyntaxError('unexpected character %r at offset %d' % (c, i))
            toks.append(('ID', m.group(0)))
            i = m.end()
    toks.append(('EOF', None))
    return toks


class Parser:
    def __init__(self, toks):
        self.toks = toks
        self.i = 0
        self.actions = []

    def peek(self, k=0):
        return self.toks[self.i + k]

    def next(self):
        t = self.toks[self.i]
        self.i += 1
        return t

    def parse_grammar(self):
        rules = []
        while self.peek()[0] != 'EOF':
            name = self.next()
            if name[0] != 'ID' or self.peek()[0] != 'ARROW':
                raise PegSyntaxError('expected rule definition, got %r' % (name,))
            self.next()
            rules.append((name[1], self.parse_alt()))
        return rules

    def parse_alt(self):
        items = [self.parse_seq()]
        while self.peek()[0] == '/':
            self.next()
            items.append(self.parse_seq())
        e = items[-1]
        for it in reversed(items[:-1]):
            e = ('alt', it, e)
        return e

    def at_rule_start(self):
        return self.peek()[0] == 'ID' and self.peek(1)[0] == 'ARROW'

    def parse_seq(self):
        items = []
        while True:
            t = self.peek()[0]
            if t in ('EOF', '/', ')', 'CCLOSE') or self.at_rule_start():
                break
            items.append(self.parse_prefix())
        if not items:
            return ('eps',)
        e = items[-1]
        for it in reversed(items[:-1]):
            e = ('seq', it, e)
        return e

    def parse_prefix(self):
        t = self.peek()[0]
        if t == '!':
            self.next()
            return ('not', self.parse_suffix())
        if t == '&':
            self.next()
            return ('and', self.parse_suffix())
        return self.parse_suffix()

    def parse_suffix(self):
        e = self.parse_primary()
        while self.peek()[0] in '*+?':
            op = self.next()[0]
            e = ({'*': 'star', '+': 'plus', '?': 'opt'}[op], e)
        return e

    def parse_primary(self):
        kind, val = self.next()
        if kind == 'ID':
            return ('ref', val)
        if kind == '(':
            e = self.parse_alt()
            if self.next()[0] != ')':
                raise PegSyntaxError('expected )')
            return e
        if kind == 'COPEN':
            e = self.parse_alt()
            if self.next()[0] != 'CCLOSE':
                raise PegSyntaxError('expected >')
            return ('cap', e)
        if kind == 'LIT':
            return ('lit', val)
        if kind == 'CLASS':
            return ('cls', val[0], val[1])
        if kind == '.':
            return ('any',)
        if kind == 'ACTION':
            self.actions.append(val)
            return ('act', len(self.actions) - 1)
        raise PegSyntaxError('unexpected token %r' % ((kind, val),))


def strip_header(src):
    """Drop `package …` and `type … Peg { … }`; return the rule part."""
    m = re.search(r'type\s+\w+\s+Peg\s*\{', src)
    if not m:
        raise PegSyntaxError('no `type … Peg {` header')
    _, end = read_action(src, m.end() - 1)
    return src[end:]


def norm_ws(s):
    return ' '.join(s.split())


def go_actions(peg_go):
    """Extract `case ruleActionN:` bodies from Execute() in the generated parser."""
    out = {}
    m = re.search(r'func \(p \*\w+\) Execute\(\) \{', peg_go)
    if not m:
        return out
    body = peg_go[m.end():]
    end = body.find('\nfunc ')
    body = body[:end]
    parts = re.split(r'\n\t\tcase ruleAction(\d+):\n', body)
    for k in range(1, len(parts), 2):
        n = int(parts[k])
        text = parts[k + 1]
        text = re.sub(r'\n\t\t\}\n\t\}\n\t_, _, _, _, _ = .*$', '', text, flags=re.S)
        out[n] = text
    return out


def coq_pexp(e, index):
    k = e[0]
    if k == 'any':
        return 'PAny'
    if k == 'eps':
        return 'PEps'
    if k == 'lit':
        return '(PLit [%s])' % '; '.join('%d' % c for c in e[1])
    if k == 'cls':
        return '(PCls %s [%s])' % ('true' if e[1] else 'false',
                                   '; '.join('(%d, %d)' % r for r in e[2]))
    if k in ('seq', 'alt'):
        return '(P%s %s %s)' % (k.capitalize(), coq_pexp(e[1], index), coq_pexp(e[2], index))
    if k in ('star', 'plus', 'opt', 'not', 'and', 'cap'):
        return '(P%s %s)' % (k.capitalize(), coq_pexp(e[1], index))
    if k == 'ref':
        if e[1] not in index:
            raise PegSyntaxError('undefined rule %s' % e[1])
        return '(PRef %d)' % index[e[1]]
    if k == 'act':
        return '(PAct %d)' % e[1]
    raise PegSyntaxError('bad node %r' % (e,))


def main():
    peg_path, peg_go_path, out_v, out_json = sys.argv[1:5]
    src = open(peg_path, encoding='utf-8').read()
    try:
        rules_src = strip_header(src)
        p = Parser(tokenize(rules_src))
        rules = p.parse_grammar()
        index = {}
        for n, (name, _) in enumerate(rules):
            if name in index:
                raise PegSyntaxError('duplicate rule %s' % name)
            index[name] = n
        bodies = [coq_pexp(e, index) for _, e in rules]
    except PegSyntaxError as ex:
        sys.stderr.write('peg2coq: %s\n' % ex)
        sys.exit(2)

    lines = []
    lines.append('(* GENERATED by tools/peg2coq.py from jsonpath.peg — do not edit. *)')
    lines.append('From JP Require Import Peg.')
    lines.append('Open Scope N_scope.')
    lines.append('Definition rule_count : nat := %d%%nat.' % len(rules))
    lines.append('Definition action_count : nat := %d%%nat.' % len(p.actions))
    for n, (name, _) in enumerate(rules):
        lines.append('Definition rule_%s : nat := %d%%nat.' % (name, n))
    lines.append('Definition jsonpath_grammar : grammar := [')
    for n, (name, _) in enumerate(rules):
        sep = ';' if n + 1 < len(rules) else ''
        lines.append('  (* %2d %s *) %s%s' % (n, name, bodies[n], sep))
    lines.append('].')
    text = '\n'.join(lines) + '\n'
    try:
        old = open(out_v).read()
    except OSError:
        old = None
    if old != text:
        open(out_v, 'w').write(text)

    try:
        goact = go_actions(open(peg_go_path, encoding='utf-8').read())
    except OSError:
        goact = {}
    mismatched = []
    for n, a in enumerate(p.actions):
        if n not in goact or norm_ws(goact[n]) != norm_ws(a):
            mismatched.append(n)
    extra = sorted(set(goact) - set(range(len(p.actions))))
    info = {
        'rules': [name for name, _ in rules],
        'actions': [norm_ws(a) for a in p.actions],
        'go_action_count': len(goact),
        'action_mismatch_with_peg_go': mismatched,
        'extra_go_actions': extra,
        'changed': old != text,
    }
    json.dump(info, open(out_json, 'w'), indent=1)


if __name__ == '__main__':
    main()
