#!/usr/bin/env python3
"""dyn.py — developer tool: run only the dynamic part of a property check and print what it found."""
import sys, os, time, json
ROOT = os.path.dirname(os.path.dirname(os.path.abspath(__file__)))
sys.path.insert(0, os.path.join(ROOT, 'gen'))
import core, props
core.load_kinds()
class B: pass
for pid in sys.argv[1].split(','):
    tier = sys.argv[2] if len(sys.argv) > 2 else 'quick'
    seed = int(sys.argv[3]) if len(sys.argv) > 3 else 20260927
    ctx = props.Context(pid, tier, seed, B(), ROOT, os.environ.get('VERIF_REPO', '/repo'))
    res = props.Result()
    t = time.time()
    props.REGISTRY[pid].run(ctx, res)
    print('%s: %d cases, %d nontrivial, %d violations, %.1fs' % (pid, res.evaluations, len(res.nontrivial), len(res.violations), time.time() - t))
    print('  dist', dict(res.dist.most_common(12)))
    seen = set()
    for v in res.violations:
        k = v['signature'].split('|')[0]
        if k in seen and len(seen) > 0 and sum(1 for s in seen) > 8: continue
        seen.add(v['signature'])
        if len(seen) <= 8:
            print('  VIOL', v['kind'], v['what'][:300]); print('     case', json.dumps(v.get('case', {}), default=str)[:500]); print('     exp', str(v.get('expected'))[:400]); print('     obs', str(v.get('observed'))[:400])
