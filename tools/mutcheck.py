#!/usr/bin/env python3
"""mutcheck.py — developer tool: validate a seeded change and run the dynamic checks against it.
usage: mutcheck.py <mutant dir with patch.diff, demo_test.go> <scratch worktree> [props,comma]"""
import json, os, subprocess, sys, shutil, time
ROOT = os.path.dirname(os.path.dirname(os.path.abspath(__file__)))
mdir, wt = sys.argv[1], sys.argv[2]
props = sys.argv[3].split(',') if len(sys.argv) > 3 else ['C%02d' % i for i in range(1, 21)]
env = dict(os.environ, GOFLAGS='-mod=mod', GOPROXY='off', GOSUMDB='off', GOTOOLCHAIN='local')
def sh(cmd, cwd=None, e=env, timeout=1200):
    return subprocess.run(cmd, cwd=cwd, env=e, capture_output=True, text=True, timeout=timeout, shell=isinstance(cmd, str))
def reset():
    sh('git checkout -q -- . && git clean -fdq', cwd=wt)
reset()
out = {'mutant': mdir}
meta = json.load(open(os.path.join(mdir, 'meta.json')))
race = '-race' in meta.get('demo_cmd', '')
demo = ['go', 'test', '-vet=off', '-count=1', '-run', 'TestSeededDemo', '.'] + (['-race'] if race else [])
# demo passes on the clean tree
shutil.copy(os.path.join(mdir, 'demo_test.go'), os.path.join(wt, 'zz_seeded_demo_test.go'))
p = sh(demo, cwd=wt); out['demo_clean_passes'] = p.returncode == 0
os.remove(os.path.join(wt, 'zz_seeded_demo_test.go'))
p = sh(['git', 'apply', os.path.join(mdir, 'patch.diff')], cwd=wt); out['applies'] = p.returncode == 0
if not out['applies']:
    print(json.dumps(out)); sys.exit(1)
p = sh(['go', 'test', '-vet=off', '-count=1', './...'], cwd=wt); out['suite_passes'] = p.returncode == 0
p = sh(['go', 'build', '-tags', 'verif', './...'], cwd=wt); out['builds_with_tag'] = p.returncode == 0
shutil.copy(os.path.join(mdir, 'demo_test.go'), os.path.join(wt, 'zz_seeded_demo_test.go'))
p = sh(demo, cwd=wt); out['demo_fails_with_change'] = p.returncode != 0
os.remove(os.path.join(wt, 'zz_seeded_demo_test.go'))
e2 = dict(env, VERIF_REPO=wt, VERIF_BUILD=os.environ.get('MUTBUILD', '/tmp/mutbuild'))
p = sh([sys.executable, os.path.join(ROOT, 'bin', 'check.py'), '--build-only'], e=e2)
out['framework_build'] = p.returncode == 0
det = {}
for pid in props:
    t = time.time()
    p = sh([sys.executable, os.path.join(ROOT, 'tools', 'dyn.py'), pid], e=e2, timeout=900)
    line = [l for l in p.stdout.splitlines() if l.startswith(pid + ':')]
    viol = [l for l in p.stdout.splitlines() if l.strip().startswith('VIOL')]
    n = int(line[0].split(' violations')[0].split()[-1]) if line else -1
    det[pid] = {'violations': n, 'first': viol[0].strip()[:200] if viol else (p.stderr[-300:] if n < 0 else '')}
out['detected_by'] = [k for k, v in det.items() if v['violations'] != 0]
out['detail'] = {k: v for k, v in det.items() if v['violations'] != 0}
reset()
print(json.dumps(out, indent=1))
