"""claims.py — what MANIFEST.json says about each claimed property (kept next to the generator)."""
NOTE_COMMON = ('Trusted: Coq 8.16.1 kernel (vm_compute, no native_compute); no axioms (Print Assumptions: closed); '
               'the hand-written model is tied to /repo only by the correspondence check (generator-bounded); '
               'extraction with ExtrOcamlBasic only; the Go runner, OCaml driver and Python harness.')
CLAIMS = {
    'C11': {
        'text': 'Theorems C11_slice_python / C11_index_python / C11_total_in_range (coq/Prop_C11.v): the model of the three '
                'subscript files, with explicit 64-bit wrap-around and the result-buffer bound as a panic outcome, selects '
                'exactly Python\'s slice for every int64 start/end/step (each possibly omitted) and every length < 2^62, never '
                'panics and stays in range. The model is tied to /repo by running it and the library on the small scope '
                '(exhaustive in the thorough tier) and on the int64 boundary magnitudes, also against Python\'s own slicing.',
        'note': NOTE_COMMON + ' Go int is assumed to be 64 bit; array lengths below 2^62.',
        'technique': 'Coq proof (induction on loop fuel, lia/nia) over a hand model + differential correspondence check',
    },
}
NOT_CLAIMED = {}
