"""claims.py — what MANIFEST.json says about each claimed property (kept next to the generator)."""
NOTE_COMMON = ('Trusted: Coq 8.16.1 kernel (vm_compute used, no native_compute); no axioms (Print Assumptions: closed under '
               'the global context); the hand-written model (coq/Eval.v, Actions.v, Text.v, Slice.v) is tied to /repo only by '
               'the correspondence check (generator-bounded differential testing of the OCaml-extracted model against the '
               'library built from /repo with -tags verif); coq/Grammar.v is regenerated from /repo/jsonpath.peg by '
               'tools/peg2coq.py on every run; extraction with ExtrOcamlBasic only; the Go runner, OCaml driver and Python harness.')
EVAL_HYP = (' Theorem hypotheses: the tree is well-formed (wf_node: proved for every tree the parser model returns, '
            'C02_parsed_trees_well_formed; the driver also evaluates it on every parsed tree), arrays of the document and of user-function results are shorter than 2^62, '
            'user functions are pure total functions with an error result.')
T_EVAL = 'Coq proof (mutual induction over the syntax tree of the evaluator model) + differential correspondence check'
CLAIMS = {
    'C01': {
        'text': 'C01_refines_spec / C01_every_step / C01_filter_semantics (coq/Prop_C01.v, Refine1-2.v): for the FULL language the '
                'evaluator model returns exactly what the independent step-by-step specification coq/Spec.v selects — values, '
                'multiplicity, order, accessor wrapping — and fails exactly when the specification selects nothing; unbounded path '
                'depth, filter nesting and document size. C01_end_to_end: from the path TEXT — every tree Parse returns is well formed '
                '(C02_parsed_trees_well_formed), so no hypothesis on the tree remains. C01_chain_retrieval: for EVERY path made of name steps (three spellings), index steps, wildcard steps, slice steps and union steps, each possibly after `..`, the text is '
                'accepted and the retrieval returns exactly the values reached by walking the DOCUMENT step by step (nav_all, defined '
                'without any syntax tree: one value for a name or index, all members in ascending key order / all elements in index order '
                'for a wildcard, `..step` = the step applied to every container below in pre-order), in order, with locations in accessor mode, failing exactly when nothing is reached — by induction over the '
                'step list through the PEG derivation, the token replay, setNodeChain, the value-group bookkeeping and setConnectedText. '
                'C01_filter_retrieval (FiltParse.v, FiltChain.v, FiltAddr.v, FiltChainAddr.v, Frame.v): the same when steps may be existence filters '
                '`[?(@ inner)]` over a path of inner steps: a filter step keeps the elements of an array (index order) / members of an object '
                '(ascending key order) from which the inner steps reach something (PEG derivation through qualifier/filter/query/basicQuery with '
                'the failing comparison alternatives, saveParams/loadParams by a frame lemma over all 46 actions, the existence verdicts of the '
                'specification); the harness sends such texts (driver confirms Coq fchain_path) with the expected values from walking the document. '
                'Comparison filters `[?(@ inner OP number)]` (CmpParse.v, CmpAddr.v; all six operators, inner single-valued, any number spelling the '
                'grammar accepts that strconv.ParseFloat — a parameter of the model — parses) are steps of the same theorem: kept are the members whose '
                'value at inner is a number, float64 or json.Number alike, in that relation to the literal (for != the complement); negated existence '
                'filters `[?(!@ inner)]` (NegFilt.v) keep the members from which inner reaches nothing; filters over a query in disjunctive form '
                '`[?(b&&b||b&&b...)]` (QueryParse.v, QueryAddr.v, LitParse.v; every b an existence test, its negation, a number comparison or == / != against a plain string, boolean or null literal; no blanks) keep the members for which some conjunction '
                'has all its basic queries true; a basic query may also look at the document (RootOp.v): `$ steps`, `!$ steps` and `@ inner OP $ steps` (orderings; == and != by deep equality, with the both-absent rule when the `$` path reaches nothing — the one verdict that depends on all the members offered together), true for every member / compared with what the `$` path reaches. '
                'A comparison, existence or negated existence step may be written with blanks after `?(`, around the operator, after `!` and before `)` (CmpSpace.v, FiltSpace.v; FCS, FES: `[?( @.a >= 2 )]`, `[?( ! @.a )]`). A query in disjunctive form made of existence tests, negations and comparisons with numbers may be written with blanks after `?(`, `!`, around operators, after every basic query and after every `&&` and `||` (QuerySpace.v; FQS: `[?( @.a>1 &&  @.b || ! @.c )]` selects as the unspaced query does). String literals may contain the grammar\'s escapes and stray backslashes (LitParse.v sbody_ok: the value is the unescaped text). A comparison with a literal may have the literal on the left (LitLeft.v; BCL: `2<=@.a` selects as `@.a>=2`; BLL: `\'x\'==@.a`, `null!=@.a`; BRL: `$.min<@.a`, `$.x==@.a`). Sub-queries may be parenthesised (QueryTree.v; FT: `[?((@.a||@.b)&&!@.c)]` — any tree of `&&`, `||` and parentheses over the basic queries, written without blanks). A filter may follow `..` (FR: applied to every container below and including the value, in pre-order). Regular-expression tests `@ inner=~/body/` (RegexOp.v; body without `/`, a backslash not before `/` or `\\`) keep the members whose value is a string the expression matches (regexp, a parameter of the model). Not a theorem for the other step kinds (negated comparisons, blanks in the other filter forms, multi-name selectors, scripts): which AST a given text denotes (parser model vs '
                'real parser by tree dumps and through the API). Correspondence: generated paths x documents; the extracted '
                'specification runs next to the model on every case (a model/spec difference is reported).',
        'note': NOTE_COMMON + EVAL_HYP + ' The specification states the library conventions explicitly (whole-match $ operands, both-absent rule of path == path).',
        'technique': 'Coq refinement proof (implementation model vs specification, mutual induction) + differential correspondence check'},
    'C07': {
        'text': 'C07_order_independent (coq/Prop_C07.v, SpecPerm.v): two documents that are the same JSON value built in different member '
                'orders (same keys, recursively the same members: same_doc; C07_same_document_same_canon: they have the same canonical '
                'form) give, for every function-free path, the same sequence of results — same length, same order, values equal up to '
                'canonical form — on the specification that the evaluator model refines exactly (C01_refines_spec); deep equality, the '
                'only operation that looks at whole objects, is insensitive to member order (deep_eq_canon). In the model an object is an '
                'association list in arbitrary order, reached only through sorted_keys and lookup: C07_keys_sorted (ascending byte-wise), '
                'C07_keys_order_independent, C07_lookup_order_independent, C07_preorder_array/object (container before descendants, index '
                'order, sorted key order); union and multi-name order is the written order by the specification. Hypotheses: distinct keys '
                'at every level (encoding/json), no user function in the path. Tie: equal maps built in 3 insertion orders (aliased '
                'sub-values included), each evaluated repeatedly and interleaved with other maps, must give one sequence, equal to the model. From the path TEXT: C07_wildcard_order_from_text — `$.*` / `$[*]` on an object returns its members in the order of sorted_keys (ascending, insertion-order independent).',
        'note': NOTE_COMMON + ' sort.Strings is assumed to sort byte-wise; Go map iteration order is not modelled (the model has no such notion).',
        'technique': 'Coq simulation proof on the specification (canonical form, mutual induction) + sort/permutation lemmas + '
                     'repeated-evaluation oracle + correspondence'},
    'C08': {
        'text': 'C08_compose (coq/Prop_C08.v): on the specification, for a well-formed prefix P and a continuation Q without `$` and '
                'without aggregates, values(P++Q) = concatenation over values v of P of values($Q on v); C08_compose_same_root for any '
                'Q; with C01_refines_spec this transports to the implementation model and gives "fails iff the concatenation is '
                'empty". Direct oracle needing no model: every split of generated paths, three kinds of retrievals on the real library. From the path TEXT: C08_concatenation_from_text (C08Text.v) — for paths of steps and existence/comparison filters written as Coq fchain_path, in plain mode, the values of `$`PQ are the concatenation in order of the values of `$`Q on every value `$`P reaches (failing branches contribute nothing) and `$`PQ fails exactly when that is empty; the harness splits such texts at a step boundary (driver confirms both texts) and compares the three kinds of retrievals.',
        'note': NOTE_COMMON + ' That the parser links P++Q as append_deep P Q is tied by tree dumps only.',
        'technique': 'Coq proof on the specification (composition + root-independence by mutual induction) + three-retrieval relational oracle'},
    'C02': {
        'text': 'C02_parse_total (coq/Prop_C02.v): in the model — the Coq PEG interpreter running the grammar regenerated from '
                '/repo/jsonpath.peg on this run, then the 46 actions replayed over the tokens — EVERY string yields a syntax tree or a '
                'documented error. Ingredients, each a theorem evaluated on the regenerated grammar: the PEG part never fails '
                '(C02_peg_never_fails); no action reaches a crash site — pop on an empty parameter list, failed type assertion, '
                'text[0:1] on an empty capture, no root at the end (C02_no_crash_site: a verified stack-effect checker, '
                'coq/StackCheck.v, types every rule against a summary; the node chain, the save/restore of the parameter list and '
                'the start rule are proved by hand in the same Hoare logic, coq/StackLogic.v, StackRules.v); the item types carry invariants, so '
                'the same check proves C02_parsed_trees_well_formed: every tree Parse returns satisfies wf_node, the hypothesis of the '
                'evaluator theorems; the fuel 200+40|input| '
                'is never exhausted and no repetition spins without consuming (C02_fuel_suffices: rank argument, coq/Fuel.v); the '
                'comparison builders do not recurse (C02_compare_builder_total; the pinned tree recursed for ever, D1). Not a '
                'theorem: that the generated Go parser and the Go actions behave like the interpreter and Actions.v — decided by the '
                'correspondence check: ~22,000 strings per quick run (grammar-derived, mutated, token soup, Unicode, invalid UTF-8, '
                'bounded-exhaustive reduced grammar) x 4 configurations in isolated workers with a time limit; crash, timeout, '
                '(nil,nil), undocumented error type or a different outcome class is a violation.',
        'note': NOTE_COMMON + ' Bounded time of the Go parser is a measurement (per-case wall-clock limit); the theorem bounds the '
                'interpreter\'s rule-call depth and repetition count linearly in the input length.',
        'technique': 'Coq proofs on the regenerated grammar (verified stack-effect checker + Hoare logic for token replay + rank-based '
                     'fuel bound) + isolated-worker differential testing'},
    'C17': {
        'text': 'Acceptance in the model is "derivable by the Coq PEG interpreter running the grammar regenerated from /repo/jsonpath.peg '
                'on this run and no action rejects". Proved: C17_expression_total (start rule total), C17_position_accounting (captures '
                'lie inside their match, any grammar), C17_syntax_error_inside_partial (reported offset is inside the path). Translation '
                'validation (not a theorem): the generated parser jsonpath.peg.go is compared with that interpreter on every generated '
                'string: accept/reject, error type, position, argument; tree dumps node by node for accepted paths; near must be the rest '
                'of the path from the reported character. From the path TEXT (ErrText.v): C17_garbage_after_path_from_text — a valid path '
                'of steps and existence filters followed by a symbol that can neither continue it nor start a function, then anything, is '
                'rejected with unrecognized input at exactly the offset of that symbol; the harness sends such texts (prefix confirmed as '
                'Coq fchain_path) and expects that offset and the rest as excerpt.',
        'note': NOTE_COMMON + ' The translator also compares each action text of jsonpath.peg with the case body in jsonpath.peg.go.',
        'technique': 'Coq proofs over the regenerated grammar + translation validation of the generated parser against the PEG interpreter'},
    'C19': {
        'text': 'C19_history_independent / C19_state_reset (coq/Api.v): in the transcription of jsonpath.go (persistent package-level '
                'parser state, config copied only when given, deferred zeroing on every exit) every call of every history returns '
                'what the same call returns on a fresh parser. Tie: histories of <= 10 Parse/Retrieve calls (failing at every kind of '
                'action, mixed configs, configs modified after Parse) vs the same call alone and vs the model; the parser action state '
                'is read through the verif hook after every call.',
        'note': NOTE_COMMON + ' Value capture of Go closures is observed dynamically only.',
        'technique': 'Coq proof over an API state machine + history replay with state inspection hook'},
    'C03': {
        'text': 'C03_eval_total / C03_invariant (coq/Prop_C03.v, EvalInv1-4.v): on the evaluator model every call on a well-formed tree '
                'returns a non-empty result list or a runtime error — no modelled Go panic site (index out of range, failed type '
                'assertion, interface comparison of uncomparable types, slice buffer overrun) is reachable and an empty success is '
                'impossible — for every document, unbounded depth and size. Correspondence: outcome classes of generated paths x '
                'documents (both decodings, scalar/empty roots, int64-limit slices) against the model, workers isolate crashes; a '
                'FunctionFailed error must be preceded by a failing user call. From the path TEXT: C03_nonempty_or_error_from_text — every path of steps and filters (KeyDefs.fchain_path) returns a non-empty result or an error, never an empty success or a panic.',
        'note': NOTE_COMMON + EVAL_HYP, 'technique': T_EVAL},
    'C04': {
        'text': 'C04_no_shared_write (coq/Prop_C04.v): a call writes neither package-level verdict list and leaves the ghost write '
                'log empty, success or failure, plain or accessor mode: all in-place blanking lands in lists the call owns. Documents '
                'are immutable values in the model; that the Go code hands the caller\'s array to no writer is tied by rendering the '
                'document before and after every call of filter-heavy generated paths (direct oracle, needs no model).',
        'note': NOTE_COMMON + EVAL_HYP, 'technique': T_EVAL + ' + document snapshot oracle'},
    'C05': {
        'text': 'C05_history_independent_partial / C05_state_restored (coq/Prop_C05.v): any history of calls of one parsed function '
                'returns call by call what a call from the initial state returns (the state after a call is the initial state again). '
                'Partial: identity/aliasing of returned Go slices with pooled buffers is not modelled; it is observed by the harness '
                '(results re-read after later calls and pool churn; each call compared with a fresh Retrieve and with the model). From the path TEXT: C05_history_independent_from_text — for every path of steps and filters the parsed function returns the same from any two admissible histories.',
        'note': NOTE_COMMON + EVAL_HYP, 'technique': T_EVAL + ' + history replay against fresh Retrieve'},
    'C06': {
        'text': 'PARTIAL. Proved: C06_eval_read_only_partial (a call writes no shared location of the model) and '
                'C06_read_only_threads_state/outputs (threads of atomic steps that never write the shared state commute under every '
                'schedule). Not modelled: goroutine scheduling, sync.Mutex, sync.Pool, the Go memory model, that Go evaluation is such '
                'a step sequence. Those are exercised dynamically: scenarios of 2..16 goroutines sharing parsed functions and documents '
                'and calling Parse concurrently, built with -race (halt_on_error), results compared with sequential ones.',
        'note': NOTE_COMMON + EVAL_HYP + ' The race detector only sees interleavings that occur.',
        'technique': 'Coq proof of the modelled logic + race-detector scenario testing (labelled testing)'},
    'C09': {
        'text': 'C09_and / C09_or / C09_not (coq/Prop_C09.v): on the model of syntax_query_logical_*.go the verdict list of A&&B, A||B, '
                '!A denotes intersection, union, complement of the operands\' selections for EVERY member count (the length-1 '
                'whole-match ambiguity included), well-formedness of lists is preserved (C09_wf_*); mirrored operators build the same '
                'query when operand ranks differ (C09_mirror_ord, C09_mirror_eq) and, when the ranks are equal (two `$` paths, two literals), two '
                'queries that select the same members (C09_mirror_equal_rank_ord for the four ordering pairs, C09_mirror_equal_rank_eq_paths '
                'through C09_deep_equality_symmetric on documents with distinct keys, C09_mirror_equal_rank_eq_literals); <= / >= are < / > or == '
                'on validated numbers. Correspondence + direct '
                'oracle: families of related filters on containers of distinct members must satisfy the set identities on the real library. From the path TEXT: C09_comparison_filter_from_text (CmpParse.v, CmpAddr.v) — `$[?(@ inner OP number)]` for the six operators keeps exactly the members whose number at inner (float64 or json.Number) stands in the relation, != being the complement of ==; the harness sends such texts (driver confirms Coq fchain_path) over float64 / json.Number / mistyped / missing members with the expected selection computed from the document. From the path TEXT (BoolText.v with C01_filter_retrieval): a filter step selects a subsequence of the members (index order / ascending key order), so C09_or_is_union_from_text, C09_and_is_intersection_from_text (in member order: filtering twice), C09_not_is_complement_from_text and C09_negated_basic_queries_from_text hold of the selections of the filters as written.',
        'note': NOTE_COMMON + ' The theorems assume good states and well-formed operand lists, which C03_invariant establishes for '
                'well-formed trees. The equal-rank == duality between paths assumes the two values are decoded JSON (distinct keys, no foreign Go value).',
        'technique': 'Coq proof (list-level algebra bridged to the compute function) + relational oracle + correspondence'},
    'C10': {
        'text': 'C10_decode_invariant / C10_path_decode_invariant (coq/Prop_C10.v, SpecDecode.v), on the specification the model refines '
                'exactly: converting every float64 of a document to json.Number (spelling determines value: Go\'s shortest formatting, the '
                'property\'s own restriction) selects the same members with EVERY function-free filter (existence, six operators, regex, '
                'literal/@/$ operands, && || !) and the same cursors with every function-free path; element-level theorems: only '
                'operands of the literal\'s JSON type survive validation, json.Number is compared by its float64 value, ordering '
                'comparators never reach their unchecked assertions. Direct oracle: both decodings of every generated document on the '
                'real library must select the same members; type of every selected operand. From the path TEXT: with C01_filter_retrieval, C10_number_verdict_decode_invariant, C10_typed_literal_never_matches_a_number and C10_string_literal_matches_only_that_string characterise the verdict of a literal comparison written in a filter (LitParse.v, QueryAddr.v, CmpAddr.v); the harness sends such texts (driver confirms Coq fchain_path) over members of every JSON type in both decodings with the selection computed from the document.',
        'note': NOTE_COMMON + ' Scope of the decoding theorem: no user functions in the path; path == path comparisons have no literal operand.',
        'technique': 'Coq simulation proof on the specification (mutual induction) + two-decoding differential oracle + correspondence'},
    'C11': {
        'text': 'Theorems C11_slice_python / C11_index_python / C11_total_in_range (coq/Prop_C11.v): the model of the three '
                'subscript files, with explicit 64-bit wrap-around and the result-buffer bound as a panic outcome, selects '
                'exactly Python\'s slice for every int64 start/end/step (each possibly omitted) and every length < 2^62, never '
                'panics and stays in range. The model is tied to /repo by running it and the library on the small scope '
                '(exhaustive in the thorough tier) and on the int64 boundary magnitudes, also against Python\'s own slicing. FROM THE PATH TEXT: C11_slice_from_text — for every slice text [a:b] / [a:b:c] (bounds omitted or optionally signed numbers fitting int64) the path is accepted through the regenerated slice/anyIndex/sepSlice rules and actions 21/20/16/19 and returns exactly the elements of py_slice (C11_slice_nav), failing exactly when it selects nothing; C11_union_from_text / C11_union_nav — unions [s1,s2,...] of optionally signed indexes (py_index: from the back when negative, nothing when out of range), slices and wildcards, in written order with duplicates kept.',
        'note': NOTE_COMMON + ' Go int is assumed to be 64 bit; array lengths below 2^62.',
        'technique': 'Coq proof (induction on loop fuel, lia/nia) over a hand model + differential correspondence check'},
    'C12': {
        'text': 'C12_parity / C12_same_cursors (coq/Prop_C12.v), on the specification the model refines exactly: erasing every accessor '
                'flag of a tree whose function parameters and filter operands carry none (acc_clean: proved for EVERY tree the parser '
                'model returns, C12_parsed_trees_acc_clean / C12_parity_of_parsed_trees; the driver also evaluates it on every parsed '
                'tree; C12_modes_parse_alike: Parse in plain mode returns exactly the flag-erased tree of Parse in accessor mode or the same '
                'error — the 46 actions commute with flag erasure; C12_end_to_end combines them from the path text) selects the same cursors in the same order — one '
                'result per value, each yielding it, same failures; parameters and operands are identical subtrees in both modes. '
                'Direct oracle: every generated path evaluated in both modes with recording functions (values, order, errors, argument logs). From the path TEXT: C12_modes_agree_from_text — every path of steps and filters returns the same values in the same order with accessor mode off (plain) and on (wrapped with the locations the walk reaches), or fails in both.',
        'note': NOTE_COMMON, 'technique': 'Coq proof on the specification (mutual induction) + paired-mode oracle + correspondence'},
    'C14': {
        'text': 'C14_call_log (coq/Prop_C14.v, SpecCalls.v): for every well-formed tree whose filters contain no user function, the call '
                'log of a whole retrieval is exactly the log the specification prescribes — one filter-function call per cursor '
                'reaching the node, one aggregate call per evaluation whose parameter selects something, depth-first in result order; '
                'C14_filter_function_once_per_value (P.f(): once per value of P, in order, with that value); '
                'C14_filter_function_node / C14_aggregate_node (plain value in, result replaces it; aggregate gets ALL values or the '
                'elements of the single array; not called when nothing is selected; failure names the node); '
                'C14_functions_from_text / C14_calls_from_text (FunParse.v, FunAddr.v): from the path TEXT, `$` steps `.f()` `.g()` with any chain of '
                'name/index/wildcard/slice/union steps (each possibly after `..`) and registered filter functions parses, returns g(f(v)) for each '
                'value v the steps reach in the order they reach them (a value a function fails on is dropped; an error when none is left) and '
                'its call log is exactly f on each v then g on what f returned, left to right until one fails; C14_aggregate_from_text / '
                'C14_aggregate_calls_from_text (AggParse.v, AggAddr.v): with a registered aggregate first, it is called exactly once with all the '
                'values the steps reach (or the elements of the array a single-valued path reaches), never when they reach nothing, its result '
                'is the single result and the filter functions after it apply left to right; C14_functions_after_filters_from_text (FiltFun.v): '
                'the steps before the functions may be filters of every kind FiltChain covers (results g(f(v)) over the values the steps and '
                'filters reach; C14_calls_after_filters_from_text: the call log is exactly those calls, the filters calling nothing; C14_aggregate_after_filters_from_text (FiltAgg.v): an aggregate after steps and filters receives all the values they reach, once; C14_aggregate_calls_after_filters_from_text: its call log; C14_functions_without_dollar_from_text / C14_aggregate_without_dollar_from_text (NoDollarFun.v, NoDollarAgg.v), with C14_calls_without_dollar_from_text / C14_aggregate_calls_without_dollar_from_text: the same results and call logs when the leading $ is omitted); the harness sends such texts '
                '(the driver confirms they are Coq chain_fun_path) with calls and results expected from walking the document. The driver also '
                'compares the model call log with the specification call log on every generated case. Functions inside filter operands '
                '(short-circuited by design) are outside the theorem and compared with the model call by call; direct protocol oracle '
                'on the real library.',
        'note': NOTE_COMMON + EVAL_HYP, 'technique': 'Coq refinement proof of the call log (mutual induction) + recording-function oracle + correspondence'},
    'C15': {
        'text': 'C15_error_is_specified (coq/Prop_C15.v, ErrRefine.v): on the evaluator model a call fails with exactly the error of the '
                'stateless specification ErrSpec.serr and succeeds exactly when it reports none, which is exactly when the path selects '
                'nothing (C15_error_iff_nothing_selected); C15_error_is_real_and_deepest (ErrReal.v, ErrSelect.v): the reported error is '
                'one of the failure events of this path on this document (for every node the preceding steps reach, the failure of the '
                'step applied there), carries the text of a step of the path as written, no failure event lies further along the path, '
                'and a type mismatch is reported only if every failure at that depth is one; plus what each step kind reports for itself '
                '(kind, own text, Go type found) and the ranking rule over any candidate list (C15_select_spec). Unbounded paths, '
                'documents, branch counts. Hypotheses wf_node and ctext_ok (every node carries a non-empty remaining-path text: length 0 '
                'doubles as "nothing recorded" in addDeepestError) are proved for every tree the parser model returns (C15_end_to_end has no '
                'hypothesis on the tree) and also evaluated on every parsed tree. Tie: error type, path '
                'text, expected, found compared exactly with the model on every failing generated pair; the extracted specification '
                'runs next to the model; independent first-failing-step oracle for single-valued paths. From the path TEXT: C15_first_failing_step_from_text (ErrNames.v) — a path of name steps (any spelling) fails at the first step that cannot be taken, member-not-exist on an object without the member, type-unmatched (expected object, found Go type) on a non-object, carrying the text of that step as written; C15_first_failing_step_with_indexes_from_text (ErrSteps.v) — the same for paths of name and index steps ([n] written with digits): an index outside the array is member-not-exist naming [n], an index under a non-array is type-unmatched expecting array; C15_failing_function_from_text (ErrFuns.v) — such a path followed by filter functions fails at the first step that cannot be taken, else at the first function that fails on what the functions before it returned (function-failed naming the call as written), else succeeds; C15_failing_aggregate_from_text (ErrAggs.v) — the same with an aggregate first (it receives the elements of the array reached, or the single value); the harness sends such texts (driver confirms Coq chain_path) broken at a chosen depth with the expectation computed from the document.',
        'note': NOTE_COMMON + EVAL_HYP,
        'technique': 'Coq refinement proof (model error = stateless error specification, mutual induction) + selection theorems + exact '
                     'error comparison + first-failing-step oracle'},
    'C16': {
        'text': 'Proved for EVERY key (any list of code points): FROM THE PATH TEXT, the grammar regenerated from jsonpath.peg accepts '
                'the bracket spellings $["k"] and $[\'k\'] (KeyDefs.key_path: quote and backslash escaped, controls as \\u00XX, all '
                'other code points verbatim), the quoted-name rule consumes exactly the escaped text and Parse returns the single step '
                'naming exactly k (C16_bracket_spelling_parses, by a big-step derivation in the PEG semantics: PegMono/PegEv/KeyParse); a '
                'retrieval with that path on an object holding the member returns exactly that member and on an object without it '
                'selects nothing (C16_member_addressable, C16_absent_key_selects_nothing, through the refinement theorem); the three '
                'unescape routines invert the three escapings (C16_double_quoted_roundtrip, C16_single_quoted_roundtrip through the '
                'byte state machine, C16_dot_roundtrip) and the escapings are injective (distinct keys never confused). the dot spelling $.k likewise for every non-empty key without control '
                'characters (C16_dot_spelling_parses, C16_member_addressable_dot) and the three spellings agree on every object '
                '(C16_spellings_agree). EVERY NODE: a path of any number of name steps (any mixture of the three spellings) and index steps [digits] '
                '(KeyDefs.chain_path) is accepted, builds the chain of single steps and returns exactly the value reached through the nested '
                'objects and arrays, with that location in accessor mode, or nothing when a name or index is missing on the way; the decimal '
                'spelling of n < 2^63 is an index step meaning n (C16_decimal_index_step) (C16_chain_parses, C16_member_addressable_at_depth, C16_absent_at_depth: induction '
                'over the steps in the PEG derivation, the token replay, setNodeChain/setConnectedText and the specification). PARTIAL for: '
                'names after `..`, in filter operands and in multi-name selectors, and the short escapes \\b \\t \\n \\f \\r. Tie: keys '
                'from all Unicode planes, controls, escape-like sequences, near-miss siblings, 3 spellings x 5 path positions vs direct '
                'map lookup and vs the model; the texts of key_path, dot_path and chain_path (nested objects, mixed spellings) themselves are sent too (the driver confirms they are the extracted definitions). C16_member_test_in_filter_operand (KeyFilt.v): the existence test over one name in any spelling, plain or negated, selects exactly the members that are objects holding that name (or the others), in member order; such texts are sent too.',
        'note': NOTE_COMMON + ' encoding/json string unquoting is modelled concretely in coq/Text.v.',
        'technique': 'Coq proof from the path text (PEG big-step derivation + token replay + refinement) + codec round-trip proofs '
                     '(induction, explicit fuel) + direct lookup oracle + correspondence'},
    'C18': {
        'text': 'PARTIAL. Proved: what a path selects does not depend on the text/connected-text fields of its nodes '
                '(C18_values_text_independent, on the specification), so spellings parsed to trees equal up to texts select the same '
                'values; lexical facts: `space` eats exactly the blanks and emits nothing, + sign and leading zeros do not change an '
                'integer, quote styles name the same key, `.*`/`[*]` run the same action. FROM THE PATH TEXT: for every non-empty name without control characters $["name"], $[\'name\'] and $.name are accepted and return the same results on every object or all fail (C18_name_spellings_agree). C18_dollar_optional: for every path of name / index / wildcard / slice steps (each after the first possibly after `..`) the text without its leading $ is accepted and returns the same results as the text with it, or both fail; C18_outer_spaces_same_tree: with any number of blanks before and after, Parse returns the very same tree. C18_dollar_optional_before_filters: the same when filters of every kind FiltChain covers follow the first step (NoDollarFilt.v). C18_outer_spaces_same_tree_with_filters: blanks around a path with filters give the very same tree. C18_dollar_optional_before_functions / C18_dollar_optional_before_aggregates (NoDollarFun.v, NoDollarAgg.v): the same when filter functions, or an aggregate and filter functions, follow the steps and filters. C18_outer_spaces_same_tree_with_functions (PadFun.v): blanks around a path with function calls of both kinds give the very same tree. C18_equivalent_spellings_from_text (SpellText.v): two paths of steps and filters whose steps MEAN the same (navigate alike from every value) are both accepted and return the same results or both fail, with C18_spellings_that_mean_the_same: .name / [\'name\'] / ["name"], .* / [*], indexes and slice bounds with leading zeros or a plus sign (the number written), respelled filter operands, number literals denoting the same float, blanks inside comparison and existence filters, the same after `..`. Not proved: respellings inside the step kinds outside the text theorems (escapes, blanks inside brackets, multi-name selectors) '
                'and the same-error-step half. Tie: every generated AST in 2..6 spellings must agree on the real '
                'library and with the model.',
        'note': NOTE_COMMON, 'technique': 'Coq proof on the specification + lexical lemmas on the regenerated grammar + spelling-group oracle'},
    'C13': {
        'text': 'C13_locations (every accessor with a location carries a location of the document holding exactly the returned value, for '
                'all paths and documents), C13_get_after_set and C13_set_frame (lens laws: Set writes that location and nothing '
                'disjoint from it). Tie: for every accessor of generated paths a sentinel is Set on a fresh copy, the document is '
                'searched/diffed and the location compared with the model\'s; Set=nil exactly for root and function outputs. From the path TEXT '
                '(AccText.v): C13_accessor_from_text — the path spelling a location (names in any spelling, decimal indexes) returns exactly one '
                'settable accessor with that location, holding the returned value, written value read back, disjoint locations untouched; '
                'C13_function_outputs_from_text — results of steps followed by filter functions carry no location. The harness sends '
                'location-spelling texts (driver confirms Coq chain_path) and expects exactly that location from the sentinel probe. From the path TEXT for every path of steps and filters: C13_all_results_are_locations_from_text — in accessor mode every result is a settable accessor at the location the walk reaches, holding the returned value, with the lens laws there.',
        'note': NOTE_COMMON + EVAL_HYP + ' Documents are trees (no shared sub-map). Members of a function output are outside the property.',
        'technique': T_EVAL + ' + lens laws + set-and-diff oracle'},
    'C20': {
        'text': 'C20_no_panic (no panic site reachable for ANY document, foreign Go values included: interface equality is partial in the '
                'model), C20_navigation_type_error (steps on a foreign value fail with its Go type), C20_literal_comparisons_no_match. '
                'Correspondence: documents with leaves of 26 non-JSON Go types (uncomparable ones included) against the model. From the path TEXT: C20_foreign_root_from_text — every path of steps and filters fails on a document that is a foreign value (it is a leaf), whatever its type, identity or self-equality; C20_foreign_value_at_depth_from_text (ErrSteps.v) — a path of name and index steps that reaches a foreign value and takes one more step there fails with type-unmatched naming that step (expected object, or array for an index; found the value\'s Go type), never a panic; the harness plants foreign values of every kind at generated locations (texts confirmed as Coq chain_path).',
        'note': NOTE_COMMON + EVAL_HYP + ' reflect.DeepEqual identity shortcut (same map object holding a func/NaN) is not modelled; such '
                'cases are excluded from path-vs-path comparisons by the generator (DESIGN Appendix B).',
        'technique': T_EVAL},
}
NOT_CLAIMED = {}
