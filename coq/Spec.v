(* Spec.v — the specification of JSONPath retrieval (Layer A): what a path selects, step by step,
   as a compositional, stateless function over the syntax tree.  No shared container, no error
   bookkeeping, no verdict lists, no state: a step maps one cursor to the list of cursors it
   selects and results are concatenated in order; a filter keeps the members for which a per-member
   Boolean holds.  The conventions the README and the test-suite fix are stated explicitly
   (whole-match `$` operands, "both operands absent" for path == path, type-strict validators). *)
From JP Require Import Eval WF.
Open Scope string_scope.
Open Scope list_scope.

(* a result of the specification: the node that emits it, whether it is a settable location, the cursor *)
Definition sres := (basic * bool * cursor)%type.
Definition wrap (x : sres) : res :=
  let '(b, settable, cur) := x in
  if accessor b then RAcc settable (if settable then fst cur else None) (snd cur) else RVal (snd cur).
Definition sres_value (x : sres) : value := snd (snd x).

(* ---------- per-member comparison semantics ---------- *)
Definition validate_to (c : comparator) (x : entry) : entry :=
  match validator_of c with
  | Some vd => match validate_entry vd x with Some y => y | None => x end
  | None => x
  end.
Definition is_valid (c : comparator) (x : entry) : bool :=
  match validator_of c with
  | Some vd => valid_entry vd x
  | None => negb (isE x)
  end.

Section Spec.
  Variable ffun : string -> value -> option value.
  Variable afun : string -> list value -> option value.
  Variable regex_match : string -> string -> bool.

  (* does the comparator keep the (validated) left value against the (validated) right value? *)
  Definition cmp_keeps (c : comparator) (right x : entry) : bool :=
    match fst (cmp_entry regex_match c right x) with Some true => true | _ => false end.

  (* the verdict of `left c right` for each of n members.  lefts: one entry per member, or a single
     entry (a `$` operand or a literal: whole match).  right: a single entry. *)
  Definition cmp_holds (c : comparator) (n : nat) (lefts : list entry) (right : entry) : list bool :=
    let lv := map (validate_to c) lefts in
    let rv := validate_to c right in
    let lf := existsb (is_valid c) lefts in
    let rf := is_valid c right in
    if lf && rf then
      let kept := map (cmp_keeps c rv) lv in
      if Nat.eqb (List.length lefts) n then kept
      else repeat (hd false kept) n
    else if Bool.eqb lf rf then
      match c with CDeepEq => repeat true n | _ => repeat false n end
    else repeat false n.

  Fixpoint andb_lists (a b : list bool) : list bool :=
    match a, b with x :: a', y :: b' => (x && y) :: andb_lists a' b' | _, _ => [] end.
  Fixpoint orb_lists (a b : list bool) : list bool :=
    match a, b with x :: a', y :: b' => (x || y) :: orb_lists a' b' | _, _ => [] end.

  Fixpoint sp (n : node) (root : value) (cur : cursor) {struct n} : list sres :=
    match n with
    | Node k b next =>
        let fwd := fun (settable : bool) (cur' : cursor) =>
          match next with OSome nx => sp nx root cur' | ONone => [(b, settable, cur')] end in
        let key_step := fun (m : list (string * value)) (key : string) =>
          match lookup m key with
          | Some v => fwd true (ext_loc (fst cur) (PKey key), v)
          | None => []
          end in
        let idx_step := fun (iv : Z * value) => fwd true (ext_loc (fst cur) (PIdx (fst iv)), snd iv) in
        match k with
        | KRoot => fwd false (Some [], root)
        | KCurrent => fwd false cur
        | KSingle key => match snd cur with VObj m => key_step m key | _ => [] end
        | KWild =>
            match snd cur with
            | VObj m => flat_map (key_step m) (sorted_keys m)
            | VArr xs => flat_map idx_step (index_list xs 0)
            | _ => []
            end
        | KMulti ids allWild uq =>
            match snd cur, allWild with
            | VArr _, true => match uq with OSome u => sp u root cur | ONone => [] end
            | VObj m, _ => sp_ids ids root cur
            | _, _ => []
            end
        | KRec mapReq listReq =>
            match next with
            | ONone => []
            | OSome nx =>
                flat_map (fun cu => match snd cu with
                                    | VObj _ => if mapReq then sp nx root cu else []
                                    | VArr _ => if listReq then sp nx root cu else []
                                    | _ => []
                                    end) (containers (fst cur) (snd cur))
            end
        | KUnion subs =>
            match snd cur with
            | VArr xs =>
                flat_map (fun sub =>
                  match get_indexes sub (Z.of_nat (List.length xs)) with
                  | IOk idxs => flat_map (fun i => match nth_value xs i with Some v => idx_step (i, v) | None => [] end) idxs
                  | IPanic => []
                  end) subs
            | _ => []
            end
        | KFilter q =>
            match snd cur with
            | VObj m =>
                let keys := sorted_keys m in
                let vals := flat_map (fun k => match lookup m k with Some v => [v] | None => [] end) keys in
                flat_map (fun kb : string * bool => if snd kb then key_step m (fst kb) else []) (combine keys (holds q root vals))
            | VArr xs =>
                flat_map (fun ib : (Z * value) * bool => if snd ib then idx_step (fst ib) else []) (combine (index_list xs 0) (holds q root xs))
            | _ => []
            end
        | KFFun f => match ffun f (snd cur) with Some v => fwd false (None, v) | None => [] end
        | KAgg f param =>
            let vals := sp param root cur in
            match vals with
            | [] => []
            | _ :: _ =>
                let plain := map (fun x => res_value (wrap x)) vals in
                let args := if vgroup (node_basic param) then plain
                            else match plain with VArr xs :: _ => xs | _ => plain end in
                match afun f args with Some v => fwd false (None, v) | None => [] end
            end
        end
    end
  with sp_ids (ids : nodes) (root : value) (cur : cursor) {struct ids} : list sres :=
    match ids with
    | NNil => []
    | NCons id rest => sp id root cur ++ sp_ids rest root cur
    end
  (* holds q root vals: for each member (in order), does the filter query hold? *)
  with holds (q : query) (root : value) (vals : list value) {struct q} : list bool :=
    match q with
    | QAnd a b => andb_lists (holds a root vals) (holds b root vals)
    | QOr a b => orb_lists (holds a root vals) (holds b root vals)
    | QNot a => map negb (holds a root vals)
    | QCmp (CP lp _) (CP rp _) c =>
        cmp_holds c (List.length vals) (operand lp root vals) (hd None (operand rp root vals))
    | QParam p => let es := operand p root vals in
                  if Nat.eqb (List.length es) (List.length vals) then map (fun x => negb (isE x)) es
                  else repeat (negb (isE (hd None es))) (List.length vals)
    end
  (* the value(s) of an operand: one entry per member for an `@` path (None = absent), a single entry
     for a literal or a `$` path (None = absent; `true` when it selects several values) *)
  with operand (p : pquery) (root : value) (vals : list value) {struct p} : list entry :=
    match p with
    | PqLit v => [Some v]
    | PqCur n =>
        let es := map (fun v => match sp n root (None, v) with
                                | x :: _ => Some (res_value (wrap x))
                                | [] => None
                                end) vals in
        if existsb (fun x => negb (isE x)) es then es else [None]
    | PqRoot n =>
        match sp n root (Some [], root) with
        | [] => [None]
        | [x] => [Some (res_value (wrap x))]
        | _ => [Some (VBool true)]
        end
    end.

  (* what a retrieval returns, by the specification *)
  Definition spec_results (t : node) (doc : value) : list res := map wrap (sp t doc (Some [], doc)).
End Spec.
