(* SliceProofs.v — the slice/index model computes exactly Python's slice, for every 64-bit
   start/end/step (each possibly omitted) and every array length below 2^62 (C11). *)
From Coq Require Import ZArith List Lia Bool.
From JP Require Import Slice.
Import ListNotations.
Open Scope Z_scope.

Ltac unf := unfold in64, two63, two62, two64 in *.

Lemma wrap_id x : in64 x -> wrap x = x.
Proof. unfold wrap. unf. intros H. rewrite Z.mod_small; lia. Qed.

(* ---------- positive step ---------- *)
Lemma norm_pos_spec v len : in64 v -> 0 <= len < two62 ->
  norm_pos v len = (if v <? 0 then Z.max (v + len) 0 else Z.min v len).
Proof.
  unfold norm_pos. intros Hv Hl.
  destruct (v <? 0) eqn:E.
  - rewrite wrap_id by (unf; lia).
    destruct (v + len <? 0) eqn:E2; destruct (_ >? len) eqn:E3; lia.
  - destruct (v >? len) eqn:E3; lia.
Qed.

Lemma loop_pos_spec : forall fuel i e step len index acc,
  0 < step <= len \/ (0 < step /\ e <= i) -> 0 <= i -> e <= len -> len < two62 -> 0 <= index ->
  (i < e -> index + (e - i + step - 1) / step <= len) ->
  (Z.of_nat fuel > (if i <? e then (e - i + step - 1) / step else 0)) ->
  loop_pos fuel i e step len index acc =
  IOk (acc ++ (if e <=? i then [] else range_up (Z.to_nat ((e - i + step - 1) / step)) i step)).
Proof.
  induction fuel as [|f IH]; intros i e step len index acc Hs Hi He Hl Hidx Hbuf Hfuel.
  - destruct (i <? e) eqn:E; [|lia].
    assert (1 <= (e - i + step - 1) / step) by (apply Z.div_le_lower_bound; lia). lia.
  - cbn [loop_pos]. destruct (i <? e) eqn:E.
    + assert (Hlt: i < e) by lia. specialize (Hbuf Hlt).
      assert (Hstep: 0 < step <= len) by lia.
      assert (Hq: 1 <= (e - i + step - 1) / step).
      { apply Z.div_le_lower_bound; lia. }
      destruct (index <? len) eqn:E2; [|lia].
      rewrite wrap_id by (unf; lia).
      destruct (e <=? i) eqn:E3; [lia|].
      assert (Hdec: (e - i + step - 1) / step = 1 + (e - (i+step) + step - 1) / step).
      { replace (e - i + step - 1) with (1 * step + (e - (i + step) + step - 1)) by lia.
        rewrite Z.div_add_l by lia. reflexivity. }
      assert (Hq': 0 <= (e - (i + step) + step - 1) / step) by (apply Z.div_pos; lia).
      assert (P1: 0 < step <= len \/ 0 < step /\ e <= i + step) by lia.
      assert (P6: i + step < e -> index + 1 + (e - (i + step) + step - 1) / step <= len) by lia.
      assert (P7: Z.of_nat f > (if i + step <? e then (e - (i + step) + step - 1) / step else 0)).
      { destruct (i + step <? e) eqn:E5; lia. }
      rewrite (IH (i+step) e step len (index+1) (acc ++ [i]) P1 ltac:(lia) He Hl ltac:(lia) P6 P7).
      rewrite <- app_assoc. f_equal. cbn [app].
      rewrite Hdec.
      destruct (e <=? i + step) eqn:E4.
      * assert (Hz: (e - (i + step) + step - 1) / step = 0) by (apply Z.div_small; lia).
        rewrite Hz. reflexivity.
      * rewrite Z2Nat.inj_add by lia. reflexivity.
    + destruct (e <=? i) eqn:E3; [|lia]. rewrite app_nil_r. reflexivity.
Qed.

Lemma loop_pos_run s e step len :
  0 <= s <= len -> 0 <= e <= len -> len < two62 -> (0 < step <= len \/ (0 < step /\ e <= s)) ->
  loop_pos (Z.to_nat len + 1) s e step len 0 [] =
  IOk (if e <=? s then [] else range_up (Z.to_nat ((e - s + step - 1) / step)) s step).
Proof.
  intros Hs He Hl Hstep.
  assert (Hq: s < e -> (e - s + step - 1) / step <= e - s).
  { intros. apply Z.div_le_upper_bound; nia. }
  rewrite loop_pos_spec; try assumption; try lia.
  - reflexivity.
  - destruct (s <? e) eqn:E; [|lia]. specialize (Hq ltac:(lia)). lia.
Qed.

Lemma py_bound_pos_range v d len : 0 <= len -> 0 <= d <= len -> 0 <= py_bound_pos v d len <= len.
Proof. intros. destruct v as [v|]; cbn [py_bound_pos]; [|lia]. destruct (v <? 0) eqn:?; lia. Qed.

Lemma slice_pos_python st en sp len :
  0 <= len < two62 -> in64 (number st) -> in64 (number en) -> in64 (number sp) ->
  0 < number sp ->
  get_indexes_pos st en sp len =
  IOk (py_range (py_bound_pos (opt st) 0 len) (py_bound_pos (opt en) len len) (number sp)).
Proof.
  intros Hl Hs He Hp Hpos.
  unfold get_indexes_pos, py_range, loop_start_pos, loop_end_pos, opt.
  set (stepn := number sp) in *.
  destruct (stepn >? 0) eqn:E; [|lia].
  set (s := py_bound_pos (if omitted st then None else Some (number st)) 0 len).
  set (e := py_bound_pos (if omitted en then None else Some (number en)) len len).
  assert (Hs': norm_pos (if omitted st then 0 else number st) len = s).
  { subst s. destruct (omitted st); cbn [py_bound_pos].
    - rewrite norm_pos_spec by (unf; lia). cbn. lia.
    - apply norm_pos_spec; auto. }
  assert (He': norm_pos (if omitted en then len else number en) len = e).
  { subst e. destruct (omitted en); cbn [py_bound_pos].
    - rewrite norm_pos_spec by (unf; lia). destruct (len <? 0) eqn:?; lia.
    - apply norm_pos_spec; auto. }
  rewrite Hs', He'.
  assert (Hsr: 0 <= s <= len) by (subst s; apply py_bound_pos_range; lia).
  assert (Her: 0 <= e <= len) by (subst e; apply py_bound_pos_range; lia).
  destruct (stepn >? len) eqn:Ec.
  - destruct (Z.eq_dec len 0) as [Hz|Hnz].
    { replace s with 0 by lia. replace e with 0 by lia. rewrite Hz. reflexivity. }
    rewrite loop_pos_run by lia.
    destruct (e <=? s) eqn:Ees; [reflexivity|].
    assert (Q1: (e - s + len - 1) / len = 1).
    { symmetry. apply Z.div_unique with (r := e - s - 1); lia. }
    assert (Q2: (e - s + stepn - 1) / stepn = 1).
    { symmetry. apply Z.div_unique with (r := e - s - 1); lia. }
    rewrite Q1, Q2. reflexivity.
  - rewrite loop_pos_run by lia. reflexivity.
Qed.

(* ---------- negative step ---------- *)
Lemma norm_neg_spec v len : in64 v -> 0 <= len < two62 ->
  norm_neg v len = (if v <? 0 then Z.max (v + len) (-1) else Z.min v (len - 1)).
Proof.
  unfold norm_neg. intros Hv Hl.
  destruct (v <? 0) eqn:E.
  - rewrite wrap_id by (unf; lia).
    destruct (v + len <? -1) eqn:E2; destruct (_ >? len - 1) eqn:E3; lia.
  - destruct (v >? len - 1) eqn:E3; lia.
Qed.

(* m = -step > 0 *)
Lemma loop_neg_spec : forall fuel i e m len index acc,
  0 < m <= len \/ (0 < m /\ i <= e) -> i <= len - 1 -> -1 <= e -> len < two62 -> 0 <= len -> 0 <= index ->
  (e < i -> index + (i - e + m - 1) / m <= len) ->
  (Z.of_nat fuel > (if i >? e then (i - e + m - 1) / m else 0)) ->
  loop_neg fuel i e (- m) len index acc =
  IOk (acc ++ (if i <=? e then [] else range_up (Z.to_nat ((i - e + m - 1) / m)) i (- m))).
Proof.
  induction fuel as [|f IH]; intros i e m len index acc Hs Hi He Hl Hl0 Hidx Hbuf Hfuel.
  - destruct (i >? e) eqn:E; [|lia].
    assert (1 <= (i - e + m - 1) / m) by (apply Z.div_le_lower_bound; lia). lia.
  - cbn [loop_neg]. destruct (i >? e) eqn:E.
    + assert (Hlt: e < i) by lia. specialize (Hbuf Hlt).
      assert (Hstep: 0 < m <= len) by lia.
      assert (Hq: 1 <= (i - e + m - 1) / m).
      { apply Z.div_le_lower_bound; lia. }
      destruct (index <? len) eqn:E2; [|lia].
      rewrite wrap_id by (unf; lia).
      destruct (i <=? e) eqn:E3; [lia|].
      replace (i + - m) with (i - m) by lia.
      assert (Hdec: (i - e + m - 1) / m = 1 + ((i - m) - e + m - 1) / m).
      { replace (i - e + m - 1) with (1 * m + ((i - m) - e + m - 1)) by lia.
        rewrite Z.div_add_l by lia. reflexivity. }
      assert (Hq': 0 <= ((i - m) - e + m - 1) / m) by (apply Z.div_pos; lia).
      assert (P1: 0 < m <= len \/ 0 < m /\ i - m <= e) by lia.
      assert (P6: e < i - m -> index + 1 + ((i - m) - e + m - 1) / m <= len) by lia.
      assert (P7: Z.of_nat f > (if i - m >? e then ((i - m) - e + m - 1) / m else 0)).
      { destruct (i - m >? e) eqn:E5; lia. }
      rewrite (IH (i - m) e m len (index+1) (acc ++ [i]) P1 ltac:(lia) He Hl Hl0 ltac:(lia) P6 P7).
      rewrite <- app_assoc. f_equal. cbn [app].
      rewrite Hdec.
      destruct (i - m <=? e) eqn:E4.
      * assert (Hz: ((i - m) - e + m - 1) / m = 0) by (apply Z.div_small; lia).
        rewrite Hz. cbn. reflexivity.
      * rewrite Z2Nat.inj_add by lia. cbn [Z.to_nat Pos.to_nat Pos.iter_op Nat.add range_up].
        replace (i + - m) with (i - m) by lia. reflexivity.
    + destruct (i <=? e) eqn:E3; [|lia]. rewrite app_nil_r. reflexivity.
Qed.

Lemma loop_neg_run s e m len :
  -1 <= s <= len - 1 -> -1 <= e <= len - 1 -> 0 <= len < two62 -> (0 < m <= len \/ (0 < m /\ s <= e)) ->
  loop_neg (Z.to_nat len + 1) s e (- m) len 0 [] =
  IOk (if s <=? e then [] else range_up (Z.to_nat ((s - e + m - 1) / m)) s (- m)).
Proof.
  intros Hs He Hl Hstep.
  assert (Hq: e < s -> (s - e + m - 1) / m <= s - e).
  { intros. apply Z.div_le_upper_bound; nia. }
  rewrite loop_neg_spec; try assumption; try lia.
  - reflexivity.
  - destruct (s >? e) eqn:E; [|lia]. specialize (Hq ltac:(lia)). lia.
Qed.

Lemma py_bound_neg_range v d len : 0 <= len -> -1 <= d <= len - 1 -> -1 <= py_bound_neg v d len <= len - 1.
Proof. intros. destruct v as [v|]; cbn [py_bound_neg]; [|lia]. destruct (v <? 0) eqn:?; lia. Qed.

Lemma slice_neg_python st en sp len :
  0 <= len < two62 -> in64 (number st) -> in64 (number en) -> in64 (number sp) ->
  number sp < 0 ->
  get_indexes_neg st en sp len =
  IOk (py_range (py_bound_neg (opt st) (len - 1) len) (py_bound_neg (opt en) (-1) len) (number sp)).
Proof.
  intros Hl Hs He Hp Hneg.
  unfold get_indexes_neg, py_range, loop_start_neg, loop_end_neg, opt.
  set (stepn := number sp) in *.
  destruct (stepn <? 0) eqn:E; [|lia].
  destruct (stepn >? 0) eqn:E0; [lia|].
  set (s := py_bound_neg (if omitted st then None else Some (number st)) (len - 1) len).
  set (e := py_bound_neg (if omitted en then None else Some (number en)) (-1) len).
  assert (Hs': norm_neg (if omitted st then len - 1 else number st) len = s).
  { subst s. destruct (omitted st); cbn [py_bound_neg].
    - rewrite norm_neg_spec by (unf; lia). destruct (len - 1 <? 0) eqn:?; lia.
    - apply norm_neg_spec; auto. }
  assert (He': norm_neg (if omitted en then wrap (wrap (- len) - 1) else number en) len = e).
  { subst e. destruct (omitted en); cbn [py_bound_neg].
    - rewrite (wrap_id (- len)) by (unf; lia). rewrite wrap_id by (unf; lia).
      rewrite norm_neg_spec by (unf; lia). destruct (- len - 1 <? 0) eqn:?; lia.
    - apply norm_neg_spec; auto. }
  rewrite Hs', He'.
  assert (Hsr: -1 <= s <= len - 1) by (subst s; apply py_bound_neg_range; lia).
  assert (Her: -1 <= e <= len - 1) by (subst e; apply py_bound_neg_range; lia).
  destruct (stepn <? - len) eqn:Ec.
  - destruct (Z.eq_dec len 0) as [Hz|Hnz].
    { replace s with (-1) by lia. replace e with (-1) by lia. rewrite Hz. reflexivity. }
    replace (- len) with (- (len)) by lia.
    rewrite loop_neg_run by lia.
    destruct (s <=? e) eqn:Ees; [reflexivity|].
    assert (Q1: (s - e + len - 1) / len = 1).
    { symmetry. apply Z.div_unique with (r := s - e - 1); lia. }
    assert (Q2: (s - e + - stepn - 1) / - stepn = 1).
    { symmetry. apply Z.div_unique with (r := s - e - 1); lia. }
    rewrite Q1, Q2. reflexivity.
  - replace stepn with (- (- stepn)) at 1 by lia.
    rewrite loop_neg_run by lia.
    replace (- - stepn) with stepn by lia. reflexivity.
Qed.

(* ---------- the whole subscript, as the grammar action builds it ---------- *)
Theorem slice_python st en sp len :
  0 <= len < two62 -> in64 (number st) -> in64 (number en) -> in64 (number sp) ->
  get_indexes (mk_slice st en sp) len = IOk (py_slice (opt st) (opt en) (opt sp) len).
Proof.
  intros Hl Hs He Hp. unfold mk_slice, py_slice, opt.
  destruct (omitted sp) eqn:Eo.
  - cbn [number omitted]. cbn [Z.geb Z.compare get_indexes].
    rewrite slice_pos_python; cbn [number omitted]; try assumption; try (unf; lia).
    reflexivity.
  - destruct (number sp >=? 0) eqn:Eg; cbn [get_indexes].
    + destruct (number sp >? 0) eqn:E1.
      * rewrite slice_pos_python by (assumption || lia). reflexivity.
      * assert (number sp = 0) by lia.
        unfold get_indexes_pos. rewrite E1.
        destruct (number sp <? 0) eqn:E2; [lia|]. reflexivity.
    + destruct (number sp >? 0) eqn:E1; [lia|].
      destruct (number sp <? 0) eqn:E2; [|lia].
      rewrite slice_neg_python by (assumption || lia). reflexivity.
Qed.

Theorem index_python n len :
  0 <= len < two62 -> in64 n -> get_indexes (SubIndex n) len = IOk (py_index n len).
Proof.
  intros Hl Hn. cbn [get_indexes]. unfold get_indexes_index, py_index.
  destruct (n <? 0) eqn:E.
  - rewrite wrap_id by (unf; lia).
    destruct (0 <=? n) eqn:E1; [lia|]. cbn [andb].
    destruct (n + len <? 0) eqn:E2; cbn [orb].
    + destruct (- len <=? n) eqn:E3; [lia|]. reflexivity.
    + destruct (n + len >=? len) eqn:E4; [lia|].
      destruct (- len <=? n) eqn:E3; [|lia]. reflexivity.
  - destruct (n <? 0) eqn:E0; [lia|]. cbn [orb].
    destruct (0 <=? n) eqn:E1; [|lia]. cbn [andb].
    destruct (n >=? len) eqn:E2; destruct (n <? len) eqn:E3; try lia; try reflexivity.
    destruct (- len <=? n); reflexivity.
Qed.

(* ---------- every selected index is inside the array ---------- *)
Lemma range_up_in n : forall s step x, In x (range_up n s step) ->
  exists k, 0 <= k < Z.of_nat n /\ x = s + k * step.
Proof.
  induction n as [|n IH]; intros s step x H; cbn [range_up] in H; [contradiction|].
  destruct H as [H|H].
  - exists 0. lia.
  - apply IH in H. destruct H as [k [Hk Hx]]. exists (k + 1). lia.
Qed.

Lemma py_range_bounds s e step x : In x (py_range s e step) ->
  (0 < step /\ s <= x < e) \/ (step < 0 /\ e < x <= s).
Proof.
  unfold py_range. intros H.
  destruct (step >? 0) eqn:E1.
  - destruct (e <=? s) eqn:E2; [contradiction|].
    apply range_up_in in H. destruct H as [k [Hk Hx]]. left.
    assert (Hq: 0 <= (e - s + step - 1) / step) by (apply Z.div_pos; lia).
    rewrite Z2Nat.id in Hk by lia.
    assert (k * step < e - s).
    { assert (Hm: step * ((e - s + step - 1) / step) <= e - s + step - 1) by (apply Z.mul_div_le; lia). nia. }
    nia.
  - destruct (step <? 0) eqn:E3; [|contradiction].
    destruct (s <=? e) eqn:E2; [contradiction|].
    apply range_up_in in H. destruct H as [k [Hk Hx]]. right.
    assert (Hq: 0 <= (s - e + - step - 1) / - step) by (apply Z.div_pos; lia).
    rewrite Z2Nat.id in Hk by lia.
    assert (k * (- step) < s - e).
    { assert (Hm: (- step) * ((s - e + - step - 1) / - step) <= s - e + - step - 1) by (apply Z.mul_div_le; lia). nia. }
    nia.
Qed.

Theorem py_slice_in_range st en sp len x : 0 <= len ->
  In x (py_slice st en sp len) -> 0 <= x < len.
Proof.
  intros Hl H. unfold py_slice in H.
  set (step := match sp with Some s => s | None => 1 end) in *.
  destruct (step >? 0) eqn:E1.
  - apply py_range_bounds in H.
    pose proof (py_bound_pos_range st 0 len Hl ltac:(lia)).
    pose proof (py_bound_pos_range en len len Hl ltac:(lia)). lia.
  - destruct (step <? 0) eqn:E2; [|contradiction].
    apply py_range_bounds in H.
    pose proof (py_bound_neg_range st (len - 1) len Hl ltac:(lia)).
    pose proof (py_bound_neg_range en (-1) len Hl ltac:(lia)). lia.
Qed.

Theorem py_index_in_range n len x : In x (py_index n len) -> 0 <= x < len.
Proof.
  unfold py_index. destruct ((0 <=? n) && (n <? len)) eqn:E1.
  - intros [H|[]]. lia.
  - destruct ((- len <=? n) && (n <? 0)) eqn:E2; [|contradiction]. intros [H|[]]. lia.
Qed.

Lemma iota_in n : forall from x, In x (iota n from) -> from <= x < from + Z.of_nat n.
Proof.
  induction n as [|n IH]; intros from x H; cbn [iota] in H; [contradiction|].
  destruct H as [H|H]; [lia|]. apply IH in H. lia.
Qed.

(* the subscripts the parser can build: integers come from strconv.Atoi, hence int64 *)
Definition idx_ok (i : idx) : Prop := in64 (number i).
Definition sub_built (s : subscript) : Prop :=
  match s with
  | SubIndex n => in64 n
  | SubSlicePos st en sp | SubSliceNeg st en sp =>
      exists sp0, idx_ok st /\ idx_ok en /\ idx_ok sp0 /\ s = mk_slice st en sp0
  | SubWild => True
  end.

Theorem get_indexes_total s len : 0 <= len < two62 -> sub_built s ->
  exists l, get_indexes s len = IOk l /\ forall x, In x l -> 0 <= x < len.
Proof.
  intros Hl Hb. destruct s as [n|st en sp|st en sp|].
  - exists (py_index n len). split; [apply index_python; assumption|].
    intros x. apply py_index_in_range.
  - destruct Hb as [sp0 [H1 [H2 [H3 Heq]]]]. rewrite Heq.
    exists (py_slice (opt st) (opt en) (opt sp0) len). split; [apply slice_python; assumption|].
    intros x. apply py_slice_in_range. lia.
  - destruct Hb as [sp0 [H1 [H2 [H3 Heq]]]]. rewrite Heq.
    exists (py_slice (opt st) (opt en) (opt sp0) len). split; [apply slice_python; assumption|].
    intros x. apply py_slice_in_range. lia.
  - exists (iota (Z.to_nat len) 0). split; [reflexivity|].
    intros x H. apply iota_in in H. lia.
Qed.
