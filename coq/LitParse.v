(* LitParse.v — string, boolean and null literals as right operands of == and != in a filter, through the regenerated
   grammar: qLiteral is lNumber / lBool / lString / lNull in that order; a string literal here has a plain body (no quote
   of its own kind, no backslash). *)
From JP Require Import Peg Grammar Text Tree Actions PegFacts PegMono PegEv FuelRules ParseFacts KeyDefs KeyParse IdxParse SliceParse UnionParse WildParse RecParse ChainParse SpacePath FunParse AggParse Frame FiltParse CmpParse NegFilt NoDollar.
From Coq Require Import Lia ZifyBool ZifyN.
Local Open Scope N_scope.
Open Scope list_scope.

Definition plain_for (q : N) (x : N) : bool := negb (x =? q) && negb (x =? 92).
(* the body of a string literal as the grammar reads it: `( '\\' [\\q] / [^q] )*` — the quote only after a backslash, a
   backslash before the closing quote would escape it *)
Fixpoint sbody_ok (q : N) (body : list N) : bool :=
  match body with
  | [] => true
  | x :: r => negb (x =? q) &&
              (if x =? 92 then match r with
                               | [] => false
                               | y :: r' => if (y =? 92) || (y =? q) then sbody_ok q r' else sbody_ok q r
                               end
               else sbody_ok q r)
  end.
Lemma plain_sbody q body : forallb (plain_for q) body = true -> sbody_ok q body = true.
Proof.
  induction body as [|x r IH]; [reflexivity|]. cbn [forallb sbody_ok]. intros H. apply andb_true_iff in H. destruct H as [H1 H2].
  unfold plain_for in H1. apply andb_true_iff in H1. destruct H1 as [Hq H92]. rewrite Hq. apply negb_true_iff in H92. rewrite H92. apply IH. exact H2.
Qed.
Definition litv_ok (l : litv) : bool :=
  match l with
  | LStr q body => ((q =? 39) || (q =? 34)) && sbody_ok q body
  | LBool _ sp | LNull sp => Nat.ltb sp 3
  end.
Definition litv_value (l : litv) : value :=
  match l with LStr _ body => VStr (text_of (unescape_cps body)) | LBool b _ => VBool b | LNull _ => VNull end.
Definition litv_tokens (p : nat) (l : litv) : list token :=
  match l with
  | LStr q body => [TText (p + 1) (p + 1 + List.length body); TAct (if q =? 39 then 43%nat else 44%nat)]
  | LBool true _ => [TAct 41]
  | LBool false _ => [TAct 42]
  | LNull _ => [TAct 45]
  end.

Lemma litv_head l : litv_ok l = true -> exists x r, litv_text l = x :: r /\ x <> 32 /\ is_sign x = false /\ is_dig x = false.
Proof.
  destruct l as [q body|[|] sp|sp]; cbn [litv_ok litv_text]; intros H.
  - apply andb_true_iff in H. destruct H as [Hq _]. exists q, (body ++ [q]). split; [reflexivity|].
    apply orb_true_iff in Hq. destruct Hq as [E|E]; apply N.eqb_eq in E; subst q; repeat split; discriminate.
  - destruct sp as [|[|sp]]; eexists _, _; (split; [reflexivity|]); repeat split; discriminate.
  - destruct sp as [|[|sp]]; eexists _, _; (split; [reflexivity|]); repeat split; discriminate.
  - destruct sp as [|[|sp]]; eexists _, _; (split; [reflexivity|]); repeat split; discriminate.
Qed.

(* lNumber fails on anything that is neither a sign nor a digit *)
Lemma ev_rule45_nonnum x r pos : is_sign x = false -> is_dig x = false -> evG (PRef 45) (x :: r) pos PFail.
Proof.
  intros Hs Hd. eapply ev_ref; [reflexivity|]. apply ev_seq_fail. apply ev_cap_fail.
  eapply ev_seq_fail2; [apply ev_opt_none; apply ev_cls_fail; rewrite Bool.xorb_false_l, sign_ranges; exact Hs|].
  apply ev_seq_fail. apply ev_cls_fail. rewrite Bool.xorb_false_l. exact Hd.
Qed.

Lemma in_ranges_self q : in_ranges q [(q, q)] = true.
Proof. unfold in_ranges. cbn. rewrite N.leb_refl. reflexivity. Qed.
Lemma in_ranges_other x q : x <> q -> in_ranges x [(q, q)] = false.
Proof. intros H. unfold in_ranges. cbn. destruct (q <=? x) eqn:A; destruct (x <=? q) eqn:B; try reflexivity. apply N.leb_le in A. apply N.leb_le in B. lia. Qed.
(* the body of a string literal *)
Lemma ev_str_star q body rest pos : sbody_ok q body = true -> q <> 92 ->
  evG (PStar (PAlt (PSeq (PLit [92]) (PCls false [(92, 92); (q, q)])) (PCls true [(q, q)]))) (body ++ q :: rest) pos
      (POk (q :: rest) (pos + List.length body) []).
Proof.
  intros Hb Hq.
  assert (Hgen : forall n body pos, (List.length body <= n)%nat -> sbody_ok q body = true ->
            evG (PStar (PAlt (PSeq (PLit [92]) (PCls false [(92, 92); (q, q)])) (PCls true [(q, q)]))) (body ++ q :: rest) pos
                (POk (q :: rest) (pos + List.length body) [])); [|apply (Hgen (List.length body) body pos (le_n _) Hb)].
  clear body pos Hb. induction n as [|n IH]; intros body pos Hn Hb.
  - destruct body; [|cbn [List.length] in Hn; lia]. cbn [app List.length]. eapply ev_conv.
    + apply ev_star_stop. apply ev_alt_r; [apply ev_seq_fail; apply (ev_lit_fail G [92]); apply strip1_no; exact Hq|].
      apply ev_cls_fail. rewrite in_ranges_self. reflexivity.
    + f_equal. lia.
  - destruct body as [|x r].
    + cbn [app List.length]. eapply ev_conv.
      * apply ev_star_stop. apply ev_alt_r; [apply ev_seq_fail; apply (ev_lit_fail G [92]); apply strip1_no; exact Hq|].
        apply ev_cls_fail. rewrite in_ranges_self. reflexivity.
      * f_equal. lia.
    + cbn [sbody_ok] in Hb. apply andb_true_iff in Hb. destruct Hb as [Hxq Hb]. apply negb_true_iff in Hxq. apply N.eqb_neq in Hxq.
      cbn [List.length] in Hn. cbn [app].
      destruct (x =? 92) eqn:E92.
      * apply N.eqb_eq in E92. subst x. destruct r as [|y r']; [discriminate Hb|].
        destruct ((y =? 92) || (y =? q)) eqn:Ey.
        -- (* an escaped backslash or quote: two characters at once *)
           assert (E1 : evG (PAlt (PSeq (PLit [92]) (PCls false [(92, 92); (q, q)])) (PCls true [(q, q)])) (92 :: (y :: r') ++ q :: rest) pos
                            (POk (r' ++ q :: rest) (S (pos + 1)) [])).
           { apply ev_alt_l. eapply ev_seq_ok; [apply (ev_lit_ok G [92]); apply strip1_ok| |reflexivity]. cbn [app]. apply ev_cls_ok.
             rewrite Bool.xorb_false_l. rewrite in_ranges_pt, in_ranges_pt. rewrite Bool.orb_assoc, Ey. reflexivity. }
           cbn [List.length] in Hn.
           pose proof (ev_star_step G _ _ _ _ _ _ _ _ _ E1 ltac:(lia) (IH r' (S (pos + 1)) ltac:(lia) Hb)) as E2.
           eapply ev_conv; [exact E2|]. f_equal. cbn [List.length]. lia.
        -- (* a backslash before any other character is a character of its own *)
           apply orb_false_iff in Ey. destruct Ey as [Ey1 Ey2].
           assert (E1 : evG (PAlt (PSeq (PLit [92]) (PCls false [(92, 92); (q, q)])) (PCls true [(q, q)])) (92 :: (y :: r') ++ q :: rest) pos
                            (POk ((y :: r') ++ q :: rest) (S pos) [])).
           { apply ev_alt_r.
             - eapply ev_seq_fail2; [apply (ev_lit_ok G [92]); apply strip1_ok|]. cbn [app]. apply ev_cls_fail.
               rewrite Bool.xorb_false_l. rewrite in_ranges_pt, in_ranges_pt. rewrite Ey1, Ey2. reflexivity.
             - apply ev_cls_ok. rewrite (in_ranges_other 92 q Hxq). reflexivity. }
           pose proof (ev_star_step G _ _ _ _ _ _ _ _ _ E1 ltac:(lia) (IH (y :: r') (S pos) ltac:(lia) Hb)) as E2.
           eapply ev_conv; [exact E2|]. f_equal. cbn [List.length]. lia.
      * apply N.eqb_neq in E92.
        assert (E1 : evG (PAlt (PSeq (PLit [92]) (PCls false [(92, 92); (q, q)])) (PCls true [(q, q)])) (x :: r ++ q :: rest) pos (POk (r ++ q :: rest) (S pos) [])).
        { apply ev_alt_r; [apply ev_seq_fail; apply (ev_lit_fail G [92]); apply strip1_no; exact E92|]. apply ev_cls_ok. rewrite (in_ranges_other x q Hxq). reflexivity. }
        pose proof (ev_star_step G _ _ _ _ _ _ _ _ _ E1 ltac:(lia) (IH r (S pos) ltac:(lia) Hb)) as E2.
        eapply ev_conv; [exact E2|]. f_equal. cbn [List.length]. lia.
Qed.

Lemma ev_rule47_str q body c t pos : litv_ok (LStr q body) = true ->
  evG (PRef 47) (litv_text (LStr q body) ++ c :: t) pos
      (POk (c :: t) (pos + List.length (litv_text (LStr q body))) (litv_tokens pos (LStr q body))).
Proof.
  cbn [litv_ok litv_text litv_tokens]. intros H. apply andb_true_iff in H. destruct H as [Hq Hb].
  replace ((q :: body ++ [q]) ++ c :: t) with (q :: body ++ q :: c :: t) by (cbn [app]; rewrite <- app_assoc; reflexivity).
  apply orb_true_iff in Hq. destruct Hq as [E|E]; apply N.eqb_eq in E; subst q.
  - eapply ev_conv.
    + eapply ev_ref; [reflexivity|]. apply ev_alt_l.
      eapply ev_seq_ok; [apply (ev_lit_ok G [39]); apply strip1_ok| |reflexivity].
      eapply ev_seq_ok; [apply ev_cap; apply (ev_str_star 39 body (c :: t) _ Hb); discriminate| |reflexivity].
      eapply ev_seq_ok; [apply (ev_lit_ok G [39]); apply strip1_ok|apply ev_act|reflexivity].
    + cbn [List.length app Nat.add]. rewrite app_length. cbn [List.length].
      replace (pos + S (List.length body + 1))%nat with (pos + 1 + List.length body + 1)%nat by lia. reflexivity.
  - eapply ev_conv.
    + eapply ev_ref; [reflexivity|]. apply ev_alt_r; [apply ev_seq_fail; apply (ev_lit_fail G [39]); reflexivity|].
      eapply ev_seq_ok; [apply (ev_lit_ok G [34]); apply strip1_ok| |reflexivity].
      eapply ev_seq_ok; [apply ev_cap; apply (ev_str_star 34 body (c :: t) _ Hb); discriminate| |reflexivity].
      eapply ev_seq_ok; [apply (ev_lit_ok G [34]); apply strip1_ok|apply ev_act|reflexivity].
    + cbn [List.length app Nat.add]. rewrite app_length. cbn [List.length].
      replace (pos + S (List.length body + 1))%nat with (pos + 1 + List.length body + 1)%nat by lia. reflexivity.
Qed.

Lemma ev_seq_act a n rest pos r p : evG a rest pos (POk r p []) -> evG (PSeq a (PAct n)) rest pos (POk r p [TAct n]).
Proof. intros H. eapply ev_conv; [eapply ev_seq_ok; [exact H|apply ev_act|reflexivity]|reflexivity]. Qed.

Lemma ev_rule46_bool b sp c t pos : litv_ok (LBool b sp) = true ->
  evG (PRef 46) (litv_text (LBool b sp) ++ c :: t) pos (POk (c :: t) (pos + List.length (litv_text (LBool b sp))) (litv_tokens pos (LBool b sp))).
Proof.
  intros _. eapply ev_ref; [reflexivity|]. destruct b.
  - apply ev_alt_l. destruct sp as [|[|sp]]; cbn [litv_text litv_tokens app];
      apply ev_seq_act.
    + apply ev_alt_l. apply (ev_lit_ok G [116; 114; 117; 101]). cbn [strip_prefix]. rewrite !N.eqb_refl. reflexivity.
    + apply ev_alt_r; [apply (ev_lit_fail G); reflexivity|]. apply ev_alt_l. apply (ev_lit_ok G [84; 114; 117; 101]). cbn [strip_prefix]. rewrite !N.eqb_refl. reflexivity.
    + apply ev_alt_r; [apply (ev_lit_fail G); reflexivity|]. apply ev_alt_r; [apply (ev_lit_fail G); reflexivity|]. apply (ev_lit_ok G [84; 82; 85; 69]). cbn [strip_prefix]. rewrite !N.eqb_refl. reflexivity.
  - apply ev_alt_r.
    { apply ev_seq_fail. destruct sp as [|[|sp]]; cbn [litv_text app];
        (apply ev_alt_r; [apply (ev_lit_fail G); reflexivity|]; apply ev_alt_r; apply (ev_lit_fail G); reflexivity). }
    destruct sp as [|[|sp]]; cbn [litv_text litv_tokens app]; apply ev_seq_act.
    + apply ev_alt_l. apply (ev_lit_ok G [102; 97; 108; 115; 101]). cbn [strip_prefix]. rewrite !N.eqb_refl. reflexivity.
    + apply ev_alt_r; [apply (ev_lit_fail G); reflexivity|]. apply ev_alt_l. apply (ev_lit_ok G [70; 97; 108; 115; 101]). cbn [strip_prefix]. rewrite !N.eqb_refl. reflexivity.
    + apply ev_alt_r; [apply (ev_lit_fail G); reflexivity|]. apply ev_alt_r; [apply (ev_lit_fail G); reflexivity|]. apply (ev_lit_ok G [70; 65; 76; 83; 69]). cbn [strip_prefix]. rewrite !N.eqb_refl. reflexivity.
Qed.

Lemma ev_rule48_null sp c t pos : evG (PRef 48) (litv_text (LNull sp) ++ c :: t) pos (POk (c :: t) (pos + List.length (litv_text (LNull sp))) [TAct 45]).
Proof.
  eapply ev_ref; [reflexivity|]. destruct sp as [|[|sp]]; cbn [litv_text app]; apply ev_seq_act.
  - apply ev_alt_l. apply (ev_lit_ok G [110; 117; 108; 108]). cbn [strip_prefix]. rewrite !N.eqb_refl. reflexivity.
  - apply ev_alt_r; [apply (ev_lit_fail G); reflexivity|]. apply ev_alt_l. apply (ev_lit_ok G [78; 117; 108; 108]). cbn [strip_prefix]. rewrite !N.eqb_refl. reflexivity.
  - apply ev_alt_r; [apply (ev_lit_fail G); reflexivity|]. apply ev_alt_r; [apply (ev_lit_fail G); reflexivity|]. apply (ev_lit_ok G [78; 85; 76; 76]). cbn [strip_prefix]. rewrite !N.eqb_refl. reflexivity.
Qed.

(* qLiteral on one of these literals *)
Lemma ev_rule42_litv l c t pos : litv_ok l = true ->
  evG (PRef 42) (litv_text l ++ c :: t) pos (POk (c :: t) (pos + List.length (litv_text l)) (litv_tokens pos l)).
Proof.
  intros Hl. destruct (litv_head l Hl) as (x & r & Ex & _ & Hs & Hd).
  eapply ev_ref; [reflexivity|].
  apply ev_alt_r; [rewrite Ex; cbn [app]; apply (ev_rule45_nonnum x _ pos Hs Hd)|].
  destruct l as [q body|b sp|sp].
  - apply ev_alt_r.
    { cbn [litv_ok] in Hl. apply andb_true_iff in Hl. destruct Hl as [Hq _]. cbn [litv_text app]. eapply ev_ref; [reflexivity|].
      apply orb_true_iff in Hq. destruct Hq as [E|E]; apply N.eqb_eq in E; subst q;
        (apply ev_alt_r; apply ev_seq_fail; (apply ev_alt_r; [apply (ev_lit_fail G); reflexivity|]; apply ev_alt_r; apply (ev_lit_fail G); reflexivity)). }
    apply ev_alt_l. apply (ev_rule47_str q body c t pos Hl).
  - apply ev_alt_l. apply (ev_rule46_bool b sp c t pos Hl).
  - apply ev_alt_r.
    { eapply ev_ref; [reflexivity|]. destruct sp as [|[|sp]]; cbn [litv_text app];
        (apply ev_alt_r; apply ev_seq_fail; (apply ev_alt_r; [apply (ev_lit_fail G); reflexivity|]; apply ev_alt_r; apply (ev_lit_fail G); reflexivity)). }
    apply ev_alt_r.
    { eapply ev_ref; [reflexivity|]. destruct sp as [|[|sp]]; cbn [litv_text app]; (apply ev_alt_r; apply ev_seq_fail; apply (ev_lit_fail G); reflexivity). }
    cbn [litv_tokens]. apply ev_rule48_null.
Qed.
