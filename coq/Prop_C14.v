(* Prop_C14.v — property C14: the function call protocol (PARTIAL).
   Proved on the evaluator model, with "the values selected before it" given by the specification
   (which the model refines exactly): a filter-function node calls the function exactly once with the
   value it is handed (a plain value, never an Accessor), logs the call before the rest of the chain
   runs, and its result replaces the value (C14_filter_function_node); an aggregate node evaluates its
   parameter path privately and, iff that path selects something, calls the function exactly once
   with ALL selected values — or with the elements of the single array when the path is not a value
   group — and its result becomes the single value handed on (C14_aggregate_node); a failing function
   yields ErrorFunctionFailed naming that node.  Together with C08_compose_same_root (the node after P
   is applied to every cursor P selects, in order) this gives "once per selected value, in result
   order"; chaining left to right is the chain order of the tree.
   NOT proved as one statement: the global call log of a whole retrieval (the interleaving of
   different functions and the short-circuiting of filter operands); it is compared with the model
   call by call on every generated case, and with the direct protocol oracle on the real library. *)
From JP Require Import Eval WF Verdict Spec EvalInv1 EvalInv3 EvalInv4 Refine1 Refine2 CallFacts.

Theorem C14_filter_function_node : forall ffun afun regex_match f b next root cur c st,
  retrieve ffun afun regex_match (Node (KFFun f) b next) root cur c st =
  match ffun f (snd cur) with
  | Some v => fwd ffun afun regex_match b next root false (None, v) c (log_call (CallF f (snd cur)) st)
  | None => (c, Some (EFunc b), log_call (CallF f (snd cur)) st)
  end.
Proof. exact ffun_node_call. Qed.
Print Assumptions C14_filter_function_node.

Theorem C14_aggregate_node : forall ffun afun regex_match,
  (forall f v w, small v -> ffun f v = Some w -> small w) ->
  (forall f l w, Forall small l -> afun f l = Some w -> small w) ->
  forall f param b next root cur c st,
  wf_node param = true -> small root -> cur_ok root cur -> ok st ->
  let '(vals, e, st1) := retrieve ffun afun regex_match param root cur [] st in
  (sp ffun afun regex_match param root cur = [] /\
   exists err, retrieve ffun afun regex_match (Node (KAgg f param) b next) root cur c st = (c, Some err, st1)) \/
  (sp ffun afun regex_match param root cur <> [] /\
   let st3 := log_call (CallA f (agg_args ffun afun regex_match param root cur)) st1 in
   retrieve ffun afun regex_match (Node (KAgg f param) b next) root cur c st =
   match afun f (agg_args ffun afun regex_match param root cur) with
   | Some v => fwd ffun afun regex_match b next root false (None, v) c st3
   | None => (c, Some (EFunc b), st3)
   end).
Proof. exact agg_node_call. Qed.
Print Assumptions C14_aggregate_node.
