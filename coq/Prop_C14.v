(* Prop_C14.v — property C14: functions see every selected value once, in order; aggregates see all.
   Proved on the evaluator model, with "the values selected before it" given by the specification
   (which the model refines exactly):
   * C14_call_log — for every well-formed tree whose filters contain no user function, the call log of
     a whole retrieval is EXACTLY the log the specification prescribes (CallDefs.sc): one filter-function
     call per cursor reaching the function node, one aggregate call per evaluation of an aggregate node
     whose parameter path selects something, in depth-first result order (chained functions apply left
     to right because they are consecutive nodes of the chain);
   * C14_filter_function_once_per_value — `P.f()`: f is called exactly once for each value the
     function-free path P selects, in result order, with that value;
   * C14_filter_function_node / C14_aggregate_node — what one function node does: the value handed to
     the function is a plain value, the result replaces it; the aggregate receives ALL values its
     parameter selects (or the elements of the single array of a path that is not a value group),
     exactly once, and is not called at all when the parameter selects nothing; a failing function
     yields ErrorFunctionFailed naming that node.
   * C14_functions_from_text / C14_calls_from_text — the same for the path TEXT: `$` steps `.f()` `.g()` ... with steps
     any names, indexes, wildcards, slices and unions (each possibly after `..`) and f, g registered filter
     functions parses, returns for each value the steps reach (nav_all, defined on the document alone), in the order
     they reach them, g(f(value)) — dropping a value on which a function fails, failing when none is left — and its
     call log is exactly: for each of those values in that order, f on it, then g on what f returned, until one fails.
   * C14_aggregate_from_text / C14_aggregate_calls_from_text — the same text with a registered aggregate function g first
     (`$` steps `.g()` `.f()` ...): g is called exactly once, with all the values the steps reach in the order they
     reach them — or with the elements of the array when the steps are a single-valued path (steps_vg false) reaching an
     array —, and not at all when they reach nothing; its return value is the single result, to which the filter
     functions that follow apply left to right; the call log is exactly that.
   Scope: user functions inside filter operands are outside C14_call_log (their calls are
   short-circuited by && / || by design); they are compared with the model call by call on every
   generated case, like everything else. *)
From JP Require Import Eval WF Verdict Spec CallDefs Actions EvalInv1 EvalInv3 EvalInv4 Refine1 Refine2 CallFacts SpecCalls SpecCallsCompose.
From JP Require Import Json Text Tree Grammar KeyDefs ChainParse ChainAddr FunParse FunAddr AggParse AggAddr.
From Coq Require Import List NArith ZArith String. Import ListNotations.

Theorem C14_call_log : forall ffun afun regex_match,
  (forall f v w, small v -> ffun f v = Some w -> small w) ->
  (forall f l w, Forall small l -> afun f l = Some w -> small w) ->
  forall t doc st,
  wf_node t = true -> filters_call_free t = true -> small doc -> ok st ->
  calls (snd (eval_run ffun afun regex_match t doc st)) = calls st ++ sc ffun afun regex_match t doc (Some [], doc).
Proof. exact eval_call_log. Qed.
Print Assumptions C14_call_log.

Theorem C14_filter_function_once_per_value : forall ffun afun regex_match p f b root cur,
  wf_node p = true -> call_free p = true ->
  sc ffun afun regex_match (append_deep p (Node (KFFun f) b ONone)) root cur
  = map (fun r : sres => CallF f (sres_value r)) (sp ffun afun regex_match p root cur).
Proof. exact ffun_after_prefix. Qed.
Print Assumptions C14_filter_function_once_per_value.

Theorem C14_filter_function_node : forall ffun afun regex_match f b next root cur c st,
  retrieve ffun afun regex_match (Node (KFFun f) b next) root cur c st =
  match ffun f (snd cur) with
  | Some v => EvalInv3.fwd ffun afun regex_match b next root false (None, v) c (log_call (CallF f (snd cur)) st)
  | None => (c, Some (EFunc b), log_call (CallF f (snd cur)) st)
  end.
Proof. exact ffun_node_call. Qed.
Print Assumptions C14_filter_function_node.

Theorem C14_aggregate_node : forall ffun afun regex_match,
  (forall f v w, small v -> ffun f v = Some w -> small w) ->
  (forall f l w, Forall small l -> afun f l = Some w -> small w) ->
  forall f param b next root cur c st,
  wf_node param = true -> small root -> cur_ok root cur -> ok st ->
  let '(vals, e, st1) := retrieve ffun afun regex_match param root cur [] st in
  (sp ffun afun regex_match param root cur = [] /\
   exists err, retrieve ffun afun regex_match (Node (KAgg f param) b next) root cur c st = (c, Some err, st1)) \/
  (sp ffun afun regex_match param root cur <> [] /\
   let st3 := log_call (CallA f (agg_args ffun afun regex_match param root cur)) st1 in
   retrieve ffun afun regex_match (Node (KAgg f param) b next) root cur c st =
   match afun f (agg_args ffun afun regex_match param root cur) with
   | Some v => EvalInv3.fwd ffun afun regex_match b next root false (None, v) c st3
   | None => (c, Some (EFunc b), st3)
   end).
Proof. exact agg_node_call. Qed.
Print Assumptions C14_aggregate_node.

Theorem C14_functions_from_text : forall cfg parse_float regex_ok ffun afun regex_match,
  (forall f v w, small v -> ffun f v = Some w -> small w) ->
  (forall f l w, Forall small l -> afun f l = Some w -> small w) ->
  forall x r f fs doc st, forallb rstep_ok (x :: r) = true -> forallb fname_ok (f :: fs) = true ->
  forallb (fun_known cfg) (f :: fs) = true -> small doc -> ok st ->
  exists t, parse_with cfg parse_float regex_ok jsonpath_grammar (chain_fun_path (x :: r) (f :: fs)) = ParseOk t /\
            match funs_all cfg ffun (f :: fs) (nav_all (x :: r) ([], doc)) with
            | [] => exists e, fst (eval_run ffun afun regex_match t doc st) = OErr e
            | l => fst (eval_run ffun afun regex_match t doc st) = OOk l
            end.
Proof. exact chain_fun_retrieval. Qed.
Print Assumptions C14_functions_from_text.

Theorem C14_calls_from_text : forall cfg parse_float regex_ok ffun afun regex_match,
  (forall f v w, small v -> ffun f v = Some w -> small w) ->
  (forall f l w, Forall small l -> afun f l = Some w -> small w) ->
  forall x r f fs doc st, forallb rstep_ok (x :: r) = true -> forallb fname_ok (f :: fs) = true ->
  forallb (fun_known cfg) (f :: fs) = true -> small doc -> ok st ->
  exists t, parse_with cfg parse_float regex_ok jsonpath_grammar (chain_fun_path (x :: r) (f :: fs)) = ParseOk t /\
            calls (snd (eval_run ffun afun regex_match t doc st)) =
            calls st ++ calls_all ffun (f :: fs) (nav_all (x :: r) ([], doc)).
Proof. exact chain_fun_calls. Qed.
Print Assumptions C14_calls_from_text.

(* the premises are met, and the statement says something: two elements, the second one refused by the first function *)
Example C14_from_text_example :
  let doc := VObj [("a", VArr [VNum (num_of_Z 1); VStr "x"; VNum (num_of_Z 3)])]%string in
  let ffun := fun (f : string) (v : value) =>
                match v with VNum _ => if String.eqb f "id" then Some v else Some (VArr [v]) | _ => None end in
  let fs := [[105; 100]; [119]] in
  let steps := [RPlain (SDot [97]); RPlain (SWild false)] in
  chain_fun_path steps fs = [36; 46; 97; 91; 42; 93; 46; 105; 100; 40; 41; 46; 119; 40; 41] /\
  forallb rstep_ok steps = true /\ forallb fname_ok fs = true /\
  calls_all ffun fs (nav_all steps ([], doc)) =
    [CallF "id" (VNum (num_of_Z 1)); CallF "w" (VNum (num_of_Z 1)); CallF "id" (VStr "x");
     CallF "id" (VNum (num_of_Z 3)); CallF "w" (VNum (num_of_Z 3))]%string.
Proof. cbv zeta. repeat split; vm_compute; reflexivity. Qed.

Theorem C14_aggregate_from_text : forall cfg parse_float regex_ok ffun afun regex_match,
  (forall f v w, small v -> ffun f v = Some w -> small w) ->
  (forall f l w, Forall small l -> afun f l = Some w -> small w) ->
  forall x r g fs doc st, forallb rstep_ok (x :: r) = true -> forallb fname_ok (g :: fs) = true ->
  agg_known cfg g = true -> forallb (fun_known cfg) fs = true -> small doc -> ok st ->
  exists t, parse_with cfg parse_float regex_ok jsonpath_grammar (chain_fun_path (x :: r) (g :: fs)) = ParseOk t /\
            match agg_outcome ffun afun x r g fs doc with
            | Some w => fst (eval_run ffun afun regex_match t doc st) = OOk [fun_result cfg w]
            | None => exists e, fst (eval_run ffun afun regex_match t doc st) = OErr e
            end.
Proof. exact chain_agg_retrieval. Qed.
Print Assumptions C14_aggregate_from_text.

Theorem C14_aggregate_calls_from_text : forall cfg parse_float regex_ok ffun afun regex_match,
  (forall f v w, small v -> ffun f v = Some w -> small w) ->
  (forall f l w, Forall small l -> afun f l = Some w -> small w) ->
  forall x r g fs doc st, forallb rstep_ok (x :: r) = true -> forallb fname_ok (g :: fs) = true ->
  agg_known cfg g = true -> forallb (fun_known cfg) fs = true -> small doc -> ok st ->
  exists t, parse_with cfg parse_float regex_ok jsonpath_grammar (chain_fun_path (x :: r) (g :: fs)) = ParseOk t /\
            calls (snd (eval_run ffun afun regex_match t doc st)) = calls st ++ agg_calls ffun afun x r g fs doc.
Proof. exact chain_agg_calls. Qed.
Print Assumptions C14_aggregate_calls_from_text.

(* what the aggregate receives: all the values of a value group; the elements of the array a single-valued path reaches *)
Example C14_aggregate_example :
  let doc := VObj [("a", VArr [VNum (num_of_Z 1); VStr "x"])]%string in
  agg_input [RPlain (SDot [97]); RPlain (SWild false)] doc = [VNum (num_of_Z 1); VStr "x"] /\
  agg_input [RPlain (SDot [97])] doc = [VNum (num_of_Z 1); VStr "x"] /\
  agg_input [RRec (SDot [97])] doc = [VArr [VNum (num_of_Z 1); VStr "x"]] /\
  agg_calls (fun _ v => Some v) (fun _ l => Some (VArr l)) (RPlain (SDot [97])) [] [99] [[105]] doc =
    [CallA "c" [VNum (num_of_Z 1); VStr "x"]; CallF "i" (VArr [VNum (num_of_Z 1); VStr "x"])]%string /\
  agg_calls (fun _ v => Some v) (fun _ l => Some (VArr l)) (RPlain (SDot [98])) [] [99] [[105]] doc = [].
Proof. cbv zeta. repeat split; vm_compute; reflexivity. Qed.

(* The same for paths whose steps may be FILTERS (FiltFun.v): `$` steps-and-filters `.f()` `.g()` … — any step of FiltChain
   (existence, negation, comparisons, queries in disjunctive form with or without blanks, parenthesised sub-queries, `..`
   before a filter) — parses and returns g(f(value)) for each value the steps and filters reach (nav_allf, defined on the
   document alone), in the order they reach them, dropping a value on which a function fails, failing when none is left.
   (The filters here hold no function calls, so the user functions called are exactly f, g, … on those values.) *)
From JP Require Import FiltChain FiltChainAddr FiltFun.
Theorem C14_functions_after_filters_from_text : forall cfg parse_float regex_ok ffun afun regex_match,
  (forall f v w, small v -> ffun f v = Some w -> small w) ->
  (forall f l w, Forall small l -> afun f l = Some w -> small w) ->
  forall x r f fs doc st, forallb fstep_ok (x :: r) = true -> forallb (fstep_okp parse_float regex_ok) (x :: r) = true ->
  forallb fname_ok (f :: fs) = true -> forallb (fun_known cfg) (f :: fs) = true -> small doc -> ok st ->
  exists t, parse_with cfg parse_float regex_ok jsonpath_grammar (fchain_fun_path (x :: r) (f :: fs)) = ParseOk t /\
            match funs_all cfg ffun (f :: fs) (nav_allf parse_float regex_match doc (x :: r) ([], doc)) with
            | [] => exists e, fst (eval_run ffun afun regex_match t doc st) = OErr e
            | l => fst (eval_run ffun afun regex_match t doc st) = OOk l
            end.
Proof. exact fchain_fun_retrieval. Qed.
Print Assumptions C14_functions_after_filters_from_text.
(* the same for a path written without its leading `$` (NoDollarFun.v): `a[?(@.k)].v.f().g()` *)
From JP Require Import NoDollarFun.
Theorem C14_functions_without_dollar_from_text : forall cfg parse_float regex_ok ffun afun regex_match,
  (forall f v w, small v -> ffun f v = Some w -> small w) ->
  (forall f l w, Forall small l -> afun f l = Some w -> small w) ->
  forall s l f fs doc st, step_ok s = true -> forallb fstep_ok l = true -> forallb (fstep_okp parse_float regex_ok) l = true ->
  forallb fname_ok (f :: fs) = true -> forallb (fun_known cfg) (f :: fs) = true -> small doc -> ok st ->
  exists t, parse_with cfg parse_float regex_ok jsonpath_grammar (fchain_fun_path0 s l (f :: fs)) = ParseOk t /\
            match funs_all cfg ffun (f :: fs) (nav_allf parse_float regex_match doc (FS (RPlain s) :: l) ([], doc)) with
            | [] => exists e, fst (eval_run ffun afun regex_match t doc st) = OErr e
            | r => fst (eval_run ffun afun regex_match t doc st) = OOk r
            end.
Proof. exact fchain_fun_retrieval0. Qed.
Print Assumptions C14_functions_without_dollar_from_text.

(* `$.a[?(@.k)].v.id()` : the function applied to the `v` of the members that have a `k` *)
Example C14_after_filters_example :
  let doc := VObj [("a", VArr [VObj [("k", VNull); ("v", VNum (num_of_Z 1))]; VObj [("v", VNum (num_of_Z 2))]; VObj [("k", VNull); ("v", VNum (num_of_Z 3))]])]%string in
  let ffun := fun (f : string) (v : value) => if String.eqb f "id" then Some v else None in
  let cfg := {| cfg_filters := ["id"%string]; cfg_aggs := []; cfg_accessor := false |} in
  let path := [FS (RPlain (SDot [97%N])); FE [RPlain (SDot [107%N])]; FS (RPlain (SDot [118%N]))] in
  text_of (fchain_fun_path path [[105; 100]%N]) = "$.a[?(@.k)].v.id()"%string /\
  forallb fstep_ok path = true /\ forallb (fun_known cfg) [[105; 100]%N] = true /\
  funs_all cfg ffun [[105; 100]%N] (nav_allf (fun _ => None) (fun _ _ => false) doc path ([], doc)) = [RVal (VNum (num_of_Z 1)); RVal (VNum (num_of_Z 3))].
Proof. cbv zeta. do 3 (split; [vm_compute; reflexivity|]). vm_compute. reflexivity. Qed.

(* … and the call log of such a retrieval is exactly: for each value the steps and filters reach, in that order, f on it, then
   g on what f returned, until one fails — the filters themselves call no user function (FiltFun.v: fchain_fun_node_fcf) *)
Theorem C14_calls_after_filters_from_text : forall cfg parse_float regex_ok ffun afun regex_match,
  (forall f v w, small v -> ffun f v = Some w -> small w) ->
  (forall f l w, Forall small l -> afun f l = Some w -> small w) ->
  forall x r f fs doc st, forallb fstep_ok (x :: r) = true -> forallb (fstep_okp parse_float regex_ok) (x :: r) = true ->
  forallb fname_ok (f :: fs) = true -> forallb (fun_known cfg) (f :: fs) = true -> small doc -> ok st ->
  exists t, parse_with cfg parse_float regex_ok jsonpath_grammar (fchain_fun_path (x :: r) (f :: fs)) = ParseOk t /\
            calls (snd (eval_run ffun afun regex_match t doc st)) =
            calls st ++ calls_all ffun (f :: fs) (nav_allf parse_float regex_match doc (x :: r) ([], doc)).
Proof. exact fchain_fun_calls. Qed.
Print Assumptions C14_calls_after_filters_from_text.

(* An aggregate function after steps and filters (FiltAgg.v): `$` steps-and-filters `.g()` `.f()`… — g is called exactly once, with
   all the values the steps and filters reach in the order they reach them (or with the elements of the array when the path is
   single-valued — no filter, wildcard, slice, `..` — and reaches an array), never when they reach nothing; its result is the
   single result, to which the filter functions after it apply left to right. *)
From JP Require Import FiltAgg.
Theorem C14_aggregate_after_filters_from_text : forall cfg parse_float regex_ok ffun afun regex_match,
  (forall f v w, small v -> ffun f v = Some w -> small w) ->
  (forall f l w, Forall small l -> afun f l = Some w -> small w) ->
  forall x r g fs doc st, forallb fstep_ok (x :: r) = true -> forallb (fstep_okp parse_float regex_ok) (x :: r) = true ->
  forallb fname_ok (g :: fs) = true -> agg_known cfg g = true -> forallb (fun_known cfg) fs = true -> small doc -> ok st ->
  exists t, parse_with cfg parse_float regex_ok jsonpath_grammar (fchain_fun_path (x :: r) (g :: fs)) = ParseOk t /\
            match fagg_outcome parse_float ffun afun regex_match (x :: r) g fs doc with
            | Some w => fst (eval_run ffun afun regex_match t doc st) = OOk [fun_result cfg w]
            | None => exists e, fst (eval_run ffun afun regex_match t doc st) = OErr e
            end.
Proof. exact fchain_agg_retrieval. Qed.
Print Assumptions C14_aggregate_after_filters_from_text.
(* the same for a path written without its leading `$` (NoDollarAgg.v): `a[?(@.k)].v.g().f()` *)
From JP Require Import NoDollarAgg.
Theorem C14_aggregate_without_dollar_from_text : forall cfg parse_float regex_ok ffun afun regex_match,
  (forall f v w, small v -> ffun f v = Some w -> small w) ->
  (forall f l w, Forall small l -> afun f l = Some w -> small w) ->
  forall s l g fs doc st, step_ok s = true -> forallb fstep_ok l = true -> forallb (fstep_okp parse_float regex_ok) l = true ->
  forallb fname_ok (g :: fs) = true -> agg_known cfg g = true -> forallb (fun_known cfg) fs = true -> small doc -> ok st ->
  exists t, parse_with cfg parse_float regex_ok jsonpath_grammar (fchain_fun_path0 s l (g :: fs)) = ParseOk t /\
            match fagg_outcome parse_float ffun afun regex_match (FS (RPlain s) :: l) g fs doc with
            | Some w => fst (eval_run ffun afun regex_match t doc st) = OOk [fun_result cfg w]
            | None => exists e, fst (eval_run ffun afun regex_match t doc st) = OErr e
            end.
Proof. exact fchain_agg_retrieval0. Qed.
Print Assumptions C14_aggregate_without_dollar_from_text.

(* `$.a[?(@.k)].v.cnt()` : the aggregate receives the `v` of the members that have a `k`, once *)
Example C14_aggregate_after_filters_example :
  let doc := VObj [("a", VArr [VObj [("k", VNull); ("v", VNum (num_of_Z 1))]; VObj [("v", VNum (num_of_Z 2))]; VObj [("k", VNull); ("v", VNum (num_of_Z 3))]])]%string in
  let afun := fun (g : string) (l : list value) => if String.eqb g "cnt" then Some (VNum (num_of_Z (Z.of_nat (List.length l)))) else None in
  let path := [FS (RPlain (SDot [97%N])); FE [RPlain (SDot [107%N])]; FS (RPlain (SDot [118%N]))] in
  text_of (fchain_fun_path path [[99; 110; 116]%N]) = "$.a[?(@.k)].v.cnt()"%string /\
  fagg_input (fun _ => None) (fun _ _ => false) path doc = [VNum (num_of_Z 1); VNum (num_of_Z 3)] /\
  fagg_outcome (fun _ => None) (fun _ _ => None) afun (fun _ _ => false) path [99; 110; 116]%N [] doc = Some (VNum (num_of_Z 2)).
Proof. cbv zeta. do 2 (split; [vm_compute; reflexivity|]). vm_compute. reflexivity. Qed.

(* … and its call log: g once with those values (not at all when there are none), then the filter functions on its result;
   the filters call nothing *)
Theorem C14_aggregate_calls_after_filters_from_text : forall cfg parse_float regex_ok ffun afun regex_match,
  (forall f v w, small v -> ffun f v = Some w -> small w) ->
  (forall f l w, Forall small l -> afun f l = Some w -> small w) ->
  forall x r g fs doc st, forallb fstep_ok (x :: r) = true -> forallb (fstep_okp parse_float regex_ok) (x :: r) = true ->
  forallb fname_ok (g :: fs) = true -> agg_known cfg g = true -> forallb (fun_known cfg) fs = true -> small doc -> ok st ->
  exists t, parse_with cfg parse_float regex_ok jsonpath_grammar (fchain_fun_path (x :: r) (g :: fs)) = ParseOk t /\
            calls (snd (eval_run ffun afun regex_match t doc st)) =
            calls st ++ fagg_calls parse_float ffun afun regex_match (x :: r) g fs doc.
Proof. exact fchain_agg_calls. Qed.
Print Assumptions C14_aggregate_calls_after_filters_from_text.
(* the call logs of the paths written without their leading `$` (NoDollarFun.v, NoDollarAgg.v) *)
Theorem C14_calls_without_dollar_from_text : forall cfg parse_float regex_ok ffun afun regex_match,
  (forall f v w, small v -> ffun f v = Some w -> small w) ->
  (forall f l w, Forall small l -> afun f l = Some w -> small w) ->
  forall s l f fs doc st, step_ok s = true -> forallb fstep_ok l = true -> forallb (fstep_okp parse_float regex_ok) l = true ->
  forallb fname_ok (f :: fs) = true -> forallb (fun_known cfg) (f :: fs) = true -> small doc -> ok st ->
  exists t, parse_with cfg parse_float regex_ok jsonpath_grammar (fchain_fun_path0 s l (f :: fs)) = ParseOk t /\
            calls (snd (eval_run ffun afun regex_match t doc st)) =
            calls st ++ calls_all ffun (f :: fs) (nav_allf parse_float regex_match doc (FS (RPlain s) :: l) ([], doc)).
Proof. exact fchain_fun_calls0. Qed.
Print Assumptions C14_calls_without_dollar_from_text.
Theorem C14_aggregate_calls_without_dollar_from_text : forall cfg parse_float regex_ok ffun afun regex_match,
  (forall f v w, small v -> ffun f v = Some w -> small w) ->
  (forall f l w, Forall small l -> afun f l = Some w -> small w) ->
  forall s l g fs doc st, step_ok s = true -> forallb fstep_ok l = true -> forallb (fstep_okp parse_float regex_ok) l = true ->
  forallb fname_ok (g :: fs) = true -> agg_known cfg g = true -> forallb (fun_known cfg) fs = true -> small doc -> ok st ->
  exists t, parse_with cfg parse_float regex_ok jsonpath_grammar (fchain_fun_path0 s l (g :: fs)) = ParseOk t /\
            calls (snd (eval_run ffun afun regex_match t doc st)) =
            calls st ++ fagg_calls parse_float ffun afun regex_match (FS (RPlain s) :: l) g fs doc.
Proof. exact fchain_agg_calls0. Qed.
Print Assumptions C14_aggregate_calls_without_dollar_from_text.
