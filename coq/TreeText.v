(* TreeText.v — remaining-path texts (C15): after the final pass set_ctext_deep every node that can report an
   error carries a non-empty ctext (ErrSpec.ctext_ok), provided the last node of every chain has a
   non-empty text and the inner identifiers of multi-name selectors are plain names or wildcards (tlp). *)
From JP Require Import Tree Actions Eval WF ErrSpec EvalInv3 TreeWf.
Open Scope string_scope.
Open Scope list_scope.

Definition nonempty_s (s : string) : bool := negb (String.eqb s "").

(* shape (and, when strict, the text of the last node of every chain) *)
Fixpoint tlp (strict : bool) (n : node) {struct n} : bool :=
  match n with
  | Node k b next =>
      (match k with
       | KMulti ids _ uq =>
           tlp_ids strict ids &&
           match uq with
           | OSome (Node uk _ unx) =>
               (match uk with KUnion _ => true | _ => false end) &&
               match unx with OSome m => tlp strict m | ONone => true end
           | ONone => true
           end
       | KAgg _ param => tlp false param
       | _ => true
       end) &&
      match next with
      | ONone => negb strict || nonempty_s (text b)
      | OSome m => tlp strict m
      end
  end
with tlp_ids (strict : bool) (ids : nodes) {struct ids} : bool :=
  match ids with
  | NNil => true
  | NCons (Node ik _ inx) r =>
      (match ik with KSingle _ | KWild => true | _ => false end) &&
      (match inx with OSome m => tlp strict m | ONone => true end) &&
      tlp_ids strict r
  end.

Fixpoint tlp_mono (n : node) : tlp true n = true -> tlp false n = true
with tlp_ids_mono (ids : nodes) : tlp_ids true ids = true -> tlp_ids false ids = true.
Proof.
  - destruct n as [k b next]. cbn [tlp]. intros H. apply andb_true_iff in H. destruct H as [Hk Hn].
    apply andb_true_iff. split.
    + destruct k as [| |key| |ids aw uq|mr lr|subs|q|f|f param]; try exact Hk.
      apply andb_true_iff in Hk. destruct Hk as [H1 H2]. apply andb_true_iff. split; [apply tlp_ids_mono; exact H1|].
      destruct uq as [|[uk ub unx]]; [reflexivity|]. apply andb_true_iff in H2. destruct H2 as [H3 H4].
      apply andb_true_iff. split; [exact H3|]. destruct unx as [|m]; [reflexivity|apply tlp_mono; exact H4].
    + destruct next as [|m]; [reflexivity|apply tlp_mono; exact Hn].
  - destruct ids as [|[ik ib inx] r]; [reflexivity|]. cbn [tlp_ids]. intros H.
    apply andb_true_iff in H. destruct H as [H Hr]. apply andb_true_iff in H. destruct H as [H1 H2].
    apply andb_true_iff. split; [apply andb_true_iff; split; [exact H1|]|apply tlp_ids_mono; exact Hr].
    destruct inx as [|m]; [reflexivity|apply tlp_mono; exact H2].
Qed.

Lemma tlp_weaken s n : tlp s n = true -> tlp false n = true.
Proof. destruct s; [apply tlp_mono|trivial]. Qed.

(* appending a continuation: only the shape of the prefix matters *)
Fixpoint tlp_append (s : bool) (n x : node) : tlp false n = true -> tlp s x = true -> tlp s (append_deep n x) = true
with tlp_ids_append (s : bool) (ids : nodes) (x : node) : tlp_ids false ids = true -> tlp s x = true -> tlp_ids s (append_ids ids x) = true.
Proof.
  - destruct n as [k b next]. intros Hn Hx. rewrite append_deep_eq. cbn [tlp] in *.
    apply andb_true_iff in Hn. destruct Hn as [Hk Hnx]. apply andb_true_iff. split.
    + destruct k as [| |key| |ids aw uq|mr lr|subs|q|f|f param]; try exact Hk.
      apply andb_true_iff in Hk. destruct Hk as [H1 H2]. apply andb_true_iff. split; [apply tlp_ids_append; assumption|].
      destruct uq as [|[uk ub unx]]; [reflexivity|]. apply andb_true_iff in H2. destruct H2 as [H3 H4].
      rewrite append_deep_eq. apply andb_true_iff. split; [destruct uk; try discriminate H3; reflexivity|].
      destruct unx as [|m]; [exact Hx|apply tlp_append; assumption].
    + destruct next as [|m]; [exact Hx|apply tlp_append; assumption].
  - destruct ids as [|[ik ib inx] r]; [reflexivity|]. intros H Hx. cbn [append_ids tlp_ids] in *. rewrite append_deep_eq.
    apply andb_true_iff in H. destruct H as [H Hr]. apply andb_true_iff in H. destruct H as [H1 H2].
    apply andb_true_iff. split; [apply andb_true_iff; split|apply tlp_ids_append; assumption].
    + destruct ik; try discriminate H1; reflexivity.
    + destruct inx as [|m]; [exact Hx|apply tlp_append; assumption].
Qed.

Fixpoint tlp_clear_acc (s : bool) (n : node) : tlp s (clear_acc n) = tlp s n
with tlp_ids_clear (s : bool) (ids : nodes) : tlp_ids s (clear_ids ids) = tlp_ids s ids.
Proof.
  - destruct n as [k b next]. rewrite clear_acc_eq. cbn [tlp]. f_equal.
    + destruct k as [| |key| |ids aw uq|mr lr|subs|q|f|f param]; try reflexivity.
      f_equal; [apply tlp_ids_clear|]. destruct uq as [|[uk ub unx]]; [reflexivity|].
      rewrite clear_acc_eq. f_equal; [destruct uk; reflexivity|]. destruct unx as [|m]; [reflexivity|apply tlp_clear_acc].
    + destruct next as [|m]; [reflexivity|apply tlp_clear_acc].
  - destruct ids as [|[ik ib inx] r]; [reflexivity|]. cbn [clear_ids tlp_ids]. rewrite clear_acc_eq. f_equal; [f_equal|apply tlp_ids_clear].
    + destruct ik; reflexivity.
    + destruct inx as [|m]; [reflexivity|apply tlp_clear_acc].
Qed.

Lemma tlp_set_node_vg s n : tlp s (set_node_vg n) = tlp s n.
Proof. destruct n as [k b nx]. reflexivity. Qed.
Lemma tlp_update_vg s n : tlp s (update_vg n) = tlp s n.
Proof. unfold update_vg. destruct (chain_vg n); [apply tlp_set_node_vg|reflexivity]. Qed.

Fixpoint tlp_delete_root (s : bool) (n : node) : tlp s n = true -> tlp s (delete_root n) = true.
Proof.
  destruct n as [k b next]. intros H.
  destruct k as [| |key| |ids aw uq|mr lr|subs|q|f|f param]; try exact H.
  - cbn [delete_root]. destruct next as [|nx]; [exact H|]. cbn [tlp andb] in H.
    destruct (vgroup b); [rewrite tlp_set_node_vg|]; exact H.
  - cbn [delete_root]. destruct next as [|nx]; [exact H|]. cbn [tlp andb] in H.
    destruct (vgroup b); [rewrite tlp_set_node_vg|]; exact H.
  - cbn [delete_root tlp] in *. apply andb_true_iff in H. destruct H as [H1 H2].
    apply andb_true_iff. split; [apply tlp_delete_root; exact H1|exact H2].
Qed.

(* ---------- the final pass ---------- *)
Lemma nonempty_app a b : nonempty_s a = true \/ nonempty_s b = true -> nonempty_s (a ++ b) = true.
Proof. destruct a; cbn; [intros [H|H]; [discriminate|exact H]|reflexivity]. Qed.

Definition head_ct (n : node) : string := ctext (node_basic n).

Fixpoint ctext_ok_set (s : bool) (n : node) (p : string) {struct n} :
  tlp s n = true -> (s = false -> nonempty_s p = true) ->
  ctext_ok (set_ctext_deep n p) = true /\ nonempty_s (head_ct (set_ctext_deep n p)) = true
with ctext_ok_ids_set (s : bool) (ids : nodes) (ct p : string) {struct ids} :
  tlp_ids s ids = true -> nonempty_s ct = true -> (s = false -> nonempty_s p = true) ->
  ctext_ok_ids (ctext_ids ids ct p) = true.
Proof.
  - destruct n as [k b next]. intros H Hp. cbn [tlp] in H. apply andb_true_iff in H. destruct H as [Hk Hn].
    cbn [set_ctext_deep].
    set (next' := match next with ONone => ONone | OSome m => OSome (set_ctext_deep m p) end).
    set (append_text := match next' with OSome m' => ctext (node_basic m') | ONone => p end).
    assert (Hnext : (match next' with OSome m => ctext_ok m | ONone => true end) = true /\
                    (nonempty_s (text b) = true \/ nonempty_s append_text = true)).
    { unfold append_text, next'. destruct next as [|m].
      - split; [reflexivity|]. destruct s; [left; cbn [negb orb] in Hn; exact Hn|right; apply Hp; reflexivity].
      - destruct (ctext_ok_set s m p Hn Hp) as [A B]. split; [exact A|right; exact B]. }
    destruct Hnext as [Hn1 Hn2].
    assert (Hct : nonempty_s (text b ++ append_text) = true) by (apply nonempty_app; exact Hn2).
    split; [|cbn [head_ct node_basic set_ctext ctext]; exact Hct].
    cbn [ctext_ok]. apply andb_true_iff. split; [apply andb_true_iff; split|exact Hn1].
    + cbn [set_ctext ctext]. exact Hct.
    + destruct k as [| |key| |ids aw uq|mr lr|subs|q|f|f param]; try reflexivity.
      * apply andb_true_iff in Hk. destruct Hk as [H1 H2]. apply andb_true_iff. split.
        -- apply (ctext_ok_ids_set s ids _ p H1 Hct Hp).
        -- destruct uq as [|[uk ub unx]]; [reflexivity|]. apply andb_true_iff in H2. destruct H2 as [H3 H4].
           cbn [ctext_ok]. apply andb_true_iff. split; [apply andb_true_iff; split|].
           ++ cbn [set_ctext ctext]. exact Hct.
           ++ destruct uk; try discriminate H3; reflexivity.
           ++ destruct unx as [|m]; [reflexivity|]. apply (ctext_ok_set s m p H4 Hp).
      * apply (ctext_ok_set false param _ Hk). intros _. exact Hct.
  - destruct ids as [|[ik ib inx] r]; [reflexivity|]. intros H Hct Hp. cbn [tlp_ids] in H.
    apply andb_true_iff in H. destruct H as [H Hr]. apply andb_true_iff in H. destruct H as [H1 H2].
    cbn [ctext_ids ctext_ok_ids]. apply andb_true_iff. split; [|apply (ctext_ok_ids_set s r ct p Hr Hct Hp)].
    cbn [ctext_ok]. apply andb_true_iff. split; [apply andb_true_iff; split|].
    + cbn [set_ctext ctext]. exact Hct.
    + destruct ik; try discriminate H1; reflexivity.
    + destruct inx as [|m]; [reflexivity|]. apply (ctext_ok_set s m p H2 Hp).
Qed.

(* ---------- nodes as the bracket rules leave them: no continuation anywhere yet ---------- *)
Definition simple_id (n : node) : bool := match node_kind n with KSingle _ | KWild => true | _ => false end.
Definition is_multi (n : node) : bool := match node_kind n with KMulti _ _ _ => true | _ => false end.
Fixpoint flat_ids (ids : nodes) : bool :=
  match ids with
  | NNil => true
  | NCons (Node _ _ inx) r => (match inx with ONone => true | OSome _ => false end) && flat_ids r
  end.
Definition flat (n : node) : bool :=
  match n with
  | Node k _ next =>
      (match next with ONone => true | OSome _ => false end) &&
      match k with
      | KMulti ids _ uq => flat_ids ids && match uq with OSome (Node _ _ (OSome _)) => false | _ => true end
      | _ => true
      end
  end.

Fixpoint flat_ids_tlp (ids : nodes) : flat_ids ids = true -> tlp_ids false ids = true -> tlp_ids true ids = true.
Proof.
  destruct ids as [|[ik ib inx] r]; [reflexivity|]. cbn [flat_ids tlp_ids]. intros Hf Ht.
  apply andb_true_iff in Hf. destruct Hf as [Hf1 Hf2].
  apply andb_true_iff in Ht. destruct Ht as [Ht Hr]. apply andb_true_iff in Ht. destruct Ht as [Ht1 _].
  destruct inx; [|discriminate]. rewrite Ht1, (flat_ids_tlp r Hf2 Hr). reflexivity.
Qed.
Lemma flat_tlp n : flat n = true -> tlp false n = true -> nonempty_s (text (node_basic n)) = true -> tlp true n = true.
Proof.
  destruct n as [k b next]. cbn [flat tlp node_basic]. intros Hf Ht Hx.
  apply andb_true_iff in Hf. destruct Hf as [Hf1 Hf2]. destruct next; [|discriminate].
  apply andb_true_iff in Ht. destruct Ht as [Hk _]. cbn [negb orb]. rewrite Hx, andb_true_r.
  destruct k as [| |key| |ids aw uq|mr lr|subs|q|f|f param]; try reflexivity; try exact Hk.
  apply andb_true_iff in Hf2. destruct Hf2 as [Hf3 Hf4]. apply andb_true_iff in Hk. destruct Hk as [Hk1 Hk2].
  rewrite (flat_ids_tlp ids Hf3 Hk1). cbn [andb].
  destruct uq as [|[uk ub unx]]; [reflexivity|]. destruct unx; [|discriminate].
  apply andb_true_iff in Hk2. destruct Hk2 as [Hk3 _]. rewrite Hk3. reflexivity.
Qed.

Lemma string_of_bytes_nonempty l : l <> [] -> nonempty_s (Text.string_of_bytes l) = true.
Proof. destruct l; [intros H; contradiction H; reflexivity|reflexivity]. Qed.
Lemma text_of_nonempty cps : cps <> [] -> nonempty_s (text_of cps) = true.
Proof.
  intros H. unfold text_of. apply string_of_bytes_nonempty. unfold utf8.
  destruct cps as [|c cs]; [contradiction H; reflexivity|]. cbn [flat_map].
  intros He. apply app_eq_nil in He. destruct He as [He _]. revert He.
  unfold utf8_cp. repeat match goal with |- context [if ?x then _ else _] => destruct x end; discriminate.
Qed.
Lemma unescape_cps_nonempty cps : cps <> [] -> unescape_cps cps <> [].
Proof.
  destruct cps as [|c0 tl]; [intros H; contradiction H; reflexivity|]. intros _. cbn [unescape_cps].
  destruct (N.eqb c0 92); [|discriminate]. destruct tl as [|c r]; [discriminate|]. destruct (N.eqb c 10); discriminate.
Qed.
