(* FunAddr.v — filter functions at the end of a path, from the path text: $ steps .f() .g() applies f, then g, to every
   value the steps reach, in the order the steps reach them; a value on which a function fails is dropped; the results
   carry no location. *)
From JP Require Import Peg Grammar Slice Text Tree Actions Json Eval WF Spec SortFacts EvalInv1 EvalInv4 EvalTop EndToEnd Codec KeyDefs KeyParse IdxParse SliceParse UnionParse WildParse RecParse ChainParse SpacePath FunParse ChainAddr CallDefs SpecCalls SpecCallsCompose StackRules.
From Coq Require Import Lia.
Open Scope list_scope.

Section FunAddr.
  Variable cfg : config.
  Variable parse_float : string -> option num.
  Variable regex_ok : string -> bool.
  Variable ffun : string -> value -> option value.
  Variable afun : string -> list value -> option value.
  Variable regex_match : string -> string -> bool.
  Hypothesis ffun_small : forall f v w, small v -> ffun f v = Some w -> small w.
  Hypothesis afun_small : forall f l w, Forall small l -> afun f l = Some w -> small w.
  Notation parse := (parse_with cfg parse_float regex_ok jsonpath_grammar).
  Notation eval_run := (eval_run ffun afun regex_match).
  Notation sp := (sp ffun afun regex_match).
  Notation fwd := (fwd ffun afun regex_match).

  (* the functions applied in the written order; None as soon as one of them fails *)
  Fixpoint apply_funs (fs : list (list N)) (v : value) : option value :=
    match fs with
    | [] => Some v
    | f :: r => match ffun (text_of f) v with Some w => apply_funs r w | None => None end
    end.

  Lemma fin_fpres f fs : exists b, fin (fpres cfg (f :: fs)) = OSome (Node (KFFun (text_of f)) b (fin (fpres cfg fs))) /\ accessor b = cfg_accessor cfg.
  Proof. cbn [fpres map fin fpre fst snd]. eexists. split; reflexivity. Qed.

  Lemma sp_ffun f b next root cur : sp (Node (KFFun f) b next) root cur =
    match ffun f (snd cur) with
    | Some v => match next with OSome nx => sp nx root (None, v) | ONone => [(b, false, (None, v))] end
    | None => []
    end.
  Proof. destruct next; reflexivity. Qed.

  Lemma sp_funs : forall fs f b, accessor b = cfg_accessor cfg ->
    exists B, accessor B = cfg_accessor cfg /\ forall root cur,
      sp (Node (KFFun (text_of f)) b (fin (fpres cfg fs))) root cur =
      match apply_funs (f :: fs) (snd cur) with Some w => [(B, false, (None, w))] | None => [] end.
  Proof.
    induction fs as [|g fs IH]; intros f b Hb.
    - exists b. split; [exact Hb|]. intros root cur. rewrite sp_ffun. cbn [fpres map fin apply_funs]. destruct (ffun (text_of f) (snd cur)); reflexivity.
    - destruct (fin_fpres g fs) as (c & Ef & Hc). destruct (IH g c Hc) as (B & HB & Hsp). exists B. split; [exact HB|].
      intros root cur. rewrite Ef, sp_ffun. cbn [apply_funs]. destruct (ffun (text_of f) (snd cur)) as [w|]; [|reflexivity].
      rewrite Hsp. reflexivity.
  Qed.

  Lemma fin_pres_tail x r tl : exists b1 b2, fin (pres cfg (x :: r) ++ tl) = OSome (seg x b1 b2 (fin (pres cfg r ++ tl))) /\ accessor b2 = cfg_accessor cfg.
  Proof.
    unfold pres. cbn [flat_map]. rewrite <- app_assoc. destruct x as [s|s]; cbn [rstep_pre app fin fst snd ChainAddr.seg].
    - eexists (pre_basic cfg s), _. split; [reflexivity|]. reflexivity.
    - eexists _, _. split; [reflexivity|]. destruct s as [q k|k|ds|[|]|sa sb sc|u us]; reflexivity.
  Qed.
  Lemma node_of_seg x r tl : exists b1 b2, node_of (pres cfg (x :: r) ++ tl) = seg x b1 b2 (fin (pres cfg r ++ tl)) /\ accessor b2 = cfg_accessor cfg.
  Proof.
    unfold pres. cbn [flat_map]. rewrite <- app_assoc. destruct x as [s|s]; cbn [rstep_pre app node_of fin fst snd ChainAddr.seg].
    - eexists (pre_basic cfg s), _. split; [reflexivity|]. reflexivity.
    - eexists _, _. split; [reflexivity|]. destruct s as [q k|k|ds|[|]|sa sb sc|u us]; reflexivity.
  Qed.

  (* the steps, then whatever follows them *)
  Lemma sp_chain_tail tl : tl <> [] -> forall r x b1 b2, forallb rstep_ok (x :: r) = true ->
    forall root p v, small v ->
      sp (seg x b1 b2 (fin (pres cfg r ++ tl))) root (Some p, v) =
      flat_map (fun lv => match fin tl with OSome nx => sp nx root (Some (fst lv), snd lv) | ONone => [] end) (nav_all (x :: r) (p, v)).
  Proof.
    intros Htl. induction r as [|y r IH]; intros x b1 b2 Hs root p v Hsm; cbn [forallb] in Hs; apply andb_true_iff in Hs; destruct Hs as [H1 H2].
    - change (pres cfg [] ++ tl) with tl. rewrite (sp_seg ffun afun regex_match) by assumption.
      cbn [nav_all]. rewrite flat_map_flat_map. apply flat_map_ext'. intros lv. cbn [flat_map]. rewrite app_nil_r. unfold ChainAddr.fwd. destruct tl as [|t0 tl']; [contradiction Htl; reflexivity|]. reflexivity.
    - destruct (fin_pres_tail y r tl) as (c1 & c2 & Ef & Hc).
      rewrite Ef, (sp_seg ffun afun regex_match) by assumption.
      cbn [nav_all]. rewrite flat_map_flat_map. apply flat_map_ext_in'. intros [l z] Hin. unfold ChainAddr.fwd. cbn [fst snd]. apply IH; [exact H2|].
      pose proof (nav1r_small x p v Hsm) as Hn. rewrite Forall_forall in Hn. exact (Hn (l, z) Hin).
  Qed.

  Definition fun_result (w : value) : res := if cfg_accessor cfg then RAcc false None w else RVal w.
  Definition funs_all (fs : list (list N)) (l : list (list pstep * value)) : list res :=
    flat_map (fun lv => match apply_funs fs (snd lv) with Some w => [fun_result w] | None => [] end) l.

  Lemma spec_chain_funs x r f fs doc : forallb rstep_ok (x :: r) = true -> small doc ->
    spec_results ffun afun regex_match (chain_fun_node cfg (x :: r) (f :: fs)) doc = funs_all (f :: fs) (nav_all (x :: r) ([], doc)).
  Proof.
    intros Hs Hsm. unfold chain_fun_node. destruct (node_of_seg x r (fpres cfg (f :: fs))) as (b1 & b2 & En & Hb).
    unfold spec_results. rewrite En, (sp_chain_tail (fpres cfg (f :: fs)) ltac:(discriminate) r x b1 b2 Hs) by exact Hsm.
    destruct (fin_fpres f fs) as (c & Ef & Hc). destruct (sp_funs fs f c Hc) as (B & HB & Hsp).
    unfold funs_all. rewrite map_flat_map'. apply flat_map_ext'. intros [l z]. rewrite Ef, Hsp. cbn [fst snd].
    destruct (apply_funs (f :: fs) z) as [w|]; [|reflexivity]. cbn [map wrap fst snd]. rewrite HB. unfold fun_result. destruct (cfg_accessor cfg); reflexivity.
  Qed.

  (* a path of steps followed by registered filter functions returns the functions applied, in the written order, to each
     value the steps reach, in the order the steps reach them; it fails exactly when nothing is left *)
  Theorem chain_fun_retrieval x r f fs doc st : forallb rstep_ok (x :: r) = true -> forallb fname_ok (f :: fs) = true ->
    forallb (fun_known cfg) (f :: fs) = true -> small doc -> ok st ->
    exists t, parse (chain_fun_path (x :: r) (f :: fs)) = ParseOk t /\
              match funs_all (f :: fs) (nav_all (x :: r) ([], doc)) with
              | [] => exists e, fst (eval_run t doc st) = OErr e
              | l => fst (eval_run t doc st) = OOk l
              end.
  Proof.
    intros Hs Hf Hk Hd Hok. exists (chain_fun_node cfg (x :: r) (f :: fs)).
    pose proof (parse_chain_fun_path cfg parse_float regex_ok x r (f :: fs) Hs Hf Hk) as Hp. split; [exact Hp|].
    pose proof (retrieve_end_to_end cfg parse_float regex_ok ffun afun regex_match ffun_small afun_small (chain_fun_path (x :: r) (f :: fs)) doc st Hd Hok) as H.
    rewrite Hp in H. rewrite (spec_chain_funs x r f fs doc Hs Hd) in H.
    destruct (funs_all (f :: fs) (nav_all (x :: r) ([], doc))) as [|a l] eqn:En.
    - destruct (fst (eval_run (chain_fun_node cfg (x :: r) (f :: fs)) doc st)) as [rs|e|pn].
      + destruct H as [H1 [H2 _]]. contradiction (H2 H1).
      + exists e. reflexivity.
      + contradiction.
    - destruct (fst (eval_run (chain_fun_node cfg (x :: r) (f :: fs)) doc st)) as [rs|e|pn].
      + destruct H as [H _]. rewrite H. reflexivity.
      + destruct H as [H _]. discriminate.
      + contradiction.
  Qed.

  (* ---------- the calls, in order ---------- *)
  Notation sc := (sc ffun afun regex_match).

  (* the calls the functions make on one value: f on it, then g on what f returned, ... until one fails *)
  Fixpoint fun_calls (fs : list (list N)) (v : value) : list call :=
    match fs with
    | [] => []
    | f :: r => CallF (text_of f) v :: match ffun (text_of f) v with Some w => fun_calls r w | None => [] end
    end.

  Lemma step_wf s b : step_ok s = true -> wf_node (Node (step_kind s) b ONone) = true.
  Proof.
    intros Hs. assert (Hr : forallb rstep_ok [RPlain s] = true) by (cbn [forallb rstep_ok]; rewrite Hs; reflexivity).
    pose proof (parse_builds_wf cfg parse_float regex_ok _ _ (parse_chain_path cfg parse_float regex_ok (RPlain s) [] Hr)) as H.
    exact H.
  Qed.

  Lemma sc_step s b nx root p v : step_ok s = true -> small v ->
    sc (Node (step_kind s) b (OSome nx)) root (Some p, v) = flat_map (fun lv => sc nx root (Some (fst lv), snd lv)) (nav1 s (p, v)).
  Proof.
    intros Hs Hsm.
    assert (Ea : Node (step_kind s) b (OSome nx) = append_deep (Node (step_kind s) b ONone) nx) by (destruct s as [q k|k|ds|[|]|sa sb sc0|u us]; reflexivity).
    assert (Hcf : call_free (Node (step_kind s) b ONone) = true) by (destruct s as [q k|k|ds|[|]|sa sb sc0|u us]; reflexivity).
    rewrite Ea, (sc_compose ffun afun regex_match _ (step_wf s b Hs) Hcf), (sp_step ffun afun regex_match s b ONone root p v Hs Hsm).
    rewrite cthen_flat_map. apply flat_map_ext'. intros lv. unfold ChainAddr.fwd, cthen. cbn [flat_map snd]. rewrite app_nil_r. reflexivity.
  Qed.

  Lemma sc_seg x b1 b2 nx root p v : rstep_ok x = true -> small v ->
    sc (seg x b1 b2 (OSome nx)) root (Some p, v) = flat_map (fun lv => sc nx root (Some (fst lv), snd lv)) (nav1r x (p, v)).
  Proof.
    intros Hs Hsm. destruct x as [s|s]; cbn [ChainAddr.seg nav1r rstep_ok] in *; [apply sc_step; assumption|].
    cbn [fst snd].
    assert (E : sc (Node (KRec (fst (rec_flags s)) (snd (rec_flags s))) b1 (OSome (Node (step_kind s) b2 (OSome nx)))) root (Some p, v) =
                flat_map (fun cu => sc (Node (step_kind s) b2 (OSome nx)) root cu) (containers (Some p) v)).
    { rewrite sc_unfold. cbn [fst snd]. apply flat_map_ext'. intros [l x].  cbn [snd].
      destruct s as [q k|k|ds|d|sa sb sc0|u us]; cbn [rec_flags fst snd step_kind]; destruct x; reflexivity. }
    rewrite E. rewrite flat_map_flat_map. apply flat_map_ext_in'. intros cu Hin.
    pose proof (containers_some v p Hsm) as Hc. rewrite Forall_forall in Hc. destruct (Hc cu Hin) as [[l Hl] Hsx].
    destruct cu as [ol x]. cbn [fst snd] in *. subst ol. unfold cu_loc. cbn [fst snd].
    apply sc_step; assumption.
  Qed.

  Lemma fin_some x tl : exists nx, fin (x :: tl) = OSome nx.
  Proof. cbn [fin]. eexists. reflexivity. Qed.

  Lemma sc_chain_tail tl : tl <> [] -> forall r x b1 b2, forallb rstep_ok (x :: r) = true ->
    forall root p v, small v ->
      sc (seg x b1 b2 (fin (pres cfg r ++ tl))) root (Some p, v) =
      flat_map (fun lv => match fin tl with OSome nx => sc nx root (Some (fst lv), snd lv) | ONone => [] end) (nav_all (x :: r) (p, v)).
  Proof.
    intros Htl. induction r as [|y r IH]; intros x b1 b2 Hs root p v Hsm; cbn [forallb] in Hs; apply andb_true_iff in Hs; destruct Hs as [H1 H2].
    - change (pres cfg [] ++ tl) with tl. destruct tl as [|t0 tl']; [contradiction Htl; reflexivity|].
      destruct (fin_some t0 tl') as (nx & En). rewrite En, sc_seg by assumption.
      cbn [nav_all]. rewrite flat_map_flat_map. apply flat_map_ext'. intros lv. cbn [flat_map]. rewrite app_nil_r. reflexivity.
    - destruct (fin_pres_tail y r tl) as (c1 & c2 & Ef & Hc).
      rewrite Ef, sc_seg by assumption.
      cbn [nav_all]. rewrite flat_map_flat_map. apply flat_map_ext_in'. intros [l z] Hin. cbn [fst snd]. apply IH; [exact H2|].
      pose proof (nav1r_small x p v Hsm) as Hn. rewrite Forall_forall in Hn. exact (Hn (l, z) Hin).
  Qed.

  Lemma sc_funs : forall fs f b root cur,
    sc (Node (KFFun (text_of f)) b (fin (fpres cfg fs))) root cur = fun_calls (f :: fs) (snd cur).
  Proof.
    induction fs as [|g fs IH]; intros f b root cur; rewrite sc_unfold; cbn [fun_calls].
    - cbn [fpres map fin]. unfold SpecCalls.cfwd. destruct (ffun (text_of f) (snd cur)); reflexivity.
    - destruct (fin_fpres g fs) as (c & Ef & _). rewrite Ef. unfold SpecCalls.cfwd. destruct (ffun (text_of f) (snd cur)) as [w|]; [|reflexivity].
      rewrite IH. reflexivity.
  Qed.

  Definition calls_all (fs : list (list N)) (l : list (list pstep * value)) : list call := flat_map (fun lv => fun_calls fs (snd lv)) l.

  Lemma sc_chain_funs x r f fs doc : forallb rstep_ok (x :: r) = true -> small doc ->
    sc (chain_fun_node cfg (x :: r) (f :: fs)) doc (Some [], doc) = calls_all (f :: fs) (nav_all (x :: r) ([], doc)).
  Proof.
    intros Hs Hsm. unfold chain_fun_node. destruct (node_of_seg x r (fpres cfg (f :: fs))) as (b1 & b2 & En & Hb).
    rewrite En, (sc_chain_tail (fpres cfg (f :: fs)) ltac:(discriminate) r x b1 b2 Hs) by exact Hsm.
    destruct (fin_fpres f fs) as (c & Ef & Hc). unfold calls_all. apply flat_map_ext'. intros [l z]. rewrite Ef, sc_funs. reflexivity.
  Qed.

  (* no filter anywhere in such a tree *)
  Definition nofilter (k : kind) : Prop := match k with KMulti _ _ _ | KFilter _ | KAgg _ _ => False | _ => True end.
  Lemma fin_fcf l : Forall (fun kb => nofilter (fst kb)) l -> (match fin l with OSome m => filters_call_free m | ONone => true end) = true.
  Proof.
    induction l as [|x l IH]; intros H; [reflexivity|]. inversion H as [|? ? Hx Hl]; subst. cbn [fin filters_call_free].
    rewrite (IH Hl). destruct (fst x); try contradiction; reflexivity.
  Qed.
  Lemma pres_nofilter steps : Forall (fun kb => nofilter (fst kb)) (pres cfg steps).
  Proof.
    induction steps as [|x r IH]; [constructor|]. unfold pres. cbn [flat_map]. apply Forall_app. split; [|exact IH].
    destruct x as [s|s]; cbn [rstep_pre]; repeat constructor; destruct s as [q k|k|ds|[|]|sa sb sc0|u us]; exact I.
  Qed.
  Lemma fpres_nofilter fs : Forall (fun kb => nofilter (fst kb)) (fpres cfg fs).
  Proof. induction fs as [|f r IH]; constructor; [exact I|exact IH]. Qed.
  Lemma chain_fun_node_fcf x r fs : filters_call_free (chain_fun_node cfg (x :: r) fs) = true.
  Proof.
    unfold chain_fun_node, node_of.
    assert (H : Forall (fun kb => nofilter (fst kb)) (pres cfg (x :: r) ++ fpres cfg fs)) by (apply Forall_app; split; [apply pres_nofilter|apply fpres_nofilter]).
    destruct (pres cfg (x :: r) ++ fpres cfg fs) as [|y l]; [reflexivity|]. inversion H as [|? ? Hy Hl]; subst.
    cbn [filters_call_free]. rewrite (fin_fcf l Hl). destruct (fst y); try contradiction; reflexivity.
  Qed.

  (* the call log of the retrieval: for each value the steps reach, in the order they reach them, f on it, then the next
     function on what f returned, and so on until one fails: once per value, left to right *)
  Theorem chain_fun_calls x r f fs doc st : forallb rstep_ok (x :: r) = true -> forallb fname_ok (f :: fs) = true ->
    forallb (fun_known cfg) (f :: fs) = true -> small doc -> ok st ->
    exists t, parse (chain_fun_path (x :: r) (f :: fs)) = ParseOk t /\
              calls (snd (eval_run t doc st)) = calls st ++ calls_all (f :: fs) (nav_all (x :: r) ([], doc)).
  Proof.
    intros Hs Hf Hk Hd Hok. exists (chain_fun_node cfg (x :: r) (f :: fs)).
    pose proof (parse_chain_fun_path cfg parse_float regex_ok x r (f :: fs) Hs Hf Hk) as Hp. split; [exact Hp|].
    rewrite (eval_call_log ffun afun regex_match ffun_small afun_small _ doc st (parse_builds_wf cfg parse_float regex_ok _ _ Hp) (chain_fun_node_fcf x r (f :: fs)) Hd Hok).
    rewrite (sc_chain_funs x r f fs doc Hs Hd). reflexivity.
  Qed.
End FunAddr.
