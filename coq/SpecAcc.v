(* SpecAcc.v — accessor mode changes only the wrapping (C12), on the specification: erasing every
   accessor flag of a tree whose function parameters and filter operands already carry no flag
   (what the parser guarantees by updateAccessorMode) selects the same cursors in the same order. *)
From JP Require Import Eval WF Spec AccDefs EvalInv3 Refine1.
From Coq Require Import Lia.
Open Scope string_scope.
Open Scope list_scope.

Lemma erase_b_id b : accessor b = false -> erase_b b = b.
Proof. destruct b as [t ct vg ac]. cbn. intros ->. reflexivity. Qed.

Definition E_node (n : node) : Prop := all_false n = true -> erase n = n.
Definition E_onode (o : onode) : Prop := match o with OSome n => E_node n | ONone => True end.
Definition E_nodes (ids : nodes) : Prop := all_false_ids ids = true -> erase_ids ids = ids.
Definition E_query (q : query) : Prop := all_false_q q = true -> erase_q q = q.
Definition E_pquery (p : pquery) : Prop := all_false_p p = true -> erase_p p = p.
Definition E_cparam (cp : cparam) : Prop := match cp with CP p _ => E_pquery p end.
Definition E_kind (k : kind) : Prop :=
  match k with
  | KMulti ids _ uq => E_nodes ids /\ E_onode uq
  | KFilter q => E_query q
  | KAgg _ p => E_node p
  | _ => True
  end.

Lemma erase_id :
  (forall n, E_node n) /\ (forall o, E_onode o) /\ (forall k, E_kind k) /\ (forall ids, E_nodes ids) /\
  (forall q, E_query q) /\ (forall cp, E_cparam cp) /\ (forall p, E_pquery p).
Proof.
  apply tree_mutind; try (intros; exact I).
  - intros k IHk b next IHn H. cbn [all_false] in H. repeat (apply andb_true_iff in H; destruct H as [H ?]).
    apply negb_true_iff in H. cbn [erase]. rewrite (erase_b_id b H).
    assert (Hn : match next with OSome m => OSome (erase m) | ONone => ONone end = next).
    { destruct next as [|m]; [reflexivity|]. rewrite (IHn H0). reflexivity. }
    rewrite Hn. clear Hn. f_equal.
    destruct k as [| |key| |ids aw uq|mr lr|subs|q|f|f param]; try reflexivity.
    + destruct IHk as [IHids IHuq]. apply andb_true_iff in H1. destruct H1 as [Hi Hu].
      rewrite (IHids Hi). destruct uq as [|u]; [reflexivity|]. rewrite (IHuq Hu). reflexivity.
    + rewrite (IHk H1). reflexivity.
    + rewrite (IHk H1). reflexivity.
  - intros n IH. exact IH.
  - intros ids IHids aw uq IHuq. split; assumption.
  - intros q IH. exact IH.
  - intros f p IH. exact IH.
  - intros _. reflexivity.
  - intros id IHid rest IHrest H. cbn [all_false_ids] in H. apply andb_true_iff in H. destruct H as [H1 H2].
    cbn [erase_ids]. rewrite (IHid H1), (IHrest H2). reflexivity.
  - intros a IHa b IHb H. cbn [all_false_q] in H. apply andb_true_iff in H. destruct H as [H1 H2].
    cbn [erase_q]. rewrite (IHa H1), (IHb H2). reflexivity.
  - intros a IHa b IHb H. cbn [all_false_q] in H. apply andb_true_iff in H. destruct H as [H1 H2].
    cbn [erase_q]. rewrite (IHa H1), (IHb H2). reflexivity.
  - intros a IHa H. cbn [all_false_q] in H. cbn [erase_q]. rewrite (IHa H). reflexivity.
  - intros [lp ll] IHl [rp rl] IHr c H. cbn [all_false_q] in H. apply andb_true_iff in H. destruct H as [H1 H2].
    cbn [erase_q]. rewrite (IHl H1), (IHr H2). reflexivity.
  - intros p IH H. cbn [all_false_q] in H. cbn [erase_q]. rewrite (IH H). reflexivity.
  - intros p IH lit. exact IH.
  - intros v _. reflexivity.
  - intros n IH H. cbn [all_false_p] in H. cbn [erase_p]. rewrite (IH H). reflexivity.
  - intros n IH H. cbn [all_false_p] in H. cbn [erase_p]. rewrite (IH H). reflexivity.
Qed.

(* ---------- parity ---------- *)
Definition erase_res (r : sres) : sres := let '(b, s, c) := r in (erase_b b, s, c).

Section Parity.
  Variable ffun : string -> value -> option value.
  Variable afun : string -> list value -> option value.
  Variable regex_match : string -> string -> bool.
  Notation sp := (sp ffun afun regex_match).
  Notation sp_ids := (sp_ids ffun afun regex_match).
  Notation sfwd := (sfwd ffun afun regex_match).
  Notation skey := (skey ffun afun regex_match).
  Notation sidx := (sidx ffun afun regex_match).

  Definition A_node (n : node) : Prop := acc_clean n = true -> forall root cur, sp (erase n) root cur = map erase_res (sp n root cur).
  Definition A_onode (o : onode) : Prop := match o with OSome n => A_node n | ONone => True end.
  Definition A_nodes (ids : nodes) : Prop :=
    acc_clean_ids ids = true -> forall root cur, sp_ids (erase_ids ids) root cur = map erase_res (sp_ids ids root cur).
  Definition A_kind (k : kind) : Prop := match k with KMulti ids _ uq => A_nodes ids /\ A_onode uq | _ => True end.
  Definition eo (o : onode) : onode := match o with OSome m => OSome (erase m) | ONone => ONone end.
  Definition aco (o : onode) : bool := match o with OSome m => acc_clean m | ONone => true end.

  Lemma sfwd_erase b next root settable cu : A_onode next -> aco next = true ->
    sfwd (erase_b b) (eo next) root settable cu = map erase_res (sfwd b next root settable cu).
  Proof. intros IH Hc. unfold Refine1.sfwd, eo. destruct next as [|m]; [reflexivity|apply IH; exact Hc]. Qed.
  Lemma skey_erase b next root cur m key : A_onode next -> aco next = true ->
    skey (erase_b b) (eo next) root cur m key = map erase_res (skey b next root cur m key).
  Proof. intros IH Hc. unfold Refine1.skey. destruct (lookup m key); [apply sfwd_erase; assumption|reflexivity]. Qed.
  Lemma sidx_erase b next root cur iv : A_onode next -> aco next = true ->
    sidx (erase_b b) (eo next) root cur iv = map erase_res (sidx b next root cur iv).
  Proof. intros IH Hc. unfold Refine1.sidx. apply sfwd_erase; assumption. Qed.

  Lemma map_flat_map' {A B C} (h : B -> C) (g : A -> list B) : forall l, map h (flat_map g l) = flat_map (fun a => map h (g a)) l.
  Proof. induction l as [|a l IH]; cbn [flat_map map]; [reflexivity|]. rewrite map_app, IH. reflexivity. Qed.

  Lemma wrap_value_erase r : res_value (Spec.wrap r) = res_value (Spec.wrap r) -> True.
  Proof. trivial. Qed.

  Lemma node_parity k b next : A_kind k -> A_onode next -> A_node (Node k b next).
  Proof.
    intros IHk IHn Hc root cur. cbn [acc_clean] in Hc. apply andb_true_iff in Hc. destruct Hc as [Hk Hnx].
    change (match next with OSome m => acc_clean m | ONone => true end) with (aco next) in Hnx.
    cbn [erase]. change (match next with OSome m => OSome (erase m) | ONone => ONone end) with (eo next).
    destruct (erase_id) as (EN & _ & _ & _ & EQ & _).
    destruct k as [| |key| |ids aw uq|mr lr|subs|q|f|f param]; rewrite !sp_unfold.
    - apply sfwd_erase; assumption.
    - apply sfwd_erase; assumption.
    - destruct (snd cur); cbv iota beta; try reflexivity. apply skey_erase; assumption.
    - destruct (snd cur); cbv iota beta; try reflexivity; rewrite map_flat_map'; apply flat_map_ext; intros x;
        [apply sidx_erase|apply skey_erase]; assumption.
    - destruct IHk as [IHids IHuq]. apply andb_true_iff in Hk. destruct Hk as [Hids Huq].
      destruct (snd cur); cbv iota beta; try (destruct aw; reflexivity).
      + destruct aw; [|reflexivity]. destruct uq as [|u]; [reflexivity|]. apply IHuq. exact Huq.
      + assert (H : sp_ids (erase_ids ids) root cur = map erase_res (sp_ids ids root cur)) by (apply IHids; exact Hids).
        destruct aw; exact H.
    - destruct next as [|nx]; cbn [eo]; [reflexivity|].
      rewrite map_flat_map'. apply flat_map_ext. intros cu.
      destruct (snd cu); try reflexivity; [destruct lr|destruct mr]; try reflexivity; apply IHn; exact Hnx.
    - destruct (snd cur); cbv iota beta; try reflexivity. rewrite map_flat_map'. apply flat_map_ext. intros sub.
      destruct (get_indexes sub _); [|reflexivity]. rewrite map_flat_map'. apply flat_map_ext. intros i.
      destruct (nth_value l i); [apply sidx_erase; assumption|reflexivity].
    - rewrite (EQ q Hk).
      destruct (snd cur); cbv iota beta zeta; try reflexivity; rewrite map_flat_map'; apply flat_map_ext.
      + intros [iv hb]. cbn [fst snd]. destruct hb; [apply sidx_erase; assumption|reflexivity].
      + intros [key hb]. cbn [fst snd]. destruct hb; [apply skey_erase; assumption|reflexivity].
    - destruct (ffun f (snd cur)); [apply sfwd_erase; assumption|reflexivity].
    - rewrite (EN param Hk). cbv zeta. destruct (sp param root cur); [reflexivity|].
      match goal with |- context [afun f ?a] => destruct (afun f a) end; [apply sfwd_erase; assumption|reflexivity].
  Qed.

  Theorem erase_parity : forall n, A_node n.
  Proof.
    assert (H : (forall n, A_node n) /\ (forall o, A_onode o) /\ (forall k, A_kind k) /\ (forall ns, A_nodes ns) /\
                (forall q : query, True) /\ (forall cp : cparam, True) /\ (forall p : pquery, True)).
    { apply tree_mutind; try (intros; exact I).
      - intros k IHk b next IHn. apply node_parity; assumption.
      - intros n IH. exact IH.
      - intros ids IHids aw uq IHuq. split; assumption.
      - intros _ root cur. reflexivity.
      - intros id IHid rest IHrest Hc root cur. cbn [acc_clean_ids] in Hc. apply andb_true_iff in Hc. destruct Hc as [H1 H2].
        change (sp_ids (erase_ids (NCons id rest)) root cur) with (sp (erase id) root cur ++ sp_ids (erase_ids rest) root cur).
        change (sp_ids (NCons id rest) root cur) with (sp id root cur ++ sp_ids rest root cur).
        rewrite map_app, IHid, IHrest by assumption. reflexivity. }
    exact (proj1 H).
  Qed.

  (* the value an Accessor's Get() yields / the plain value *)
  Definition plain (r : res) : value := match r with RVal v => v | RAcc _ _ v => v end.

  Lemma plain_wrap_erase r : plain (Spec.wrap (erase_res r)) = plain (Spec.wrap r).
  Proof. destruct r as [[b s] [l v]]. cbn. destruct (accessor b); reflexivity. Qed.

  (* accessor mode returns one result per value plain mode returns, in the same order, each yielding that
     value; hence it also fails exactly when plain mode fails *)
  Theorem parity_values : forall t doc, acc_clean t = true ->
    map plain (spec_results ffun afun regex_match (erase t) doc) = map plain (spec_results ffun afun regex_match t doc).
  Proof.
    intros t doc Hc. unfold spec_results. rewrite (erase_parity t Hc), !map_map.
    apply map_ext. intros r. apply plain_wrap_erase.
  Qed.

  (* without accessor flags every result is a plain value *)
  Lemma erased_is_plain r : exists v, Spec.wrap (erase_res r) = RVal v.
  Proof. destruct r as [[b s] [l v]]. exists v. reflexivity. Qed.
End Parity.
