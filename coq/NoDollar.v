(* NoDollar.v — the leading `$` may be omitted before a name, a bracket or a wildcard (C18): the path without it is
   accepted and builds the same chain of nodes (the first dot name keeps its text without the dot). *)
From JP Require Import Peg Grammar Slice Text Tree Actions PegFacts PegMono PegEv Codec FuelRules ParseFacts KeyDefs KeyParse IdxParse SliceParse WildParse RecParse ChainParse.
From Coq Require Import Lia.
Local Open Scope N_scope.
Open Scope list_scope.

Definition first_tokens (s : kstep) : list token :=
  match s with
  | SDot k => [TText 0 (List.length (esc_dot_cps k)); TAct 10]
  | SWild true => [TAct 12]
  | _ => step_tokens 0 s
  end.
Definition chain_tokens0 (s : kstep) (r : list rstep) : list token :=
  first_tokens s ++ steps_tokens (List.length (rec_body s)) r ++ [TAct 2; TAct 0].

(* rootNode without the root identifier: a bracket node or a dot child *)
Lemma ev_rule5_first s rest : step_ok s = true -> dot_stop rest ->
  evG (PRef 5) (rec_body s ++ rest) 0 (POk rest (List.length (rec_body s)) (first_tokens s)).
Proof.
  intros Hs Hr. eapply ev_ref; [reflexivity|].
  assert (H36 : forall c r0, rec_body s ++ rest = c :: r0 -> c <> 36 -> evG (PRef 11) (rec_body s ++ rest) 0 PFail).
  { intros c r0 E Hc. rewrite E. eapply ev_ref; [reflexivity|]. apply ev_seq_fail. apply (ev_lit_fail G [36]). apply strip1_no. exact Hc. }
  destruct s as [q k|k|ds|[|]|a b c0|u us].
  - apply ev_alt_r; [eapply (H36 91); [reflexivity|discriminate]|]. apply ev_alt_l.
    cbn [rec_body first_tokens]. exact (ev_rule10_step (SBr q k) rest 0 Hs I).
  - destruct k as [|c k]; [discriminate Hs|]. cbn [step_ok] in Hs. cbn [rec_body first_tokens].
    destruct (dot_first c k) as (x & r0 & Hx & H42 & H46).
    assert (Hx36 : x <> 36 /\ x <> 91).
    { unfold esc_dot_cps in Hx. cbn [flat_map] in Hx. destruct (dot_sym c) eqn:Es; cbn [app] in Hx; inversion Hx; subst.
      - split; discriminate.
      - split; intros ->; discriminate Es. }
    apply ev_alt_r; [apply (H36 x (r0 ++ rest)); [cbn [rec_body]; rewrite Hx; reflexivity|tauto]|].
    apply ev_alt_r; [rewrite Hx; cbn [app]; apply ev_rule10_fail; tauto|].
    eapply ev_conv; [apply (ev_rule13 c k rest 0 Hs Hr)|]. reflexivity.
  - apply ev_alt_r; [eapply (H36 91); [reflexivity|discriminate]|]. apply ev_alt_l.
    cbn [rec_body first_tokens]. exact (ev_rule10_step (SIdx ds) rest 0 Hs I).
  - apply ev_alt_r; [eapply (H36 42); [reflexivity|discriminate]|].
    apply ev_alt_r; [cbn [rec_body app]; apply ev_rule10_fail; discriminate|].
    cbn [rec_body first_tokens app List.length]. eapply ev_ref; [exact rule13_shape|]. apply ev_alt_l. apply ev_rule17.
  - apply ev_alt_r; [eapply (H36 91); [reflexivity|discriminate]|]. apply ev_alt_l.
    cbn [rec_body first_tokens]. exact (ev_rule10_step (SWild false) rest 0 Hs I).
  - apply ev_alt_r; [eapply (H36 91); [reflexivity|discriminate]|]. apply ev_alt_l.
    cbn [rec_body first_tokens]. exact (ev_rule10_step (SSlice a b c0) rest 0 Hs I).
  - apply ev_alt_r; [eapply (H36 91); [reflexivity|discriminate]|]. apply ev_alt_l.
    cbn [rec_body first_tokens]. exact (ev_rule10_step (SUnion u us) rest 0 Hs I).
Qed.

Lemma rec_body_head s : step_ok s = true -> exists c r0, rec_body s = c :: r0 /\ c <> 32.
Proof.
  intros Hs. destruct s as [q k|k|ds|[|]|a b c0|u us]; cbn [rec_body render_step]; try (eexists _, _; split; [reflexivity|discriminate]).
  destruct k as [|c k]; [discriminate Hs|]. destruct (dot_first c k) as (x & r0 & Hx & _ & _). exists x, r0. split; [exact Hx|].
  unfold esc_dot_cps in Hx. cbn [flat_map] in Hx. destruct (dot_sym c) eqn:Es; cbn [app] in Hx; inversion Hx; subst; [discriminate|].
  intros ->. discriminate Es.
Qed.

Lemma ev_chain_path0 s r : step_ok s = true -> forallb rstep_ok r = true ->
  evG (PRef 0) (chain_path0 s r) 0 (POk [] (List.length (rec_body s) + List.length (render_steps r)) (chain_tokens0 s r)).
Proof.
  intros Hs Hr. unfold chain_path0, chain_tokens0. destruct (rec_body_head s Hs) as (c & r0 & Hc & H32). eapply ev_conv.
  - eapply ev_ref; [reflexivity|]. apply ev_alt_l.
    eapply ev_seq_ok; [| |reflexivity].
    + eapply ev_ref; [reflexivity|].
      eapply ev_seq_ok; [rewrite Hc; cbn [app]; apply ev_space_stop; exact H32| |reflexivity].
      change (c :: r0 ++ render_steps r) with ((c :: r0) ++ render_steps r). rewrite <- Hc.
      eapply ev_seq_ok; [apply (ev_rule5_first s (render_steps r) Hs (steps_stop r))| |reflexivity].
      eapply ev_ref; [reflexivity|].
      eapply ev_seq_ok; [apply (ev_steps_star r); exact Hr| |reflexivity].
      eapply ev_seq_ok; [apply ev_star_stop; apply ev_rule8_eof| |reflexivity].
      eapply ev_seq_ok; [apply ev_space_eof|apply ev_act|reflexivity].
    + eapply ev_seq_ok; [| apply ev_act |reflexivity].
      eapply ev_ref; [reflexivity|]. apply ev_not_ok. apply ev_any_fail.
  - cbn [app]. rewrite <- !app_assoc. cbn [app]. reflexivity.
Qed.
Lemma peg_chain_path0 s r : step_ok s = true -> forallb rstep_ok r = true ->
  peg_parse G (chain_path0 s r) = POk [] (List.length (rec_body s) + List.length (render_steps r)) (chain_tokens0 s r).
Proof. intros Hs Hr. apply ev_peg_parse; [apply ev_chain_path0; assumption|apply peg_never_out_of_fuel]. Qed.

Section NoDollarExec.
  Variable cfg : config.
  Variable parse_float : string -> option num.
  Variable regex_ok : string -> bool.
  Notation execute := (execute cfg parse_float regex_ok).
  Notation exec_action := (exec_action cfg parse_float regex_ok).

  Definition first_node (s : kstep) : node := Node (step_kind s) (rec_inner_basic cfg s) ONone.

  Lemma exec_first input s toks rest : step_ok s = true -> input = rec_body s ++ rest ->
    exists cps' b', execute (first_tokens s ++ toks) input [] 0 ps_init = execute toks input cps' b' (mk [INode (first_node s)]).
  Proof.
    intros Hs Hin. change ps_init with (mk []).
    assert (Hbr : (match s with SDot _ | SWild true => False | _ => True end) ->
                  exists cps' b', execute (step_tokens 0 s ++ toks) input [] 0 (mk []) = execute toks input cps' b' (mk [INode (first_node s)])).
    { intros Hb. eexists _, _. rewrite (exec_step cfg parse_float regex_ok input 0 s [] toks [] 0 rest Hs).
      - cbn [app]. unfold pre_node, first_node. destruct s as [q k|k|ds|[|]|a b c0|u us]; try contradiction; reflexivity.
      - cbn [skipn]. rewrite Hin. rewrite rec_body_bracket by exact Hb. reflexivity. }
    destruct s as [q k|k|ds|[|]|a b c0|u us]; try (apply Hbr; exact I).
    - destruct k as [|c k]; [discriminate Hs|]. cbn [step_ok] in Hs. cbn [first_tokens app Actions.execute]. cbn [rec_body] in Hin.
      assert (E1 : sub_list input 0 (List.length (esc_dot_cps (c :: k))) = esc_dot_cps (c :: k)).
      { pose proof (sub_at input 0 0 [] (esc_dot_cps (c :: k)) rest) as H. cbn [Nat.add] in H. apply H; [|reflexivity]. cbn [skipn app]. exact Hin. }
      rewrite E1.
      assert (E10 : forall bg st, exec_action 10 (esc_dot_cps (c :: k)) bg st = AOk (push_single cfg (string_of_bytes (utf8 (c :: k))) st)).
      { intros bg st. cbn [Actions.exec_action]. rewrite esc_dot_cps_eq, unescape_dot_esc; [reflexivity|exact dot_sym_92|apply dot_char_not_nl; exact Hs]. }
      rewrite E10. cbn [abind]. eexists _, _. reflexivity.
    - cbn [first_tokens app Actions.execute]. eexists _, _. reflexivity.
  Qed.

  Lemma chain_fold_gen k b steps : plain_kind k -> forall l, Forall (fun kb => plain_kind (fst kb)) l ->
    fold_left chain_step (map (fun s => INode (rpre_node cfg s)) steps) (AOk (Node k b (link l))) =
    AOk (Node k b (link (l ++ pres cfg steps))).
  Proof.
    intros Hk. induction steps as [|s r IH]; intros l Hl; cbn [map fold_left]; [unfold pres; cbn [flat_map]; rewrite app_nil_r; reflexivity|].
    rewrite rpre_not_agg. unfold rpre_node.
    rewrite (append_link k b l (rstep_pre cfg s) Hk Hl) by (destruct s; discriminate).
    rewrite IH by (apply Forall_app; split; [exact Hl|apply rstep_pre_plain]).
    unfold pres. cbn [flat_map]. rewrite <- app_assoc. reflexivity.
  Qed.

  (* the tree of the path written without $ : the nodes of the steps, the first one with the text of its bare spelling *)
  Definition pres0 (s : kstep) (r : list rstep) : list (kind * basic) := (step_kind s, rec_inner_basic cfg s) :: pres cfg r.
  Definition chain_node0 (s : kstep) (r : list rstep) : node :=
    Node (step_kind s) (set_ctext (text (rec_inner_basic cfg s) ++ ctx (pres cfg r)) (set_vgroup (any_vg (pres0 s r)) (rec_inner_basic cfg s)))
         (fin (pres cfg r)).

  Theorem parse_chain_path0 s r : step_ok s = true -> forallb rstep_ok r = true ->
    parse_with cfg parse_float regex_ok G (chain_path0 s r) = ParseOk (chain_node0 s r).
  Proof.
    intros Hs Hr. unfold parse_with, parse_from. rewrite (peg_chain_path0 s r Hs Hr). unfold chain_tokens0.
    destruct (exec_first (chain_path0 s r) s (steps_tokens (List.length (rec_body s)) r ++ [TAct 2; TAct 0]) (render_steps r) Hs eq_refl) as (c1 & b1 & E1).
    rewrite E1. clear E1.
    assert (Hsk : skipn (List.length (rec_body s)) (chain_path0 s r) = render_steps r).
    { unfold chain_path0. rewrite skipn_app, skipn_all, Nat.sub_diag. reflexivity. }
    destruct (exec_steps cfg parse_float regex_ok (chain_path0 s r) r (List.length (rec_body s)) [INode (first_node s)] [TAct 2; TAct 0] c1 b1 Hr Hsk) as (cps' & b' & E).
    rewrite E. clear E. cbn [app Actions.execute].
    change (exec_action 2 cps' b' ?st) with (abind (set_node_chain st) update_root_vg).
    assert (Hk : plain_kind (step_kind s)) by (apply step_kind_plain).
    assert (Hchain : set_node_chain (mk (INode (first_node s) :: map (fun x => INode (rpre_node cfg x)) r)) =
                     AOk (mk [INode (Node (step_kind s) (rec_inner_basic cfg s) (link (pres cfg r)))])).
    { unfold set_node_chain, mk. cbn [params]. destruct r as [|x r'].
      - reflexivity.
      - cbn [map]. pose proof (chain_fold_gen (step_kind s) (rec_inner_basic cfg s) (x :: r') Hk [] (Forall_nil _)) as F.
        cbn [link app map] in F. unfold first_node. rewrite F. reflexivity. }
    rewrite Hchain. cbn [abind]. unfold update_root_vg, mk. cbn [params with_params saved proot abind].
    unfold with_params. cbn [params saved proot].
    change (exec_action 0 cps' b' ?st) with
      (abind (pop_node st) (fun '(rt, st1) => AOk {| params := params st1; saved := saved st1; proot := Some (set_ctext_deep (delete_root rt) "") |})).
    unfold pop_node, pop. cbn [params rev app abind with_params saved proot].
    assert (Ev : delete_root (update_vg (Node (step_kind s) (rec_inner_basic cfg s) (link (pres cfg r)))) =
                 Node (step_kind s) (set_vgroup (any_vg (pres0 s r)) (rec_inner_basic cfg s)) (link (pres cfg r))).
    { unfold update_vg. cbn [chain_vg]. rewrite link_vg. unfold pres0. cbn [any_vg existsb snd]. fold (any_vg (pres cfg r)).
      destruct (vgroup (rec_inner_basic cfg s) || any_vg (pres cfg r)) eqn:Ea.
      - cbn [set_node_vg]. destruct s as [q k|k|ds|[|]|a b c0|u us]; reflexivity.
      - apply orb_false_iff in Ea. destruct Ea as [Ea _]. pose proof (set_vgroup_same (rec_inner_basic cfg s)) as Hsame. rewrite Ea in Hsame. rewrite Hsame.
        destruct s as [q k|k|ds|[|]|a b c0|u us]; reflexivity. }
    rewrite Ev. rewrite (set_ctext_link _ _ (pres cfg r) Hk (pres_plain cfg r)). reflexivity.
  Qed.
End NoDollarExec.
