(* EvalInv2.v — the comparison part of the evaluator invariant: validate and comparator_run keep
   the package-level lists untouched, never reach a panic site, and keep list lengths. *)
From JP Require Import Eval WF Verdict EvalInv1.
From Coq Require Import Lia.
Open Scope list_scope.

Section Cmp.
  Variable regex_match : string -> string -> bool.

  Lemma cmp_list_length c right : forall l i,
    List.length (fst (fst (fst (cmp_list regex_match c right l i)))) = List.length l.
  Proof.
    induction l as [|x l IH]; intros i; cbn [cmp_list]; [reflexivity|].
    specialize (IH (S i)). destruct (cmp_list regex_match c right l (S i)) as [[[r ws] hv] pn]. cbn [fst] in IH.
    destruct (cmp_entry regex_match c right x) as [[[|]|] pn0]; cbn [fst List.length]; rewrite IH; reflexivity.
  Qed.

  Definition cmp_safe (c : comparator) (right : entry) : Prop :=
    match c with
    | CDirectEq vd => validated vd right
    | CDeepEq => True
    | CLt | CLe | CGt | CGe => exists b, right = Some (VNum b)
    | CRegex _ => True
    end.
  Definition vd_of (c : comparator) : option validator := validator_of c.

  Lemma cmp_entry_safe c right x :
    cmp_safe c right ->
    (match validator_of c with Some vd => validated vd x | None => True end) ->
    snd (cmp_entry regex_match c right x) = None.
  Proof.
    intros Hs Hx. destruct c as [vd| | | | | |re]; cbn [validator_of] in Hx; cbn [cmp_entry].
    - (* direct eq *)
      cbn [cmp_safe] in Hs.
      destruct x as [v|], right as [w|]; cbn [iface_eq]; try reflexivity.
      destruct vd, v; cbn in Hx; try contradiction; destruct w; cbn in Hs; try contradiction; reflexivity.
    - destruct x; reflexivity.
    - destruct Hs as [b ->]. destruct x as [v|]; [|reflexivity]. destruct v; cbn in Hx; try contradiction. reflexivity.
    - destruct Hs as [b ->]. destruct x as [v|]; [|reflexivity]. destruct v; cbn in Hx; try contradiction. reflexivity.
    - destruct Hs as [b ->]. destruct x as [v|]; [|reflexivity]. destruct v; cbn in Hx; try contradiction. reflexivity.
    - destruct Hs as [b ->]. destruct x as [v|]; [|reflexivity]. destruct v; cbn in Hx; try contradiction. reflexivity.
    - destruct x as [v|]; [|reflexivity]. destruct v; cbn in Hx; try contradiction. reflexivity.
  Qed.

  Lemma cmp_list_safe c right : forall l i,
    cmp_safe c right ->
    Forall (fun x => match validator_of c with Some vd => validated vd x | None => True end) l ->
    snd (cmp_list regex_match c right l i) = None.
  Proof.
    induction l as [|x l IH]; intros i Hs Hl; cbn [cmp_list]; [reflexivity|].
    inversion Hl as [|? ? Hx Hl']; subst.
    specialize (IH (S i) Hs Hl'). destruct (cmp_list regex_match c right l (S i)) as [[[r ws] hv] pn]. cbn [snd] in IH. subst pn.
    pose proof (cmp_entry_safe c right x Hs Hx) as He.
    destruct (cmp_entry regex_match c right x) as [vr pn0]. cbn [snd] in He. subst pn0.
    destruct vr as [[|]|]; reflexivity.
  Qed.
End Cmp.

(* ---------- validate ---------- *)
Lemma validate_own c l st :
  exists l', validate c (Own l) st = (match validator_of c with Some vd => existsb (valid_entry vd) l | None => has_value l end, Own l', st)
             /\ List.length l' = List.length l
             /\ Forall (fun x => match validator_of c with Some vd => validated vd x | None => True end) l'
             /\ (List.length l = 1 ->
                 (match validator_of c with Some vd => existsb (valid_entry vd) l | None => has_value l end) = true ->
                 exists v, l' = [Some v]).
Proof.
  unfold validate. cbn [lget]. destruct (validator_of c) as [vd|] eqn:Ev.
  - pose proof (rewrite_list_length (validate_entry vd) l 0) as HL.
    pose proof (rewrite_list_validated vd l 0) as HV.
    destruct (rewrite_list (validate_entry vd) l 0) as [l' ws] eqn:ER. cbn [fst] in HL, HV. cbn [commit].
    exists l'. repeat split; try assumption.
    intros H1 Hv. apply length1 in H1. destruct H1 as [x ->]. cbn [existsb] in Hv. rewrite orb_false_r in Hv.
    destruct (rewrite_list_valid_hd vd x 0 Hv) as [v [Hr _]]. rewrite ER in Hr. cbn [fst] in Hr. exists v. exact Hr.
  - exists l. repeat split; try reflexivity.
    + apply Forall_forall. intros; exact I.
    + intros H1 Hv. apply length1 in H1. destruct H1 as [x ->]. cbn in Hv.
      destruct x as [v|]; [exists v; reflexivity|discriminate].
Qed.

Lemma validate_gempty c st : good st -> validate c GEmpty st = (false, GEmpty, st).
Proof.
  intros [G _]. unfold validate. cbn [lget]. rewrite G.
  destruct (validator_of c) as [vd|]; [|reflexivity]. reflexivity.
Qed.

Lemma validate_gfull_deep st : good st -> validate CDeepEq GFull st = (true, GFull, st).
Proof. intros [_ G]. unfold validate. cbn [lget validator_of]. rewrite G. reflexivity. Qed.
