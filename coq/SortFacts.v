(* SortFacts.v — the order in which object members are visited (C07): sorted_keys is sorted by the
   byte-wise order String.leb, and it depends only on the SET of keys, not on the order of the
   association list (so not on how the Go map was built or iterated); lookup likewise. *)
From JP Require Import Json.
From Coq Require Import OrderedTypeEx Sorting.Permutation Sorting.Sorted Lia.
Open Scope list_scope.

Lemma leb_iff a b : String.leb a b = true <-> a = b \/ String_as_OT.lt a b.
Proof.
  unfold String.leb. pose proof (String_as_OT.cmp_eq a b) as He. pose proof (String_as_OT.cmp_lt a b) as Hl.
  unfold String_as_OT.cmp in *. destruct (String.compare a b); split; intros H; try discriminate; try reflexivity.
  - left. apply He. reflexivity.
  - right. apply Hl. reflexivity.
  - destruct H as [H|H]; [apply He in H; discriminate|apply Hl in H; discriminate].
Qed.

Lemma leb_trans a b c : String.leb a b = true -> String.leb b c = true -> String.leb a c = true.
Proof.
  rewrite !leb_iff. intros [->|H1] [->|H2]; auto. right. eapply String_as_OT.lt_trans; eassumption.
Qed.
Lemma leb_refl a : String.leb a a = true.
Proof. apply leb_iff. left. reflexivity. Qed.
Lemma leb_false_rev a b : String.leb a b = false -> String.leb b a = true.
Proof. intros H. destruct (String.leb_total a b) as [H'|H']; [congruence|exact H']. Qed.

Definition le (a b : string) : Prop := String.leb a b = true.

Lemma in_insert k : forall l y, In y (insert_key k l) -> y = k \/ In y l.
Proof.
  induction l as [|z l IH]; cbn [insert_key]; intros y Hy.
  - destruct Hy as [<-|[]]. left. reflexivity.
  - destruct (String.leb k z).
    + destruct Hy as [<-|Hy]; [left; reflexivity|right; exact Hy].
    + destruct Hy as [<-|Hy]; [right; left; reflexivity|]. destruct (IH y Hy) as [->|H]; [left; reflexivity|right; right; exact H].
Qed.

(* insertion keeps sortedness *)
Lemma insert_sorted k l : StronglySorted le l -> StronglySorted le (insert_key k l).
Proof.
  induction 1 as [|x l Hs IH Hx]; cbn [insert_key]; [repeat constructor|].
  destruct (String.leb k x) eqn:E.
  - constructor; [constructor; assumption|]. constructor; [exact E|].
    eapply Forall_impl; [|exact Hx]. intros y Hy. eapply leb_trans; eassumption.
  - constructor; [exact IH|]. apply leb_false_rev in E.
    apply Forall_forall. intros y Hy. destruct (in_insert k l y Hy) as [->|Hy']; [exact E|].
    rewrite Forall_forall in Hx. apply Hx. exact Hy'.
Qed.

Theorem sort_keys_sorted l : StronglySorted le (sort_keys l).
Proof. unfold sort_keys. induction l as [|k l IH]; cbn [fold_right]; [constructor|apply insert_sorted; exact IH]. Qed.

Lemma insert_perm k l : Permutation (k :: l) (insert_key k l).
Proof.
  induction l as [|x l IH]; cbn [insert_key]; [reflexivity|].
  destruct (String.leb k x); [reflexivity|]. rewrite perm_swap. constructor. exact IH.
Qed.
Lemma sort_keys_perm l : Permutation l (sort_keys l).
Proof.
  unfold sort_keys. induction l as [|k l IH]; cbn [fold_right]; [constructor|].
  rewrite <- insert_perm. constructor. exact IH.
Qed.

(* two sorted lists with the same elements (as multisets) are equal *)
Lemma sorted_perm_eq : forall l l', StronglySorted le l -> StronglySorted le l' -> Permutation l l' -> l = l'.
Proof.
  induction l as [|x l IH]; intros l' Hs Hs' Hp.
  - apply Permutation_nil in Hp. subst. reflexivity.
  - destruct l' as [|y l']; [apply Permutation_sym, Permutation_nil in Hp; discriminate|].
    inversion Hs as [|? ? Hsl Hx]; subst. inversion Hs' as [|? ? Hsl' Hy]; subst.
    assert (Hxy : x = y).
    { assert (Hx_in : In x (y :: l')) by (eapply Permutation_in; [exact Hp|left; reflexivity]).
      assert (Hy_in : In y (x :: l)) by (eapply Permutation_in; [apply Permutation_sym; exact Hp|left; reflexivity]).
      destruct Hx_in as [->|Hx_in]; [reflexivity|]. destruct Hy_in as [->|Hy_in]; [reflexivity|].
      rewrite Forall_forall in Hx, Hy. apply String.leb_antisym; [apply Hx; exact Hy_in|apply Hy; exact Hx_in]. }
    subst y. f_equal. apply IH; try assumption. eapply Permutation_cons_inv. exact Hp.
Qed.

(* the visiting order depends only on the set of keys *)
Theorem sort_keys_perm_invariant l l' : Permutation l l' -> sort_keys l = sort_keys l'.
Proof.
  intros Hp. apply sorted_perm_eq; try apply sort_keys_sorted.
  rewrite <- (sort_keys_perm l), <- (sort_keys_perm l'). exact Hp.
Qed.

Theorem sorted_keys_perm_invariant (m m' : list (string * value)) : Permutation m m' -> sorted_keys m = sorted_keys m'.
Proof. intros Hp. unfold sorted_keys. apply sort_keys_perm_invariant. apply Permutation_map. exact Hp. Qed.

(* member lookup does not depend on the order of the association list either (keys are distinct) *)
Lemma lookup_in_nodup : forall m k v, NoDup (map fst m) -> In (k, v) m -> lookup m k = Some v.
Proof.
  induction m as [|[k' a] m IH]; intros k v Hn Hin; [contradiction|]. cbn [lookup]. cbn [map fst] in Hn.
  inversion Hn as [|? ? Hnot Hn']; subst. destruct Hin as [Heq|Hin].
  - inversion Heq; subst. rewrite String.eqb_refl. reflexivity.
  - destruct (String.eqb k k') eqn:E.
    + apply String.eqb_eq in E. subst k'. exfalso. apply Hnot. apply in_map_iff. exists (k, v). split; [reflexivity|exact Hin].
    + apply IH; assumption.
Qed.
Lemma lookup_some_in : forall m k v, lookup m k = Some v -> In (k, v) m.
Proof.
  induction m as [|[k' a] m IH]; intros k v H; cbn [lookup] in H; [discriminate|].
  destruct (String.eqb k k') eqn:E; [apply String.eqb_eq in E; inversion H; subst; left; reflexivity|right; apply IH; exact H].
Qed.
Theorem lookup_perm_invariant m m' k : NoDup (map fst m) -> Permutation m m' -> lookup m k = lookup m' k.
Proof.
  intros Hn Hp.
  assert (Hn' : NoDup (map fst m')) by (eapply Permutation_NoDup; [apply Permutation_map; exact Hp|exact Hn]).
  destruct (lookup m k) as [v|] eqn:E.
  - symmetry. apply lookup_in_nodup; [exact Hn'|]. eapply Permutation_in; [exact Hp|]. apply lookup_some_in. exact E.
  - destruct (lookup m' k) as [v'|] eqn:E'; [|reflexivity].
    apply lookup_some_in in E'. apply (Permutation_in _ (Permutation_sym Hp)) in E'.
    rewrite (lookup_in_nodup m k v' Hn E') in E. discriminate.
Qed.
