(* AggCor.v — corollaries of FiltAgg.fchain_agg_retrieval / fchain_agg_calls for other properties: an aggregate after steps and
   filters returns one result or an error, never an empty success or a panic (C03), the same from any two admissible histories
   (C05), and the same value with the same calls of the user functions in plain and in accessor mode (C12). *)
From JP Require Import Peg Grammar Slice Text Tree Actions Json Eval WF Spec SortFacts EvalInv1 EvalInv4 EvalTop EndToEnd KeyDefs KeyParse ChainParse FunParse AggParse FiltChain ChainAddr FunAddr AggAddr FiltChainAddr FiltFun FiltAgg CallDefs.
Open Scope list_scope.

Section OutcomeAgg.
  Variable cfg : config.
  Variable parse_float : string -> option num.
  Variable regex_ok : string -> bool.
  Variable ffun : string -> value -> option value.
  Variable afun : string -> list value -> option value.
  Variable regex_match : string -> string -> bool.
  Hypothesis ffun_small : forall f v w, small v -> ffun f v = Some w -> small w.
  Hypothesis afun_small : forall f l w, Forall small l -> afun f l = Some w -> small w.
  Notation eval_run := (eval_run ffun afun regex_match).

  Theorem agg_outcome_from_text x r g fs doc st :
    forallb fstep_ok (x :: r) = true -> forallb (fstep_okp parse_float regex_ok) (x :: r) = true ->
    forallb fname_ok (g :: fs) = true -> agg_known cfg g = true -> forallb (fun_known cfg) fs = true -> small doc -> ok st ->
    exists t, parse_with cfg parse_float regex_ok jsonpath_grammar (fchain_fun_path (x :: r) (g :: fs)) = ParseOk t /\
              ((exists a, fst (eval_run t doc st) = OOk [a]) \/ (exists e, fst (eval_run t doc st) = OErr e)).
  Proof.
    intros Hs Hp Hf Hg Hk Hd Hok.
    destruct (fchain_agg_retrieval cfg parse_float regex_ok ffun afun regex_match ffun_small afun_small x r g fs doc st Hs Hp Hf Hg Hk Hd Hok) as (t & Ht & H).
    exists t. split; [exact Ht|].
    destruct (fagg_outcome parse_float ffun afun regex_match (x :: r) g fs doc) as [w|]; [left; eexists; exact H|right; exact H].
  Qed.

  Theorem agg_history_independent_from_text x r g fs doc st st' :
    forallb fstep_ok (x :: r) = true -> forallb (fstep_okp parse_float regex_ok) (x :: r) = true ->
    forallb fname_ok (g :: fs) = true -> agg_known cfg g = true -> forallb (fun_known cfg) fs = true -> small doc -> ok st -> ok st' ->
    exists t, parse_with cfg parse_float regex_ok jsonpath_grammar (fchain_fun_path (x :: r) (g :: fs)) = ParseOk t /\
              match fst (eval_run t doc st) with
              | OOk rs => fst (eval_run t doc st') = OOk rs
              | OErr _ => exists e, fst (eval_run t doc st') = OErr e
              | OPanic _ => False
              end.
  Proof.
    intros Hs Hp Hf Hg Hk Hd Hok Hok'.
    destruct (fchain_agg_retrieval cfg parse_float regex_ok ffun afun regex_match ffun_small afun_small x r g fs doc st Hs Hp Hf Hg Hk Hd Hok) as (t & Ht & H).
    destruct (fchain_agg_retrieval cfg parse_float regex_ok ffun afun regex_match ffun_small afun_small x r g fs doc st' Hs Hp Hf Hg Hk Hd Hok') as (t' & Ht' & H').
    rewrite Ht in Ht'. inversion Ht'; subst t'.
    exists t. split; [exact Ht|].
    destruct (fagg_outcome parse_float ffun afun regex_match (x :: r) g fs doc) as [w|].
    - rewrite H. exact H'.
    - destruct H as [e He]. rewrite He. exact H'.
  Qed.
End OutcomeAgg.

Section ModesAgg.
  Variable cfgP cfgA : config.
  Variable parse_float : string -> option num.
  Variable regex_ok : string -> bool.
  Variable ffun : string -> value -> option value.
  Variable afun : string -> list value -> option value.
  Variable regex_match : string -> string -> bool.
  Hypothesis ffun_small : forall f v w, small v -> ffun f v = Some w -> small w.
  Hypothesis afun_small : forall f l w, Forall small l -> afun f l = Some w -> small w.
  Hypothesis plain_off : cfg_accessor cfgP = false.
  Hypothesis acc_on : cfg_accessor cfgA = true.
  Hypothesis same_filters : cfg_filters cfgP = cfg_filters cfgA.
  Hypothesis same_aggs : cfg_aggs cfgP = cfg_aggs cfgA.
  Notation eval_run := (eval_run ffun afun regex_match).

  Lemma known_same' fs : forallb (fun_known cfgP) fs = forallb (fun_known cfgA) fs.
  Proof. induction fs as [|f r IH]; [reflexivity|]. cbn [forallb]. unfold fun_known at 1 3. rewrite same_filters, IH. reflexivity. Qed.
  Lemma agg_known_same g : agg_known cfgP g = agg_known cfgA g.
  Proof. unfold agg_known. rewrite same_filters, same_aggs. reflexivity. Qed.

  (* plain and accessor mode: the same single value (an accessor without a location: Set is nil), or both fail; and the user
     functions — the aggregate and the filter functions behind it — receive the same calls *)
  Theorem modes_agree_aggregates x r g fs doc st st' :
    forallb fstep_ok (x :: r) = true -> forallb (fstep_okp parse_float regex_ok) (x :: r) = true ->
    forallb fname_ok (g :: fs) = true -> agg_known cfgP g = true -> forallb (fun_known cfgP) fs = true -> small doc -> ok st -> ok st' ->
    exists tP tA, parse_with cfgP parse_float regex_ok jsonpath_grammar (fchain_fun_path (x :: r) (g :: fs)) = ParseOk tP /\
                  parse_with cfgA parse_float regex_ok jsonpath_grammar (fchain_fun_path (x :: r) (g :: fs)) = ParseOk tA /\
      match fagg_outcome parse_float ffun afun regex_match (x :: r) g fs doc with
      | None => (exists e, fst (eval_run tP doc st) = OErr e) /\ (exists e, fst (eval_run tA doc st') = OErr e)
      | Some w => fst (eval_run tP doc st) = OOk [RVal w] /\ fst (eval_run tA doc st') = OOk [RAcc false None w]
      end /\
      exists cs, calls (snd (eval_run tP doc st)) = calls st ++ cs /\ calls (snd (eval_run tA doc st')) = calls st' ++ cs.
  Proof.
    intros Hs Hp Hf Hg Hk Hd Hok Hok'.
    assert (Hk' : forallb (fun_known cfgA) fs = true) by (rewrite <- known_same'; exact Hk).
    assert (Hg' : agg_known cfgA g = true) by (rewrite <- agg_known_same; exact Hg).
    destruct (fchain_agg_retrieval cfgP parse_float regex_ok ffun afun regex_match ffun_small afun_small x r g fs doc st Hs Hp Hf Hg Hk Hd Hok) as (tP & HtP & HP).
    destruct (fchain_agg_retrieval cfgA parse_float regex_ok ffun afun regex_match ffun_small afun_small x r g fs doc st' Hs Hp Hf Hg' Hk' Hd Hok') as (tA & HtA & HA).
    destruct (fchain_agg_calls cfgP parse_float regex_ok ffun afun regex_match ffun_small afun_small x r g fs doc st Hs Hp Hf Hg Hk Hd Hok) as (tP' & HtP' & CP).
    destruct (fchain_agg_calls cfgA parse_float regex_ok ffun afun regex_match ffun_small afun_small x r g fs doc st' Hs Hp Hf Hg' Hk' Hd Hok') as (tA' & HtA' & CA).
    rewrite HtP in HtP'. inversion HtP'; subst tP'. rewrite HtA in HtA'. inversion HtA'; subst tA'.
    exists tP, tA. split; [exact HtP|]. split; [exact HtA|]. split.
    - destruct (fagg_outcome parse_float ffun afun regex_match (x :: r) g fs doc) as [w|].
      + unfold fun_result in HP, HA. rewrite plain_off in HP. rewrite acc_on in HA. split; assumption.
      + split; assumption.
    - eexists. split; [exact CP|exact CA].
  Qed.
End ModesAgg.
