(* Prop_C03.v — property C03: evaluation is total.  Only property theorems and Print Assumptions.
   Model: coq/Eval.v (every Go panic site of the evaluator is an explicit `panicked` outcome).
   Hypotheses: the tree is well-formed (wf_node, a decidable predicate the harness evaluates on every
   tree the parser model builds), every array of the document and of user-function results is shorter
   than 2^62 (`small`: true of any value in Go memory), the package-level lists hold their initial
   contents and no panic has happened yet (`ok`: true of st_init and, by this very theorem, after every call). *)
From JP Require Import Eval WF Verdict EvalInv1 EvalInv3 EvalInv4 EvalTop.
From Coq Require Import Lia.

Section C03.
  Variable ffun : string -> value -> option value.
  Variable afun : string -> list value -> option value.
  Variable regex_match : string -> string -> bool.
  Hypothesis ffun_small : forall f v w, small v -> ffun f v = Some w -> small w.
  Hypothesis afun_small : forall f l w, Forall small l -> afun f l = Some w -> small w.

  (* a call returns a non-empty result list or a runtime error, never a panic and never an empty
     success; the package-level lists, the write log and the panic flag are what they were *)
  Theorem C03_eval_total : forall t doc st,
    wf_node t = true -> small doc -> ok st ->
    let '(o, st') := eval_run ffun afun regex_match t doc st in
    frame st st' /\
    ((exists rs, o = OOk rs /\ rs <> [] /\ Forall (loc_ok doc) rs) \/ (exists e, o = OErr e)).
  Proof. exact (eval_run_spec ffun afun regex_match ffun_small afun_small). Qed.
End C03.
Print Assumptions C03_eval_total.

(* the invariant behind it, for every node, query and operand (see EvalInv4.v for the predicates) *)
Theorem C03_invariant : forall ffun afun regex_match,
  (forall f v w, small v -> ffun f v = Some w -> small w) ->
  (forall f l w, Forall small l -> afun f l = Some w -> small w) ->
  (forall n, P_node ffun afun regex_match n) /\ (forall q, P_query ffun afun regex_match q) /\
  (forall p, P_pquery ffun afun regex_match p).
Proof.
  intros ffun afun rm H1 H2. destruct (evaluator_invariant ffun afun rm H1 H2) as (A & _ & _ & _ & B & _ & C).
  exact (conj A (conj B C)).
Qed.
Print Assumptions C03_invariant.

(* non-vacuity: a well-formed tree, a small document and the initial state meet the hypotheses *)
Example C03_hypotheses_satisfiable :
  let t := Node KRoot {| text := "$"; ctext := "$[*]"; vgroup := true; accessor := false |}
                (OSome (Node KWild {| text := "[*]"; ctext := "[*]"; vgroup := true; accessor := false |} ONone)) in
  wf_node t = true /\ small (VArr [VNull; VBool true]) /\ ok st_init /\
  fst (eval_run (fun _ v => Some v) (fun _ _ => None) (fun _ _ => false) t (VArr [VNull; VBool true]) st_init)
  = OOk [RVal VNull; RVal (VBool true)].
Proof. cbv zeta. split; [reflexivity|]. split; [cbn; unfold two62; repeat split; lia|]. split; [repeat split|]. vm_compute. reflexivity. Qed.

(* From the path text (AccFilt.v, with C01_filter_retrieval): for every path of steps and filters (KeyDefs.fchain_path) the
   call returns a NON-EMPTY result or an error — never an empty success, never a panic. *)
From JP Require Import Json Text Tree Grammar Actions Eval WF EvalInv1 KeyDefs FiltChain FiltChainAddr AccFilt.
From Coq Require Import List. Import ListNotations.
Theorem C03_nonempty_or_error_from_text : forall cfg parse_float regex_ok ffun afun regex_match,
  (forall f v w, small v -> ffun f v = Some w -> small w) ->
  (forall f l w, Forall small l -> afun f l = Some w -> small w) ->
  forall x r doc st, forallb fstep_ok (x :: r) = true -> forallb (fstep_okp parse_float regex_ok) (x :: r) = true -> small doc -> ok st ->
  exists t, parse_with cfg parse_float regex_ok jsonpath_grammar (fchain_path (x :: r)) = ParseOk t /\
            ((exists a l, fst (eval_run ffun afun regex_match t doc st) = OOk (a :: l)) \/ (exists e, fst (eval_run ffun afun regex_match t doc st) = OErr e)).
Proof. exact outcome_from_text. Qed.
Print Assumptions C03_nonempty_or_error_from_text.

(* the same for paths of steps and filters followed by registered filter functions (FiltAgg.v, OutcomeFun) *)
From JP Require Import FiltFun FiltAgg FunParse.
Theorem C03_function_outcome_from_text : forall cfg parse_float regex_ok ffun afun regex_match,
  (forall f v w, small v -> ffun f v = Some w -> small w) ->
  (forall f l w, Forall small l -> afun f l = Some w -> small w) ->
  forall x r f fs doc st,
  forallb fstep_ok (x :: r) = true -> forallb (fstep_okp parse_float regex_ok) (x :: r) = true ->
  forallb fname_ok (f :: fs) = true -> forallb (fun_known cfg) (f :: fs) = true -> small doc -> ok st ->
  exists t, parse_with cfg parse_float regex_ok jsonpath_grammar (fchain_fun_path (x :: r) (f :: fs)) = ParseOk t /\
            ((exists a l, fst (eval_run ffun afun regex_match t doc st) = OOk (a :: l)) \/ (exists e, fst (eval_run ffun afun regex_match t doc st) = OErr e)).
Proof. exact fun_outcome_from_text. Qed.
Print Assumptions C03_function_outcome_from_text.
(* … and followed by an aggregate function (AggCor.v): one result or an error *)
From JP Require Import AggParse AggCor.
Theorem C03_aggregate_outcome_from_text : forall cfg parse_float regex_ok ffun afun regex_match,
  (forall f v w, small v -> ffun f v = Some w -> small w) ->
  (forall f l w, Forall small l -> afun f l = Some w -> small w) ->
  forall x r g fs doc st,
  forallb fstep_ok (x :: r) = true -> forallb (fstep_okp parse_float regex_ok) (x :: r) = true ->
  forallb fname_ok (g :: fs) = true -> agg_known cfg g = true -> forallb (fun_known cfg) fs = true -> small doc -> ok st ->
  exists t, parse_with cfg parse_float regex_ok jsonpath_grammar (fchain_fun_path (x :: r) (g :: fs)) = ParseOk t /\
            ((exists a, fst (eval_run ffun afun regex_match t doc st) = OOk [a]) \/ (exists e, fst (eval_run ffun afun regex_match t doc st) = OErr e)).
Proof. exact agg_outcome_from_text. Qed.
Print Assumptions C03_aggregate_outcome_from_text.
