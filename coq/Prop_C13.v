(* Prop_C13.v — property C13: Accessor.Set writes exactly the selected location; Get is live.
   Proved on the model: (a) every accessor a call returns with a location carries a location of the
   document that holds exactly the returned value (C13_locations: covers results of every path; after
   a user function the cursor is detached and the location is None, see DESIGN §6 C13); (b) the lens
   laws of locations: Get after Set returns the value written, and Set changes nothing at any
   location disjoint from the one written.  That the Go closures capture (parent map, key) /
   (slice, index) — i.e. that Go's Set is set_loc at the model's location — is tied by the
   correspondence check (sentinel Set + document diff for every accessor). *)
From JP Require Import Eval WF Verdict EvalInv1 EvalInv3 EvalInv4 EvalTop.

Section C13.
  Variable ffun : string -> value -> option value.
  Variable afun : string -> list value -> option value.
  Variable regex_match : string -> string -> bool.
  Hypothesis ffun_small : forall f v w, small v -> ffun f v = Some w -> small w.
  Hypothesis afun_small : forall f l w, Forall small l -> afun f l = Some w -> small w.

  Theorem C13_locations : forall t doc st rs,
    wf_node t = true -> small doc -> ok st ->
    fst (eval_run ffun afun regex_match t doc st) = OOk rs ->
    forall settable p v, In (RAcc settable (Some p) v) rs -> get_loc doc p = Some v.
  Proof.
    intros t doc st rs Hwf Hs Hok Hrun settable p v Hin.
    pose proof (eval_run_spec ffun afun regex_match ffun_small afun_small t doc st Hwf Hs Hok) as H.
    destruct (eval_run ffun afun regex_match t doc st) as [o st']. cbn [fst] in Hrun. subst o.
    destruct H as [_ [[rs' [Heq [_ Hloc]]]|[e He]]]; [|discriminate].
    inversion Heq; subst rs'. rewrite Forall_forall in Hloc. exact (proj1 (Hloc _ Hin)).
  Qed.
End C13.
Print Assumptions C13_locations.

Theorem C13_get_after_set : forall p v w, get_loc v p <> None -> get_loc (set_loc v p w) p = Some w.
Proof. exact get_set_same. Qed.
Theorem C13_set_frame : forall p q v w, disjoint p q -> get_loc (set_loc v p w) q = get_loc v q.
Proof. exact get_set_other. Qed.
Print Assumptions C13_get_after_set.
Print Assumptions C13_set_frame.
