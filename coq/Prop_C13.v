(* Prop_C13.v — property C13: Accessor.Set writes exactly the selected location; Get is live.
   Proved on the model: (a) every accessor a call returns with a location carries a location of the
   document that holds exactly the returned value (C13_locations: covers results of every path; after
   a user function the cursor is detached and the location is None, see DESIGN §6 C13); (b) the lens
   laws of locations: Get after Set returns the value written, and Set changes nothing at any
   location disjoint from the one written.  That the Go closures capture (parent map, key) /
   (slice, index) — i.e. that Go's Set is set_loc at the model's location — is tied by the
   correspondence check (sentinel Set + document diff for every accessor).
   From the path TEXT (AccText.v): C13_accessor_from_text — the path that spells a location of the document (names in
   any spelling, decimal indexes) returns in accessor mode exactly one settable accessor whose location is that
   location, which holds the returned value; writing there is read back and changes nothing at any disjoint location.
   C13_function_outputs_from_text — every result of steps followed by filter functions is an accessor without a
   location (Set nil). *)
From JP Require Import Eval WF Verdict EvalInv1 EvalInv3 EvalInv4 EvalTop.
From JP Require Import Json Text Tree Grammar Actions KeyDefs ChainParse ChainAddr FunParse FunAddr AccText.
From Coq Require Import List NArith ZArith String. Import ListNotations.

Section C13.
  Variable ffun : string -> value -> option value.
  Variable afun : string -> list value -> option value.
  Variable regex_match : string -> string -> bool.
  Hypothesis ffun_small : forall f v w, small v -> ffun f v = Some w -> small w.
  Hypothesis afun_small : forall f l w, Forall small l -> afun f l = Some w -> small w.

  Theorem C13_locations : forall t doc st rs,
    wf_node t = true -> small doc -> ok st ->
    fst (eval_run ffun afun regex_match t doc st) = OOk rs ->
    forall settable p v, In (RAcc settable (Some p) v) rs -> get_loc doc p = Some v.
  Proof.
    intros t doc st rs Hwf Hs Hok Hrun settable p v Hin.
    pose proof (eval_run_spec ffun afun regex_match ffun_small afun_small t doc st Hwf Hs Hok) as H.
    destruct (eval_run ffun afun regex_match t doc st) as [o st']. cbn [fst] in Hrun. subst o.
    destruct H as [_ [[rs' [Heq [_ Hloc]]]|[e He]]]; [|discriminate].
    inversion Heq; subst rs'. rewrite Forall_forall in Hloc. exact (proj1 (Hloc _ Hin)).
  Qed.
End C13.
Print Assumptions C13_locations.

Theorem C13_get_after_set : forall p v w, get_loc v p <> None -> get_loc (set_loc v p w) p = Some w.
Proof. exact get_set_same. Qed.
Theorem C13_set_frame : forall p q v w, disjoint p q -> get_loc (set_loc v p w) q = get_loc v q.
Proof. exact get_set_other. Qed.
Print Assumptions C13_get_after_set.
Print Assumptions C13_set_frame.

Theorem C13_accessor_from_text : forall cfg parse_float regex_ok ffun afun regex_match,
  (forall f v w, small v -> ffun f v = Some w -> small w) ->
  (forall f l w, Forall small l -> afun f l = Some w -> small w) ->
  cfg_accessor cfg = true ->
  forall s r doc v st, forallb step_ok (s :: r) = true -> no_wild (s :: r) = true -> small doc -> ok st ->
  nav_chain doc (s :: r) = Some v ->
  let p := map step_loc (s :: r) in
  exists t, parse_with cfg parse_float regex_ok jsonpath_grammar (chain_path (map RPlain (s :: r))) = ParseOk t /\
            fst (eval_run ffun afun regex_match t doc st) = OOk [RAcc true (Some p) v] /\
            get_loc doc p = Some v /\
            (forall w, get_loc (set_loc doc p w) p = Some w) /\
            (forall w q, disjoint p q -> get_loc (set_loc doc p w) q = get_loc doc q).
Proof. exact accessor_at_location. Qed.
Print Assumptions C13_accessor_from_text.

Theorem C13_function_outputs_from_text : forall cfg parse_float regex_ok ffun afun regex_match,
  (forall f v w, small v -> ffun f v = Some w -> small w) ->
  (forall f l w, Forall small l -> afun f l = Some w -> small w) ->
  cfg_accessor cfg = true ->
  forall x r f fs doc st, forallb rstep_ok (x :: r) = true -> forallb fname_ok (f :: fs) = true ->
  forallb (fun_known cfg) (f :: fs) = true -> small doc -> ok st ->
  exists t, parse_with cfg parse_float regex_ok jsonpath_grammar (chain_fun_path (x :: r) (f :: fs)) = ParseOk t /\
            forall rs, fst (eval_run ffun afun regex_match t doc st) = OOk rs -> Forall (fun x0 => exists w, x0 = RAcc false None w) rs.
Proof. exact function_outputs_not_settable. Qed.
Print Assumptions C13_function_outputs_from_text.

Example C13_from_text_example :
  let doc := VObj [("a", VArr [VNum (num_of_Z 1); VObj [("b c", VStr "x")]])]%string in
  let steps := [SDot [97%N]; SIdx [49%N]; SBr 39%N [98%N; 32%N; 99%N]] in
  forallb step_ok steps = true /\ no_wild steps = true /\ nav_chain doc steps = Some (VStr "x") /\
  map step_loc steps = [PKey "a"; PIdx 1%Z; PKey "b c"]%string /\
  chain_path (map RPlain steps) = [36; 46; 97; 91; 49; 93; 91; 39; 98; 32; 99; 39; 93]%N.
Proof. cbv zeta. repeat split; vm_compute; reflexivity. Qed.

(* From the path text (AccFilt.v), for every path of steps and filters (KeyDefs.fchain_path: names, indexes, wildcards, slices,
   unions, `..`, existence / comparison / query filters, spaced or not): in accessor mode every result is a settable accessor
   whose location — the one the step-by-step walk of the document (nav_allf) reaches — holds exactly the returned value, and
   the lens laws hold there. *)
From JP Require Import FiltChain FiltChainAddr AccFilt.
Theorem C13_all_results_are_locations_from_text : forall cfg parse_float regex_ok ffun afun regex_match,
  (forall f v w, small v -> ffun f v = Some w -> small w) ->
  (forall f l w, Forall small l -> afun f l = Some w -> small w) ->
  cfg_accessor cfg = true ->
  forall x r doc st, forallb fstep_ok (x :: r) = true -> forallb (fstep_okp parse_float regex_ok) (x :: r) = true -> small doc -> ok st ->
  exists t, parse_with cfg parse_float regex_ok jsonpath_grammar (fchain_path (x :: r)) = ParseOk t /\
            match nav_allf parse_float regex_match doc (x :: r) ([], doc) with
            | [] => exists e, fst (eval_run ffun afun regex_match t doc st) = OErr e
            | l => fst (eval_run ffun afun regex_match t doc st) = OOk (map (fun lv => RAcc true (Some (fst lv)) (snd lv)) l) /\
                   Forall (location_of doc) l
            end.
Proof. exact filter_path_accessors. Qed.
Print Assumptions C13_all_results_are_locations_from_text.
