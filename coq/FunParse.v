(* FunParse.v — trailing functions .name() through the regenerated grammar: continuedJsonpath is childNode*, then
   function*, then blanks; a function is `.` functionName `()`. *)
From JP Require Import Peg Grammar Text Tree Actions PegFacts PegMono PegEv FuelRules ParseFacts KeyDefs KeyParse IdxParse SliceParse UnionParse WildParse RecParse ChainParse SpacePath.
From Coq Require Import Lia.
Local Open Scope N_scope.
Open Scope list_scope.

Definition fun_ranges : list (N * N) := [(45, 45); (95, 95); (97, 122); (65, 90); (48, 57)].
Definition fchar (c : N) : bool := in_ranges c fun_ranges.
Definition fname_ok (f : list N) : bool := match f with [] => false | _ :: _ => forallb fchar f end.

Lemma rule9_shape : nth_error G 9 = Some (PSeq (PCap (PPlus (PCls false fun_ranges))) (PAct 6)).
Proof. reflexivity. Qed.

(* a function-name character is an ordinary name character: not a symbol, not a control *)
Lemma fchar_plain c : fchar c = true -> dot_sym c = false /\ dot_char c = true.
Proof.
  unfold fchar, fun_ranges, dot_sym, dot_ranges, dot_char. cbn [in_ranges]. intros H.
  assert (Hc : c = 45 \/ c = 95 \/ (97 <= c /\ c <= 122) \/ (65 <= c /\ c <= 90) \/ (48 <= c /\ c <= 57)).
  { repeat (apply orb_true_iff in H; destruct H as [H|H]); try discriminate H;
      apply andb_true_iff in H; destruct H as [Ha Hb]; apply N.leb_le in Ha; apply N.leb_le in Hb; lia. }
  split.
  - repeat (apply orb_false_iff; split); try reflexivity; apply andb_false_iff;
      destruct Hc as [-> | [-> | [[? ?] | [[? ?] | [? ?]]]]]; try (left; apply N.leb_gt; lia); try (right; apply N.leb_gt; lia).
  - apply negb_true_iff. repeat (apply orb_false_iff; split); try reflexivity; apply andb_false_iff;
      destruct Hc as [-> | [-> | [[? ?] | [[? ?] | [? ?]]]]]; try (left; apply N.leb_gt; lia); try (right; apply N.leb_gt; lia).
Qed.

Lemma ev_fchars_star f rest pos : forallb fchar f = true ->
  evG (PStar (PCls false fun_ranges)) (f ++ 40 :: rest) pos (POk (40 :: rest) (pos + List.length f) []).
Proof.
  revert pos. induction f as [|c f IH]; intros pos Hf.
  - cbn [app List.length]. eapply ev_conv; [apply ev_star_stop; apply ev_cls_fail; reflexivity|f_equal; lia].
  - cbn [forallb] in Hf. apply andb_true_iff in Hf. destruct Hf as [H1 H2]. cbn [app List.length].
    assert (E : evG (PCls false fun_ranges) (c :: f ++ 40 :: rest) pos (POk (f ++ 40 :: rest) (S pos) [])).
    { apply ev_cls_ok. unfold fchar in H1. rewrite H1. reflexivity. }
    pose proof (ev_star_step G _ _ _ _ _ _ _ _ _ E ltac:(lia) (IH (S pos) H2)) as E2.
    eapply ev_conv; [exact E2|]. f_equal. lia.
Qed.

(* functionName *)
Lemma ev_rule9 f rest pos : fname_ok f = true ->
  evG (PRef 9) (f ++ 40 :: rest) pos (POk (40 :: rest) (pos + List.length f) [TText pos (pos + List.length f); TAct 6]).
Proof.
  intros Hf. destruct f as [|c f]; [discriminate Hf|]. cbn [fname_ok forallb] in Hf. apply andb_true_iff in Hf. destruct Hf as [H1 H2].
  eapply ev_ref; [exact rule9_shape|]. eapply ev_conv.
  - eapply ev_seq_ok; [apply ev_cap|apply ev_act|reflexivity].
    assert (E : evG (PCls false fun_ranges) ((c :: f) ++ 40 :: rest) pos (POk (f ++ 40 :: rest) (S pos) [])).
    { cbn [app]. apply ev_cls_ok. unfold fchar in H1. rewrite H1. reflexivity. }
    exact (ev_plus G _ _ _ _ _ _ _ _ _ E ltac:(lia) (ev_fchars_star f rest (S pos) H2)).
  - cbn [app List.length]. replace (S pos + List.length f)%nat with (pos + S (List.length f))%nat by lia. reflexivity.
Qed.

Definition fun_tokens (p : nat) (f : list N) : list token :=
  [TText (p + 1) (p + 1 + List.length f); TAct 6; TText p (p + List.length f + 3); TAct 5].

(* function *)
Lemma ev_rule8 f rest pos : fname_ok f = true ->
  evG (PRef 8) (fun_text f ++ rest) pos (POk rest (pos + List.length (fun_text f)) (fun_tokens pos f)).
Proof.
  intros Hf. unfold fun_text, fun_tokens. eapply ev_ref; [reflexivity|]. cbn [app]. rewrite <- app_assoc. cbn [app]. eapply ev_conv.
  - eapply ev_seq_ok; [apply ev_cap|apply ev_act|reflexivity].
    eapply ev_seq_ok; [apply (ev_lit_ok G [46]); apply strip1_ok| |reflexivity].
    eapply ev_seq_ok; [apply (ev_rule9 f (41 :: rest) _ Hf)| |reflexivity].
    apply (ev_lit_ok G [40; 41]). cbn [strip_prefix]. rewrite !N.eqb_refl. reflexivity.
  - cbn [List.length app]. rewrite app_length. cbn [List.length].
    replace (pos + 1 + List.length f + 2)%nat with (pos + List.length f + 3)%nat by lia.
    replace (pos + S (List.length f + 2))%nat with (pos + List.length f + 3)%nat by lia. reflexivity.
Qed.

(* the name of a function is not a child: childNode fails on .name() *)
Lemma esc_plain f : forallb fchar f = true -> esc_dot_cps f = f.
Proof.
  induction f as [|c f IH]; intros Hf; [reflexivity|]. cbn [forallb] in Hf. apply andb_true_iff in Hf. destruct Hf as [H1 H2].
  unfold esc_dot_cps in *. cbn [flat_map]. destruct (fchar_plain c H1) as [Hs _]. rewrite Hs. cbn [app]. rewrite IH by exact H2. reflexivity.
Qed.
Lemma ev_rule7_fun_fail f rest pos : fname_ok f = true -> evG (PRef 7) (fun_text f ++ rest) pos PFail.
Proof.
  intros Hf. destruct f as [|c f]; [discriminate Hf|]. cbn [fname_ok] in Hf.
  assert (Hdc : forallb dot_char (c :: f) = true).
  { apply forallb_forall. intros x Hx. rewrite forallb_forall in Hf. exact (proj2 (fchar_plain x (Hf x Hx))). }
  assert (Hc : fchar c = true) by (cbn [forallb] in Hf; apply andb_true_iff in Hf; tauto).
  destruct (fchar_plain c Hc) as [Hcs _].
  unfold fun_text. cbn [app]. rewrite <- app_assoc. cbn [app]. eapply ev_ref; [reflexivity|].
  apply ev_alt_r; [apply ev_seq_fail; apply (ev_lit_fail G [46; 46]); apply strip2_no2; intros ->; discriminate Hcs|].
  apply ev_alt_r; [|apply ev_rule10_fail; discriminate].
  apply ev_seq_fail. apply ev_cap_fail.
  eapply ev_seq_fail2; [apply (ev_lit_ok G [46]); apply strip1_ok|].
  eapply ev_ref; [exact rule13_shape|].
  apply ev_alt_r; [eapply ev_ref; [reflexivity|]; apply ev_seq_fail; apply (ev_lit_fail G [42]); apply strip1_no; intros ->; discriminate Hcs|].
  eapply ev_seq_fail2.
  - apply ev_cap. pose proof (ev_dbody_plus c f (40 :: 41 :: rest) (pos + 1)%nat Hdc) as H. rewrite (esc_plain (c :: f) Hf) in H.
    apply H. cbn. split; [reflexivity|discriminate].
  - apply ev_seq_fail. eapply ev_not_fail. apply (ev_lit_ok G [40; 41]). reflexivity.
Qed.

(* childNode* over the steps, stopping where childNode fails *)
Lemma ev_steps_star_gen steps tail pos : forallb rstep_ok steps = true ->
  dot_stop tail -> (forall p, evG (PRef 7) tail p PFail) ->
  evG (PStar (PRef 7)) (render_steps steps ++ tail) pos (POk tail (pos + List.length (render_steps steps)) (steps_tokens pos steps)).
Proof.
  intros Hs Hd Hf. revert pos Hs. induction steps as [|s r IH]; intros pos Hs.
  - cbn [render_steps flat_map List.length steps_tokens app]. eapply ev_conv; [apply ev_star_stop; apply Hf|f_equal; lia].
  - cbn [forallb] in Hs. apply andb_true_iff in Hs. destruct Hs as [H1 H2].
    unfold render_steps in *. cbn [flat_map steps_tokens]. rewrite app_length, <- app_assoc.
    assert (Hst : dot_stop (flat_map render_rstep r ++ tail)).
    { destruct r as [|y r']; [exact Hd|]. pose proof (steps_stop (y :: r')) as H. unfold render_steps in H.
      destruct (flat_map render_rstep (y :: r')) as [|c l] eqn:E; [|exact H].
      exfalso. pose proof (render_rstep_len_pos y) as Hl. cbn [flat_map] in E. apply (f_equal (@List.length N)) in E. rewrite app_length in E. cbn [List.length] in E. lia. }
    pose proof (ev_rule7_rstep s (flat_map render_rstep r ++ tail) pos H1 Hst) as E1.
    pose proof (render_rstep_len_pos s) as Hl.
    pose proof (ev_star_step G _ _ _ _ _ _ _ _ _ E1 ltac:(lia) (IH (pos + List.length (render_rstep s))%nat H2)) as E2.
    eapply ev_conv; [exact E2|]. f_equal. lia.
Qed.

Fixpoint funs_tokens (p : nat) (fs : list (list N)) : list token :=
  match fs with [] => [] | f :: r => fun_tokens p f ++ funs_tokens (p + List.length (fun_text f)) r end.

Lemma ev_funs_star fs pos : forallb fname_ok fs = true ->
  evG (PStar (PRef 8)) (render_funs fs) pos (POk [] (pos + List.length (render_funs fs)) (funs_tokens pos fs)).
Proof.
  revert pos. induction fs as [|f r IH]; intros pos Hs.
  - cbn [render_funs flat_map List.length funs_tokens]. eapply ev_conv; [apply ev_star_stop; apply ev_rule8_eof|f_equal; lia].
  - cbn [forallb] in Hs. apply andb_true_iff in Hs. destruct Hs as [H1 H2].
    unfold render_funs in *. cbn [flat_map funs_tokens]. rewrite app_length.
    pose proof (ev_rule8 f (flat_map fun_text r) pos H1) as E1.
    assert (Hl : (1 <= List.length (fun_text f))%nat) by (unfold fun_text; cbn [List.length]; lia).
    pose proof (ev_star_step G _ _ _ _ _ _ _ _ _ E1 ltac:(lia) (IH (pos + List.length (fun_text f))%nat H2)) as E2.
    eapply ev_conv; [exact E2|]. f_equal. lia.
Qed.

Lemma funs_stop fs : dot_stop (render_funs fs).
Proof. destruct fs as [|f r]; [exact I|]. cbn. repeat split; try reflexivity; discriminate. Qed.
Lemma funs_rule7_fail fs : forallb fname_ok fs = true -> forall p, evG (PRef 7) (render_funs fs) p PFail.
Proof.
  intros Hs p. destruct fs as [|f r]; [apply ev_rule7_eof|]. cbn [forallb] in Hs. apply andb_true_iff in Hs. destruct Hs as [H1 _].
  unfold render_funs. cbn [flat_map]. apply ev_rule7_fun_fail. exact H1.
Qed.

Definition chain_fun_tokens (steps : list rstep) (fs : list (list N)) : list token :=
  TAct 8 :: steps_tokens 1 steps ++ funs_tokens (1 + List.length (render_steps steps)) fs ++ [TAct 2; TAct 0].

Lemma ev_chain_fun_path steps fs : forallb rstep_ok steps = true -> forallb fname_ok fs = true ->
  evG (PRef 0) (chain_fun_path steps fs) 0
      (POk [] (1 + List.length (render_steps steps) + List.length (render_funs fs)) (chain_fun_tokens steps fs)).
Proof.
  intros Hs Hf. unfold chain_fun_path, chain_path, chain_fun_tokens. cbn [app]. eapply ev_conv.
  - eapply ev_ref; [reflexivity|]. apply ev_alt_l.
    eapply ev_seq_ok; [| |reflexivity].
    + eapply ev_ref; [reflexivity|].
      eapply ev_seq_ok; [apply ev_space_stop; discriminate| |reflexivity].
      eapply ev_seq_ok; [| |reflexivity].
      * eapply ev_ref; [reflexivity|]. apply ev_alt_l. eapply ev_ref; [reflexivity|].
        eapply ev_seq_ok; [apply (ev_lit_ok G [36]); apply strip1_ok|apply ev_act|reflexivity].
      * eapply ev_ref; [reflexivity|].
        eapply ev_seq_ok; [apply (ev_steps_star_gen steps (render_funs fs) _ Hs (funs_stop fs) (funs_rule7_fail fs Hf))| |reflexivity].
        eapply ev_seq_ok; [apply (ev_funs_star fs _ Hf)| |reflexivity].
        eapply ev_seq_ok; [apply ev_space_eof|apply ev_act|reflexivity].
    + eapply ev_seq_ok; [| apply ev_act |reflexivity].
      eapply ev_ref; [reflexivity|]. apply ev_not_ok. apply ev_any_fail.
  - cbn [List.length app Nat.add]. rewrite <- !app_assoc. cbn [app]. f_equal.
Qed.
Lemma peg_chain_fun_path steps fs : forallb rstep_ok steps = true -> forallb fname_ok fs = true ->
  peg_parse G (chain_fun_path steps fs) = POk [] (1 + List.length (render_steps steps) + List.length (render_funs fs)) (chain_fun_tokens steps fs).
Proof. intros Hs Hf. apply ev_peg_parse; [apply ev_chain_fun_path; assumption|apply peg_never_out_of_fuel]. Qed.

Section FunExec.
  Variable cfg : config.
  Variable parse_float : string -> option num.
  Variable regex_ok : string -> bool.
  Notation execute := (execute cfg parse_float regex_ok).
  Notation exec_action := (exec_action cfg parse_float regex_ok).

  Definition fun_known (f : list N) : bool := mem (text_of f) (cfg_filters cfg).
  Definition fpre (f : list N) : kind * basic := (KFFun (text_of f), mk_basic (text_of (fun_text f)) false (cfg_accessor cfg)).
  Definition fnode (f : list N) : node := Node (fst (fpre f)) (snd (fpre f)) ONone.

  Lemma exec_fun input p f rest ps toks cps b : fun_known f = true -> skipn p input = fun_text f ++ rest ->
    exists cps' b', execute (fun_tokens p f ++ toks) input cps b (mk ps) = execute toks input cps' b' (mk (ps ++ [INode (fnode f)])).
  Proof.
    intros Hk Hin. unfold fun_tokens. cbn [app Actions.execute].
    assert (E1 : sub_list input (p + 1) (p + 1 + List.length f) = f).
    { apply (sub_at input p 1 [46] f ([40; 41] ++ rest)); [|reflexivity]. rewrite Hin. unfold fun_text. cbn [app]. rewrite <- app_assoc. reflexivity. }
    rewrite E1.
    change (exec_action 6 f (p + 1) (mk ps)) with (AOk (push (IStr (text_of f)) (mk ps))). cbn [abind].
    assert (E2 : sub_list input p (p + List.length f + 3) = fun_text f).
    { pose proof (sub_at input p 0 [] (fun_text f) rest) as H. rewrite Nat.add_0_r in H.
      replace (p + List.length f + 3)%nat with (p + List.length (fun_text f))%nat by (unfold fun_text; cbn [List.length]; rewrite app_length; cbn [List.length]; lia).
      apply H; [exact Hin|reflexivity]. }
    rewrite E2.
    assert (E5 : exec_action 5 (fun_text f) p (push (IStr (text_of f)) (mk ps)) = AOk (mk (ps ++ [INode (fnode f)]))).
    { change (push (IStr (text_of f)) (mk ps)) with (mk (ps ++ [IStr (text_of f)])).
      cbn [Actions.exec_action]. rewrite pop_mk. cbn [abind]. unfold push_function. unfold fun_known in Hk. rewrite Hk. reflexivity. }
    rewrite E5. cbn [abind]. eexists _, _. reflexivity.
  Qed.

  Lemma exec_funs input fs : forall p ps toks cps b, forallb fun_known fs = true -> skipn p input = render_funs fs ->
    exists cps' b', execute (funs_tokens p fs ++ toks) input cps b (mk ps) = execute toks input cps' b' (mk (ps ++ map (fun f => INode (fnode f)) fs)).
  Proof.
    induction fs as [|f r IH]; intros p ps toks cps b Hs Hin.
    - exists cps, b. cbn [funs_tokens app map]. rewrite app_nil_r. reflexivity.
    - cbn [forallb] in Hs. apply andb_true_iff in Hs. destruct Hs as [H1 H2].
      unfold render_funs in Hin. cbn [flat_map] in Hin. cbn [funs_tokens]. rewrite <- app_assoc.
      destruct (exec_fun input p f _ ps (funs_tokens (p + List.length (fun_text f)) r ++ toks) cps b H1 Hin) as (c1 & b1 & E1).
      rewrite E1.
      destruct (IH (p + List.length (fun_text f))%nat (ps ++ [INode (fnode f)]) toks c1 b1 H2 (skipn_next input p _ _ Hin)) as (cps' & b' & E).
      exists cps', b'. rewrite E. cbn [map]. rewrite <- app_assoc. reflexivity.
  Qed.

  Definition fpres (fs : list (list N)) : list (kind * basic) := map fpre fs.
  Lemma fpres_plain fs : Forall (fun kb => plain_kind (fst kb)) (fpres fs).
  Proof. induction fs as [|f r IH]; constructor; [split; intros; discriminate|exact IH]. Qed.

  Lemma chain_fold_funs k b fs : plain_kind k -> forall l, Forall (fun kb => plain_kind (fst kb)) l ->
    fold_left chain_step (map (fun f => INode (fnode f)) fs) (AOk (Node k b (link l))) = AOk (Node k b (link (l ++ fpres fs))).
  Proof.
    intros Hk. induction fs as [|f r IH]; intros l Hl; cbn [map fold_left]; [cbn [fpres map]; rewrite app_nil_r; reflexivity|].
    change (chain_step (AOk (Node k b (link l))) (INode (fnode f))) with (AOk (append_deep (Node k b (link l)) (fnode f))).
    pose proof (append_link k b l [fpre f] Hk Hl ltac:(discriminate)) as A. cbn [link] in A. unfold fnode. rewrite A.
    rewrite IH by (apply Forall_app; split; [exact Hl|constructor; [split; intros; discriminate|constructor]]).
    cbn [fpres map]. rewrite <- app_assoc. reflexivity.
  Qed.

  (* the tree of a list of linked nodes: the first one carries the value-group flag of the whole path *)
  Definition node_of (l : list (kind * basic)) : node :=
    match l with
    | x :: r => Node (fst x) (set_ctext (text (snd x) ++ ctx r) (set_vgroup (any_vg (x :: r)) (snd x))) (fin r)
    | [] => nil_node
    end.
  Lemma chain_node_of steps : chain_node cfg steps = node_of (pres cfg steps).
  Proof. reflexivity. Qed.

  Definition chain_fun_node (steps : list rstep) (fs : list (list N)) : node := node_of (pres cfg steps ++ fpres fs).

  Theorem parse_chain_fun_path s r fs : forallb rstep_ok (s :: r) = true -> forallb fname_ok fs = true -> forallb fun_known fs = true ->
    parse_with cfg parse_float regex_ok G (chain_fun_path (s :: r) fs) = ParseOk (chain_fun_node (s :: r) fs).
  Proof.
    intros Hs Hf Hk. unfold parse_with, parse_from. rewrite (peg_chain_fun_path (s :: r) fs Hs Hf). unfold chain_fun_tokens.
    cbn [Actions.execute].
    change (exec_action 8 [] 0 ps_init) with (AOk (mk [INode (Node KRoot (root_basic cfg) ONone)])). cbn [abind].
    assert (Hsk : skipn 1 (chain_fun_path (s :: r) fs) = render_steps (s :: r) ++ render_funs fs) by reflexivity.
    destruct (exec_steps_tail cfg parse_float regex_ok (chain_fun_path (s :: r) fs) (s :: r) (render_funs fs) 1 [INode (Node KRoot (root_basic cfg) ONone)]
                (funs_tokens (1 + List.length (render_steps (s :: r))) fs ++ [TAct 2; TAct 0]) [] 0 Hs Hsk) as (c1 & b1 & E).
    rewrite E. clear E.
    assert (Hsk2 : skipn (1 + List.length (render_steps (s :: r))) (chain_fun_path (s :: r) fs) = render_funs fs).
    { rewrite skipn_add. cbn [skipn]. unfold chain_fun_path, chain_path. cbn [app skipn]. rewrite skipn_app, skipn_all, Nat.sub_diag. reflexivity. }
    destruct (exec_funs (chain_fun_path (s :: r) fs) fs _ ([INode (Node KRoot (root_basic cfg) ONone)] ++ map (fun x => INode (rpre_node cfg x)) (s :: r))
                [TAct 2; TAct 0] c1 b1 Hk Hsk2) as (cps' & b' & E).
    rewrite E. clear E. cbn [app Actions.execute].
    change (exec_action 2 cps' b' ?st) with (abind (set_node_chain st) update_root_vg).
    unfold set_node_chain, mk. cbn [params map app].
    change (INode (rpre_node cfg s) :: map (fun x : rstep => INode (rpre_node cfg x)) r ++ map (fun f : list N => INode (fnode f)) fs)
      with (map (fun x : rstep => INode (rpre_node cfg x)) (s :: r) ++ map (fun f : list N => INode (fnode f)) fs).
    rewrite fold_left_app.
    pose proof (chain_fold cfg (root_basic cfg) (s :: r) []) as F. cbn [app] in F. change (link (pres cfg [])) with ONone in F.
    rewrite F. clear F.
    rewrite (chain_fold_funs KRoot (root_basic cfg) fs ltac:(split; intros; discriminate) _ (pres_plain cfg (s :: r))).
    cbn [abind with_params params saved proot]. unfold update_root_vg. cbn [params with_params saved proot abind].
    unfold with_params. cbn [params saved proot].
    change (exec_action 0 cps' b' ?st) with
      (abind (pop_node st) (fun '(rt, st1) => AOk {| params := params st1; saved := saved st1; proot := Some (set_ctext_deep (delete_root rt) "") |})).
    unfold pop_node, pop. cbn [params rev app abind with_params saved proot].
    unfold chain_fun_node, node_of.
    assert (Hp : Forall (fun kb => plain_kind (fst kb)) (pres cfg (s :: r) ++ fpres fs)) by (apply Forall_app; split; [apply pres_plain|apply fpres_plain]).
    destruct (pres cfg (s :: r) ++ fpres fs) as [|x l] eqn:Ep.
    { exfalso. unfold pres in Ep. cbn [flat_map] in Ep. destruct s as [s0|s0]; discriminate Ep. }
    inversion Hp as [|? ? Hx Hl]; subst.
    assert (Ev : delete_root (update_vg (Node KRoot (root_basic cfg) (link (x :: l)))) = Node (fst x) (set_vgroup (any_vg (x :: l)) (snd x)) (link l)).
    { unfold update_vg. cbn [chain_vg]. rewrite link_vg. cbn [root_basic mk_basic vgroup orb].
      destruct (any_vg (x :: l)) eqn:Ea.
      - reflexivity.
      - cbn [link delete_root vgroup]. cbn [any_vg existsb] in Ea. apply orb_false_iff in Ea. destruct Ea as [Ea _].
        rewrite <- Ea at 1. rewrite set_vgroup_same. reflexivity. }
    rewrite Ev. rewrite (set_ctext_link _ _ l Hx Hl). reflexivity.
  Qed.
End FunExec.
