(* FiltAddr.v — what the existence filter [?(@ steps)] selects, from the path text: the elements of an array (in index
   order) and the members of an object (in ascending key order) from which the steps reach at least one value. *)
From JP Require Import Peg Grammar Slice Text Tree Actions Json Eval WF Spec SortFacts EvalInv1 EvalInv4 EvalTop EndToEnd Codec KeyDefs KeyParse IdxParse SliceParse UnionParse WildParse RecParse ChainParse SpacePath FunParse AggParse FiltParse CmpParse NegFilt ChainAddr FunAddr AggAddr SpecRootFree.
From Coq Require Import Lia Permutation.
Open Scope list_scope.

(* ---------- chains of step nodes with arbitrary basics ---------- *)
Definition rstep_kinds (x : rstep) : list kind :=
  match x with RPlain s => [step_kind s] | RRec s => [KRec (fst (rec_flags s)) (snd (rec_flags s)); step_kind s] end.
Definition kinds_of (steps : list rstep) : list kind := flat_map rstep_kinds steps.
Fixpoint shaped (ks : list kind) (o : onode) : Prop :=
  match ks, o with
  | [], ONone => True
  | k :: r, OSome (Node k' _ nx) => k = k' /\ shaped r nx
  | _, _ => False
  end.
Fixpoint allb (P : basic -> Prop) (o : onode) : Prop :=
  match o with ONone => True | OSome (Node _ b nx) => P b /\ allb P nx end.
Lemma allb_link P l : Forall (fun kb => P (snd kb)) l -> allb P (link l).
Proof. induction 1 as [|y l Hy Hl IH]; [exact I|]. cbn [link allb]. split; assumption. Qed.
Lemma shaped_link l : shaped (map fst l) (link l).
Proof. induction l as [|y l IH]; [exact I|]. cbn [map link shaped]. split; [reflexivity|exact IH]. Qed.
Lemma shaped_seg x ks o : shaped (rstep_kinds x ++ ks) o -> exists b1 b2 nx, o = OSome (seg x b1 b2 nx) /\ shaped ks nx.
Proof.
  destruct x as [s|s]; cbn [rstep_kinds app shaped ChainAddr.seg].
  - destruct o as [|[k b nx]]; [contradiction|]. intros [E H]. subst k. exists b, b, nx. split; [reflexivity|exact H].
  - destruct o as [|[k b [|[k2 b2 nx]]]]; try contradiction; intros [E H]; [contradiction|]. destruct H as [E2 H]. subst k k2. exists b, b2, nx. split; [reflexivity|exact H].
Qed.
Lemma kinds_cl cfg steps : map fst (cl (pres cfg steps)) = kinds_of steps.
Proof.
  unfold cl. rewrite map_map. cbn [fst]. induction steps as [|x r IH]; [reflexivity|]. unfold pres, kinds_of in *. cbn [flat_map]. rewrite map_app, IH.
  destruct x as [s|s]; reflexivity.
Qed.
Lemma root_free_shaped steps : forall o, shaped (kinds_of steps) o -> (match o with OSome n => root_free n | ONone => true end) = true.
Proof.
  induction steps as [|x r IH]; intros o H.
  - destruct o; [reflexivity|contradiction].
  - unfold kinds_of in H. cbn [flat_map] in H. destruct (shaped_seg x _ o H) as (b1 & b2 & nx & E & Hn). subst o.
    specialize (IH nx Hn). destruct x as [s|s]; cbn [ChainAddr.seg root_free]; rewrite IH;
      destruct s as [q k|k|ds|[|]|sa sb sc|u us]; reflexivity.
Qed.

Section FiltAddr.
  Variable cfg : config.
  Variable parse_float : string -> option num.
  Variable regex_ok : string -> bool.
  Variable ffun : string -> value -> option value.
  Variable afun : string -> list value -> option value.
  Variable regex_match : string -> string -> bool.
  Hypothesis ffun_small : forall f v w, small v -> ffun f v = Some w -> small w.
  Hypothesis afun_small : forall f l w, Forall small l -> afun f l = Some w -> small w.
  Notation sp := (sp ffun afun regex_match).
  Notation holds := (holds ffun afun regex_match).

  Lemma sp_shaped_P (P : basic -> Prop) : forall r x b1 b2 nx, shaped (kinds_of r) nx -> forallb rstep_ok (x :: r) = true -> P b2 -> allb P nx ->
    exists B, P B /\ forall root q v, small v ->
      sp (seg x b1 b2 nx) root (Some q, v) = map (fun lv => (B, true, (Some (fst lv), snd lv))) (nav_all (x :: r) (q, v)).
  Proof.
    induction r as [|y r IH]; intros x b1 b2 nx Hn Hs Hb Ha; cbn [forallb] in Hs; apply andb_true_iff in Hs; destruct Hs as [H1 H2].
    - destruct nx; [|contradiction]. exists b2. split; [exact Hb|]. intros root q v Hsm. rewrite (sp_seg ffun afun regex_match) by assumption.
      cbn [nav_all]. rewrite <- flat_map_single, flat_map_flat_map. apply flat_map_ext'. intros lv. reflexivity.
    - unfold kinds_of in Hn. cbn [flat_map] in Hn. destruct (shaped_seg y _ nx Hn) as (c1 & c2 & nx' & E & Hn'). subst nx.
      assert (Hc2 : P c2 /\ allb P nx').
      { destruct y as [s|s]; cbn [ChainAddr.seg allb] in Ha; [exact Ha|]. destruct Ha as [_ Ha]. exact Ha. }
      destruct (IH y c1 c2 nx' Hn' H2 (proj1 Hc2) (proj2 Hc2)) as (B & HB & Hsp). exists B. split; [exact HB|]. intros root q v Hsm.
      rewrite (sp_seg ffun afun regex_match) by assumption.
      cbn [nav_all]. rewrite map_flat_map'. apply flat_map_ext_in'. intros [l z] Hin. unfold ChainAddr.fwd. cbn [fst snd]. apply Hsp.
      pose proof (nav1r_small x q v Hsm) as Hnv. rewrite Forall_forall in Hnv. exact (Hnv (l, z) Hin).
  Qed.

  Lemma sp_shaped : forall r x b1 b2 nx, shaped (kinds_of r) nx -> forallb rstep_ok (x :: r) = true ->
    exists B, forall root q v, small v ->
      sp (seg x b1 b2 nx) root (Some q, v) = map (fun lv => (B, true, (Some (fst lv), snd lv))) (nav_all (x :: r) (q, v)).
  Proof.
    induction r as [|y r IH]; intros x b1 b2 nx Hn Hs; cbn [forallb] in Hs; apply andb_true_iff in Hs; destruct Hs as [H1 H2].
    - destruct nx; [|contradiction]. exists b2. intros root q v Hsm. rewrite (sp_seg ffun afun regex_match) by assumption.
      cbn [nav_all]. rewrite <- flat_map_single, flat_map_flat_map. apply flat_map_ext'. intros lv. reflexivity.
    - unfold kinds_of in Hn. cbn [flat_map] in Hn. destruct (shaped_seg y _ nx Hn) as (c1 & c2 & nx' & E & Hn'). subst nx.
      destruct (IH y c1 c2 nx' Hn' H2) as (B & Hsp). exists B. intros root q v Hsm.
      rewrite (sp_seg ffun afun regex_match) by assumption.
      cbn [nav_all]. rewrite map_flat_map'. apply flat_map_ext_in'. intros [l z] Hin. unfold ChainAddr.fwd. cbn [fst snd]. apply Hsp.
      pose proof (nav1r_small x q v Hsm) as Hnv. rewrite Forall_forall in Hnv. exact (Hnv (l, z) Hin).
  Qed.

  (* does the operand path reach anything from this value? *)
  Definition reaches (isteps : list rstep) (v : value) : bool :=
    match nav_all isteps ([], v) with [] => false | _ :: _ => true end.

  (* the operand tree of the filter: the steps with the current-node marker removed *)
  Lemma operand_tree x r : exists b1 b2 nx,
    clear_acc (delete_root (inner_root cfg (x :: r))) = seg x b1 b2 nx /\ shaped (kinds_of r) nx.
  Proof.
    unfold inner_root. pose proof (pres_plain cfg (x :: r)) as Hp.
    assert (Hk : map fst (cl (pres cfg (x :: r))) = kinds_of (x :: r)) by apply kinds_cl.
    destruct (pres cfg (x :: r)) as [|y l] eqn:Ep.
    { exfalso. unfold pres in Ep. cbn [flat_map] in Ep. destruct x as [s|s]; discriminate Ep. }
    inversion Hp as [|? ? Hy Hl]; subst.
    assert (Ev : exists by0, clear_acc (delete_root (update_vg (Node KCurrent (cur_basic cfg) (link (y :: l))))) = Node (fst y) by0 (link (cl l))).
    { unfold update_vg. cbn [chain_vg]. destruct (vgroup (cur_basic cfg) || _).
      - cbn [set_node_vg link delete_root vgroup set_vgroup]. eexists. rewrite (clear_link (fst y) _ l (proj1 Hy) Hl). reflexivity.
      - cbn [link delete_root cur_basic mk_basic vgroup]. eexists. rewrite (clear_link (fst y) _ l (proj1 Hy) Hl). reflexivity. }
    destruct Ev as (by0 & Ev). rewrite Ev.
    assert (Hsh : shaped (kinds_of (x :: r)) (OSome (Node (fst y) by0 (link (cl l))))).
    { rewrite <- Hk. cbn [cl map fst shaped]. split; [reflexivity|]. apply (shaped_link (cl l)). }
    unfold kinds_of in Hsh. cbn [flat_map] in Hsh. destruct (shaped_seg x _ _ Hsh) as (b1 & b2 & nx & E & Hn). inversion E as [E']. exists b1, b2, nx. split; [exact E'|exact Hn].
  Qed.

  Lemma operand_reaches isteps root v : forallb rstep_ok isteps = true -> small v ->
    (match sp (clear_acc (delete_root (inner_root cfg isteps))) root (None, v) with [] => false | _ :: _ => true end) = reaches isteps v.
  Proof.
    intros Hs Hsm. destruct isteps as [|x r].
    - reflexivity.
    - destruct (operand_tree x r) as (b1 & b2 & nx & E & Hn). rewrite E.
      assert (Hrf : root_free (seg x b1 b2 nx) = true).
      { pose proof (root_free_shaped r nx Hn) as H. destruct x as [s|s]; cbn [ChainAddr.seg root_free]; rewrite H;
          destruct s as [q k|k|ds|[|]|sa sb sc|u us]; reflexivity. }
      pose proof (proj1 (root_free_sim ffun afun regex_match) (seg x b1 b2 nx) Hrf root root (None, v) (Some [], v) eq_refl) as Hsim.
      destruct (sp_shaped r x b1 b2 nx Hn Hs) as (B & Hsp). pose proof (Hsp root [] v Hsm) as Hq.
      assert (Hsim' : Forall2 sim (sp (seg x b1 b2 nx) root (None, v))
                              (map (fun lv : list pstep * value => (B, true, (Some (fst lv), snd lv))) (nav_all (x :: r) ([], v))))
        by (exact (eq_ind _ (fun l0 => Forall2 sim (sp (seg x b1 b2 nx) root (None, v)) l0) Hsim _ Hq)).
      unfold reaches. destruct (nav_all (x :: r) ([], v)) as [|a l]; cbn [map] in Hsim'; inversion Hsim'; reflexivity.
  Qed.

  Lemma holds_exists isteps root vals : forallb rstep_ok isteps = true -> Forall small vals ->
    holds (QParam (filter_pq cfg isteps)) root vals = map (reaches isteps) vals.
  Proof.
    intros Hs Hv. unfold filter_pq.
    change (holds (QParam (PqCur ?n)) root vals) with
      (let es := (let es0 := map (fun v => match sp n root (None, v) with x :: _ => Some (res_value (Spec.wrap x)) | [] => None end) vals in
                  if existsb (fun x => negb (isE x)) es0 then es0 else [None]) in
       if Nat.eqb (List.length es) (List.length vals) then map (fun x => negb (isE x)) es
       else repeat (negb (isE (hd None es))) (List.length vals)).
    cbv zeta. set (n := clear_acc (delete_root (inner_root cfg isteps))).
    set (es0 := map (fun v => match sp n root (None, v) with x :: _ => Some (res_value (Spec.wrap x)) | [] => None end) vals).
    assert (E0 : map (fun x => negb (isE x)) es0 = map (reaches isteps) vals).
    { unfold es0. rewrite map_map. apply map_ext_in. intros v Hin. rewrite Forall_forall in Hv.
      rewrite <- (operand_reaches isteps root v Hs (Hv v Hin)). fold n. destruct (sp n root (None, v)); reflexivity. }
    assert (Hlen : List.length es0 = List.length vals) by (unfold es0; apply map_length).
    destruct (existsb (fun x => negb (isE x)) es0) eqn:Ee.
    - rewrite Hlen, Nat.eqb_refl. exact E0.
    - (* no member reaches anything: every verdict is false *)
      assert (Hall : map (reaches isteps) vals = repeat false (List.length vals)).
      { rewrite <- E0, <- Hlen. clear -Ee. induction es0 as [|e es IH]; [reflexivity|]. cbn [existsb] in Ee. apply orb_false_iff in Ee. destruct Ee as [E1 E2].
        cbn [map List.length repeat]. rewrite E1, (IH E2). reflexivity. }
      rewrite Hall. cbn [List.length hd isE negb]. destruct vals as [|v0 [|v1 vs]]; cbn [List.length Nat.eqb]; reflexivity.
  Qed.

  (* ---------- what the filter step selects ---------- *)
  Definition navf (isteps : list rstep) (lv : list pstep * value) : list (list pstep * value) :=
    match snd lv with
    | VArr xs => flat_map (fun iv : Z * value => if reaches isteps (snd iv) then [(fst lv ++ [PIdx (fst iv)], snd iv)] else []) (index_list xs 0)
    | VObj m => flat_map (fun k => match lookup m k with
                                   | Some x => if reaches isteps x then [(fst lv ++ [PKey k], x)] else []
                                   | None => []
                                   end) (sorted_keys m)
    | _ => []
    end.

  Lemma combine_index (h : value -> bool) xs : forall k,
    combine (index_list xs k) (map h xs) = map (fun iv : Z * value => (iv, h (snd iv))) (index_list xs k).
  Proof. induction xs as [|x r IH]; intros k; [reflexivity|]. cbn [index_list map combine snd]. rewrite IH. reflexivity. Qed.

  Lemma lookup_in_fst m k : In k (map fst m) -> lookup m k <> None.
  Proof.
    induction m as [|[k' a] m IH]; cbn [map fst In lookup]; [contradiction|]. intros [E|H].
    - subst k'. rewrite String.eqb_refl. discriminate.
    - destruct (String.eqb k k'); [discriminate|apply IH; exact H].
  Qed.
  Lemma sorted_key_present m k : In k (sorted_keys m) -> lookup m k <> None.
  Proof. intros H. apply lookup_in_fst. unfold sorted_keys in H. apply (Permutation_in k (Permutation_sym (sort_keys_perm (map fst m)))). exact H. Qed.

  Lemma obj_combine (m : list (string * value)) (h : value -> bool) (F : string -> list sres) ks : (forall k, In k ks -> lookup m k <> None) ->
    flat_map (fun kb : string * bool => if snd kb then F (fst kb) else [])
             (combine ks (map h (flat_map (fun k => match lookup m k with Some v => [v] | None => [] end) ks))) =
    flat_map (fun k => match lookup m k with Some x => if h x then F k else [] | None => [] end) ks.
  Proof.
    induction ks as [|k ks IH]; intros Hk; [reflexivity|]. cbn [flat_map].
    destruct (lookup m k) as [x|] eqn:El; [|contradiction (Hk k (or_introl eq_refl) El)].
    cbn [app map combine flat_map fst snd]. rewrite IH by (intros k0 H0; apply Hk; right; exact H0). reflexivity.
  Qed.

  Lemma small_obj_vals m ks : small (VObj m) -> Forall small (flat_map (fun k => match lookup m k with Some v => [v] | None => [] end) ks).
  Proof.
    intros Hsm. apply Forall_forall. intros x Hin. apply in_flat_map in Hin. destruct Hin as [k [_ Hx]].
    destruct (lookup m k) as [y|] eqn:El; [|contradiction]. destruct Hx as [E|[]]. subst y. eapply small_obj_lookup; eassumption.
  Qed.
  Lemma small_arr_all xs : small (VArr xs) -> Forall small xs.
  Proof. intros Hsm. apply Forall_forall. intros x Hin. eapply small_arr_in; eassumption. Qed.

  Lemma sp_filt isteps b next root p v : forallb rstep_ok isteps = true -> small v ->
    sp (Node (filt_kind cfg isteps) b next) root (Some p, v) = flat_map (ChainAddr.fwd ffun afun regex_match b next root) (navf isteps (p, v)).
  Proof.
    intros Hs Hsm. unfold filt_kind, navf. cbn [snd fst]. destruct v as [|bb|x|s x|s|xs|m|t i s]; try reflexivity.
    - change (sp (Node (KFilter ?q) b next) root (Some p, VArr xs)) with
        (flat_map (fun ib : (Z * value) * bool => if snd ib then ChainAddr.fwd ffun afun regex_match b next root (p ++ [PIdx (fst (fst ib))], snd (fst ib)) else [])
                  (combine (index_list xs 0) (holds q root xs))).
      rewrite (holds_exists isteps root xs Hs (small_arr_all xs Hsm)), combine_index, flat_map_map', flat_map_flat_map.
      apply flat_map_ext'. intros [i x]. cbn [fst snd]. destruct (reaches isteps x); [cbn [flat_map]; rewrite app_nil_r|]; reflexivity.
    - change (sp (Node (KFilter ?q) b next) root (Some p, VObj m)) with
        (flat_map (fun kb : string * bool => if snd kb then match lookup m (fst kb) with
                                                             | Some x => ChainAddr.fwd ffun afun regex_match b next root (p ++ [PKey (fst kb)], x)
                                                             | None => []
                                                             end else [])
                  (combine (sorted_keys m) (holds q root (flat_map (fun k => match lookup m k with Some v => [v] | None => [] end) (sorted_keys m))))).
      rewrite (holds_exists isteps root _ Hs (small_obj_vals m (sorted_keys m) Hsm)).
      rewrite (obj_combine m (reaches isteps) (fun k => match lookup m k with Some x => ChainAddr.fwd ffun afun regex_match b next root (p ++ [PKey k], x) | None => [] end)
                           (sorted_keys m) (sorted_key_present m)).
      rewrite flat_map_flat_map. apply flat_map_ext'. intros k. destruct (lookup m k) as [x|]; [|reflexivity].
      destruct (reaches isteps x); [cbn [flat_map]; rewrite app_nil_r|]; reflexivity.
  Qed.
  (* ---------- the operand's value at a member, and filters in general ---------- *)
  Notation accf := (fun b : basic => accessor b = false).
  Lemma allb_seg P x b1 b2 nx : allb P (OSome (seg x b1 b2 nx)) -> P b2 /\ allb P nx.
  Proof. destruct x as [s|s]; cbn [ChainAddr.seg allb]; [intros H; exact H|intros [_ H]; exact H]. Qed.

  Lemma operand_tree_acc x r : exists b1 b2 nx,
    clear_acc (delete_root (inner_root cfg (x :: r))) = seg x b1 b2 nx /\ shaped (kinds_of r) nx /\ accessor b2 = false /\ allb accf nx.
  Proof.
    unfold inner_root. pose proof (pres_plain cfg (x :: r)) as Hp.
    assert (Hk : map fst (cl (pres cfg (x :: r))) = kinds_of (x :: r)) by apply kinds_cl.
    destruct (pres cfg (x :: r)) as [|y l] eqn:Ep.
    { exfalso. unfold pres in Ep. cbn [flat_map] in Ep. destruct x as [s|s]; discriminate Ep. }
    inversion Hp as [|? ? Hy Hl]; subst.
    assert (Ev : exists by0, clear_acc (delete_root (update_vg (Node KCurrent (cur_basic cfg) (link (y :: l))))) = Node (fst y) by0 (link (cl l)) /\
                 accessor by0 = false).
    { unfold update_vg. cbn [chain_vg]. destruct (vgroup (cur_basic cfg) || _).
      - cbn [set_node_vg link delete_root vgroup set_vgroup]. eexists. rewrite (clear_link (fst y) _ l (proj1 Hy) Hl). split; reflexivity.
      - cbn [link delete_root cur_basic mk_basic vgroup]. eexists. rewrite (clear_link (fst y) _ l (proj1 Hy) Hl). split; reflexivity. }
    destruct Ev as (by0 & Ev & Hacc). rewrite Ev.
    assert (Hsh : shaped (kinds_of (x :: r)) (OSome (Node (fst y) by0 (link (cl l))))).
    { rewrite <- Hk. cbn [cl map fst shaped]. split; [reflexivity|]. apply (shaped_link (cl l)). }
    assert (Hall : allb accf (OSome (Node (fst y) by0 (link (cl l))))).
    { cbn [allb]. split; [exact Hacc|]. apply allb_link. unfold cl. apply Forall_forall. intros kb Hin. apply in_map_iff in Hin. destruct Hin as [kb0 [E _]]. subst kb. reflexivity. }
    unfold kinds_of in Hsh. cbn [flat_map] in Hsh. destruct (shaped_seg x _ _ Hsh) as (b1 & b2 & nx & E & Hn). inversion E as [E'].
    rewrite E' in Hall. destruct (allb_seg accf x b1 b2 nx Hall) as [Hb2 Hnx].
    exists b1, b2, nx. repeat split; assumption.
  Qed.

  (* the first value the operand path reaches from a member (the path of a comparison operand is single-valued) *)
  Definition reach1 (isteps : list rstep) (v : value) : entry :=
    match nav_all isteps ([], v) with [] => None | lv :: _ => Some (snd lv) end.

  Lemma operand_entry isteps root v : forallb rstep_ok isteps = true -> small v ->
    (match sp (clear_acc (delete_root (inner_root cfg isteps))) root (None, v) with x :: _ => Some (res_value (Spec.wrap x)) | [] => None end) = reach1 isteps v.
  Proof.
    intros Hs Hsm. destruct isteps as [|x r].
    - reflexivity.
    - destruct (operand_tree_acc x r) as (b1 & b2 & nx & E & Hn & Hb2 & Hnx). rewrite E.
      assert (Hrf : root_free (seg x b1 b2 nx) = true).
      { pose proof (root_free_shaped r nx Hn) as H. destruct x as [s|s]; cbn [ChainAddr.seg root_free]; rewrite H;
          destruct s as [q k|k|ds|[|]|sa sb sc|u us]; reflexivity. }
      pose proof (proj1 (root_free_sim ffun afun regex_match) (seg x b1 b2 nx) Hrf root root (None, v) (Some [], v) eq_refl) as Hsim.
      destruct (sp_shaped_P accf r x b1 b2 nx Hn Hs Hb2 Hnx) as (B & HB & Hsp). pose proof (Hsp root [] v Hsm) as Hq.
      assert (Hsim' : Forall2 sim (sp (seg x b1 b2 nx) root (None, v))
                              (map (fun lv : list pstep * value => (B, true, (Some (fst lv), snd lv))) (nav_all (x :: r) ([], v))))
        by (exact (eq_ind _ (fun l0 => Forall2 sim (sp (seg x b1 b2 nx) root (None, v)) l0) Hsim _ Hq)).
      unfold reach1. destruct (nav_all (x :: r) ([], v)) as [|a l]; cbn [map] in Hsim'; inversion Hsim' as [|r0 r1 l0 l1 Hs0 _]; subst; [reflexivity|].
      rewrite (wrap_sim _ _ Hs0). cbn [Spec.wrap]. rewrite HB. reflexivity.
  Qed.

  (* a filter whose verdict for every member is a function of that member *)
  Definition navp (h : value -> bool) (lv : list pstep * value) : list (list pstep * value) :=
    match snd lv with
    | VArr xs => flat_map (fun iv : Z * value => if h (snd iv) then [(fst lv ++ [PIdx (fst iv)], snd iv)] else []) (index_list xs 0)
    | VObj m => flat_map (fun k => match lookup m k with
                                   | Some x => if h x then [(fst lv ++ [PKey k], x)] else []
                                   | None => []
                                   end) (sorted_keys m)
    | _ => []
    end.

  Lemma sp_kfilter q h b next root p v : (forall vals, Forall small vals -> holds q root vals = map h vals) -> small v ->
    sp (Node (KFilter q) b next) root (Some p, v) = flat_map (ChainAddr.fwd ffun afun regex_match b next root) (navp h (p, v)).
  Proof.
    intros Hh Hsm. unfold navp. cbn [snd fst]. destruct v as [|bb|x|s x|s|xs|m|t i s]; try reflexivity.
    - change (sp (Node (KFilter q) b next) root (Some p, VArr xs)) with
        (flat_map (fun ib : (Z * value) * bool => if snd ib then ChainAddr.fwd ffun afun regex_match b next root (p ++ [PIdx (fst (fst ib))], snd (fst ib)) else [])
                  (combine (index_list xs 0) (holds q root xs))).
      rewrite (Hh xs (small_arr_all xs Hsm)), combine_index, flat_map_map', flat_map_flat_map.
      apply flat_map_ext'. intros [i x]. cbn [fst snd]. destruct (h x); [cbn [flat_map]; rewrite app_nil_r|]; reflexivity.
    - change (sp (Node (KFilter q) b next) root (Some p, VObj m)) with
        (flat_map (fun kb : string * bool => if snd kb then match lookup m (fst kb) with
                                                             | Some x => ChainAddr.fwd ffun afun regex_match b next root (p ++ [PKey (fst kb)], x)
                                                             | None => []
                                                             end else [])
                  (combine (sorted_keys m) (holds q root (flat_map (fun k => match lookup m k with Some v => [v] | None => [] end) (sorted_keys m))))).
      rewrite (Hh _ (small_obj_vals m (sorted_keys m) Hsm)).
      rewrite (obj_combine m h (fun k => match lookup m k with Some x => ChainAddr.fwd ffun afun regex_match b next root (p ++ [PKey k], x) | None => [] end)
                           (sorted_keys m) (sorted_key_present m)).
      rewrite flat_map_flat_map. apply flat_map_ext'. intros k. destruct (lookup m k) as [x|]; [|reflexivity].
      destruct (h x); [cbn [flat_map]; rewrite app_nil_r|]; reflexivity.
  Qed.
  (* the same when the verdict for a member may depend on all the members offered together *)
  Definition kids (v : value) : list value :=
    match v with
    | VArr xs => xs
    | VObj m => flat_map (fun k => match lookup m k with Some x => [x] | None => [] end) (sorted_keys m)
    | _ => []
    end.
  Lemma sp_kfilter_l q (H : list value -> value -> bool) b next root p v :
    (forall vals, Forall small vals -> holds q root vals = map (H vals) vals) -> small v ->
    sp (Node (KFilter q) b next) root (Some p, v) = flat_map (ChainAddr.fwd ffun afun regex_match b next root) (navp (H (kids v)) (p, v)).
  Proof.
    intros Hh Hsm. unfold navp. cbn [snd fst]. destruct v as [|bb|x|s x|s|xs|m|t i s]; try reflexivity.
    - change (sp (Node (KFilter q) b next) root (Some p, VArr xs)) with
        (flat_map (fun ib : (Z * value) * bool => if snd ib then ChainAddr.fwd ffun afun regex_match b next root (p ++ [PIdx (fst (fst ib))], snd (fst ib)) else [])
                  (combine (index_list xs 0) (holds q root xs))).
      rewrite (Hh xs (small_arr_all xs Hsm)), combine_index, flat_map_map', flat_map_flat_map. cbn [kids].
      apply flat_map_ext'. intros [i x]. cbn [fst snd]. destruct (H xs x); [cbn [flat_map]; rewrite app_nil_r|]; reflexivity.
    - change (sp (Node (KFilter q) b next) root (Some p, VObj m)) with
        (flat_map (fun kb : string * bool => if snd kb then match lookup m (fst kb) with
                                                             | Some x => ChainAddr.fwd ffun afun regex_match b next root (p ++ [PKey (fst kb)], x)
                                                             | None => []
                                                             end else [])
                  (combine (sorted_keys m) (holds q root (flat_map (fun k => match lookup m k with Some v => [v] | None => [] end) (sorted_keys m))))).
      rewrite (Hh _ (small_obj_vals m (sorted_keys m) Hsm)). cbn [kids].
      rewrite (obj_combine m (H (flat_map (fun k => match lookup m k with Some v => [v] | None => [] end) (sorted_keys m))) (fun k => match lookup m k with Some x => ChainAddr.fwd ffun afun regex_match b next root (p ++ [PKey k], x) | None => [] end)
                           (sorted_keys m) (sorted_key_present m)).
      rewrite flat_map_flat_map. apply flat_map_ext'. intros k. destruct (lookup m k) as [x|]; [|reflexivity].
      destruct (H _ x); [cbn [flat_map]; rewrite app_nil_r|]; reflexivity.
  Qed.
  Lemma sp_neg isteps b next root p v : forallb rstep_ok isteps = true -> small v ->
    sp (Node (neg_kind cfg isteps) b next) root (Some p, v) =
    flat_map (ChainAddr.fwd ffun afun regex_match b next root) (navp (fun x => negb (reaches isteps x)) (p, v)).
  Proof.
    intros Hs Hsm. unfold neg_kind. apply sp_kfilter; [|exact Hsm]. intros vals Hv.
    change (holds (QNot ?q) root vals) with (map negb (holds q root vals)). rewrite (holds_exists isteps root vals Hs Hv), map_map. reflexivity.
  Qed.
End FiltAddr.
