(* FiltParse.v — the existence filter [?(@ steps)] through the regenerated grammar: bracketNode with the qualifier
   alternative `filter`; the query is one basicQuery whose first two alternatives (a parenthesised query, a comparison)
   fail — the comparison only after the operand has been read and no operator follows — and whose third reads the
   operand path between saveParams and loadParams. *)
From JP Require Import Peg Grammar Text Tree Actions PegFacts PegMono PegEv FuelRules ParseFacts KeyDefs KeyParse IdxParse SliceParse UnionParse WildParse RecParse ChainParse SpacePath FunParse.
From Coq Require Import Lia.
Local Open Scope N_scope.
Open Scope list_scope.

Definition inner_tokens (p : nat) (isteps : list rstep) : list token :=
  [TAct 9] ++ steps_tokens (p + 1) isteps ++ [TAct 2].
Definition filt_tokens (p : nat) (isteps : list rstep) : list token :=
  [TAct 38] ++ inner_tokens (p + 3) isteps ++
  [TAct 39; TText (p + 3) (p + 4 + List.length (render_steps isteps)); TAct 27; TAct 23;
   TText p (p + 6 + List.length (render_steps isteps)); TAct 7].

(* childNode and function fail on a closing parenthesis *)
Lemma ev_rule10_rparen t pos : evG (PRef 10) (41 :: t) pos PFail.
Proof. eapply ev_ref; [reflexivity|]. apply ev_seq_fail. apply ev_cap_fail. apply ev_seq_fail. eapply ev_ref; [reflexivity|]. apply ev_seq_fail. apply (ev_lit_fail G [91]). reflexivity. Qed.
Lemma ev_rule7_rparen t pos : evG (PRef 7) (41 :: t) pos PFail.
Proof.
  eapply ev_ref; [reflexivity|].
  apply ev_alt_r; [apply ev_seq_fail; apply (ev_lit_fail G [46; 46]); reflexivity|].
  apply ev_alt_r; [apply ev_seq_fail; apply ev_cap_fail; apply ev_seq_fail; apply (ev_lit_fail G [46]); reflexivity|].
  apply ev_rule10_rparen.
Qed.
Lemma ev_rule8_rparen t pos : evG (PRef 8) (41 :: t) pos PFail.
Proof. eapply ev_ref; [reflexivity|]. apply ev_seq_fail. apply ev_cap_fail. apply ev_seq_fail. apply (ev_lit_fail G [46]). reflexivity. Qed.

(* the operand path @ steps, up to the closing parenthesis *)
Lemma ev_rule3_cur isteps t pos : forallb rstep_ok isteps = true ->
  evG (PRef 3) (64 :: render_steps isteps ++ 41 :: t) pos
      (POk (41 :: t) (pos + 1 + List.length (render_steps isteps)) (inner_tokens pos isteps)).
Proof.
  intros Hs. unfold inner_tokens. eapply ev_conv.
  - eapply ev_ref; [reflexivity|].
    eapply ev_seq_ok; [apply ev_space_stop; discriminate| |reflexivity].
    eapply ev_seq_ok; [| |reflexivity].
    + eapply ev_ref; [reflexivity|]. apply ev_alt_r.
      * eapply ev_ref; [reflexivity|]. apply ev_seq_fail. apply (ev_lit_fail G [36]). reflexivity.
      * eapply ev_ref; [reflexivity|]. eapply ev_seq_ok; [apply (ev_lit_ok G [64]); apply strip1_ok|apply ev_act|reflexivity].
    + eapply ev_ref; [reflexivity|].
      eapply ev_seq_ok; [apply (ev_steps_star_gen isteps (41 :: t) _ Hs); [cbn; repeat split; try reflexivity; discriminate|intros p; apply ev_rule7_rparen]| |reflexivity].
      eapply ev_seq_ok; [apply ev_star_stop; apply ev_rule8_rparen| |reflexivity].
        eapply ev_seq_ok; [apply ev_space_stop; discriminate|apply ev_act|reflexivity].
  - cbn [List.length app Nat.add]. f_equal; try lia; rewrite <- ?app_assoc; try reflexivity.
Qed.

Lemma ev_rule44 isteps t pos : forallb rstep_ok isteps = true ->
  evG (PRef 44) (64 :: render_steps isteps ++ 41 :: t) pos
      (POk (41 :: t) (pos + 1 + List.length (render_steps isteps)) ([TAct 38] ++ inner_tokens pos isteps ++ [TAct 39])).
Proof.
  intros Hs. eapply ev_ref; [reflexivity|].
  eapply ev_seq_ok; [apply ev_act| |reflexivity].
  eapply ev_seq_ok; [apply (ev_rule3_cur isteps t pos Hs)|apply ev_act|reflexivity].
Qed.
Lemma ev_rule43 isteps t pos : forallb rstep_ok isteps = true ->
  exists toks, evG (PRef 43) (64 :: render_steps isteps ++ 41 :: t) pos (POk (41 :: t) (pos + 1 + List.length (render_steps isteps)) toks).
Proof.
  intros Hs. eexists. eapply ev_ref; [reflexivity|].
  eapply ev_seq_ok; [apply ev_cap; apply (ev_rule44 isteps t pos Hs)|apply ev_act|reflexivity].
Qed.

(* no literal starts with @ *)
Lemma ev_rule45_at r pos : evG (PRef 45) (64 :: r) pos PFail.
Proof.
  eapply ev_ref; [reflexivity|]. apply ev_seq_fail. apply ev_cap_fail.
  eapply ev_seq_fail2; [apply ev_opt_none; apply ev_cls_fail; reflexivity|]. apply ev_seq_fail. apply ev_cls_fail. reflexivity.
Qed.
Lemma ev_rule42_at r pos : evG (PRef 42) (64 :: r) pos PFail.
Proof.
  eapply ev_ref; [reflexivity|]. apply ev_alt_r; [apply ev_rule45_at|].
  apply ev_alt_r.
  { eapply ev_ref; [reflexivity|]. apply ev_alt_r; apply ev_seq_fail;
      (apply ev_alt_r; [apply (ev_lit_fail G); reflexivity|]; apply ev_alt_r; apply (ev_lit_fail G); reflexivity). }
  apply ev_alt_r.
  { eapply ev_ref; [reflexivity|]. apply ev_alt_r; apply ev_seq_fail; apply (ev_lit_fail G); reflexivity. }
  eapply ev_ref; [reflexivity|]. apply ev_seq_fail.
  apply ev_alt_r; [apply (ev_lit_fail G); reflexivity|]; apply ev_alt_r; apply (ev_lit_fail G); reflexivity.
Qed.

(* a comparison is not what stands there: the operand is read, then no operator follows *)
Lemma ev_rule39_exists isteps t pos : forallb rstep_ok isteps = true ->
  evG (PRef 39) (64 :: render_steps isteps ++ 41 :: t) pos PFail.
Proof.
  intros Hs. destruct (ev_rule43 isteps t pos Hs) as (toks & E43).
  eapply ev_ref; [reflexivity|].
  apply ev_alt_r.
  { eapply ev_seq_fail2.
    - eapply ev_ref; [reflexivity|]. apply ev_alt_r; [apply ev_seq_fail; apply ev_rule42_at|exact E43].
    - eapply ev_seq_fail2; [apply ev_space_stop; discriminate|].
      apply ev_alt_r; apply ev_seq_fail; apply (ev_lit_fail G); reflexivity. }
  apply ev_alt_r.
  { eapply ev_seq_fail2.
    - eapply ev_ref; [reflexivity|]. apply ev_alt_r; [apply ev_seq_fail; apply ev_rule45_at|exact E43].
    - eapply ev_seq_fail2; [apply ev_space_stop; discriminate|].
      apply ev_alt_r; [apply ev_seq_fail; apply (ev_lit_fail G); reflexivity|].
      apply ev_alt_r; [apply ev_seq_fail; apply (ev_lit_fail G); reflexivity|].
      apply ev_alt_r; apply ev_seq_fail; apply (ev_lit_fail G); reflexivity. }
  eapply ev_seq_fail2; [exact E43|].
  eapply ev_seq_fail2; [apply ev_space_stop; discriminate|].
  apply ev_seq_fail. apply (ev_lit_fail G). reflexivity.
Qed.

Lemma ev_rule35_exists isteps t pos : forallb rstep_ok isteps = true ->
  evG (PRef 35) (64 :: render_steps isteps ++ 41 :: t) pos
      (POk (41 :: t) (pos + 1 + List.length (render_steps isteps))
           ([TAct 38] ++ inner_tokens pos isteps ++ [TAct 39; TText pos (pos + 1 + List.length (render_steps isteps)); TAct 27])).
Proof.
  intros Hs. eapply ev_conv.
  - eapply ev_ref; [reflexivity|].
    apply ev_alt_r; [apply ev_seq_fail; eapply ev_ref; [reflexivity|]; apply ev_seq_fail; apply (ev_lit_fail G [40]); reflexivity|].
    apply ev_alt_r; [apply ev_seq_fail; apply ev_cap_fail; apply (ev_rule39_exists isteps t pos Hs)|].
    eapply ev_seq_ok; [apply ev_cap| apply ev_act |reflexivity].
    eapply ev_seq_ok; [apply ev_opt_none; eapply ev_ref; [reflexivity|]; apply ev_seq_fail; apply (ev_lit_fail G [33]); reflexivity| |reflexivity].
    apply (ev_rule44 isteps t pos Hs).
  - cbn [app]. rewrite <- !app_assoc. reflexivity.
Qed.

Lemma ev_rule33_exists isteps t pos : forallb rstep_ok isteps = true ->
  evG (PRef 33) (64 :: render_steps isteps ++ 41 :: t) pos
      (POk (41 :: t) (pos + 1 + List.length (render_steps isteps))
           ([TAct 38] ++ inner_tokens pos isteps ++ [TAct 39; TText pos (pos + 1 + List.length (render_steps isteps)); TAct 27])).
Proof.
  intros Hs. eapply ev_conv.
  - eapply ev_ref; [reflexivity|].
    eapply ev_seq_ok; [| |reflexivity].
    + eapply ev_ref; [reflexivity|].
      eapply ev_seq_ok; [apply (ev_rule35_exists isteps t pos Hs)| |reflexivity].
      apply ev_star_stop. apply ev_seq_fail. eapply ev_ref; [reflexivity|].
      eapply ev_seq_fail2; [apply ev_space_stop; discriminate|]. apply ev_seq_fail. apply (ev_lit_fail G [38; 38]). reflexivity.
    + apply ev_star_stop. apply ev_seq_fail. eapply ev_ref; [reflexivity|].
      eapply ev_seq_fail2; [apply ev_space_stop; discriminate|]. apply ev_seq_fail. apply (ev_lit_fail G [124; 124]). reflexivity.
  - rewrite !app_nil_r. reflexivity.
Qed.

(* neither a name list, nor a union, nor a script starts with a question mark *)
Lemma ev_rule15_q r pos : evG (PRef 15) (63 :: r) pos PFail.
Proof.
  eapply ev_ref; [reflexivity|]. apply ev_seq_fail. eapply ev_ref; [reflexivity|].
  apply ev_alt_r; [eapply ev_ref; [reflexivity|]; apply ev_seq_fail; apply (ev_lit_fail G [42]); reflexivity|].
  apply ev_alt_r; eapply ev_ref; try reflexivity; apply ev_seq_fail; apply (ev_lit_fail G); reflexivity.
Qed.
Lemma ev_rule27_q r pos : evG (PRef 27) (63 :: r) pos PFail.
Proof.
  eapply ev_ref; [reflexivity|]. eapply ev_seq_fail2; [apply ev_opt_none; apply ev_cls_fail; reflexivity|].
  apply ev_plus_fail. apply ev_cls_fail. reflexivity.
Qed.
Lemma ev_rule23_q r pos : evG (PRef 23) (63 :: r) pos PFail.
Proof.
  eapply ev_ref; [reflexivity|]. apply ev_seq_fail. eapply ev_ref; [reflexivity|]. apply ev_seq_fail.
  apply ev_alt_r.
  { apply ev_seq_fail. eapply ev_ref; [reflexivity|].
    eapply ev_seq_fail2.
    - eapply ev_ref; [reflexivity|]. eapply ev_seq_ok; [apply ev_cap; apply ev_opt_none; apply ev_rule27_q|apply ev_act|reflexivity].
    - apply ev_seq_fail. eapply ev_ref; [reflexivity|]. eapply ev_seq_fail2; [apply ev_space_stop; discriminate|].
      apply ev_seq_fail. apply (ev_lit_fail G [58]). reflexivity. }
  apply ev_alt_r; [apply ev_seq_fail; apply ev_cap_fail; apply ev_rule27_q|].
  apply ev_seq_fail. apply (ev_lit_fail G [42]). reflexivity.
Qed.

Lemma ev_rule22_exists isteps r pos : forallb rstep_ok isteps = true ->
  evG (PRef 22) ([63; 40; 64] ++ render_steps isteps ++ 41 :: r) pos
      (POk r (pos + 4 + List.length (render_steps isteps))
           ([TAct 38] ++ inner_tokens (pos + 2) isteps ++ [TAct 39; TText (pos + 2) (pos + 3 + List.length (render_steps isteps)); TAct 27; TAct 23])).
Proof.
  intros Hs. cbn [app]. eapply ev_conv.
  - eapply ev_ref; [reflexivity|].
    apply ev_alt_r; [apply ev_rule23_q|].
    apply ev_alt_r; [eapply ev_ref; [reflexivity|]; apply ev_seq_fail; eapply ev_ref; [reflexivity|]; apply ev_seq_fail; apply (ev_lit_fail G [40]); reflexivity|].
    eapply ev_ref; [reflexivity|].
    eapply ev_seq_ok; [| |reflexivity].
    + eapply ev_ref; [reflexivity|]. eapply ev_seq_ok; [apply (ev_lit_ok G [63; 40]); reflexivity|apply ev_space_stop; discriminate|reflexivity].
    + eapply ev_seq_ok; [apply (ev_rule33_exists isteps r _ Hs)| |reflexivity].
      eapply ev_seq_ok; [|apply ev_act|reflexivity].
      eapply ev_ref; [reflexivity|]. eapply ev_seq_ok; [apply ev_space_stop; discriminate|apply (ev_lit_ok G [41]); apply strip1_ok|reflexivity].
  - cbn [List.length app Nat.add]. f_equal; try lia.
    replace (pos + 2 + 1 + List.length (render_steps isteps))%nat with (pos + 3 + List.length (render_steps isteps))%nat by lia.
    rewrite <- !app_assoc. reflexivity.
Qed.

Lemma ev_rule10_exists isteps r pos : forallb rstep_ok isteps = true ->
  evG (PRef 10) (filt_text isteps ++ r) pos (POk r (pos + 6 + List.length (render_steps isteps)) (filt_tokens pos isteps)).
Proof.
  intros Hs. unfold filt_tokens.
  replace (filt_text isteps ++ r) with (91 :: 63 :: 40 :: 64 :: render_steps isteps ++ 41 :: 93 :: r)
    by (unfold filt_text; cbn [app]; rewrite <- app_assoc; reflexivity).
  eapply ev_conv.
  - eapply ev_ref; [reflexivity|].
    eapply ev_seq_ok; [apply ev_cap|apply ev_act|reflexivity].
    eapply ev_seq_ok; [| |reflexivity].
    + eapply ev_ref; [reflexivity|]. eapply ev_seq_ok; [apply (ev_lit_ok G [91]); apply strip1_ok|apply ev_space_stop; discriminate|reflexivity].
    + eapply ev_seq_ok; [| |reflexivity].
      * apply ev_alt_r; [apply ev_rule15_q|].
        pose proof (ev_rule22_exists isteps (93 :: r) (pos + 1) Hs) as E. cbn [app] in E.
        exact E.
      * eapply ev_ref; [reflexivity|]. eapply ev_seq_ok; [apply ev_space_stop; discriminate|apply (ev_lit_ok G [93]); apply strip1_ok|reflexivity].
  - cbn [List.length app Nat.add]. f_equal; try lia.
    replace (pos + 1 + 2)%nat with (pos + 3)%nat by lia. replace (pos + 1 + 3 + List.length (render_steps isteps))%nat with (pos + 4 + List.length (render_steps isteps))%nat by lia.
    replace (pos + 1 + 4 + List.length (render_steps isteps) + 1)%nat with (pos + 6 + List.length (render_steps isteps))%nat by lia.
    repeat (progress (cbn [app]) || rewrite <- app_assoc || rewrite app_nil_r). reflexivity.
Qed.

Lemma ev_rule7_exists isteps r pos : forallb rstep_ok isteps = true ->
  evG (PRef 7) (filt_text isteps ++ r) pos (POk r (pos + 6 + List.length (render_steps isteps)) (filt_tokens pos isteps)).
Proof.
  intros Hs. eapply ev_ref; [reflexivity|].
  apply ev_alt_r; [apply ev_seq_fail; apply (ev_lit_fail G [46; 46]); reflexivity|].
  apply ev_alt_r; [apply ev_seq_fail; apply ev_cap_fail; apply ev_seq_fail; apply (ev_lit_fail G [46]); reflexivity|].
  apply ev_rule10_exists. exact Hs.
Qed.

(* a character that ends the path and starts nothing *)
Definition closer (c : N) : Prop := dot_sym c = true /\ c <> 46 /\ c <> 91 /\ c <> 32 /\ c <> 92 /\ c <> 40.

Lemma ev_rule7_closer c t pos : closer c -> evG (PRef 7) (c :: t) pos PFail.
Proof.
  intros (Hs & H46 & H91 & _). eapply ev_ref; [reflexivity|].
  apply ev_alt_r; [apply ev_seq_fail; apply (ev_lit_fail G [46; 46]); apply strip2_no; exact H46|].
  apply ev_alt_r; [apply ev_seq_fail; apply ev_cap_fail; apply ev_seq_fail; apply (ev_lit_fail G [46]); apply strip1_no; exact H46|].
  eapply ev_ref; [reflexivity|]. apply ev_seq_fail. apply ev_cap_fail. apply ev_seq_fail. eapply ev_ref; [reflexivity|]. apply ev_seq_fail.
  apply (ev_lit_fail G [91]). apply strip1_no. exact H91.
Qed.
Lemma ev_rule8_closer c t pos : closer c -> evG (PRef 8) (c :: t) pos PFail.
Proof.
  intros (Hs & H46 & _). eapply ev_ref; [reflexivity|]. apply ev_seq_fail. apply ev_cap_fail. apply ev_seq_fail.
  apply (ev_lit_fail G [46]). apply strip1_no. exact H46.
Qed.


(* what may follow a basic query: the closing parenthesis, && or || *)
Definition qend (c : N) : Prop := c = 41 \/ c = 38 \/ c = 124.
Lemma qend_closer c : qend c -> closer c.
Proof. intros [E|[E|E]]; subst c; unfold closer; repeat split; try reflexivity; discriminate. Qed.
Lemma qend_32 c : qend c -> c <> 32.
Proof. intros [E|[E|E]]; subst c; discriminate. Qed.

Lemma ev_rule3_cur_q isteps c t pos : forallb rstep_ok isteps = true -> qend c ->
  evG (PRef 3) (64 :: render_steps isteps ++ c :: t) pos
      (POk (c :: t) (pos + 1 + List.length (render_steps isteps)) (inner_tokens pos isteps)).
Proof.
  intros Hs Hq. pose proof (qend_closer c Hq) as Hc. pose proof Hc as (Hsym & H46 & H91 & H32 & H92 & H40). unfold inner_tokens. eapply ev_conv.
  - eapply ev_ref; [reflexivity|].
    eapply ev_seq_ok; [apply ev_space_stop; discriminate| |reflexivity].
    eapply ev_seq_ok; [| |reflexivity].
    + eapply ev_ref; [reflexivity|]. apply ev_alt_r.
      * eapply ev_ref; [reflexivity|]. apply ev_seq_fail. apply (ev_lit_fail G [36]). reflexivity.
      * eapply ev_ref; [reflexivity|]. eapply ev_seq_ok; [apply (ev_lit_ok G [64]); apply strip1_ok|apply ev_act|reflexivity].
    + eapply ev_ref; [reflexivity|].
      assert (Hd : dot_stop (c :: t)) by (cbn; repeat split; assumption).
      eapply ev_seq_ok; [apply (ev_steps_star_gen isteps (c :: t) _ Hs Hd (fun p => ev_rule7_closer c t p Hc))| |reflexivity].
      eapply ev_seq_ok; [apply ev_star_stop; apply ev_rule8_closer; exact Hc| |reflexivity].
      eapply ev_seq_ok; [apply ev_space_stop; exact H32|apply ev_act|reflexivity].
  - cbn [List.length app Nat.add]. replace (pos + 0 + 1)%nat with (pos + 1)%nat by lia. rewrite <- ?app_assoc. reflexivity.
Qed.
Lemma ev_rule44_q isteps c t pos : forallb rstep_ok isteps = true -> qend c ->
  evG (PRef 44) (64 :: render_steps isteps ++ c :: t) pos
      (POk (c :: t) (pos + 1 + List.length (render_steps isteps)) ([TAct 38] ++ inner_tokens pos isteps ++ [TAct 39])).
Proof.
  intros Hs Hq. eapply ev_ref; [reflexivity|].
  eapply ev_seq_ok; [apply ev_act| |reflexivity].
  eapply ev_seq_ok; [apply (ev_rule3_cur_q isteps c t pos Hs Hq)|apply ev_act|reflexivity].
Qed.
Lemma ev_rule43_q isteps c t pos : forallb rstep_ok isteps = true -> qend c ->
  exists toks, evG (PRef 43) (64 :: render_steps isteps ++ c :: t) pos (POk (c :: t) (pos + 1 + List.length (render_steps isteps)) toks).
Proof.
  intros Hs Hq. eexists. eapply ev_ref; [reflexivity|].
  eapply ev_seq_ok; [apply ev_cap; apply (ev_rule44_q isteps c t pos Hs Hq)|apply ev_act|reflexivity].
Qed.
Lemma ev_rule39_exists_q isteps c t pos : forallb rstep_ok isteps = true -> qend c ->
  evG (PRef 39) (64 :: render_steps isteps ++ c :: t) pos PFail.
Proof.
  intros Hs Hq. destruct (ev_rule43_q isteps c t pos Hs Hq) as (toks & E43). pose proof (qend_32 c Hq) as H32.
  assert (Hlit : forall s, (s = [61; 61] \/ s = [33; 61] \/ s = [60; 61] \/ s = [60] \/ s = [62; 61] \/ s = [62] \/ s = [61; 126]) -> strip_prefix s (c :: t) = None).
  { intros s Hcase. destruct Hq as [E|[E|E]]; subst c; destruct Hcase as [E|[E|[E|[E|[E|[E|E]]]]]]; subst s; reflexivity. }
  eapply ev_ref; [reflexivity|].
  apply ev_alt_r.
  { eapply ev_seq_fail2.
    - eapply ev_ref; [reflexivity|]. apply ev_alt_r; [apply ev_seq_fail; apply ev_rule42_at|exact E43].
    - eapply ev_seq_fail2; [apply ev_space_stop; exact H32|].
      apply ev_alt_r; apply ev_seq_fail; apply (ev_lit_fail G); apply Hlit; auto 10. }
  apply ev_alt_r.
  { eapply ev_seq_fail2.
    - eapply ev_ref; [reflexivity|]. apply ev_alt_r; [apply ev_seq_fail; apply ev_rule45_at|exact E43].
    - eapply ev_seq_fail2; [apply ev_space_stop; exact H32|].
      apply ev_alt_r; [apply ev_seq_fail; apply (ev_lit_fail G); apply Hlit; auto 10|].
      apply ev_alt_r; [apply ev_seq_fail; apply (ev_lit_fail G); apply Hlit; auto 10|].
      apply ev_alt_r; apply ev_seq_fail; apply (ev_lit_fail G); apply Hlit; auto 10. }
  eapply ev_seq_fail2; [exact E43|].
  eapply ev_seq_fail2; [apply ev_space_stop; exact H32|].
  apply ev_seq_fail. apply (ev_lit_fail G). apply Hlit. auto 10.
Qed.

(* ---------- the token replay ---------- *)
From JP Require Import Frame NoDollar.

Lemma frame_free_steps steps : forall p, frame_free (steps_tokens p steps) = true.
Proof.
  assert (Hsl : forall p a b c, frame_free (slice_tokens p a b c) = true) by (intros p a b [t|]; reflexivity).
  assert (Hsub : forall p u, frame_free (sub_tokens p u) = true).
  { intros p [t|a b c|]; cbn [sub_tokens]; try reflexivity. rewrite frame_free_app, Hsl. reflexivity. }
  assert (Hrest : forall us p, frame_free (rest_tokens p us) = true).
  { induction us as [|v r IH]; intros p; [reflexivity|]. cbn [rest_tokens]. rewrite !frame_free_app, Hsub, IH. reflexivity. }
  assert (Hst : forall p s, frame_free (step_tokens p s) = true).
  { intros p [q k|k|ds|[|]|a b c|u us]; cbn [step_tokens]; try reflexivity.
    - unfold qact. destruct (N.eqb q 34); reflexivity.
    - unfold slice_step_tokens. rewrite !frame_free_app, Hsl. reflexivity.
    - unfold union_step_tokens, union_tokens. rewrite !frame_free_app, Hsub, Hrest. reflexivity. }
  induction steps as [|x r IH]; intros p; [reflexivity|]. cbn [steps_tokens]. rewrite frame_free_app, IH, andb_true_r.
  destruct x as [s|s]; cbn [rstep_tokens]; [apply Hst|].
  destruct s as [q k|k|ds|[|]|a b c|u us]; try reflexivity; rewrite frame_free_app, Hst; reflexivity.
Qed.

Section FiltExec.
  Variable cfg : config.
  Variable parse_float : string -> option num.
  Variable regex_ok : string -> bool.
  Notation execute := (execute cfg parse_float regex_ok).
  Notation exec_action := (exec_action cfg parse_float regex_ok).

  Definition cur_basic : basic := mk_basic "@" false (cfg_accessor cfg).
  Definition inner_root (isteps : list rstep) : node := update_vg (Node KCurrent cur_basic (link (pres cfg isteps))).
  Definition filter_pq (isteps : list rstep) : pquery := PqCur (clear_acc (delete_root (inner_root isteps))).
  Definition filt_kind (isteps : list rstep) : kind := KFilter (QParam (filter_pq isteps)).
  Definition filt_basic (isteps : list rstep) : basic := mk_basic (text_of (filt_text isteps)) true (cfg_accessor cfg).
  Definition filt_node (isteps : list rstep) : node := Node (filt_kind isteps) (filt_basic isteps) ONone.

  Lemma exec_inner input p isteps rest cps b : forallb rstep_ok isteps = true ->
    skipn p input = 64 :: render_steps isteps ++ rest ->
    execute (inner_tokens p isteps) input cps b (mk []) = AOk (mk [INode (inner_root isteps)]).
  Proof.
    intros Hs Hin. unfold inner_tokens. cbn [app Actions.execute].
    change (exec_action 9 cps b (mk [])) with (AOk (mk [INode (Node KCurrent cur_basic ONone)])). cbn [abind].
    assert (Hsk : skipn (p + 1) input = render_steps isteps ++ rest) by (apply (skipn_next input p [64] _ Hin)).
    destruct (exec_steps_tail cfg parse_float regex_ok input isteps rest (p + 1) [INode (Node KCurrent cur_basic ONone)] [TAct 2] cps b Hs Hsk) as (c1 & b1 & E).
    rewrite E. clear E. cbn [Actions.execute].
    change (exec_action 2 c1 b1 ?st) with (abind (set_node_chain st) update_root_vg).
    assert (Hch : set_node_chain (mk ([INode (Node KCurrent cur_basic ONone)] ++ map (fun s => INode (rpre_node cfg s)) isteps)) =
                  AOk (mk [INode (Node KCurrent cur_basic (link (pres cfg isteps)))])).
    { unfold set_node_chain, mk. cbn [params app]. destruct isteps as [|x r]; [reflexivity|].
      pose proof (chain_fold_gen cfg KCurrent cur_basic (x :: r) ltac:(split; intros; discriminate) [] ltac:(constructor)) as F.
      cbn [link app] in F. cbn [map] in *. rewrite F. reflexivity. }
    rewrite Hch. reflexivity.
  Qed.

  Lemma inner_root_kind isteps : node_kind (innermost (inner_root isteps)) = KCurrent.
  Proof. unfold inner_root, update_vg. destruct (chain_vg _); reflexivity. Qed.

  Lemma first_byte_at l : first_byte (64 :: l) = Some 64.
  Proof. reflexivity. Qed.

  Lemma exec_filt input p isteps rest ps toks cps b : forallb rstep_ok isteps = true ->
    skipn p input = filt_text isteps ++ rest ->
    exists cps' b', execute (filt_tokens p isteps ++ toks) input cps b (mk ps) = execute toks input cps' b' (mk (ps ++ [INode (filt_node isteps)])).
  Proof.
    intros Hs Hin. unfold filt_tokens.
    set (L := List.length (render_steps isteps)).
    assert (Hin' : skipn p input = [91; 63; 40] ++ (64 :: render_steps isteps) ++ [41; 93] ++ rest).
    { rewrite Hin. unfold filt_text. cbn [app]. rewrite <- app_assoc. reflexivity. }
    assert (Hsk3 : skipn (p + 3) input = 64 :: render_steps isteps ++ [41; 93] ++ rest) by (apply (skipn_next input p [91; 63; 40] _ Hin')).
    set (sv0 := match ps with [] => [] | _ :: _ => [ps] end).
    rewrite <- !app_assoc. cbn [app Actions.execute].
    assert (E38 : exec_action 38 cps b (mk ps) = AOk (with_saved sv0 (mk []))) by (destruct ps; reflexivity).
    rewrite E38. cbn [abind].
    rewrite (execute_under cfg parse_float regex_ok sv0 (inner_tokens (p + 3) isteps) input cps b (mk []) _ ltac:(unfold inner_tokens; rewrite !frame_free_app, frame_free_steps; reflexivity)
               (exec_inner input (p + 3) isteps _ cps b Hs Hsk3)).
    cbn [Actions.execute].
    assert (E39 : forall c0 b0, exec_action 39 c0 b0 (with_saved sv0 (mk [INode (inner_root isteps)])) =
                               AOk (mk (ps ++ [IPQ (filter_pq isteps); IBool false]))).
    { intros c0 b0. cbn [Actions.exec_action].
      assert (El : load_params (with_saved sv0 (mk [INode (inner_root isteps)])) = mk (ps ++ [INode (inner_root isteps)])) by (destruct ps; reflexivity).
      rewrite El. unfold pop_node. rewrite pop_mk. cbn [abind]. rewrite inner_root_kind.
      unfold push, mk, with_params. cbn [params saved proot]. rewrite <- app_assoc. reflexivity. }
    rewrite E39. cbn [abind].
    assert (Ec : sub_list input (p + 3) (p + 4 + L) = 64 :: render_steps isteps).
    { pose proof (sub_at input p 3 [91; 63; 40] (64 :: render_steps isteps) ([41; 93] ++ rest) Hin' eq_refl) as H.
      cbn [List.length] in H. fold L in H. replace (p + 3 + S L)%nat with (p + 4 + L)%nat in H by lia. exact H. }
    rewrite Ec.
    assert (E27 : forall b0, exec_action 27 (64 :: render_steps isteps) b0 (mk (ps ++ [IPQ (filter_pq isteps); IBool false])) =
                             AOk (mk (ps ++ [IQuery (QParam (filter_pq isteps))]))).
    { intros b0. cbn [Actions.exec_action].
      change (ps ++ [IPQ (filter_pq isteps); IBool false]) with (ps ++ [IPQ (filter_pq isteps)] ++ [IBool false]). rewrite app_assoc, pop_mk. cbn [abind].
      unfold pop_query. rewrite pop_mk. cbn [abind]. rewrite first_byte_at. reflexivity. }
    rewrite E27. cbn [abind].
    assert (E23 : forall c0 b0, exec_action 23 c0 b0 (mk (ps ++ [IQuery (QParam (filter_pq isteps))])) =
                               AOk (mk (ps ++ [INode (Node (filt_kind isteps) (mk_basic "" true (cfg_accessor cfg)) ONone)]))).
    { intros c0 b0. cbn [Actions.exec_action]. unfold pop_query. rewrite pop_mk. reflexivity. }
    rewrite E23. cbn [abind].
    assert (Et : sub_list input p (p + 6 + L) = filt_text isteps).
    { pose proof (sub_at input p 0 [] (filt_text isteps) rest) as H. rewrite Nat.add_0_r in H.
      replace (p + 6 + L)%nat with (p + List.length (filt_text isteps))%nat by (unfold filt_text, L; cbn [List.length app]; rewrite app_length; cbn [List.length]; lia).
      apply H; [exact Hin|reflexivity]. }
    rewrite Et.
    assert (E7 : forall b0, exec_action 7 (filt_text isteps) b0 (mk (ps ++ [INode (Node (filt_kind isteps) (mk_basic "" true (cfg_accessor cfg)) ONone)])) =
                            AOk (mk (ps ++ [INode (filt_node isteps)]))).
    { intros b0. cbn [Actions.exec_action]. unfold set_last_node_text, pop_node. rewrite pop_mk. reflexivity. }
    rewrite E7. cbn [abind]. eexists _, _. reflexivity.
  Qed.
End FiltExec.
