(* Prop_C06.v — property C06: safe for concurrent use (PARTIAL: the logic, not the runtime).
   Proved: (i) a call of a parsed function writes no shared location of the model (the package-level
   lists; the tree and the document are immutable values) — C06_eval_read_only; (ii) for an abstract
   machine of threads made of atomic steps over a shared state, if no step writes the shared state
   then under EVERY schedule the shared state is constant and every step returns what it returns
   alone — C06_read_only_threads.  NOT modelled: that Go evaluation is such a sequence of steps (the
   model is big-step; the write log is the bridge), sync.Mutex around Parse, sync.Pool exclusivity,
   the Go memory model and scheduler.  Those are exercised dynamically with the race detector. *)
From JP Require Import Eval WF Verdict EvalInv1 EvalInv3 EvalInv4 EvalTop Concurrency.

Section C06.
  Variable ffun : string -> value -> option value.
  Variable afun : string -> list value -> option value.
  Variable regex_match : string -> string -> bool.
  Hypothesis ffun_small : forall f v w, small v -> ffun f v = Some w -> small w.
  Hypothesis afun_small : forall f l w, Forall small l -> afun f l = Some w -> small w.

  Theorem C06_eval_read_only_partial : forall t doc st,
    wf_node t = true -> small doc -> ok st ->
    frame st (snd (eval_run ffun afun regex_match t doc st)).
  Proof.
    intros t doc st Hwf Hs Hok.
    pose proof (eval_run_spec ffun afun regex_match ffun_small afun_small t doc st Hwf Hs Hok) as H.
    destruct (eval_run ffun afun regex_match t doc st) as [o st']. exact (proj1 H).
  Qed.
End C06.
Print Assumptions C06_eval_read_only_partial.

Theorem C06_read_only_threads_state : forall (St Out : Type) sched (ts : list (list (action St Out))) s trace,
  all_read_only St Out ts -> fst (run St Out ts sched s trace) = s.
Proof. exact read_only_state_constant. Qed.
Theorem C06_read_only_threads_outputs : forall (St Out : Type) sched (ts : list (list (action St Out))) s trace,
  all_read_only St Out ts ->
  exists outs, snd (run St Out ts sched s trace) = trace ++ outs /\
    Forall (fun io => exists a, read_only St Out a /\ snd io = snd (a s)) outs.
Proof. exact read_only_outputs_solo. Qed.
Print Assumptions C06_read_only_threads_state.
Print Assumptions C06_read_only_threads_outputs.
