(* PegEv.v — big-step reasoning about the PEG interpreter without fuel arithmetic: `ev g e rest pos R` says
   that with enough fuel the interpreter returns R (a match or a failure).  One lemma per construct; results
   are transported to any particular fuel by PegMono.run_mono. *)
From JP Require Import Peg PegFacts PegMono.
From Coq Require Import Lia.
Open Scope list_scope.

Section Ev.
  Variable g : grammar.

  Definition ev (e : pexp) (rest : list N) (pos : nat) (R : pres) : Prop :=
    R <> PFuel /\ exists f0, forall f, f0 <= f -> run g f e rest pos = R.

  Lemma ev_at e rest pos R f : ev e rest pos R -> run g f e rest pos <> PFuel -> run g f e rest pos = R.
  Proof.
    intros [Hn [f0 H]] Hf.
    pose proof (H (Nat.max f f0) ltac:(lia)) as H1.
    pose proof (run_mono g f e rest pos _ eq_refl Hf (Nat.max f f0) ltac:(lia)) as H2.
    congruence.
  Qed.

  Ltac ev_intro f0 := split; [discriminate|exists f0].

  Lemma ev_any_ok c r pos : ev PAny (c :: r) pos (POk r (S pos) []).
  Proof. ev_intro 1. intros f Hf. destruct f; [lia|]. rewrite run_any. reflexivity. Qed.
  Lemma ev_any_fail pos : ev PAny [] pos PFail.
  Proof. ev_intro 1. intros f Hf. destruct f; [lia|]. rewrite run_any. reflexivity. Qed.
  Lemma ev_lit_ok s rest r pos : strip_prefix s rest = Some r -> ev (PLit s) rest pos (POk r (pos + length s) []).
  Proof. intros H. ev_intro 1. intros f Hf. destruct f; [lia|]. cbn [run]. rewrite H. reflexivity. Qed.
  Lemma ev_lit_fail s rest pos : strip_prefix s rest = None -> ev (PLit s) rest pos PFail.
  Proof. intros H. ev_intro 1. intros f Hf. destruct f; [lia|]. cbn [run]. rewrite H. reflexivity. Qed.
  Lemma ev_cls_ok neg rs c r pos : xorb neg (in_ranges c rs) = true -> ev (PCls neg rs) (c :: r) pos (POk r (S pos) []).
  Proof. intros H. ev_intro 1. intros f Hf. destruct f; [lia|]. cbn [run]. rewrite H. reflexivity. Qed.
  Lemma ev_cls_fail neg rs c r pos : xorb neg (in_ranges c rs) = false -> ev (PCls neg rs) (c :: r) pos PFail.
  Proof. intros H. ev_intro 1. intros f Hf. destruct f; [lia|]. cbn [run]. rewrite H. reflexivity. Qed.
  Lemma ev_cls_eof neg rs pos : ev (PCls neg rs) [] pos PFail.
  Proof. ev_intro 1. intros f Hf. destruct f; [lia|]. reflexivity. Qed.
  Lemma ev_eps rest pos : ev PEps rest pos (POk rest pos []).
  Proof. ev_intro 1. intros f Hf. destruct f; [lia|]. reflexivity. Qed.
  Lemma ev_act n rest pos : ev (PAct n) rest pos (POk rest pos [TAct n]).
  Proof. ev_intro 1. intros f Hf. destruct f; [lia|]. reflexivity. Qed.

  Lemma ev_seq a b rest pos r1 p1 t1 R :
    ev a rest pos (POk r1 p1 t1) -> ev b r1 p1 R ->
    ev (PSeq a b) rest pos (match R with POk r2 p2 t2 => POk r2 p2 (t1 ++ t2) | x => x end).
  Proof.
    intros [_ [fa Ha]] [Hn [fb Hb]]. split; [destruct R; try discriminate; contradiction Hn; reflexivity|].
    exists (S (Nat.max fa fb)). intros f Hf. destruct f; [lia|]. rewrite run_seq. rewrite (Ha (S f)) by lia. rewrite (Hb (S f)) by lia.
    destruct R; reflexivity.
  Qed.
  Lemma ev_seq_fail a b rest pos : ev a rest pos PFail -> ev (PSeq a b) rest pos PFail.
  Proof.
    intros [_ [fa Ha]]. ev_intro (S fa). intros f Hf. destruct f; [lia|]. rewrite run_seq, Ha by lia. reflexivity.
  Qed.
  Lemma ev_alt_l a b rest pos r p t : ev a rest pos (POk r p t) -> ev (PAlt a b) rest pos (POk r p t).
  Proof.
    intros [_ [fa Ha]]. ev_intro (S fa). intros f Hf. destruct f; [lia|]. rewrite run_alt, Ha by lia. reflexivity.
  Qed.
  Lemma ev_alt_r a b rest pos R : ev a rest pos PFail -> ev b rest pos R -> ev (PAlt a b) rest pos R.
  Proof.
    intros [_ [fa Ha]] [Hn [fb Hb]]. split; [exact Hn|]. exists (S (Nat.max fa fb)). intros f Hf. destruct f; [lia|].
    rewrite run_alt, Ha, Hb by lia. reflexivity.
  Qed.
  Lemma ev_opt_some a rest pos r p t : ev a rest pos (POk r p t) -> ev (POpt a) rest pos (POk r p t).
  Proof.
    intros [_ [fa Ha]]. ev_intro (S fa). intros f Hf. destruct f; [lia|]. rewrite run_opt, Ha by lia. reflexivity.
  Qed.
  Lemma ev_opt_none a rest pos : ev a rest pos PFail -> ev (POpt a) rest pos (POk rest pos []).
  Proof.
    intros [_ [fa Ha]]. ev_intro (S fa). intros f Hf. destruct f; [lia|]. rewrite run_opt, Ha by lia. reflexivity.
  Qed.
  Lemma ev_not_ok a rest pos : ev a rest pos PFail -> ev (PNot a) rest pos (POk rest pos []).
  Proof.
    intros [_ [fa Ha]]. ev_intro (S fa). intros f Hf. destruct f; [lia|]. rewrite run_not, Ha by lia. reflexivity.
  Qed.
  Lemma ev_not_fail a rest pos r p t : ev a rest pos (POk r p t) -> ev (PNot a) rest pos PFail.
  Proof.
    intros [_ [fa Ha]]. ev_intro (S fa). intros f Hf. destruct f; [lia|]. rewrite run_not, Ha by lia. reflexivity.
  Qed.
  Lemma ev_cap a rest pos r p t : ev a rest pos (POk r p t) -> ev (PCap a) rest pos (POk r p (t ++ [TText pos p])).
  Proof.
    intros [_ [fa Ha]]. ev_intro (S fa). intros f Hf. destruct f; [lia|]. rewrite run_cap, Ha by lia. reflexivity.
  Qed.
  Lemma ev_cap_fail a rest pos : ev a rest pos PFail -> ev (PCap a) rest pos PFail.
  Proof.
    intros [_ [fa Ha]]. ev_intro (S fa). intros f Hf. destruct f; [lia|]. rewrite run_cap, Ha by lia. reflexivity.
  Qed.
  Lemma ev_ref n body rest pos R : nth_error g n = Some body -> ev body rest pos R -> ev (PRef n) rest pos R.
  Proof.
    intros Hb [Hn [fb H]]. split; [exact Hn|]. exists (S fb). intros f Hf. destruct f; [lia|]. rewrite run_ref, Hb. apply H. lia.
  Qed.
  Lemma ev_star_stop a rest pos : ev a rest pos PFail -> ev (PStar a) rest pos (POk rest pos []).
  Proof.
    intros [_ [fa Ha]]. ev_intro (S fa). intros f Hf. destruct f; [lia|]. rewrite run_star, Ha by lia. reflexivity.
  Qed.
  Lemma ev_star_step a rest pos r1 p1 t1 r2 p2 t2 :
    ev a rest pos (POk r1 p1 t1) -> p1 <> pos -> ev (PStar a) r1 p1 (POk r2 p2 t2) ->
    ev (PStar a) rest pos (POk r2 p2 (t1 ++ t2)).
  Proof.
    intros [_ [fa Ha]] Hp [_ [fs Hs]]. ev_intro (S (Nat.max fa (S fs))). intros f Hf. destruct f; [lia|].
    rewrite run_star, Ha by lia. apply Nat.eqb_neq in Hp. rewrite Hp, Hs by lia. reflexivity.
  Qed.
  Lemma ev_plus a rest pos r1 p1 t1 r2 p2 t2 :
    ev a rest pos (POk r1 p1 t1) -> p1 <> pos -> ev (PStar a) r1 p1 (POk r2 p2 t2) ->
    ev (PPlus a) rest pos (POk r2 p2 (t1 ++ t2)).
  Proof.
    intros [_ [fa Ha]] Hp [_ [fs Hs]]. ev_intro (S (Nat.max fa (S fs))). intros f Hf. destruct f; [lia|].
    change (run g (S f) (PPlus a) rest pos) with
      (match run g (S f) a rest pos with
       | POk r p t => if Nat.eqb p pos then PFuel
                      else match run g f (PStar a) r p with POk r' p' t' => POk r' p' (t ++ t') | x => x end
       | x => x end).
    rewrite Ha by lia. apply Nat.eqb_neq in Hp. rewrite Hp, Hs by lia. reflexivity.
  Qed.
  Lemma ev_plus_fail a rest pos : ev a rest pos PFail -> ev (PPlus a) rest pos PFail.
  Proof.
    intros [_ [fa Ha]]. ev_intro (S fa). intros f Hf. destruct f; [lia|].
    change (run g (S f) (PPlus a) rest pos) with
      (match run g (S f) a rest pos with
       | POk r p t => if Nat.eqb p pos then PFuel
                      else match run g f (PStar a) r p with POk r' p' t' => POk r' p' (t ++ t') | x => x end
       | x => x end).
    rewrite Ha by lia. reflexivity.
  Qed.
  Lemma ev_seq_ok a b rest pos r1 p1 t1 r2 p2 t2 t :
    ev a rest pos (POk r1 p1 t1) -> ev b r1 p1 (POk r2 p2 t2) -> t = t1 ++ t2 -> ev (PSeq a b) rest pos (POk r2 p2 t).
  Proof. intros Ha Hb ->. exact (ev_seq a b rest pos r1 p1 t1 _ Ha Hb). Qed.
  Lemma ev_seq_fail2 a b rest pos r1 p1 t1 :
    ev a rest pos (POk r1 p1 t1) -> ev b r1 p1 PFail -> ev (PSeq a b) rest pos PFail.
  Proof. intros Ha Hb. exact (ev_seq a b rest pos r1 p1 t1 _ Ha Hb). Qed.
  Lemma ev_conv e rest pos R R' : ev e rest pos R -> R = R' -> ev e rest pos R'.
  Proof. intros H <-. exact H. Qed.
  Lemma ev_peg_parse s R : ev (PRef 0) s 0 R -> peg_parse g s <> PFuel -> peg_parse g s = R.
  Proof. unfold peg_parse. apply ev_at. Qed.
End Ev.
