(* LexFacts.v — lexical facts behind C18: integer spellings, blanks. *)
From JP Require Import Slice Text Peg PegFacts.
From Coq Require Import Lia.
Local Open Scope N_scope.
Open Scope list_scope.

(* leading zeros do not change the value of a digit string *)
Lemma digits_val_zero ds : digits_val (48 :: ds) 0%Z = digits_val ds 0%Z.
Proof. reflexivity. Qed.

Lemma atoi_leading_zero ds : ds <> [] -> atoi (48 :: ds) = atoi ds \/ (exists c r, ds = c :: r /\ (c = 45 \/ c = 43)).
Proof.
  intros Hne. destruct ds as [|c r]; [contradiction Hne; reflexivity|].
  destruct (N.eq_dec c 45) as [->|H45]; [right; eexists _, _; split; [reflexivity|left; reflexivity]|].
  destruct (N.eq_dec c 43) as [->|H43]; [right; eexists _, _; split; [reflexivity|right; reflexivity]|].
  left. unfold atoi.
  assert (E45 : (c =? 45) = false) by (apply N.eqb_neq; exact H45).
  assert (E43 : (c =? 43) = false) by (apply N.eqb_neq; exact H43).
  cbn [N.eqb Pos.eqb]. rewrite E45, E43. rewrite digits_val_zero. reflexivity.
Qed.

(* an explicit + sign does not change the value *)
Lemma atoi_plus c r : c <> 45 -> c <> 43 -> atoi (43 :: c :: r) = atoi (c :: r).
Proof.
  intros H45 H43. unfold atoi.
  assert (E45 : (c =? 45) = false) by (apply N.eqb_neq; exact H45).
  assert (E43 : (c =? 43) = false) by (apply N.eqb_neq; exact H43).
  cbn [N.eqb Pos.eqb]. rewrite E45, E43. reflexivity.
Qed.

(* `space <- ' '*` consumes every leading blank and nothing else, and emits no token *)
Fixpoint skip_blanks (s : list N) : list N :=
  match s with c :: r => if c =? 32 then skip_blanks r else s | [] => [] end.
Fixpoint count_blanks (s : list N) : nat :=
  match s with c :: r => if c =? 32 then S (count_blanks r) else O | [] => O end.

Lemma run_space g : forall f s pos,
  match run g f (PStar (PLit [32])) s pos with
  | PFail => False
  | PFuel => True
  | POk r p t => r = skip_blanks s /\ p = (pos + count_blanks s)%nat /\ t = []
  end.
Proof.
  induction f as [|f IH]; intros s pos; [exact I|].
  rewrite run_star.
  change (run g (S f) (PLit [32]) s pos) with
    (match strip_prefix [32] s with Some r => POk r (pos + 1) [] | None => PFail end).
  destruct s as [|c r]; cbn [strip_prefix skip_blanks count_blanks].
  - repeat split. lia.
  - destruct (32 =? c) eqn:E.
    + apply N.eqb_eq in E. subst c. cbn [N.eqb Pos.eqb].
      assert (Hne : Nat.eqb (pos + 1) pos = false) by (apply Nat.eqb_neq; lia). rewrite Hne.
      specialize (IH r (pos + 1)%nat). destruct (run g f (PStar (PLit [32])) r (pos + 1)) as [| |r' p' t']; try exact IH.
      destruct IH as (-> & -> & ->). repeat split. lia.
    + assert (E' : (c =? 32) = false) by (rewrite N.eqb_sym; exact E). rewrite E'. repeat split. lia.
Qed.
