(* Codec.v — every key is addressable (C16): the escapings a caller uses for the three spellings of a
   member name are inverted by the library's three unescape routines (coq/Text.v), for EVERY key. *)
From JP Require Import Slice Text.
From JP Require Export KeyDefs.
From Coq Require Import Lia.
Local Open Scope N_scope.
Open Scope list_scope.

(* ---------- hexadecimal digits ---------- *)
Lemma hex_val_hexd n : n < 16 -> hex_val (hexd n) = Some n.
Proof.
  intros H. unfold hexd, hex_val.
  destruct (n <? 10) eqn:E.
  - apply N.ltb_lt in E. assert (H1 : (48 <=? 48 + n) = true) by (apply N.leb_le; lia).
    assert (H2 : (48 + n <=? 57) = true) by (apply N.leb_le; lia). rewrite H1, H2. cbn [andb]. f_equal. lia.
  - apply N.ltb_ge in E.
    assert (H1 : ((48 <=? 87 + n) && (87 + n <=? 57)) = false) by (apply andb_false_iff; right; apply N.leb_gt; lia).
    assert (H2 : (97 <=? 87 + n) = true) by (apply N.leb_le; lia).
    assert (H3 : (87 + n <=? 102) = true) by (apply N.leb_le; lia). rewrite H1, H2, H3. cbn [andb]. f_equal. lia.
Qed.

(* ---------- JSON-style escaping inside double quotes ---------- *)
Definition esc_double (bs : list N) : list N := flat_map (esc_json_byte 34) bs.

Lemma hex4_small b : b < 32 -> hex4 48 48 (hexd (b / 16)) (hexd (b mod 16)) = Some b.
Proof.
  intros H. unfold hex4.
  assert (H0 : hex_val 48 = Some 0) by reflexivity. rewrite H0.
  rewrite (hex_val_hexd (b / 16)) by (apply N.div_lt_upper_bound; lia).
  rewrite (hex_val_hexd (b mod 16)) by (apply N.mod_lt; lia).
  f_equal. pose proof (N.div_mod b 16 ltac:(lia)). lia.
Qed.

Lemma utf8_cp_ascii u : u < 128 -> utf8_cp u = [u].
Proof.
  intros H. unfold utf8_cp.
  assert (H1 : ((55296 <=? u) && (u <=? 57343) || (1114111 <? u)) = false).
  { apply orb_false_iff. split; [apply andb_false_iff; left; apply N.leb_gt; lia|apply N.ltb_ge; lia]. }
  rewrite H1. assert (H2 : (u <? 128) = true) by (apply N.ltb_lt; lia). rewrite H2. reflexivity.
Qed.

(* one unfolding step for the cases the escapings produce *)
Lemma ju_backslash f e r :
  json_unquote (S f) (92 :: e :: r) =
  if e =? 34 then option_map (cons 34) (json_unquote f r)
  else if e =? 92 then option_map (cons 92) (json_unquote f r)
  else if e =? 47 then option_map (cons 47) (json_unquote f r)
  else if e =? 98 then option_map (cons 8) (json_unquote f r)
  else if e =? 102 then option_map (cons 12) (json_unquote f r)
  else if e =? 110 then option_map (cons 10) (json_unquote f r)
  else if e =? 114 then option_map (cons 13) (json_unquote f r)
  else if e =? 116 then option_map (cons 9) (json_unquote f r)
  else if e =? 117 then
    match r with
    | a :: b :: c2 :: d :: r1 =>
        match hex4 a b c2 d with
        | None => None
        | Some u =>
            if is_hi_surr u then
              match r1 with
              | x1 :: x2 :: a2 :: b2 :: c3 :: d2 :: r2 =>
                  if (x1 =? 92) && (x2 =? 117) then
                    match hex4 a2 b2 c3 d2 with
                    | Some u2 =>
                        if is_lo_surr u2 then
                          option_map (app (utf8_cp (65536 + (u - 55296) * 1024 + (u2 - 56320)))) (json_unquote f r2)
                        else option_map (app (utf8_cp 65533)) (json_unquote f r1)
                    | None => None
                    end
                  else option_map (app (utf8_cp 65533)) (json_unquote f r1)
              | _ => option_map (app (utf8_cp 65533)) (json_unquote f r1)
              end
            else option_map (app (utf8_cp u)) (json_unquote f r1)
        end
    | _ => None
    end
  else None.
Proof. reflexivity. Qed.
Lemma ju_plain f c r : (c =? 92) = false ->
  json_unquote (S f) (c :: r) = if (c <? 32) || (c =? 34) then None else option_map (cons c) (json_unquote f r).
Proof. intros H. cbn [json_unquote]. rewrite H. reflexivity. Qed.

Lemma json_unquote_fuel_mono : forall f bs r, json_unquote f bs = Some r -> forall f', (f <= f')%nat -> json_unquote f' bs = Some r.
Proof.
  induction f as [|f IH]; intros bs r H f' Hf; [discriminate|].
  destruct f' as [|f']; [lia|]. assert (Hf' : (f <= f')%nat) by lia.
  assert (Hm : forall x g, option_map g (json_unquote f x) = Some r -> option_map g (json_unquote f' x) = Some r).
  { intros x g Hx. destruct (json_unquote f x) as [y|] eqn:E; [|discriminate]. rewrite (IH x y E f' Hf'). exact Hx. }
  cbn [json_unquote] in *. destruct bs as [|c r0]; [exact H|].
  destruct (c =? 92).
  - destruct r0 as [|e rr]; [exact H|].
    repeat match goal with
           | H : (if ?b then _ else _) = Some _ |- _ => destruct b
           end; try (apply Hm; exact H); try discriminate.
    destruct rr as [|a [|b [|c2 [|d r1]]]]; try discriminate.
    destruct (hex4 a b c2 d) as [u|]; [|discriminate].
    destruct (is_hi_surr u).
    + destruct r1 as [|x1 [|x2 [|a2 [|b2 [|c3 [|d2 r2]]]]]]; try (apply Hm; exact H).
      destruct ((x1 =? 92) && (x2 =? 117)); [|apply Hm; exact H].
      destruct (hex4 a2 b2 c3 d2) as [u2|]; [|discriminate].
      destruct (is_lo_surr u2); apply Hm; exact H.
    + apply Hm; exact H.
  - destruct ((c <? 32) || (c =? 34)); [discriminate|apply Hm; exact H].
Qed.

Lemma json_unquote_esc_double : forall bs, json_unquote (S (List.length (esc_double bs))) (esc_double bs) = Some bs.
Proof.
  induction bs as [|b bs IH]; [reflexivity|].
  unfold esc_double in *. cbn [flat_map].
  set (rest := flat_map (esc_json_byte 34) bs) in *. unfold esc_json_byte.
  assert (Hrest : forall f, (List.length rest < f)%nat -> json_unquote f rest = Some bs).
  { intros f Hf. eapply json_unquote_fuel_mono; [exact IH|lia]. }
  destruct (b =? 34) eqn:E34.
  - apply N.eqb_eq in E34. subst b. cbn [app List.length]. rewrite ju_backslash. cbn [N.eqb Pos.eqb].
    rewrite Hrest by lia. reflexivity.
  - destruct (b =? 92) eqn:E92.
    + apply N.eqb_eq in E92. subst b. cbn [app List.length]. rewrite ju_backslash. cbn [N.eqb Pos.eqb].
      rewrite Hrest by lia. reflexivity.
    + destruct (b <? 32) eqn:E32.
      * apply N.ltb_lt in E32. cbn [app List.length]. rewrite ju_backslash. cbn [N.eqb Pos.eqb].
        rewrite (hex4_small b E32).
        assert (Hh : is_hi_surr b = false) by (unfold is_hi_surr; apply andb_false_iff; left; apply N.leb_gt; lia).
        rewrite Hh, Hrest by lia. rewrite utf8_cp_ascii by lia. reflexivity.
      * cbn [app List.length]. rewrite (ju_plain _ b rest E92). rewrite E32, E34. cbn [orb]. rewrite Hrest by lia. reflexivity.
Qed.

(* ["k"] : the double-quoted spelling with JSON-style escaping names exactly k *)
Theorem unescape_double_esc : forall bs, unescape_double (esc_double bs) = Some bs.
Proof. intros bs. unfold unescape_double. apply json_unquote_esc_double. Qed.

(* ---------- the single-quoted spelling ---------- *)
Definition esc_single (bs : list N) : list N := flat_map (esc_json_byte 39) bs.

(* what the byte state machine makes of the escaped key: the same key in double-quote escaping *)
Lemma single_to_json_esc : forall bs, single_to_json (esc_single bs) false = esc_double bs.
Proof.
  induction bs as [|b bs IH]; [reflexivity|].
  unfold esc_single, esc_double in *. cbn [flat_map].
  set (rest := flat_map (esc_json_byte 39) bs) in *. set (rest2 := flat_map (esc_json_byte 34) bs) in *. unfold esc_json_byte.
  destruct (b =? 39) eqn:E39.
  - apply N.eqb_eq in E39. subst b. cbn [app single_to_json N.eqb Pos.eqb]. rewrite IH. reflexivity.
  - destruct (b =? 92) eqn:E92.
    + apply N.eqb_eq in E92. subst b. cbn [app single_to_json N.eqb Pos.eqb]. rewrite IH. reflexivity.
    + destruct (b <? 32) eqn:E32.
      * apply N.ltb_lt in E32.
        assert (E34 : (b =? 34) = false) by (apply N.eqb_neq; lia). rewrite E34.
        cbn [app single_to_json N.eqb Pos.eqb].
        (* the digits are neither quotes nor backslashes *)
        assert (Hd : forall n, n < 16 -> (hexd n =? 34) = false /\ (hexd n =? 39) = false /\ (hexd n =? 92) = false).
        { intros n Hn. unfold hexd. destruct (n <? 10) eqn:En; [apply N.ltb_lt in En|apply N.ltb_ge in En];
            repeat split; apply N.eqb_neq; lia. }
        destruct (Hd (b / 16) ltac:(apply N.div_lt_upper_bound; lia)) as (A1 & A2 & A3).
        destruct (Hd (b mod 16) ltac:(apply N.mod_lt; lia)) as (B1 & B2 & B3).
        rewrite A1, A2, A3, B1, B2, B3. rewrite IH. reflexivity.
      * cbn [app single_to_json]. rewrite E39, E92.
        destruct (b =? 34) eqn:E34.
        -- apply N.eqb_eq in E34. subst b. rewrite IH. reflexivity.
        -- rewrite IH. reflexivity.
Qed.

(* ['k'] : the single-quoted spelling names exactly k *)
Theorem unescape_single_esc : forall bs, unescape_single (esc_single bs) = Some bs.
Proof.
  intros bs. unfold unescape_single. rewrite single_to_json_esc. apply json_unquote_esc_double.
Qed.

(* ---------- the dot spelling: every symbol character backslash-escaped ---------- *)
Section Dot.
  Variable is_sym : N -> bool.
  Definition esc_dot (cs : list N) : list N := flat_map (fun c => if is_sym c then [92; c] else [c]) cs.

  (* .k : for a key without newline whose backslashes are escaped, the unescape (regexp `\\(.)` -> $1) gives k back *)
  Theorem unescape_dot_esc : forall cs,
    is_sym 92 = true -> Forall (fun c => c <> 10) cs -> unescape_cps (esc_dot cs) = cs.
  Proof.
    intros cs Hs. induction cs as [|c cs IH]; intros Hf; [reflexivity|].
    inversion Hf as [|? ? Hc Hcs]; subst. unfold esc_dot in *. cbn [flat_map].
    destruct (is_sym c) eqn:E.
    - cbn [app unescape_cps N.eqb Pos.eqb].
      assert (E10 : (c =? 10) = false) by (apply N.eqb_neq; exact Hc). rewrite E10. rewrite IH by exact Hcs. reflexivity.
    - cbn [app unescape_cps].
      assert (E92 : (c =? 92) = false).
      { apply N.eqb_neq. intros ->. rewrite Hs in E. discriminate. }
      rewrite E92. rewrite IH by exact Hcs. reflexivity.
  Qed.
End Dot.

(* distinct keys are never confused: the escapings are injective because they have a left inverse *)
Theorem esc_double_injective a b : esc_double a = esc_double b -> a = b.
Proof. intros H. pose proof (unescape_double_esc a) as Ha. rewrite H, unescape_double_esc in Ha. inversion Ha. reflexivity. Qed.
Theorem esc_single_injective a b : esc_single a = esc_single b -> a = b.
Proof. intros H. pose proof (unescape_single_esc a) as Ha. rewrite H, unescape_single_esc in Ha. inversion Ha. reflexivity. Qed.
