(* IdxParse.v — the bracket index step [n] (n written with decimal digits) through the regenerated grammar:
   bracketNode -> qualifier -> union -> index -> indexNumber; the slice alternative is tried first and backtracks. *)
From JP Require Import Peg Grammar Text Tree Actions PegFacts PegMono PegEv FuelRules ParseFacts KeyDefs KeyParse.
From Coq Require Import Lia.
Local Open Scope N_scope.
Open Scope list_scope.

Definition is_digit (c : N) : bool := (48 <=? c) && (c <=? 57).
Lemma digit_in c : in_ranges c [(48, 57)] = is_digit c.
Proof. unfold is_digit. cbn [in_ranges]. apply orb_false_r. Qed.
Lemma digit_not_sign c : is_digit c = true -> in_ranges c [(45, 45); (43, 43)] = false.
Proof.
  unfold is_digit. intros H. apply andb_true_iff in H. destruct H as [H1 H2]. apply N.leb_le in H1. apply N.leb_le in H2.
  cbn [in_ranges]. assert (E1 : (c <=? 45) = false) by (apply N.leb_gt; lia). assert (E2 : (c <=? 43) = false) by (apply N.leb_gt; lia).
  rewrite E1, E2, !andb_false_r. reflexivity.
Qed.
Lemma digit_bounds c : is_digit c = true -> 48 <= c /\ c <= 57.
Proof. unfold is_digit. intros H. apply andb_true_iff in H. destruct H as [H1 H2]. apply N.leb_le in H1. apply N.leb_le in H2. split; assumption. Qed.

(* [0-9]* stops at the closing bracket *)
Lemma ev_digits_star ds rest pos : forallb is_digit ds = true ->
  evG (PStar (PCls false [(48, 57)])) (ds ++ 93 :: rest) pos (POk (93 :: rest) (pos + List.length ds) []).
Proof.
  revert pos. induction ds as [|d ds IH]; intros pos Hd.
  - cbn [app List.length]. eapply ev_conv; [apply ev_star_stop; apply ev_cls_fail; reflexivity|f_equal; lia].
  - cbn [forallb] in Hd. apply andb_true_iff in Hd. destruct Hd as [H1 H2]. cbn [app List.length].
    assert (E : evG (PCls false [(48, 57)]) (d :: ds ++ 93 :: rest) pos (POk (ds ++ 93 :: rest) (S pos) [])).
    { apply ev_cls_ok. rewrite digit_in, H1. reflexivity. }
    pose proof (ev_star_step G _ _ _ _ _ _ _ _ _ E ltac:(lia) (IH (S pos) H2)) as E2.
    eapply ev_conv; [exact E2|]. f_equal. lia.
Qed.

(* indexNumber on an unsigned number *)
Lemma ev_rule27 d ds rest pos : forallb is_digit (d :: ds) = true ->
  evG (PRef 27) ((d :: ds) ++ 93 :: rest) pos (POk (93 :: rest) (pos + List.length (d :: ds)) []).
Proof.
  intros Hd. cbn [forallb] in Hd. apply andb_true_iff in Hd. destruct Hd as [H1 H2].
  eapply ev_ref; [reflexivity|]. cbn [app List.length].
  eapply ev_seq_ok; [apply ev_opt_none; apply ev_cls_fail; rewrite (digit_not_sign d H1); reflexivity| |reflexivity].
  assert (E : evG (PCls false [(48, 57)]) (d :: ds ++ 93 :: rest) pos (POk (ds ++ 93 :: rest) (S pos) [])).
  { apply ev_cls_ok. rewrite digit_in, H1. reflexivity. }
  pose proof (ev_plus G _ _ _ _ _ _ _ _ _ E ltac:(lia) (ev_digits_star ds rest (S pos) H2)) as E2.
  eapply ev_conv; [exact E2|]. f_equal. lia.
Qed.

Lemma digit_ne d x : is_digit d = true -> (x < 48 \/ 57 < x) -> d <> x.
Proof. intros H Hx. destruct (digit_bounds d H). lia. Qed.

(* the slice alternative consumes the number, finds no colon and fails *)
Lemma ev_rule25_fail d ds rest pos : forallb is_digit (d :: ds) = true ->
  evG (PRef 25) ((d :: ds) ++ 93 :: rest) pos PFail.
Proof.
  intros Hd. eapply ev_ref; [reflexivity|].
  eapply ev_seq_fail2.
  - eapply ev_ref; [reflexivity|]. eapply ev_seq_ok; [apply ev_cap; apply ev_opt_some; apply ev_rule27; exact Hd|apply ev_act|reflexivity].
  - apply ev_seq_fail. eapply ev_ref; [reflexivity|].
    eapply ev_seq_fail2; [apply ev_space_stop; discriminate|]. apply ev_seq_fail. apply (ev_lit_fail G [58]). apply strip1_no. discriminate.
Qed.

(* index, then union with a single index *)
Lemma ev_rule23 d ds rest pos : forallb is_digit (d :: ds) = true ->
  evG (PRef 23) ((d :: ds) ++ 93 :: rest) pos
      (POk (93 :: rest) (pos + List.length (d :: ds)) [TText pos (pos + List.length (d :: ds)); TAct 17; TAct 19]).
Proof.
  intros Hd. eapply ev_conv.
  - eapply ev_ref; [reflexivity|].
    eapply ev_seq_ok; [| |reflexivity].
    + eapply ev_ref; [reflexivity|].
      eapply ev_seq_ok; [|apply ev_act|reflexivity].
      apply ev_alt_r; [apply ev_seq_fail; apply ev_rule25_fail; exact Hd|].
      apply ev_alt_l. eapply ev_seq_ok; [apply ev_cap; apply ev_rule27; exact Hd|apply ev_act|reflexivity].
    + eapply ev_seq_ok; [apply ev_star_stop| |reflexivity].
      * apply ev_seq_fail. apply ev_sep_fail; discriminate.
      * apply ev_not_ok. apply ev_sep_fail; discriminate.
  - cbn [app]. reflexivity.
Qed.

(* the name alternatives of a bracket fail on a digit *)
Lemma ev_rule15_fail d r pos : is_digit d = true -> evG (PRef 15) (d :: r) pos PFail.
Proof.
  intros Hd. eapply ev_ref; [reflexivity|]. apply ev_seq_fail. eapply ev_ref; [reflexivity|].
  apply ev_alt_r; [eapply ev_ref; [reflexivity|]; apply ev_seq_fail; apply (ev_lit_fail G [42]); apply strip1_no; apply digit_ne; [exact Hd|lia]|].
  apply ev_alt_r.
  - eapply ev_ref; [exact rule18_shape|]. apply ev_seq_fail. apply (ev_lit_fail G [39]). apply strip1_no. apply digit_ne; [exact Hd|lia].
  - eapply ev_ref; [exact rule19_shape|]. apply ev_seq_fail. apply (ev_lit_fail G [34]). apply strip1_no. apply digit_ne; [exact Hd|lia].
Qed.

Definition idx_tokens (p : nat) (ds : list N) : list token :=
  let n := List.length ds in [TText (p + 1) (p + 1 + n); TAct 17; TAct 19; TText p (p + n + 2); TAct 7].

(* bracketNode / childNode on [digits] *)
Lemma ev_rule10_idx d ds rest pos : forallb is_digit (d :: ds) = true ->
  evG (PRef 10) (91 :: (d :: ds) ++ 93 :: rest) pos (POk rest (pos + List.length (d :: ds) + 2)%nat (idx_tokens pos (d :: ds))).
Proof.
  intros Hd. assert (H1 : is_digit d = true) by (cbn [forallb] in Hd; apply andb_true_iff in Hd; tauto).
  unfold idx_tokens. eapply ev_conv.
  - eapply ev_ref; [reflexivity|].
    eapply ev_seq_ok; [apply ev_cap| apply ev_act |reflexivity].
    eapply ev_seq_ok; [| |reflexivity].
    + eapply ev_ref; [reflexivity|]. eapply ev_seq_ok; [apply (ev_lit_ok G [91]); apply strip1_ok| |reflexivity].
      cbn [app]. apply ev_space_stop. apply digit_ne; [exact H1|lia].
    + eapply ev_seq_ok; [| |reflexivity].
      * apply ev_alt_r; [cbn [app]; apply ev_rule15_fail; exact H1|].
        eapply ev_ref; [reflexivity|]. apply ev_alt_l. apply ev_rule23. exact Hd.
      * eapply ev_ref; [reflexivity|]. eapply ev_seq_ok; [apply ev_space_stop; discriminate| |reflexivity].
        apply (ev_lit_ok G [93]). apply strip1_ok.
  - set (L := List.length (d :: ds)). cbn [List.length app].
    replace (pos + 1 + L + 1)%nat with (pos + L + 2)%nat by lia. reflexivity.
Qed.
Lemma ev_rule7_idx d ds rest pos : forallb is_digit (d :: ds) = true ->
  evG (PRef 7) (91 :: (d :: ds) ++ 93 :: rest) pos (POk rest (pos + List.length (d :: ds) + 2)%nat (idx_tokens pos (d :: ds))).
Proof.
  intros Hd. eapply ev_ref; [reflexivity|].
  apply ev_alt_r; [apply ev_seq_fail; apply (ev_lit_fail G [46; 46]); apply strip2_no; discriminate|].
  apply ev_alt_r; [apply ev_seq_fail; apply ev_cap_fail; apply ev_seq_fail; apply (ev_lit_fail G [46]); apply strip1_no; discriminate|].
  apply ev_rule10_idx. exact Hd.
Qed.
