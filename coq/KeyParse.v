(* KeyParse.v — every member is addressable, from the path text (C16): for every key (any list of code points)
   the path $["<escaped key>"] — and $['<escaped key>'] — is accepted by the grammar regenerated from
   jsonpath.peg, the quoted-name rule consumes exactly the escaped text, the unescape action is handed exactly
   that text, and the tree Parse returns is the single step naming that key. *)
From JP Require Import Peg Grammar Text Tree Actions PegFacts PegMono PegEv Codec FuelRules ParseFacts.
From Coq Require Import Lia.
Local Open Scope N_scope.
Open Scope list_scope.

Notation G := jsonpath_grammar.
Notation evG := (ev jsonpath_grammar).


(* ---------- UTF-8: escaping commutes with encoding (escapes are ASCII, other bytes of a sequence are >= 128) ---------- *)
Lemma le_add_any (a b x : N) : a <= b -> a <= b + x.
Proof. lia. Qed.
Lemma utf8_cp_high c : 128 <= c -> Forall (fun b => 128 <= b) (utf8_cp c).
Proof.
  intros H. unfold utf8_cp.
  set (c' := if ((55296 <=? c) && (c <=? 57343)) || (1114111 <? c) then 65533 else c).
  assert (Hc' : 128 <= c') by (unfold c'; destruct (((55296 <=? c) && (c <=? 57343)) || (1114111 <? c)); lia).
  destruct (c' <? 128) eqn:E1; [apply N.ltb_lt in E1; lia|].
  destruct (c' <? 2048); [repeat (constructor; [apply le_add_any; lia|]); constructor|].
  destruct (c' <? 65536); repeat (constructor; [apply le_add_any; lia|]); constructor.
Qed.
Lemma esc_high q b : q < 128 -> 128 <= b -> esc_json_byte q b = [b].
Proof.
  intros Hq Hb. unfold esc_json_byte.
  assert (E1 : (b =? q) = false) by (apply N.eqb_neq; lia).
  assert (E2 : (b =? 92) = false) by (apply N.eqb_neq; lia).
  assert (E3 : (b <? 32) = false) by (apply N.ltb_ge; lia).
  rewrite E1, E2, E3. reflexivity.
Qed.
Lemma hexd_ascii n : n < 16 -> hexd n < 128.
Proof. intros H. unfold hexd. destruct (n <? 10); lia. Qed.
Lemma utf8_ascii_list l : Forall (fun b => b < 128) l -> utf8 l = l.
Proof.
  induction 1 as [|b l Hb _ IH]; [reflexivity|]. unfold utf8 in *. cbn [flat_map]. rewrite IH, (utf8_cp_ascii b Hb). reflexivity.
Qed.
Lemma utf8_app a b : utf8 (a ++ b) = utf8 a ++ utf8 b.
Proof. unfold utf8. apply flat_map_app. Qed.

Lemma utf8_esc q k : q < 128 -> utf8 (esc_cps q k) = flat_map (esc_json_byte q) (utf8 k).
Proof.
  intros Hq. unfold esc_cps. induction k as [|c k IH]; [reflexivity|].
  cbn [flat_map]. rewrite utf8_app, IH.
  change (utf8 (c :: k)) with (utf8_cp c ++ utf8 k). rewrite flat_map_app. f_equal.
  destruct (N.lt_ge_cases c 128) as [Hc|Hc].
  - rewrite (utf8_cp_ascii c Hc). cbn [flat_map]. rewrite app_nil_r. apply utf8_ascii_list.
    unfold esc_json_byte. destruct (c =? q) eqn:Eq; [constructor; [lia|constructor; [exact Hc|constructor]]|].
    destruct (c =? 92); [constructor; [lia|constructor; [lia|constructor]]|].
    destruct (c <? 32) eqn:E; [|constructor; [exact Hc|constructor]]. apply N.ltb_lt in E.
    constructor; [lia|]. constructor; [lia|]. constructor; [lia|]. constructor; [lia|].
    constructor; [apply hexd_ascii; apply N.div_lt_upper_bound; lia|].
    constructor; [apply hexd_ascii; apply N.mod_lt; lia|constructor].
  - rewrite (esc_high q c Hq Hc). unfold utf8 at 1. cbn [flat_map]. rewrite app_nil_r.
    pose proof (utf8_cp_high c Hc) as Hh. induction Hh as [|b l Hb _ IHl]; [reflexivity|].
    cbn [flat_map]. rewrite (esc_high q b Hq Hb), <- IHl. reflexivity.
Qed.

(* ---------- the quoted-name rules consume exactly the escaped text ---------- *)
Definition qcls (q : N) : list (N * N) :=
  [(q, q); (47, 47); (92, 92); (98, 98); (102, 102); (110, 110); (114, 114); (116, 116)].
Definition qbody (q : N) : pexp :=
  PAlt (PSeq (PLit [92]) (PAlt (PCls false (qcls q)) (PRef 20))) (PCls true [(q, q); (92, 92)]).

Lemma rule19_shape : nth_error G 19 = Some (PSeq (PLit [34]) (PSeq (PCap (PStar (qbody 34))) (PSeq (PLit [34]) (PAct 14)))).
Proof. reflexivity. Qed.
Lemma rule18_shape : nth_error G 18 = Some (PSeq (PLit [39]) (PSeq (PCap (PStar (qbody 39))) (PSeq (PLit [39]) (PAct 13)))).
Proof. reflexivity. Qed.

Lemma strip1_ok a r : strip_prefix [a] (a :: r) = Some r.
Proof. cbn [strip_prefix]. rewrite N.eqb_refl. reflexivity. Qed.
Lemma strip1_no a c r : c <> a -> strip_prefix [a] (c :: r) = None.
Proof. intros H. cbn [strip_prefix]. assert (E : (a =? c) = false) by (apply N.eqb_neq; intros ->; apply H; reflexivity). rewrite E. reflexivity. Qed.
Lemma in_ranges_pt c a rs : in_ranges c ((a, a) :: rs) = (c =? a) || in_ranges c rs.
Proof.
  cbn [in_ranges]. f_equal. destruct (N.eq_dec c a) as [->|Hn].
  - rewrite N.leb_refl, N.eqb_refl. reflexivity.
  - assert (E : (c =? a) = false) by (apply N.eqb_neq; exact Hn). rewrite E.
    destruct (a <=? c) eqn:E1; [|reflexivity]. destruct (c <=? a) eqn:E2; [|reflexivity].
    apply N.leb_le in E1. apply N.leb_le in E2. lia.
Qed.
Lemma in_hex n : n < 16 -> in_ranges (hexd n) [(97, 102); (65, 70); (48, 57)] = true.
Proof.
  intros H. unfold hexd. cbn [in_ranges]. destruct (n <? 10) eqn:E.
  - apply N.ltb_lt in E. assert (E1 : (48 <=? 48 + n) = true) by (apply N.leb_le; lia).
    assert (E2 : (48 + n <=? 57) = true) by (apply N.leb_le; lia). rewrite E1, E2. rewrite !orb_true_r. reflexivity.
  - apply N.ltb_ge in E. assert (E1 : (97 <=? 87 + n) = true) by (apply N.leb_le; lia).
    assert (E2 : (87 + n <=? 102) = true) by (apply N.leb_le; lia). rewrite E1, E2. reflexivity.
Qed.

Lemma ev_hexdigit c r pos : in_ranges c [(97, 102); (65, 70); (48, 57)] = true -> evG (PRef 21) (c :: r) pos (POk r (S pos) []).
Proof. intros H. eapply ev_ref; [reflexivity|]. apply ev_cls_ok. rewrite H. reflexivity. Qed.

(* \u00XY as the grammar reads it *)
Lemma ev_hexdigits a b c d r pos :
  in_ranges a [(97, 102); (65, 70); (48, 57)] = true -> in_ranges b [(97, 102); (65, 70); (48, 57)] = true ->
  in_ranges c [(97, 102); (65, 70); (48, 57)] = true -> in_ranges d [(97, 102); (65, 70); (48, 57)] = true ->
  evG (PRef 20) (117 :: a :: b :: c :: d :: r) pos (POk r (pos + 5)%nat []).
Proof.
  intros Ha Hb Hc Hd. eapply ev_ref; [reflexivity|].
  pose proof (ev_seq G (PLit [117]) (PSeq (PRef 21) (PSeq (PRef 21) (PSeq (PRef 21) (PRef 21)))) (117 :: a :: b :: c :: d :: r) pos
                (a :: b :: c :: d :: r) (pos + 1)%nat [] (POk r (pos + 5)%nat [])) as H. cbn [app] in H. apply H; clear H.
  - apply (ev_lit_ok G [117]). apply strip1_ok.
  - pose proof (ev_seq G (PRef 21) (PSeq (PRef 21) (PSeq (PRef 21) (PRef 21))) (a :: b :: c :: d :: r) (pos + 1)%nat
                  (b :: c :: d :: r) (S (pos + 1)) [] (POk r (pos + 5)%nat [])) as H. cbn [app] in H. apply H; clear H.
    + apply ev_hexdigit. exact Ha.
    + pose proof (ev_seq G (PRef 21) (PSeq (PRef 21) (PRef 21)) (b :: c :: d :: r) (S (pos + 1))
                    (c :: d :: r) (S (S (pos + 1))) [] (POk r (pos + 5)%nat [])) as H. cbn [app] in H. apply H; clear H.
      * apply ev_hexdigit. exact Hb.
      * pose proof (ev_seq G (PRef 21) (PRef 21) (c :: d :: r) (S (S (pos + 1)))
                      (d :: r) (S (S (S (pos + 1)))) [] (POk r (S (S (S (S (pos + 1))))) [])) as H. cbn [app] in H.
        replace (S (S (S (S (pos + 1))))) with (pos + 5)%nat in H by lia. apply H; clear H.
        -- apply ev_hexdigit. exact Hc.
        -- replace (pos + 5)%nat with (S (S (S (S (pos + 1))))) by lia. apply ev_hexdigit. exact Hd.
Qed.

Lemma in_qcls_q q : in_ranges q (qcls q) = true.
Proof. unfold qcls. rewrite in_ranges_pt, N.eqb_refl. reflexivity. Qed.
Lemma in_qcls_92 q : in_ranges 92 (qcls q) = true.
Proof. unfold qcls. rewrite !in_ranges_pt. cbn [N.eqb Pos.eqb]. rewrite !orb_true_r. destruct (92 =? q); reflexivity. Qed.
Lemma in_stop q c : in_ranges c [(q, q); (92, 92)] = (c =? q) || (c =? 92).
Proof. rewrite !in_ranges_pt. cbn [in_ranges]. rewrite orb_false_r. reflexivity. Qed.

(* one escaped code point is one iteration of the quoted-name body *)
Lemma ev_qbody_unit q c rest pos : (q = 34 \/ q = 39) ->
  evG (qbody q) (esc_json_byte q c ++ rest) pos (POk rest (pos + List.length (esc_json_byte q c)) []).
Proof.
  intros Hq. unfold esc_json_byte, qbody.
  destruct (c =? q) eqn:Eq; [|destruct (c =? 92) eqn:E92; [|destruct (c <? 32) eqn:E32]].
  - apply N.eqb_eq in Eq. subst c. cbn [app List.length]. apply ev_alt_l.
    eapply ev_seq_ok; [apply (ev_lit_ok G [92]); apply strip1_ok| |reflexivity].
    apply ev_alt_l. eapply ev_conv; [apply ev_cls_ok; rewrite in_qcls_q; reflexivity|]. f_equal. cbn [List.length]. lia.
  - apply N.eqb_eq in E92. subst c. cbn [app List.length]. apply ev_alt_l.
    eapply ev_seq_ok; [apply (ev_lit_ok G [92]); apply strip1_ok| |reflexivity].
    apply ev_alt_l. eapply ev_conv; [apply ev_cls_ok; rewrite in_qcls_92; reflexivity|]. f_equal. cbn [List.length]. lia.
  - apply N.ltb_lt in E32. cbn [app List.length]. apply ev_alt_l.
    eapply ev_seq_ok; [apply (ev_lit_ok G [92]); apply strip1_ok| |reflexivity].
    apply ev_alt_r.
    + apply ev_cls_fail. unfold qcls. rewrite !in_ranges_pt. cbn [in_ranges N.eqb Pos.eqb].
      destruct Hq as [-> | ->]; reflexivity.
    + eapply ev_conv; [apply ev_hexdigits; try reflexivity; apply in_hex|].
      * apply N.div_lt_upper_bound; lia.
      * apply N.mod_lt; lia.
      * f_equal. cbn [List.length]. lia.
  - cbn [app List.length]. apply ev_alt_r.
    + apply ev_seq_fail. apply (ev_lit_fail G [92]). apply strip1_no. apply N.eqb_neq. exact E92.
    + eapply ev_conv; [apply ev_cls_ok; rewrite in_stop, Eq, E92; reflexivity|]. f_equal. lia.
Qed.

Lemma esc_unit_len q c : (1 <= List.length (esc_json_byte q c))%nat.
Proof. unfold esc_json_byte. destruct (c =? q); [cbn; lia|]. destruct (c =? 92); [cbn; lia|]. destruct (c <? 32); cbn; lia. Qed.

(* the body repetition stops exactly at the closing quote *)
Lemma ev_qbody_star q k rest pos : (q = 34 \/ q = 39) ->
  evG (PStar (qbody q)) (esc_cps q k ++ q :: rest) pos (POk (q :: rest) (pos + List.length (esc_cps q k)) []).
Proof.
  intros Hq. revert pos. induction k as [|c k IH]; intros pos.
  - cbn [esc_cps flat_map app List.length]. eapply ev_conv; [apply ev_star_stop|f_equal; lia].
    unfold qbody. apply ev_alt_r.
    + apply ev_seq_fail. apply (ev_lit_fail G [92]). apply strip1_no. destruct Hq as [-> | ->]; discriminate.
    + apply ev_cls_fail. rewrite in_stop, N.eqb_refl. reflexivity.
  - unfold esc_cps in *. cbn [flat_map]. rewrite <- app_assoc, app_length.
    pose proof (ev_qbody_unit q c (flat_map (esc_json_byte q) k ++ q :: rest) pos Hq) as H1.
    pose proof (esc_unit_len q c) as Hl.
    pose proof (ev_star_step G _ _ _ _ _ _ _ _ _ H1 ltac:(lia) (IH (pos + List.length (esc_json_byte q c))%nat)) as H2.
    eapply ev_conv; [exact H2|]. f_equal. lia.
Qed.

(* ---------- small evaluation facts ---------- *)
Lemma strip_nil_none s : s <> [] -> strip_prefix s [] = None.
Proof. destruct s; [congruence|reflexivity]. Qed.
Lemma strip2_no a b c r : c <> a -> strip_prefix [a; b] (c :: r) = None.
Proof. intros H. cbn [strip_prefix]. assert (E : (a =? c) = false) by (apply N.eqb_neq; intros ->; apply H; reflexivity). rewrite E. reflexivity. Qed.

Lemma ev_space_stop c r pos : c <> 32 -> evG (PRef 58) (c :: r) pos (POk (c :: r) pos []).
Proof. intros H. eapply ev_ref; [reflexivity|]. apply ev_star_stop. apply (ev_lit_fail G [32]). apply strip1_no. exact H. Qed.
Lemma ev_space_eof pos : evG (PRef 58) [] pos (POk [] pos []).
Proof. eapply ev_ref; [reflexivity|]. apply ev_star_stop. apply (ev_lit_fail G [32]). reflexivity. Qed.

(* sep fails unless a comma follows the blanks *)
Lemma ev_sep_fail c r pos : c <> 32 -> c <> 44 -> evG (PRef 28) (c :: r) pos PFail.
Proof.
  intros H1 H2. eapply ev_ref; [reflexivity|].
  eapply ev_seq_fail2; [apply ev_space_stop; exact H1|].
  apply ev_seq_fail. apply (ev_lit_fail G [44]). apply strip1_no. exact H2.
Qed.

(* a quoted name: rule 19 for the double quote, rule 18 for the single quote *)
Lemma ev_rule19 k rest pos :
  evG (PRef 19) (34 :: esc_cps 34 k ++ 34 :: rest) pos
      (POk rest (pos + List.length (esc_cps 34 k) + 2)%nat [TText (pos + 1) (pos + 1 + List.length (esc_cps 34 k)); TAct 14]).
Proof.
  eapply ev_ref; [exact rule19_shape|].
  eapply ev_seq_ok; [apply (ev_lit_ok G [34]); apply strip1_ok| |reflexivity]. cbn [List.length].
  eapply ev_seq_ok; [apply ev_cap; apply ev_qbody_star; left; reflexivity| |reflexivity].
  eapply ev_seq_ok; [apply (ev_lit_ok G [34]); apply strip1_ok| |reflexivity].
  eapply ev_conv; [apply ev_act|]. cbn [List.length app]. f_equal. lia.
Qed.
Lemma ev_rule18 k rest pos :
  evG (PRef 18) (39 :: esc_cps 39 k ++ 39 :: rest) pos
      (POk rest (pos + List.length (esc_cps 39 k) + 2)%nat [TText (pos + 1) (pos + 1 + List.length (esc_cps 39 k)); TAct 13]).
Proof.
  eapply ev_ref; [exact rule18_shape|].
  eapply ev_seq_ok; [apply (ev_lit_ok G [39]); apply strip1_ok| |reflexivity]. cbn [List.length].
  eapply ev_seq_ok; [apply ev_cap; apply ev_qbody_star; right; reflexivity| |reflexivity].
  eapply ev_seq_ok; [apply (ev_lit_ok G [39]); apply strip1_ok| |reflexivity].
  eapply ev_conv; [apply ev_act|]. cbn [List.length app]. f_equal. lia.
Qed.

Definition qact (q : N) : nat := if q =? 34 then 14%nat else 13%nat.

(* bracketNodeIdentifier picks the rule of the quote that opens the name *)
Lemma ev_rule16 q k rest pos : (q = 34 \/ q = 39) ->
  evG (PRef 16) (q :: esc_cps q k ++ q :: rest) pos
      (POk rest (pos + List.length (esc_cps q k) + 2)%nat [TText (pos + 1) (pos + 1 + List.length (esc_cps q k)); TAct (qact q)]).
Proof.
  intros Hq. eapply ev_ref; [reflexivity|].
  apply ev_alt_r.
  - eapply ev_ref; [reflexivity|]. apply ev_seq_fail. apply (ev_lit_fail G [42]). apply strip1_no. destruct Hq as [-> | ->]; discriminate.
  - destruct Hq as [-> | ->].
    + apply ev_alt_r; [|apply ev_rule19].
      eapply ev_ref; [exact rule18_shape|]. apply ev_seq_fail. apply (ev_lit_fail G [39]). apply strip1_no. discriminate.
    + apply ev_alt_l. apply ev_rule18.
Qed.

(* bracketChildIdentifier with one name, closed by ] *)
Lemma ev_rule15 q k rest pos : (q = 34 \/ q = 39) ->
  evG (PRef 15) (q :: esc_cps q k ++ q :: 93 :: rest) pos
      (POk (93 :: rest) (pos + List.length (esc_cps q k) + 2)%nat [TText (pos + 1) (pos + 1 + List.length (esc_cps q k)); TAct (qact q)]).
Proof.
  intros Hq. eapply ev_ref; [reflexivity|].
  eapply ev_seq_ok; [apply ev_rule16; exact Hq| |symmetry; apply app_nil_r].
  eapply ev_seq_ok; [apply ev_star_stop| |reflexivity].
  - apply ev_seq_fail. apply ev_sep_fail; discriminate.
  - apply ev_not_ok. apply ev_sep_fail; discriminate.
Qed.

(* bracketNode: [ name ] *)
Lemma ev_rule10 q k rest pos : (q = 34 \/ q = 39) ->
  evG (PRef 10) (91 :: q :: esc_cps q k ++ q :: 93 :: rest) pos
      (POk rest (pos + List.length (esc_cps q k) + 4)%nat
           [TText (pos + 2) (pos + 2 + List.length (esc_cps q k)); TAct (qact q);
            TText pos (pos + List.length (esc_cps q k) + 4); TAct 7]).
Proof.
  intros Hq. eapply ev_conv.
  - eapply ev_ref; [reflexivity|].
    eapply ev_seq_ok; [apply ev_cap| apply ev_act |reflexivity].
    eapply ev_seq_ok; [| |reflexivity].
    + eapply ev_ref; [reflexivity|]. eapply ev_seq_ok; [apply (ev_lit_ok G [91]); apply strip1_ok| |reflexivity].
      apply ev_space_stop. destruct Hq as [-> | ->]; discriminate.
    + eapply ev_seq_ok; [apply ev_alt_l; apply ev_rule15; exact Hq| |reflexivity].
      eapply ev_ref; [reflexivity|]. eapply ev_seq_ok; [apply ev_space_stop; discriminate| |reflexivity].
      apply (ev_lit_ok G [93]). apply strip1_ok.
  - cbn [List.length app]. set (L := List.length (esc_cps q k)).
    replace (pos + 1 + L + 2 + 1)%nat with (pos + L + 4)%nat by lia. replace (pos + 1 + 1)%nat with (pos + 2)%nat by lia. reflexivity.
Qed.

(* childNode on a bracketed name, and at the end of the input *)
Lemma ev_rule7 q k rest pos : (q = 34 \/ q = 39) ->
  evG (PRef 7) (91 :: q :: esc_cps q k ++ q :: 93 :: rest) pos
      (POk rest (pos + List.length (esc_cps q k) + 4)%nat
           [TText (pos + 2) (pos + 2 + List.length (esc_cps q k)); TAct (qact q);
            TText pos (pos + List.length (esc_cps q k) + 4); TAct 7]).
Proof.
  intros Hq. eapply ev_ref; [reflexivity|].
  apply ev_alt_r; [apply ev_seq_fail; apply (ev_lit_fail G [46; 46]); apply strip2_no; discriminate|].
  apply ev_alt_r; [apply ev_seq_fail; apply ev_cap_fail; apply ev_seq_fail; apply (ev_lit_fail G [46]); apply strip1_no; discriminate|].
  apply ev_rule10. exact Hq.
Qed.
Lemma ev_rule7_eof pos : evG (PRef 7) [] pos PFail.
Proof.
  eapply ev_ref; [reflexivity|].
  apply ev_alt_r; [apply ev_seq_fail; apply (ev_lit_fail G [46; 46]); reflexivity|].
  apply ev_alt_r; [apply ev_seq_fail; apply ev_cap_fail; apply ev_seq_fail; apply (ev_lit_fail G [46]); reflexivity|].
  eapply ev_ref; [reflexivity|]. apply ev_seq_fail. apply ev_cap_fail. apply ev_seq_fail.
  eapply ev_ref; [reflexivity|]. apply ev_seq_fail. apply (ev_lit_fail G [91]). reflexivity.
Qed.
Lemma ev_rule8_eof pos : evG (PRef 8) [] pos PFail.
Proof.
  eapply ev_ref; [reflexivity|]. apply ev_seq_fail. apply ev_cap_fail. apply ev_seq_fail. apply (ev_lit_fail G [46]). reflexivity.
Qed.

(* the path text $["k"] / $['k'] *)
Definition key_tokens (q : N) (k : list N) : list token :=
  let n := List.length (esc_cps q k) in
  [TAct 8; TText 3 (3 + n); TAct (qact q); TText 1 (n + 5); TAct 7; TAct 2; TAct 0].

Lemma ev_key_path q k : (q = 34 \/ q = 39) ->
  evG (PRef 0) (key_path q k) 0 (POk [] (List.length (esc_cps q k) + 5)%nat (key_tokens q k)).
Proof.
  intros Hq. unfold key_path, key_tokens. eapply ev_conv.
  - eapply ev_ref; [reflexivity|]. apply ev_alt_l.
    eapply ev_seq_ok; [| |reflexivity].
    + eapply ev_ref; [reflexivity|].
      eapply ev_seq_ok; [apply ev_space_stop; discriminate| |reflexivity].
      eapply ev_seq_ok; [| |reflexivity].
      * eapply ev_ref; [reflexivity|]. apply ev_alt_l. eapply ev_ref; [reflexivity|].
        eapply ev_seq_ok; [apply (ev_lit_ok G [36]); apply strip1_ok|apply ev_act|reflexivity].
      * eapply ev_ref; [reflexivity|].
        eapply ev_seq_ok; [| |reflexivity].
        -- eapply ev_star_step; [apply (ev_rule7 q k []); exact Hq|cbn [List.length]; lia|].
           apply ev_star_stop. apply ev_rule7_eof.
        -- eapply ev_seq_ok; [apply ev_star_stop; apply ev_rule8_eof| |reflexivity].
           eapply ev_seq_ok; [apply ev_space_eof|apply ev_act|reflexivity].
    + eapply ev_seq_ok; [| apply ev_act |reflexivity].
      eapply ev_ref; [reflexivity|]. apply ev_not_ok. apply ev_any_fail.
  - cbn [List.length app Nat.add]. set (L := List.length (esc_cps q k)).
    replace (S (L + 4))%nat with (L + 5)%nat by lia. replace (S (S (S L))) with (3 + L)%nat by lia. reflexivity.
Qed.

Lemma peg_key_path q k : (q = 34 \/ q = 39) ->
  peg_parse G (key_path q k) = POk [] (List.length (esc_cps q k) + 5)%nat (key_tokens q k).
Proof.
  intros Hq. apply ev_peg_parse; [apply ev_key_path; exact Hq|apply peg_never_out_of_fuel].
Qed.

Lemma sub_key q k : sub_list (key_path q k) 3 (3 + List.length (esc_cps q k)) = esc_cps q k.
Proof.
  unfold sub_list, key_path. cbn [skipn]. replace (3 + List.length (esc_cps q k) - 3)%nat with (List.length (esc_cps q k)) by lia.
  rewrite firstn_app, firstn_all, Nat.sub_diag. cbn [firstn]. apply app_nil_r.
Qed.
Lemma sub_bracket q k : sub_list (key_path q k) 1 (List.length (esc_cps q k) + 5) = 91 :: q :: esc_cps q k ++ [q; 93].
Proof.
  unfold sub_list, key_path. cbn [skipn]. apply firstn_all2. cbn [List.length]. rewrite app_length. cbn [List.length]. lia.
Qed.

Section KeyExec.
  Variable cfg : config.
  Variable parse_float : string -> option num.
  Variable regex_ok : string -> bool.

  Definition key_text (q : N) (k : list N) : string := text_of (91 :: q :: esc_cps q k ++ [q; 93]).
  Definition key_node (q : N) (k : list N) : node :=
    Node (KSingle (string_of_bytes (utf8 k)))
         {| text := key_text q k; ctext := (key_text q k ++ "")%string; vgroup := false; accessor := cfg_accessor cfg |} ONone.

  Lemma exec_key_action q k bg st : (q = 34 \/ q = 39) ->
    exec_action cfg parse_float regex_ok (qact q) (esc_cps q k) bg st = AOk (push_single cfg (string_of_bytes (utf8 k)) st).
  Proof.
    intros [-> | ->]; unfold qact; cbn [N.eqb Pos.eqb exec_action]; rewrite utf8_esc by lia.
    - change (flat_map (esc_json_byte 34) (utf8 k)) with (esc_double (utf8 k)). rewrite unescape_double_esc. reflexivity.
    - change (flat_map (esc_json_byte 39) (utf8 k)) with (esc_single (utf8 k)). rewrite unescape_single_esc. reflexivity.
  Qed.

  Theorem parse_key_path q k : (q = 34 \/ q = 39) ->
    parse_with cfg parse_float regex_ok G (key_path q k) = ParseOk (key_node q k).
  Proof.
    intros Hq. unfold parse_with, parse_from. rewrite (peg_key_path q k Hq). unfold key_tokens.
    cbn [execute]. rewrite sub_key, sub_bracket.
    change (exec_action cfg parse_float regex_ok 8 [] 0 ps_init) with
      (AOk (push (INode (Node KRoot (mk_basic "$" false (cfg_accessor cfg)) ONone)) ps_init)).
    cbn [abind]. rewrite (exec_key_action q k _ _ Hq). cbn [abind].
    unfold key_node, key_text.
    remember (91 :: q :: esc_cps q k ++ [q; 93]) as T eqn:HT. remember (string_of_bytes (utf8 k)) as key eqn:Hkey.
    remember (text_of T) as tt eqn:Htt.
    Timeout 20 cbv [push_single push with_params ps_init params saved proot app].
    Timeout 20 cbn [exec_action]. rewrite <- Htt.
    Timeout 20 cbv. reflexivity.
  Qed.
End KeyExec.

(* ====================== the dot spelling $.k ====================== *)
Definition ctrl_ranges : list (N * N) := [(0, 31); (127, 127)].
Definition dbody : pexp :=
  PAlt (PSeq (PLit [92]) (PRef 14)) (PSeq (PNot (PCls false ctrl_ranges)) (PSeq (PNot (PRef 14)) PAny)).
Lemma rule13_shape : nth_error G 13 = Some (PAlt (PRef 17) (PSeq (PCap (PPlus dbody)) (PSeq (PNot (PLit [40; 41])) (PAct 10)))).
Proof. reflexivity. Qed.
Lemma rule14_shape : nth_error G 14 = Some (PCls false dot_ranges).
Proof. reflexivity. Qed.

Definition dot_unit (c : N) : list N := if dot_sym c then [92; c] else [c].
Lemma dot_sym_92 : dot_sym 92 = true. Proof. reflexivity. Qed.
Lemma dot_sym_42 : dot_sym 42 = true. Proof. reflexivity. Qed.
Lemma dot_sym_46 : dot_sym 46 = true. Proof. reflexivity. Qed.

Lemma ev_sym_ok c r pos : dot_sym c = true -> evG (PRef 14) (c :: r) pos (POk r (S pos) []).
Proof. intros H. eapply ev_ref; [exact rule14_shape|]. apply ev_cls_ok. unfold dot_sym in H. rewrite H. reflexivity. Qed.
Lemma ev_sym_fail c r pos : dot_sym c = false -> evG (PRef 14) (c :: r) pos PFail.
Proof. intros H. eapply ev_ref; [exact rule14_shape|]. apply ev_cls_fail. unfold dot_sym in H. rewrite H. reflexivity. Qed.
Lemma ev_sym_eof pos : evG (PRef 14) [] pos PFail.
Proof. eapply ev_ref; [exact rule14_shape|]. apply ev_cls_eof. Qed.

Lemma ev_dbody_unit c rest pos : dot_char c = true ->
  evG dbody (dot_unit c ++ rest) pos (POk rest (pos + List.length (dot_unit c)) []).
Proof.
  intros Hc. unfold dot_unit, dbody. destruct (dot_sym c) eqn:Es.
  - cbn [app List.length]. apply ev_alt_l.
    eapply ev_seq_ok; [apply (ev_lit_ok G [92]); apply strip1_ok| |reflexivity].
    eapply ev_conv; [apply ev_sym_ok; exact Es|]. f_equal. cbn [List.length]. lia.
  - cbn [app List.length]. apply ev_alt_r.
    + apply ev_seq_fail. apply (ev_lit_fail G [92]). apply strip1_no. intros ->. rewrite dot_sym_92 in Es. discriminate.
    + eapply ev_seq_ok; [apply ev_not_ok; apply ev_cls_fail| |reflexivity].
      * unfold dot_char, ctrl_ranges in *. apply negb_true_iff in Hc. rewrite Hc. reflexivity.
      * eapply ev_seq_ok; [apply ev_not_ok; apply ev_sym_fail; exact Es| |reflexivity].
        eapply ev_conv; [apply ev_any_ok|]. f_equal. lia.
Qed.
(* what may follow a dot name: the end of the text, or a symbol character other than the backslash and the opening
   parenthesis (a dot of the next step, a bracket, a blank, a closing parenthesis, an operator ...) *)
Definition dot_stop (rest : list N) : Prop :=
  match rest with [] => True | x :: _ => dot_sym x = true /\ x <> 92 /\ x <> 40 end.
Lemma sym_not_ctrl x : dot_sym x = true -> in_ranges x ctrl_ranges = false.
Proof.
  unfold dot_sym, dot_ranges, ctrl_ranges. cbn [in_ranges]. intros H.
  destruct (x <=? 31) eqn:E1.
  - apply N.leb_le in E1. exfalso.
    repeat (apply orb_true_iff in H; destruct H as [H|H]); try discriminate H;
      apply andb_true_iff in H; destruct H as [Ha Hb]; apply N.leb_le in Ha; lia.
  - destruct ((127 <=? x) && (x <=? 127)) eqn:E2.
    + apply andb_true_iff in E2. destruct E2 as [Ea Eb]. apply N.leb_le in Ea. apply N.leb_le in Eb. exfalso.
      repeat (apply orb_true_iff in H; destruct H as [H|H]); try discriminate H;
        apply andb_true_iff in H; destruct H as [Ha Hb]; apply N.leb_le in Hb; lia.
    + rewrite andb_false_r. reflexivity.
Qed.
(* the weaker condition under which the name characters stop: the follower is a symbol other than the backslash *)
Definition sym_stop (rest : list N) : Prop := match rest with [] => True | x :: _ => dot_sym x = true /\ x <> 92 end.
Lemma dot_sym_stop rest : dot_stop rest -> sym_stop rest.
Proof. destruct rest as [|x r]; [trivial|]. cbn. tauto. Qed.
Lemma ev_dbody_stop rest pos : sym_stop rest -> evG dbody rest pos PFail.
Proof.
  unfold dbody. destruct rest as [|x r]; intros Hs.
  - apply ev_alt_r.
    + apply ev_seq_fail. apply (ev_lit_fail G [92]). reflexivity.
    + eapply ev_seq_fail2; [apply ev_not_ok; apply ev_cls_eof|].
      eapply ev_seq_fail2; [apply ev_not_ok; apply ev_sym_eof|]. apply ev_any_fail.
  - cbn [sym_stop] in Hs. destruct Hs as (Hsym & H92). apply ev_alt_r.
    + apply ev_seq_fail. apply (ev_lit_fail G [92]). apply strip1_no. exact H92.
    + eapply ev_seq_fail2; [apply ev_not_ok; apply ev_cls_fail; rewrite (sym_not_ctrl x Hsym); reflexivity|].
      apply ev_seq_fail. eapply ev_not_fail. apply ev_sym_ok. exact Hsym.
Qed.
Lemma dot_unit_len c : (1 <= List.length (dot_unit c))%nat.
Proof. unfold dot_unit. destruct (dot_sym c); cbn; lia. Qed.

Lemma ev_dbody_star k rest pos : forallb dot_char k = true -> sym_stop rest ->
  evG (PStar dbody) (esc_dot_cps k ++ rest) pos (POk rest (pos + List.length (esc_dot_cps k)) []).
Proof.
  intros Hk Hs. revert pos Hk. induction k as [|c k IH]; intros pos Hk.
  - cbn [esc_dot_cps flat_map List.length app]. eapply ev_conv; [apply ev_star_stop; apply ev_dbody_stop; exact Hs|f_equal; lia].
  - cbn [forallb] in Hk. apply andb_true_iff in Hk. destruct Hk as [Hc Hk].
    unfold esc_dot_cps in *. cbn [flat_map]. fold (dot_unit c). rewrite <- app_assoc, app_length.
    pose proof (ev_dbody_unit c (flat_map (fun c0 => if dot_sym c0 then [92; c0] else [c0]) k ++ rest) pos Hc) as H1.
    pose proof (dot_unit_len c) as Hl.
    pose proof (ev_star_step G _ _ _ _ _ _ _ _ _ H1 ltac:(lia) (IH (pos + List.length (dot_unit c))%nat Hk)) as H2.
    eapply ev_conv; [exact H2|]. f_equal. lia.
Qed.
Lemma ev_dbody_plus c k rest pos : forallb dot_char (c :: k) = true -> sym_stop rest ->
  evG (PPlus dbody) (esc_dot_cps (c :: k) ++ rest) pos (POk rest (pos + List.length (esc_dot_cps (c :: k))) []).
Proof.
  intros Hk Hs. cbn [forallb] in Hk. apply andb_true_iff in Hk. destruct Hk as [Hc Hk].
  unfold esc_dot_cps in *. cbn [flat_map]. fold (dot_unit c). rewrite <- app_assoc, app_length.
  pose proof (ev_dbody_unit c (flat_map (fun c0 => if dot_sym c0 then [92; c0] else [c0]) k ++ rest) pos Hc) as H1.
  pose proof (dot_unit_len c) as Hl.
  pose proof (ev_plus G _ _ _ _ _ _ _ _ _ H1 ltac:(lia) (ev_dbody_star k rest (pos + List.length (dot_unit c))%nat Hk Hs)) as H2.
  unfold esc_dot_cps in H2. eapply ev_conv; [exact H2|]. f_equal. lia.
Qed.

(* the first character of an escaped non-empty name is neither * nor . *)
Lemma dot_first c k : exists x r, esc_dot_cps (c :: k) = x :: r /\ x <> 42 /\ x <> 46.
Proof.
  unfold esc_dot_cps. cbn [flat_map]. destruct (dot_sym c) eqn:Es.
  - eexists _, _. split; [reflexivity|]. split; discriminate.
  - eexists _, _. split; [reflexivity|]. split; intros ->; [rewrite dot_sym_42 in Es|rewrite dot_sym_46 in Es]; discriminate.
Qed.

Lemma strip_stop rest : dot_stop rest -> strip_prefix [40; 41] rest = None.
Proof.
  destruct rest as [|x r]; [reflexivity|]. cbn [dot_stop]. intros (_ & _ & H40). cbn [strip_prefix].
  assert (E : (40 =? x) = false) by (apply N.eqb_neq; intros E; apply H40; symmetry; exact E). rewrite E. reflexivity.
Qed.

Lemma ev_rule13 c k rest pos : forallb dot_char (c :: k) = true -> dot_stop rest ->
  evG (PRef 13) (esc_dot_cps (c :: k) ++ rest) pos
      (POk rest (pos + List.length (esc_dot_cps (c :: k)))%nat [TText pos (pos + List.length (esc_dot_cps (c :: k))); TAct 10]).
Proof.
  intros Hk Hs. eapply ev_ref; [exact rule13_shape|].
  destruct (dot_first c k) as (x & r & Hx & H42 & _).
  apply ev_alt_r.
  - rewrite Hx. cbn [app]. eapply ev_ref; [reflexivity|]. apply ev_seq_fail. apply (ev_lit_fail G [42]). apply strip1_no. exact H42.
  - eapply ev_seq_ok; [apply ev_cap; apply ev_dbody_plus; [exact Hk|apply dot_sym_stop; exact Hs]| |reflexivity].
    eapply ev_seq_ok; [apply ev_not_ok; apply (ev_lit_fail G [40; 41]); apply strip_stop; exact Hs|apply ev_act|reflexivity].
Qed.

Lemma strip2_no2 a b c r : c <> b -> strip_prefix [a; b] (a :: c :: r) = None.
Proof.
  intros H. cbn [strip_prefix]. rewrite N.eqb_refl.
  assert (E : (b =? c) = false) by (apply N.eqb_neq; intros ->; apply H; reflexivity). rewrite E. reflexivity.
Qed.

(* childNode on .name followed by the end of the path or by another step *)
Lemma ev_rule7_dot c k rest pos : forallb dot_char (c :: k) = true -> dot_stop rest ->
  evG (PRef 7) (46 :: esc_dot_cps (c :: k) ++ rest) pos
      (POk rest (pos + 1 + List.length (esc_dot_cps (c :: k)))%nat
           [TText (pos + 1) (pos + 1 + List.length (esc_dot_cps (c :: k))); TAct 10;
            TText pos (pos + 1 + List.length (esc_dot_cps (c :: k))); TAct 4]).
Proof.
  intros Hk Hs. eapply ev_ref; [reflexivity|].
  destruct (dot_first c k) as (x & r & Hx & _ & H46).
  apply ev_alt_r; [apply ev_seq_fail; apply (ev_lit_fail G [46; 46]); rewrite Hx; cbn [app]; apply strip2_no2; exact H46|].
  apply ev_alt_l. eapply ev_conv.
  - eapply ev_seq_ok; [apply ev_cap| apply ev_act |reflexivity].
    eapply ev_seq_ok; [apply (ev_lit_ok G [46]); apply strip1_ok|apply ev_rule13; [exact Hk|exact Hs]|reflexivity].
  - cbn [List.length app]. reflexivity.
Qed.

Definition dot_tokens (k : list N) : list token :=
  let n := List.length (esc_dot_cps k) in
  [TAct 8; TText 2 (2 + n); TAct 10; TText 1 (2 + n); TAct 4; TAct 2; TAct 0].

Lemma ev_dot_path c k : forallb dot_char (c :: k) = true ->
  evG (PRef 0) (dot_path (c :: k)) 0 (POk [] (List.length (esc_dot_cps (c :: k)) + 2)%nat (dot_tokens (c :: k))).
Proof.
  intros Hk. unfold dot_path, dot_tokens. eapply ev_conv.
  - eapply ev_ref; [reflexivity|]. apply ev_alt_l.
    eapply ev_seq_ok; [| |reflexivity].
    + eapply ev_ref; [reflexivity|].
      eapply ev_seq_ok; [apply ev_space_stop; discriminate| |reflexivity].
      eapply ev_seq_ok; [| |reflexivity].
      * eapply ev_ref; [reflexivity|]. apply ev_alt_l. eapply ev_ref; [reflexivity|].
        eapply ev_seq_ok; [apply (ev_lit_ok G [36]); apply strip1_ok|apply ev_act|reflexivity].
      * eapply ev_ref; [reflexivity|].
        eapply ev_seq_ok; [| |reflexivity].
        -- eapply ev_star_step; [pose proof (ev_rule7_dot c k [] 1 Hk I) as H7; rewrite app_nil_r in H7; exact H7|cbn [List.length]; lia|].
           apply ev_star_stop. apply ev_rule7_eof.
        -- eapply ev_seq_ok; [apply ev_star_stop; apply ev_rule8_eof| |reflexivity].
           eapply ev_seq_ok; [apply ev_space_eof|apply ev_act|reflexivity].
    + eapply ev_seq_ok; [| apply ev_act |reflexivity].
      eapply ev_ref; [reflexivity|]. apply ev_not_ok. apply ev_any_fail.
  - cbn [List.length app Nat.add]. set (L := List.length (esc_dot_cps (c :: k))).
    replace (L + 2)%nat with (2 + L)%nat by lia. reflexivity.
Qed.

Lemma peg_dot_path c k : forallb dot_char (c :: k) = true ->
  peg_parse G (dot_path (c :: k)) = POk [] (List.length (esc_dot_cps (c :: k)) + 2)%nat (dot_tokens (c :: k)).
Proof. intros Hk. apply ev_peg_parse; [apply ev_dot_path; exact Hk|apply peg_never_out_of_fuel]. Qed.

Lemma sub_dot_name k : sub_list (dot_path k) 2 (2 + List.length (esc_dot_cps k)) = esc_dot_cps k.
Proof.
  unfold sub_list, dot_path. cbn [skipn]. replace (2 + List.length (esc_dot_cps k) - 2)%nat with (List.length (esc_dot_cps k)) by lia.
  apply firstn_all.
Qed.
Lemma sub_dot_step k : sub_list (dot_path k) 1 (2 + List.length (esc_dot_cps k)) = 46 :: esc_dot_cps k.
Proof. unfold sub_list, dot_path. cbn [skipn]. apply firstn_all2. cbn [List.length]. lia. Qed.

(* the key has no newline, so the unescape of the dot spelling gives it back *)
Lemma dot_char_not_nl k : forallb dot_char k = true -> Forall (fun c => c <> 10) k.
Proof.
  intros H. apply Forall_forall. intros c Hc Heq. rewrite forallb_forall in H. specialize (H c Hc). subst c. discriminate H.
Qed.
Lemma esc_dot_cps_eq k : esc_dot_cps k = esc_dot dot_sym k.
Proof. reflexivity. Qed.

Section DotExec.
  Variable cfg : config.
  Variable parse_float : string -> option num.
  Variable regex_ok : string -> bool.

  Definition dot_text (k : list N) : string := text_of (46 :: esc_dot_cps k).
  Definition dot_node (k : list N) : node :=
    Node (KSingle (string_of_bytes (utf8 k)))
         {| text := dot_text k; ctext := (dot_text k ++ "")%string; vgroup := false; accessor := cfg_accessor cfg |} ONone.

  Theorem parse_dot_path c k : forallb dot_char (c :: k) = true ->
    parse_with cfg parse_float regex_ok G (dot_path (c :: k)) = ParseOk (dot_node (c :: k)).
  Proof.
    intros Hk. unfold parse_with, parse_from. rewrite (peg_dot_path c k Hk). unfold dot_tokens.
    cbn [execute]. rewrite sub_dot_name, sub_dot_step.
    change (exec_action cfg parse_float regex_ok 8 [] 0 ps_init) with
      (AOk (push (INode (Node KRoot (mk_basic "$" false (cfg_accessor cfg)) ONone)) ps_init)).
    cbn [abind].
    assert (E10 : forall st, exec_action cfg parse_float regex_ok 10 (esc_dot_cps (c :: k)) 2 st =
                             AOk (push_single cfg (string_of_bytes (utf8 (c :: k))) st)).
    { intros st. cbn [exec_action]. rewrite esc_dot_cps_eq, unescape_dot_esc; [reflexivity|exact dot_sym_92|apply dot_char_not_nl; exact Hk]. }
    rewrite E10. cbn [abind]. unfold dot_node, dot_text.
    remember (46 :: esc_dot_cps (c :: k)) as T eqn:HT. remember (string_of_bytes (utf8 (c :: k))) as key eqn:Hkey.
    remember (text_of T) as tt eqn:Htt.
    cbv [push_single push with_params ps_init params saved proot app].
    cbn [exec_action]. rewrite <- Htt.
    cbv. reflexivity.
  Qed.
End DotExec.
