(* Peg.v — a generic PEG interpreter with captures and action tokens (DESIGN §4.1).
   The grammar it runs (Grammar.v) is regenerated from /repo/jsonpath.peg on every check.
   Tokens are produced in the order pointlander/peg's Execute() replays them:
   the tokens of a capture's body, then the capture's text token, then any following action. *)
From Coq Require Export List NArith Arith Bool.
Export ListNotations.

Inductive pexp :=
| PAny                                   (* .   (never matches the end of input) *)
| PLit (s : list N)                      (* 'abc' *)
| PCls (neg : bool) (rs : list (N * N))  (* [a-z] / [^a-z]; a negated class does not match the end *)
| PSeq (a b : pexp)
| PAlt (a b : pexp)                      (* ordered choice *)
| PStar (e : pexp) | PPlus (e : pexp) | POpt (e : pexp)
| PNot (e : pexp) | PAnd (e : pexp)      (* !e  &e *)
| PRef (rule : nat)                      (* rule number in the grammar *)
| PCap (e : pexp)                        (* < e > *)
| PAct (n : nat)                         (* { action n } *)
| PEps.

Inductive token :=
| TText (b e : nat)                      (* rulePegText: begin, end (rune indices) *)
| TAct (n : nat).                        (* ruleAction<n> *)

Inductive pres :=
| PFail
| PFuel                                  (* out of fuel (or a star over a body that consumed nothing) *)
| POk (rest : list N) (pos : nat) (toks : list token).

Definition grammar := list pexp.

Fixpoint strip_prefix (p s : list N) : option (list N) :=
  match p with
  | [] => Some s
  | c :: p' => match s with
               | d :: s' => if N.eqb c d then strip_prefix p' s' else None
               | [] => None
               end
  end.

Fixpoint in_ranges (c : N) (rs : list (N * N)) : bool :=
  match rs with
  | [] => false
  | (lo, hi) :: r => (N.leb lo c && N.leb c hi) || in_ranges c r
  end.

(* Fuel bounds the depth of rule calls and star iterations; expression structure is structural. *)
Fixpoint run (g : grammar) (fuel : nat) (e : pexp) (rest : list N) (pos : nat) {struct fuel} : pres :=
  match fuel with
  | O => PFuel
  | S f =>
      (fix go (e : pexp) (rest : list N) (pos : nat) {struct e} : pres :=
         match e with
         | PAny => match rest with _ :: r => POk r (S pos) [] | [] => PFail end
         | PLit s => match strip_prefix s rest with
                     | Some r => POk r (pos + length s) []
                     | None => PFail
                     end
         | PCls neg rs => match rest with
                          | c :: r => if xorb neg (in_ranges c rs) then POk r (S pos) [] else PFail
                          | [] => PFail
                          end
         | PSeq a b => match go a rest pos with
                       | POk r p t => match go b r p with
                                      | POk r' p' t' => POk r' p' (t ++ t')
                                      | x => x
                                      end
                       | x => x
                       end
         | PAlt a b => match go a rest pos with
                       | PFail => go b rest pos
                       | x => x
                       end
         | PStar a => match go a rest pos with
                      | PFail => POk rest pos []
                      | PFuel => PFuel
                      | POk r p t =>
                          if Nat.eqb p pos then PFuel       (* no progress: the real parser would hang *)
                          else match run g f (PStar a) r p with
                               | POk r' p' t' => POk r' p' (t ++ t')
                               | x => x
                               end
                      end
         | PPlus a => match go a rest pos with
                      | POk r p t =>
                          if Nat.eqb p pos then PFuel
                          else match run g f (PStar a) r p with
                               | POk r' p' t' => POk r' p' (t ++ t')
                               | x => x
                               end
                      | x => x
                      end
         | POpt a => match go a rest pos with
                     | PFail => POk rest pos []
                     | x => x
                     end
         | PNot a => match go a rest pos with
                     | PFail => POk rest pos []
                     | PFuel => PFuel
                     | POk _ _ _ => PFail
                     end
         | PAnd a => match go a rest pos with
                     | POk _ _ _ => POk rest pos []
                     | x => x
                     end
         | PRef n => match nth_error g n with
                     | Some body => run g f body rest pos
                     | None => PFail
                     end
         | PCap a => match go a rest pos with
                     | POk r p t => POk r p (t ++ [TText pos p])
                     | x => x
                     end
         | PAct n => POk rest pos [TAct n]
         | PEps => POk rest pos []
         end) e rest pos
  end.

Definition parse_fuel (s : list N) : nat := 200 + 40 * length s.
Definition peg_parse (g : grammar) (s : list N) : pres := run g (parse_fuel s) (PRef 0) s 0.
