(* FiltAgg.v — an aggregate function after steps and FILTERS, from the path text: `$` steps-and-filters `.g()` `.f()`… calls g
   exactly once, with all the values the steps and filters reach in the order they reach them (or with the elements of the
   single array when the path is single-valued and reaches an array), never when they reach nothing; its return value becomes
   the single result, to which the filter functions that follow apply left to right.  The port of AggParse / AggAddr to the
   steps of FiltChain. *)
From JP Require Import Peg Grammar Slice Text Tree Actions Json Eval WF Spec SortFacts EvalInv1 EvalInv4 EvalTop EndToEnd Codec PegFacts PegMono PegEv FuelRules ParseFacts KeyDefs KeyParse IdxParse SliceParse UnionParse WildParse RecParse ChainParse SpacePath FunParse AggParse Frame FiltParse CmpParse CmpSpace NegFilt LitParse RootOp RegexOp LitLeft QueryParse FiltSpace QuerySpace QueryTree FiltChain ChainAddr FunAddr AggAddr FiltAddr CmpAddr QueryAddr FiltChainAddr FiltFun CallDefs.
From Coq Require Import Lia.
Local Open Scope N_scope.
Open Scope list_scope.

Section FiltAggExec.
  Variable cfg : config.
  Variable parse_float : string -> option num.
  Variable regex_ok : string -> bool.
  Notation execute := (execute cfg parse_float regex_ok).
  Notation exec_action := (exec_action cfg parse_float regex_ok).
  Notation plainl := (Forall (fun kb : kind * basic => plain_kind (fst kb))).
  Notation fpres_f := (FiltChain.fpres cfg parse_float).
  Notation fpres_u := (FunParse.fpres cfg).

  Definition fchain_agg_node (l : list fstep) (g : list N) (fs : list (list N)) : node :=
    Node (KAgg (text_of g) (param_of (agg_ctext cfg g fs) (fpres_f l))) (set_ctext (agg_ctext cfg g fs) (agg_basic cfg g)) (fin (fpres_u fs)).

  Theorem parse_fchain_agg_path s r g fs : forallb fstep_ok (s :: r) = true -> forallb (fstep_okp parse_float regex_ok) (s :: r) = true ->
    forallb fname_ok (g :: fs) = true -> agg_known cfg g = true -> forallb (fun_known cfg) fs = true ->
    parse_with cfg parse_float regex_ok G (fchain_fun_path (s :: r) (g :: fs)) = ParseOk (fchain_agg_node (s :: r) g fs).
  Proof.
    intros Hs Hokp Hf Hg Hk. unfold parse_with, parse_from. rewrite (peg_fchain_fun_path (s :: r) (g :: fs) Hs Hf). unfold fchain_fun_tokens.
    cbn [Actions.execute].
    change (exec_action 8 [] 0 ps_init) with (AOk (mk [INode (Node KRoot (root_basic cfg) ONone)])). cbn [abind].
    assert (Hsk : skipn 1 (fchain_fun_path (s :: r) (g :: fs)) = render_fsteps (s :: r) ++ render_funs (g :: fs)) by reflexivity.
    destruct (exec_fsteps_tail cfg parse_float regex_ok (fchain_fun_path (s :: r) (g :: fs)) (s :: r) (render_funs (g :: fs)) 1 [INode (Node KRoot (root_basic cfg) ONone)]
                (funs_tokens (1 + List.length (render_fsteps (s :: r))) (g :: fs) ++ [TAct 2; TAct 0]) [] 0 Hs Hokp Hsk) as (c1 & b1 & E).
    rewrite E. clear E.
    assert (Hsk2 : skipn (1 + List.length (render_fsteps (s :: r))) (fchain_fun_path (s :: r) (g :: fs)) = fun_text g ++ render_funs fs).
    { rewrite skipn_add. cbn [skipn]. unfold fchain_fun_path, fchain_path. cbn [app skipn]. rewrite skipn_app, skipn_all, Nat.sub_diag. reflexivity. }
    cbn [funs_tokens]. rewrite <- app_assoc.
    destruct (exec_agg cfg parse_float regex_ok (fchain_fun_path (s :: r) (g :: fs)) _ g (render_funs fs) ([INode (Node KRoot (root_basic cfg) ONone)] ++ map (fun x => INode (fnode_of cfg parse_float x)) (s :: r))
                (funs_tokens (1 + List.length (render_fsteps (s :: r)) + List.length (fun_text g)) fs ++ [TAct 2; TAct 0]) c1 b1 Hg Hsk2) as (c2 & b2 & E).
    rewrite E. clear E.
    destruct (exec_funs cfg parse_float regex_ok (fchain_fun_path (s :: r) (g :: fs)) fs _
                (([INode (Node KRoot (root_basic cfg) ONone)] ++ map (fun x => INode (fnode_of cfg parse_float x)) (s :: r)) ++ [INode (anode cfg g)])
                [TAct 2; TAct 0] c2 b2 Hk (skipn_next _ _ _ _ Hsk2)) as (cps' & b' & E).
    rewrite E. clear E. cbn [app Actions.execute].
    change (exec_action 2 cps' b' ?st) with (abind (set_node_chain st) update_root_vg).
    unfold set_node_chain, mk. cbn [params map app].
    change (INode (fnode_of cfg parse_float s) :: (map (fun x => INode (fnode_of cfg parse_float x)) r ++ [INode (anode cfg g)]) ++ map (fun f : list N => INode (fnode cfg f)) fs)
      with ((map (fun x => INode (fnode_of cfg parse_float x)) (s :: r) ++ [INode (anode cfg g)]) ++ map (fun f : list N => INode (fnode cfg f)) fs).
    rewrite !fold_left_app.
    pose proof (chain_fold_f cfg parse_float KRoot (root_basic cfg) (s :: r) ltac:(split; intros; discriminate) [] ltac:(constructor)) as F. cbn [link app] in F.
    rewrite F. clear F. cbn [fold_left].
    change (chain_step (AOk (Node KRoot (root_basic cfg) (link (fpres_f (s :: r))))) (INode (anode cfg g)))
      with (AOk (Node (KAgg (text_of g) (clear_acc (update_vg (Node KRoot (root_basic cfg) (link (fpres_f (s :: r))))))) (agg_basic cfg g) (link []))).
    set (P0 := clear_acc (update_vg (Node KRoot (root_basic cfg) (link (fpres_f (s :: r)))))).
    rewrite (chain_fold_funs_nm cfg (KAgg (text_of g) P0) (agg_basic cfg g) fs ltac:(intros; discriminate) [] ltac:(constructor)). cbn [app]. subst P0.
    cbn [abind with_params params saved proot]. unfold update_root_vg. cbn [params with_params saved proot abind].
    unfold with_params. cbn [params saved proot].
    assert (Eu : forall P, update_vg (Node (KAgg (text_of g) P) (agg_basic cfg g) (link (fpres_u fs))) = Node (KAgg (text_of g) P) (agg_basic cfg g) (link (fpres_u fs))).
    { intros P. unfold update_vg. cbn [chain_vg]. rewrite link_vg, (any_vg_fpres cfg). reflexivity. }
    rewrite Eu.
    change (exec_action 0 cps' b' ?st) with
      (abind (pop_node st) (fun '(rt, st1) => AOk {| params := params st1; saved := saved st1; proot := Some (set_ctext_deep (delete_root rt) "") |})).
    unfold pop_node, pop. cbn [params rev app abind with_params saved proot delete_root].
    rewrite (set_ctext_agg _ _ _ (fpres_u fs) (FunParse.fpres_plain cfg fs)).
    unfold fchain_agg_node, param_of. fold (agg_ctext cfg g fs). pose proof (FiltChain.fpres_plain cfg parse_float (s :: r)) as Hp.
    destruct (fpres_f (s :: r)) as [|x l] eqn:Ep.
    { exfalso. unfold FiltChain.fpres in Ep. cbn [flat_map] in Ep. pose proof (fpre_nonempty cfg parse_float s) as Hn. destruct (fpre_of cfg parse_float s); [contradiction Hn; reflexivity|discriminate Ep]. }
    inversion Hp as [|? ? Hx Hl]; subst.
    assert (Ev : delete_root (clear_acc (update_vg (Node KRoot (root_basic cfg) (link (x :: l))))) =
                 Node (fst x) (set_vgroup (any_vg (x :: l)) (set_accessor false (snd x))) (link (cl l))).
    { unfold update_vg. cbn [chain_vg]. rewrite link_vg. cbn [root_basic mk_basic vgroup orb].
      destruct (any_vg (x :: l)) eqn:Ea.
      - unfold set_node_vg. rewrite (clear_link KRoot _ (x :: l) ltac:(intros; discriminate) Hp). reflexivity.
      - rewrite (clear_link KRoot _ (x :: l) ltac:(intros; discriminate) Hp). cbn [cl map link delete_root vgroup set_accessor mk_basic fst snd].
        cbn [any_vg existsb] in Ea. apply orb_false_iff in Ea. destruct Ea as [Ea _].
        destruct (snd x) as [t0 c0 v0 a0]. cbn [vgroup] in Ea. subst v0. reflexivity. }
    rewrite Ev. rewrite (set_ctext_link_p _ _ _ (cl l) Hx (cl_plain l Hl)). reflexivity.
  Qed.
End FiltAggExec.

Definition fstep_vg (x : fstep) : bool := match x with FS y => rstep_vg y | _ => true end.
Definition fsteps_vg (l : list fstep) : bool := existsb fstep_vg l.

Section FiltAggAddr.
  Variable cfg : config.
  Variable parse_float : string -> option num.
  Variable regex_ok : string -> bool.
  Variable ffun : string -> value -> option value.
  Variable afun : string -> list value -> option value.
  Variable regex_match : string -> string -> bool.
  Hypothesis ffun_small : forall f v w, small v -> ffun f v = Some w -> small w.
  Hypothesis afun_small : forall f l w, Forall small l -> afun f l = Some w -> small w.
  Notation parse := (parse_with cfg parse_float regex_ok jsonpath_grammar).
  Notation eval_run := (eval_run ffun afun regex_match).
  Notation sp := (sp ffun afun regex_match).
  Notation nav1f := (nav1f parse_float regex_match).
  Notation nav_allf := (nav_allf parse_float regex_match).
  Notation fpres_f := (FiltChain.fpres cfg parse_float).
  Notation fpres_u := (FunParse.fpres cfg).
  Notation fseg := (fseg cfg parse_float).
  Notation fpre_of := (fpre_of cfg parse_float).

  (* what the aggregate receives *)
  Definition fagg_input (l : list fstep) (doc : value) : list value :=
    let vals := map snd (nav_allf doc l ([], doc)) in
    if fsteps_vg l then vals else match vals with VArr xs :: _ => xs | _ => vals end.

  Lemma fpre_vg x : any_vg (fpre_of x) = fstep_vg x.
  Proof.
    destruct x as [y|i|i o lit|i|d|y|i g0 a o b g1 lit|neg g0 gn i g1|g0' d'|t']; cbn [FiltChain.fpre_of fstep_vg]; try reflexivity.
    all: try (destruct neg; reflexivity).
    pose proof (pres_vg cfg [y]) as H. unfold pres, steps_vg in H. cbn [flat_map existsb] in H. rewrite app_nil_r, orb_false_r in H. exact H.
  Qed.
  Lemma fpres_vg l : any_vg (fpres_f l) = fsteps_vg l.
  Proof.
    induction l as [|x r IH]; [reflexivity|]. unfold FiltChain.fpres. cbn [flat_map fsteps_vg existsb]. unfold any_vg in *. rewrite existsb_app.
    unfold FiltChain.fpres in IH. rewrite IH. fold (any_vg (fpre_of x)). rewrite fpre_vg. reflexivity.
  Qed.

  Lemma cl_app a b : cl (a ++ b) = cl a ++ cl b.
  Proof. unfold cl. apply map_app. Qed.

  Lemma finp_fpre p x : forall tl, fstep_ok x = true ->
    exists b1 b2, finp p (cl (fpre_of x ++ tl)) = OSome (fseg x b1 b2 (finp p (cl tl))) /\ accessor b2 = false.
  Proof.
    destruct x as [[s|s]|i|i o lit|i|d|y|i g0 a o b g1 lit|neg g0 gn i g1|g0' d'|t']; intros tl Hok; rewrite cl_app;
      cbn [FiltChain.fpre_of rstep_pre cl map app finp fst snd FiltChainAddr.fseg ChainAddr.seg].
    - eexists (pre_basic cfg s), _. split; reflexivity.
    - eexists _, _. split; reflexivity.
    - eexists (filt_basic cfg i), _. split; reflexivity.
    - eexists (filt_basic cfg i), _. split; reflexivity.
    - eexists (filt_basic cfg i), _. split; reflexivity.
    - eexists (filt_basic cfg []), _. split; reflexivity.
    - cbn [fstep_ok] in Hok. apply andb_true_iff in Hok. destruct Hok as [Hf _].
      destruct y as [y0|i|i o lit|i|d|y0|i g0 a o b g1 lit|neg g0 gn i g1|g0' d'|t']; try discriminate Hf;
        cbn [FiltChain.fpre_of cl map app finp fst snd FiltChainAddr.fseg]; eexists _, _; (split; reflexivity).
    - eexists (filt_basic cfg i), _. split; reflexivity.
    - eexists (filt_basic cfg i), _. split; reflexivity.
    - eexists (filt_basic cfg []), _. split; reflexivity.
    - eexists (filt_basic cfg []), _. split; reflexivity.
  Qed.
  Lemma fparam_seg p x r : fstep_ok x = true ->
    exists b1 b2, param_of p (fpres_f (x :: r)) = fseg x b1 b2 (finp p (cl (fpres_f r))) /\ accessor b2 = false.
  Proof.
    intros Hok. unfold FiltChain.fpres. cbn [flat_map].
    destruct x as [[s|s]|i|i o lit|i|d|y|i g0 a o b g1 lit|neg g0 gn i g1|g0' d'|t'];
      cbn [FiltChain.fpre_of rstep_pre app param_of fst snd FiltChainAddr.fseg ChainAddr.seg cl map finp].
    - eexists (pre_basic cfg s), _. split; reflexivity.
    - eexists _, _. split; reflexivity.
    - eexists (filt_basic cfg i), _. split; reflexivity.
    - eexists (filt_basic cfg i), _. split; reflexivity.
    - eexists (filt_basic cfg i), _. split; reflexivity.
    - eexists (filt_basic cfg []), _. split; reflexivity.
    - cbn [fstep_ok] in Hok. apply andb_true_iff in Hok. destruct Hok as [Hf _].
      destruct y as [y0|i|i o lit|i|d|y0|i g0 a o b g1 lit|neg g0 gn i g1|g0' d'|t']; try discriminate Hf;
        cbn [FiltChain.fpre_of app param_of cl map finp fst snd FiltChainAddr.fseg]; eexists _, _; (split; reflexivity).
    - eexists (filt_basic cfg i), _. split; reflexivity.
    - eexists (filt_basic cfg i), _. split; reflexivity.
    - eexists (filt_basic cfg []), _. split; reflexivity.
    - eexists (filt_basic cfg []), _. split; reflexivity.
  Qed.

  Lemma sp_fchain_p p : forall r x b1 b2, forallb fstep_ok (x :: r) = true -> accessor b2 = false ->
    exists B, accessor B = false /\ forall root q v, small root -> small v ->
      sp (fseg x b1 b2 (finp p (cl (fpres_f r)))) root (Some q, v) =
      map (fun lv => (B, true, (Some (fst lv), snd lv))) (nav_allf root (x :: r) (q, v)).
  Proof.
    induction r as [|y r IH]; intros x b1 b2 Hs Hb; cbn [forallb] in Hs; apply andb_true_iff in Hs; destruct Hs as [H1 H2].
    - exists b2. split; [exact Hb|]. intros root q v Hr Hsm. change (finp p (cl (fpres_f []))) with ONone. rewrite (sp_fseg cfg parse_float ffun afun regex_match) by assumption.
      cbn [FiltChainAddr.nav_allf]. rewrite <- flat_map_single, flat_map_flat_map. apply flat_map_ext'. intros lv. reflexivity.
    - assert (Hy : fstep_ok y = true) by (cbn [forallb] in H2; apply andb_true_iff in H2; exact (proj1 H2)).
      assert (Ea : fpres_f (y :: r) = fpre_of y ++ fpres_f r) by reflexivity.
      destruct (finp_fpre p y (fpres_f r) Hy) as (c1 & c2 & Ef & Hc). destruct (IH y c1 c2 H2 Hc) as (B & HB & Hsp).
      exists B. split; [exact HB|]. intros root q v Hr Hsm. rewrite Ea, Ef, (sp_fseg cfg parse_float ffun afun regex_match) by assumption.
      cbn [FiltChainAddr.nav_allf]. rewrite map_flat_map'. apply flat_map_ext_in'. intros [l z] Hin. unfold ChainAddr.fwd. cbn [fst snd]. apply Hsp; [exact Hr|].
      pose proof (nav1f_small parse_float regex_match root x q v Hsm) as Hn. rewrite Forall_forall in Hn. exact (Hn (l, z) Hin).
  Qed.

  Lemma fparam_vg p x r : vgroup (node_basic (param_of p (fpres_f (x :: r)))) = fsteps_vg (x :: r).
  Proof.
    rewrite <- fpres_vg. unfold param_of. destruct (fpres_f (x :: r)) as [|y l] eqn:E.
    - exfalso. unfold FiltChain.fpres in E. cbn [flat_map] in E. pose proof (fpre_nonempty cfg parse_float x) as Hn. destruct (fpre_of x); [contradiction Hn; reflexivity|discriminate E].
    - reflexivity.
  Qed.

  Lemma fparam_args p x r doc : forallb fstep_ok (x :: r) = true -> small doc ->
    sp (param_of p (fpres_f (x :: r))) doc (Some [], doc) = [] <-> nav_allf doc (x :: r) ([], doc) = [].
  Proof.
    intros Hs Hd. assert (Hx : fstep_ok x = true) by (cbn [forallb] in Hs; apply andb_true_iff in Hs; exact (proj1 Hs)).
    destruct (fparam_seg p x r Hx) as (b1 & b2 & En & Hb). destruct (sp_fchain_p p r x b1 b2 Hs Hb) as (B & HB & Hsp).
    rewrite En, Hsp by exact Hd. split; intros H; [apply map_eq_nil in H; exact H|].
    apply (f_equal (map (fun lv : list pstep * value => (B, true, (Some (fst lv), snd lv))))) in H. exact H.
  Qed.
  Lemma fparam_agg_args p x r doc : forallb fstep_ok (x :: r) = true -> small doc ->
    agg_args ffun afun regex_match (param_of p (fpres_f (x :: r))) doc (Some [], doc) = fagg_input (x :: r) doc.
  Proof.
    intros Hs Hd. assert (Hx : fstep_ok x = true) by (cbn [forallb] in Hs; apply andb_true_iff in Hs; exact (proj1 Hs)).
    unfold agg_args, fagg_input. rewrite fparam_vg.
    destruct (fparam_seg p x r Hx) as (b1 & b2 & En & Hb). destruct (sp_fchain_p p r x b1 b2 Hs Hb) as (B & HB & Hsp).
    rewrite En, Hsp by exact Hd. rewrite map_map.
    apply args_eq. intros [l z]. cbn [wrap fst snd]. rewrite HB. reflexivity.
  Qed.

  Definition fagg_outcome (l : list fstep) (g : list N) (fs : list (list N)) (doc : value) : option value :=
    match nav_allf doc l ([], doc) with
    | [] => None
    | _ :: _ => match afun (text_of g) (fagg_input l doc) with Some v => apply_funs ffun fs v | None => None end
    end.

  Lemma spec_fchain_agg x r g fs doc : forallb fstep_ok (x :: r) = true -> small doc ->
    spec_results ffun afun regex_match (fchain_agg_node cfg parse_float (x :: r) g fs) doc =
    match fagg_outcome (x :: r) g fs doc with Some w => [fun_result cfg w] | None => [] end.
  Proof.
    intros Hs Hd. unfold spec_results, fchain_agg_node, fagg_outcome. rewrite (sp_agg ffun afun regex_match).
    pose proof (fparam_args (agg_ctext cfg g fs) x r doc Hs Hd) as Hn.
    rewrite (fparam_agg_args (agg_ctext cfg g fs) x r doc Hs Hd).
    destruct (sp (param_of (agg_ctext cfg g fs) (fpres_f (x :: r))) doc (Some [], doc)) as [|a0 l0].
    - rewrite (proj1 Hn eq_refl). reflexivity.
    - destruct (nav_allf doc (x :: r) ([], doc)) as [|a1 l1]; [discriminate (proj2 Hn eq_refl)|].
      destruct (afun (text_of g) (fagg_input (x :: r) doc)) as [v|]; [|reflexivity].
      destruct (sp_tail_funs cfg ffun afun regex_match fs (set_ctext (agg_ctext cfg g fs) (agg_basic cfg g)) eq_refl) as (B & HB & Ht).
      rewrite Ht. destruct (apply_funs ffun fs v) as [w|]; [|reflexivity]. cbn [map wrap fst snd]. rewrite HB. unfold fun_result. destruct (cfg_accessor cfg); reflexivity.
  Qed.

  Theorem fchain_agg_retrieval x r g fs doc st : forallb fstep_ok (x :: r) = true -> forallb (fstep_okp parse_float regex_ok) (x :: r) = true ->
    forallb fname_ok (g :: fs) = true -> agg_known cfg g = true -> forallb (fun_known cfg) fs = true -> small doc -> ok st ->
    exists t, parse (fchain_fun_path (x :: r) (g :: fs)) = ParseOk t /\
              match fagg_outcome (x :: r) g fs doc with
              | Some w => fst (eval_run t doc st) = OOk [fun_result cfg w]
              | None => exists e, fst (eval_run t doc st) = OErr e
              end.
  Proof.
    intros Hs Hokp Hf Hg Hk Hd Hok. exists (fchain_agg_node cfg parse_float (x :: r) g fs).
    pose proof (parse_fchain_agg_path cfg parse_float regex_ok x r g fs Hs Hokp Hf Hg Hk) as Hp. split; [exact Hp|].
    pose proof (retrieve_end_to_end cfg parse_float regex_ok ffun afun regex_match ffun_small afun_small (fchain_fun_path (x :: r) (g :: fs)) doc st Hd Hok) as H.
    rewrite Hp in H. rewrite (spec_fchain_agg x r g fs doc Hs Hd) in H.
    destruct (fagg_outcome (x :: r) g fs doc) as [w|].
    - destruct (fst (eval_run (fchain_agg_node cfg parse_float (x :: r) g fs) doc st)) as [rs|e|pn].
      + destruct H as [H _]. rewrite H. reflexivity.
      + destruct H as [H _]. discriminate.
      + contradiction.
    - destruct (fst (eval_run (fchain_agg_node cfg parse_float (x :: r) g fs) doc st)) as [rs|e|pn].
      + destruct H as [H1 [H2 _]]. contradiction (H2 H1).
      + exists e. reflexivity.
      + contradiction.
  Qed.
End FiltAggAddr.

(* ---------- the calls ---------- *)
From JP Require Import SpecCalls SpecCallsCompose StackRules.
Section FiltAggCalls.
  Variable cfg : config.
  Variable parse_float : string -> option num.
  Variable regex_ok : string -> bool.
  Variable ffun : string -> value -> option value.
  Variable afun : string -> list value -> option value.
  Variable regex_match : string -> string -> bool.
  Hypothesis ffun_small : forall f v w, small v -> ffun f v = Some w -> small w.
  Hypothesis afun_small : forall f l w, Forall small l -> afun f l = Some w -> small w.
  Notation parse := (parse_with cfg parse_float regex_ok jsonpath_grammar).
  Notation eval_run := (eval_run ffun afun regex_match).
  Notation sp := (sp ffun afun regex_match).
  Notation sc := (sc ffun afun regex_match).
  Notation nav_allf := (nav_allf parse_float regex_match).
  Notation fpres_f := (FiltChain.fpres cfg parse_float).
  Notation fpres_u := (FunParse.fpres cfg).
  Notation fpre_of := (fpre_of cfg parse_float).

  (* kinds that call nothing: no function node, filters without user functions *)
  Definition cfc (k : kind) : Prop := match k with KMulti _ _ _ | KAgg _ _ | KFFun _ => False | KFilter q => call_free_q q = true | _ => True end.
  Lemma finp_cfc p l : Forall (fun kb : kind * basic => cfc (fst kb)) l -> (match finp p l with OSome m => call_free m | ONone => true end) = true.
  Proof.
    induction l as [|y l IH]; intros H; [reflexivity|]. inversion H as [|? ? Hy Hl]; subst. cbn [finp call_free].
    rewrite (IH Hl). destruct (fst y); try contradiction; try reflexivity. cbn [cfc] in Hy. rewrite Hy. reflexivity.
  Qed.
  Lemma cl_cfc l : Forall (fun kb : kind * basic => cfc (fst kb)) l -> Forall (fun kb : kind * basic => cfc (fst kb)) (cl l).
  Proof. intros H. induction H as [|y l Hy Hl IH]; constructor; [exact Hy|exact IH]. Qed.
  Lemma fpre_cfc x : fstep_ok x = true -> Forall (fun kb : kind * basic => cfc (fst kb)) (fpre_of x).
  Proof.
    induction x as [y|i|i o lit|i|d|y IH|i g0 a o b g1 lit|neg g0 gn i g1|g0' d'|t']; intros Hs.
    2-5,7-10: (match goal with |- Forall _ (FiltChain.fpre_of _ _ ?x) =>
                 destruct (fpre_fkind cfg parse_float x eq_refl) as (b0 & E); rewrite E; constructor; [|constructor];
                 destruct (fkind_filter cfg parse_float x eq_refl) as (q & Ek & Hq); cbn [fst]; rewrite Ek; exact Hq end).
    - cbn [FiltChain.fpre_of]. destruct y as [s|s]; cbn [rstep_pre]; repeat constructor; destruct s as [q k|k|ds|[|]|sa sb sc0|u us]; exact I.
    - cbn [fstep_ok] in Hs. apply andb_true_iff in Hs. destruct Hs as [_ Hs]. cbn [FiltChain.fpre_of]. constructor; [exact I|apply IH; exact Hs].
  Qed.
  Lemma fpres_cfc l : forallb fstep_ok l = true -> Forall (fun kb : kind * basic => cfc (fst kb)) (fpres_f l).
  Proof.
    induction l as [|y l IH]; intros Hs; [constructor|]. cbn [forallb] in Hs. apply andb_true_iff in Hs. destruct Hs as [H1 H2].
    unfold FiltChain.fpres. cbn [flat_map]. apply Forall_app. split; [apply fpre_cfc; exact H1|apply IH; exact H2].
  Qed.
  Lemma fparam_cf p x r : forallb fstep_ok (x :: r) = true -> call_free (param_of p (fpres_f (x :: r))) = true.
  Proof.
    intros Hs. pose proof (fpres_cfc (x :: r) Hs) as H. unfold param_of. destruct (fpres_f (x :: r)) as [|y l]; [reflexivity|].
    inversion H as [|? ? Hy Hl]; subst. cbn [call_free]. rewrite (finp_cfc p (cl l) (cl_cfc l Hl)).
    destruct (fst y); try contradiction; try reflexivity. cbn [cfc] in Hy. rewrite Hy. reflexivity.
  Qed.

  Definition fagg_calls (l : list fstep) (g : list N) (fs : list (list N)) (doc : value) : list call :=
    match nav_allf doc l ([], doc) with
    | [] => []
    | _ :: _ => CallA (text_of g) (fagg_input parse_float regex_match l doc) ::
                match afun (text_of g) (fagg_input parse_float regex_match l doc) with Some v => fun_calls ffun fs v | None => [] end
    end.

  Lemma sc_fchain_agg x r g fs doc : forallb fstep_ok (x :: r) = true -> small doc ->
    sc (fchain_agg_node cfg parse_float (x :: r) g fs) doc (Some [], doc) = fagg_calls (x :: r) g fs doc.
  Proof.
    intros Hs Hd. unfold fchain_agg_node, fagg_calls. rewrite sc_unfold.
    rewrite (proj2 (proj1 (call_free_nocalls ffun afun regex_match) _ (fparam_cf (agg_ctext cfg g fs) x r Hs))). cbn [app].
    pose proof (fparam_args cfg parse_float ffun afun regex_match (agg_ctext cfg g fs) x r doc Hs Hd) as Hn. cbv zeta.
    rewrite (fparam_agg_args cfg parse_float ffun afun regex_match (agg_ctext cfg g fs) x r doc Hs Hd).
    destruct (sp (param_of (agg_ctext cfg g fs) (fpres_f (x :: r))) doc (Some [], doc)) as [|a0 l0].
    - rewrite (proj1 Hn eq_refl). reflexivity.
    - destruct (nav_allf doc (x :: r) ([], doc)) as [|a1 l1]; [discriminate (proj2 Hn eq_refl)|].
      destruct (afun (text_of g) (fagg_input parse_float regex_match (x :: r) doc)) as [v|]; [|reflexivity].
      rewrite (cfwd_tail_funs cfg ffun afun regex_match). reflexivity.
  Qed.

  Lemma fchain_agg_node_fcf x r g fs : forallb fstep_ok (x :: r) = true -> filters_call_free (fchain_agg_node cfg parse_float (x :: r) g fs) = true.
  Proof.
    intros Hs. unfold fchain_agg_node. cbn [filters_call_free].
    rewrite (proj1 (proj1 (call_free_nocalls ffun afun regex_match) _ (fparam_cf (agg_ctext cfg g fs) x r Hs))).
    rewrite (fin_fcf (fpres_u fs) (fpres_nofilter cfg fs)). reflexivity.
  Qed.

  (* the aggregate is called exactly once, with all the values the steps and filters reach, and not at all when they reach nothing;
     the filter functions after it see its result, left to right; the filters call nothing *)
  Theorem fchain_agg_calls x r g fs doc st : forallb fstep_ok (x :: r) = true -> forallb (fstep_okp parse_float regex_ok) (x :: r) = true ->
    forallb fname_ok (g :: fs) = true -> agg_known cfg g = true -> forallb (fun_known cfg) fs = true -> small doc -> ok st ->
    exists t, parse (fchain_fun_path (x :: r) (g :: fs)) = ParseOk t /\
              calls (snd (eval_run t doc st)) = calls st ++ fagg_calls (x :: r) g fs doc.
  Proof.
    intros Hs Hokp Hf Hg Hk Hd Hok. exists (fchain_agg_node cfg parse_float (x :: r) g fs).
    pose proof (parse_fchain_agg_path cfg parse_float regex_ok x r g fs Hs Hokp Hf Hg Hk) as Hp. split; [exact Hp|].
    rewrite (eval_call_log ffun afun regex_match ffun_small afun_small _ doc st (parse_builds_wf cfg parse_float regex_ok _ _ Hp) (fchain_agg_node_fcf x r g fs Hs) Hd Hok).
    rewrite (sc_fchain_agg x r g fs doc Hs Hd). reflexivity.
  Qed.
End FiltAggCalls.

(* ---------- mode parity for functions after steps and filters (C12) ---------- *)
Section ModesFun.
  Variable cfgP cfgA : config.
  Variable parse_float : string -> option num.
  Variable regex_ok : string -> bool.
  Variable ffun : string -> value -> option value.
  Variable afun : string -> list value -> option value.
  Variable regex_match : string -> string -> bool.
  Hypothesis ffun_small : forall f v w, small v -> ffun f v = Some w -> small w.
  Hypothesis afun_small : forall f l w, Forall small l -> afun f l = Some w -> small w.
  Hypothesis plain_off : cfg_accessor cfgP = false.
  Hypothesis acc_on : cfg_accessor cfgA = true.
  Hypothesis same_filters : cfg_filters cfgP = cfg_filters cfgA.
  Hypothesis same_aggs : cfg_aggs cfgP = cfg_aggs cfgA.
  Notation eval_run := (eval_run ffun afun regex_match).
  Notation nav_allf := (nav_allf parse_float regex_match).

  (* the values the functions leave: g(f(v)) for each reached value on which none fails *)
  Definition fun_vals (fs : list (list N)) (l : list (list pstep * value)) : list value :=
    flat_map (fun lv => match apply_funs ffun fs (snd lv) with Some w => [w] | None => [] end) l.
  Lemma funs_all_vals cfg fs l : funs_all cfg ffun fs l = map (fun_result cfg) (fun_vals fs l).
  Proof.
    unfold funs_all, fun_vals. induction l as [|lv l IH]; [reflexivity|]. cbn [flat_map]. rewrite map_app, IH.
    destruct (apply_funs ffun fs (snd lv)); reflexivity.
  Qed.
  Lemma known_same fs : forallb (fun_known cfgP) fs = forallb (fun_known cfgA) fs.
  Proof. induction fs as [|f r IH]; [reflexivity|]. cbn [forallb]. unfold fun_known at 1 3. rewrite same_filters, IH. reflexivity. Qed.

  (* plain and accessor mode: the same values in the same order (an accessor without a location: Set is nil), or both fail; and
     the user functions receive the same calls *)
  Theorem modes_agree_functions x r f fs doc st st' :
    forallb fstep_ok (x :: r) = true -> forallb (fstep_okp parse_float regex_ok) (x :: r) = true ->
    forallb fname_ok (f :: fs) = true -> forallb (fun_known cfgP) (f :: fs) = true -> small doc -> ok st -> ok st' ->
    exists tP tA, parse_with cfgP parse_float regex_ok jsonpath_grammar (fchain_fun_path (x :: r) (f :: fs)) = ParseOk tP /\
                  parse_with cfgA parse_float regex_ok jsonpath_grammar (fchain_fun_path (x :: r) (f :: fs)) = ParseOk tA /\
      match fun_vals (f :: fs) (nav_allf doc (x :: r) ([], doc)) with
      | [] => (exists e, fst (eval_run tP doc st) = OErr e) /\ (exists e, fst (eval_run tA doc st') = OErr e)
      | l => fst (eval_run tP doc st) = OOk (map RVal l) /\ fst (eval_run tA doc st') = OOk (map (RAcc false None) l)
      end /\
      exists cs, calls (snd (eval_run tP doc st)) = calls st ++ cs /\ calls (snd (eval_run tA doc st')) = calls st' ++ cs.
  Proof.
    intros Hs Hp Hf Hk Hd Hok Hok'. assert (Hk' : forallb (fun_known cfgA) (f :: fs) = true) by (rewrite <- known_same; exact Hk).
    destruct (fchain_fun_retrieval cfgP parse_float regex_ok ffun afun regex_match ffun_small afun_small x r f fs doc st Hs Hp Hf Hk Hd Hok) as (tP & HtP & HP).
    destruct (fchain_fun_retrieval cfgA parse_float regex_ok ffun afun regex_match ffun_small afun_small x r f fs doc st' Hs Hp Hf Hk' Hd Hok') as (tA & HtA & HA).
    destruct (fchain_fun_calls cfgP parse_float regex_ok ffun afun regex_match ffun_small afun_small x r f fs doc st Hs Hp Hf Hk Hd Hok) as (tP' & HtP' & CP).
    destruct (fchain_fun_calls cfgA parse_float regex_ok ffun afun regex_match ffun_small afun_small x r f fs doc st' Hs Hp Hf Hk' Hd Hok') as (tA' & HtA' & CA).
    rewrite HtP in HtP'. inversion HtP'; subst tP'. rewrite HtA in HtA'. inversion HtA'; subst tA'.
    exists tP, tA. split; [exact HtP|]. split; [exact HtA|]. split.
    - rewrite (funs_all_vals cfgP) in HP. rewrite (funs_all_vals cfgA) in HA.
      assert (EP : forall l, map (fun_result cfgP) l = map RVal l) by (intros l; apply map_ext; intros w; unfold fun_result; rewrite plain_off; reflexivity).
      assert (EA : forall l, map (fun_result cfgA) l = map (RAcc false None) l) by (intros l; apply map_ext; intros w; unfold fun_result; rewrite acc_on; reflexivity).
      rewrite EP in HP. rewrite EA in HA.
      destruct (fun_vals (f :: fs) (nav_allf doc (x :: r) ([], doc))) as [|a l]; split; assumption.
    - eexists. split; [exact CP|exact CA].
  Qed.
End ModesFun.

(* ---------- outcomes and history independence for functions after steps and filters (C03, C05) ---------- *)
Section OutcomeFun.
  Variable cfg : config.
  Variable parse_float : string -> option num.
  Variable regex_ok : string -> bool.
  Variable ffun : string -> value -> option value.
  Variable afun : string -> list value -> option value.
  Variable regex_match : string -> string -> bool.
  Hypothesis ffun_small : forall f v w, small v -> ffun f v = Some w -> small w.
  Hypothesis afun_small : forall f l w, Forall small l -> afun f l = Some w -> small w.
  Notation eval_run := (eval_run ffun afun regex_match).

  Theorem fun_outcome_from_text x r f fs doc st :
    forallb fstep_ok (x :: r) = true -> forallb (fstep_okp parse_float regex_ok) (x :: r) = true ->
    forallb fname_ok (f :: fs) = true -> forallb (fun_known cfg) (f :: fs) = true -> small doc -> ok st ->
    exists t, parse_with cfg parse_float regex_ok jsonpath_grammar (fchain_fun_path (x :: r) (f :: fs)) = ParseOk t /\
              ((exists a l, fst (eval_run t doc st) = OOk (a :: l)) \/ (exists e, fst (eval_run t doc st) = OErr e)).
  Proof.
    intros Hs Hp Hf Hk Hd Hok.
    destruct (fchain_fun_retrieval cfg parse_float regex_ok ffun afun regex_match ffun_small afun_small x r f fs doc st Hs Hp Hf Hk Hd Hok) as (t & Ht & H).
    exists t. split; [exact Ht|].
    destruct (funs_all cfg ffun (f :: fs) (nav_allf parse_float regex_match doc (x :: r) ([], doc))) as [|a l]; [right; exact H|].
    left. eexists _, _. exact H.
  Qed.

  Theorem fun_history_independent_from_text x r f fs doc st st' :
    forallb fstep_ok (x :: r) = true -> forallb (fstep_okp parse_float regex_ok) (x :: r) = true ->
    forallb fname_ok (f :: fs) = true -> forallb (fun_known cfg) (f :: fs) = true -> small doc -> ok st -> ok st' ->
    exists t, parse_with cfg parse_float regex_ok jsonpath_grammar (fchain_fun_path (x :: r) (f :: fs)) = ParseOk t /\
              match fst (eval_run t doc st) with
              | OOk rs => fst (eval_run t doc st') = OOk rs
              | OErr _ => exists e, fst (eval_run t doc st') = OErr e
              | OPanic _ => False
              end.
  Proof.
    intros Hs Hp Hf Hk Hd Hok Hok'.
    destruct (fchain_fun_retrieval cfg parse_float regex_ok ffun afun regex_match ffun_small afun_small x r f fs doc st Hs Hp Hf Hk Hd Hok) as (t & Ht & H).
    destruct (fchain_fun_retrieval cfg parse_float regex_ok ffun afun regex_match ffun_small afun_small x r f fs doc st' Hs Hp Hf Hk Hd Hok') as (t' & Ht' & H').
    rewrite Ht in Ht'. inversion Ht'; subst t'.
    exists t. split; [exact Ht|].
    destruct (funs_all cfg ffun (f :: fs) (nav_allf parse_float regex_match doc (x :: r) ([], doc))) as [|a l].
    - destruct H as [e He]. rewrite He. exact H'.
    - rewrite H. exact H'.
  Qed.
End OutcomeFun.
