(* Prop_C01.v — property C01: retrieval returns exactly the nodes the JSONPath selects, in order.
   Specification: coq/Spec.v (`sp`: a compositional, stateless step-by-step definition over the syntax
   tree: name, multi-name, wildcard, recursive descent in pre-order, index, slice, union in written
   order with duplicates, filter by a per-member Boolean, filter and aggregate functions).
   Implementation model: coq/Eval.v (shared result container, verdict lists with the empty marker,
   in-place list writes, error bookkeeping).  Proved for the FULL language (every node kind, filters
   with every comparator and operand kind, functions), unbounded depth and size: a call returns
   exactly the specification's results — values, multiplicity, order, accessor wrapping — and fails
   exactly when the specification selects nothing.
   C01_end_to_end: the same from the path TEXT — whatever string is parsed, the tree Parse returns is
   well formed (C02_parsed_trees_well_formed), so retrieval on it returns exactly the specification's
   results, or exactly when these are empty the specification's error; no hypothesis on the tree remains.
   Not a theorem: that a given text denotes a given AST (parse (render ast) = build ast); the parser
   model is compared with the real parser node by node (tree dumps) and through the public API on every
   generated case. *)
From JP Require Import Peg Grammar Text Tree Actions Eval WF Verdict Spec ErrSpec EvalInv1 EvalInv3 EvalInv4 EvalTop Refine1 Refine2 RefineTop EndToEnd.

Section C01.
  Variable ffun : string -> value -> option value.
  Variable afun : string -> list value -> option value.
  Variable regex_match : string -> string -> bool.
  Hypothesis ffun_small : forall f v w, small v -> ffun f v = Some w -> small w.
  Hypothesis afun_small : forall f l w, Forall small l -> afun f l = Some w -> small w.

  Theorem C01_refines_spec : forall t doc st,
    wf_node t = true -> small doc -> ok st ->
    let o := fst (eval_run ffun afun regex_match t doc st) in
    let s := spec_results ffun afun regex_match t doc in
    (s <> [] /\ o = OOk s) \/ (s = [] /\ exists e, o = OErr e).
  Proof. exact (eval_refines_spec ffun afun regex_match ffun_small afun_small). Qed.

  (* the same for every node of a chain started anywhere, with any incoming container *)
  Theorem C01_every_step : forall n, wf_node n = true -> forall root cur c st,
    small root -> cur_ok root cur -> ok st ->
    fst (fst (retrieve ffun afun regex_match n root cur c st)) = c ++ map Spec.wrap (sp ffun afun regex_match n root cur).
  Proof.
    intros n Hwf root cur c st Hr Hc Hok.
    destruct (refinement ffun afun regex_match ffun_small afun_small) as [HQ _].
    exact (HQ n Hwf root cur Hr Hc c st Hok).
  Qed.

  (* filters: the verdict list a query computes denotes the specification's per-member Boolean *)
  Theorem C01_filter_semantics : forall q, wf_query q = true -> forall root vals st,
    small root -> Forall small vals -> ok st ->
    let '(L, st') := compute ffun afun regex_match q root vals st in
    List.length (holds ffun afun regex_match q root vals) = List.length vals /\
    forall i, (i < List.length vals)%nat ->
      den (List.length vals) (lget st' L) i = nth i (holds ffun afun regex_match q root vals) false.
  Proof.
    intros q Hwf root vals st Hr Hv Hok.
    destruct (refinement ffun afun regex_match ffun_small afun_small) as (_ & _ & _ & _ & HQ & _).
    exact (HQ q Hwf root vals st Hr Hv Hok).
  Qed.
End C01.
Print Assumptions C01_refines_spec.
Print Assumptions C01_every_step.
Print Assumptions C01_filter_semantics.

Theorem C01_end_to_end : forall cfg parse_float regex_ok ffun afun regex_match,
  (forall f v w, small v -> ffun f v = Some w -> small w) ->
  (forall f l w, Forall small l -> afun f l = Some w -> small w) ->
  forall input doc st, small doc -> ok st ->
  match parse_with cfg parse_float regex_ok jsonpath_grammar input with
  | ParseCrash _ => False
  | ParseErr _ => True
  | ParseOk t =>
      match fst (eval_run ffun afun regex_match t doc st) with
      | OOk rs => rs = spec_results ffun afun regex_match t doc /\ rs <> nil /\ spec_error ffun afun regex_match t doc = None
      | OErr e => spec_results ffun afun regex_match t doc = nil /\ spec_error ffun afun regex_match t doc = Some e
      | OPanic _ => False
      end
  end.
Proof. exact retrieve_end_to_end. Qed.
Print Assumptions C01_end_to_end.


(* ---------- from the path text, for paths of name, index, wildcard and recursive-descent steps (ChainParse.v, ChainAddr.v) ---------- *)
From JP Require Import Grammar KeyDefs KeyParse IdxParse SliceParse UnionParse WildParse RecParse ChainParse ChainAddr.

(* For EVERY path made of name steps (in any of the three spellings), index steps [digits], wildcard steps
   .* / [*], slice steps [a:b] / [a:b:c] (bounds omitted or signed numbers) and union steps [s1,s2,...] (signed indexes,
   slices, wildcards; written order, duplicates kept), each possibly preceded by `..`: the text is accepted, and a retrieval returns exactly the values the
   steps reach — a name or an index at most one value, a wildcard all members in ascending key order / all elements
   in index order, a slice the elements Python's slice selects (py_slice), `..step` the step applied to every container below (and including) the value in pre-order — in
   that order, each with its location in accessor mode; it fails exactly when they reach nothing.  nav_all is
   defined on documents alone (no syntax tree): this is the step-by-step definition of the property, stated about
   the path TEXT. *)
Theorem C01_chain_retrieval : forall cfg parse_float regex_ok ffun afun regex_match,
  (forall f v w, small v -> ffun f v = Some w -> small w) ->
  (forall f l w, Forall small l -> afun f l = Some w -> small w) ->
  forall x r doc st, forallb rstep_ok (x :: r) = true -> small doc -> ok st ->
  exists t, parse_with cfg parse_float regex_ok jsonpath_grammar (chain_path (x :: r)) = ParseOk t /\
            match nav_all (x :: r) ([], doc) with
            | [] => exists e, fst (eval_run ffun afun regex_match t doc st) = OErr e
            | l => fst (eval_run ffun afun regex_match t doc st) = OOk (map (loc_result cfg) l)
            end.
Proof. exact chain_retrieval. Qed.
Print Assumptions C01_chain_retrieval.

Example C01_chain_example :
  let doc := VObj [("b", VArr [VNum (num_of_Z 1); VNum (num_of_Z 2)]); ("a", VArr [VNum (num_of_Z 3)])]%string in
  map snd (nav_all [RPlain (SWild true); RPlain (SIdx [48])] ([], doc)) = [VNum (num_of_Z 3); VNum (num_of_Z 1)] /\
  map snd (nav_all [RRec (SIdx [48])] ([], doc)) = [VNum (num_of_Z 3); VNum (num_of_Z 1)] /\
  chain_path [RRec (SIdx [48]); RPlain (SWild true)] = [36; 46; 46; 91; 48; 93; 46; 42] /\
  forallb rstep_ok [RRec (SIdx [48]); RPlain (SWild true)] = true.
Proof. cbv zeta. repeat split; vm_compute; reflexivity. Qed.

(* Paths with existence filters, from the path text (FiltParse.v, FiltChain.v, FiltAddr.v, FiltChainAddr.v): the steps of
   `$` s1 s2 ... may also be filters [?(@ inner)] over a path of inner steps.  nav_allf is defined on documents alone:
   a filter step keeps, of the elements of an array in index order or the members of an object in ascending key order,
   those from which the inner steps reach at least one value (reaches); it selects nothing from a scalar.  A comparison
   filter [?(@ inner OP number)] (CmpParse.v, CmpAddr.v; OP one of == != < <= > >=, inner a single-valued path, the number
   any spelling the grammar's lNumber accepts that strconv.ParseFloat — a parameter of the model, fstep_okp — parses)
   keeps those whose value reached by inner is a number, float64 or json.Number alike, standing in that relation to the
   literal; for != the complement, so members from which inner reaches no number are kept (ctest / entry_test).  A negated
   existence filter [?(!@ inner)] (NegFilt.v) keeps the members from which inner reaches nothing.  A filter over a query in
   disjunctive form [?(b&&b...||b&&b...)] (QueryParse.v, QueryAddr.v; every b one of the three kinds above, no blanks) keeps
   the members for which some conjunction has all its basic queries true (dnf_test).  A basic query may also look at the
   DOCUMENT (RootOp.v; the first argument of nav_allf): `$ steps` is true for every member when the steps reach something
   from the document root, `!$ steps` when they reach nothing, and `@ inner OP $ steps` (OP one of < <= > >=, both paths
   single-valued) compares each member's number with the number the `$` path reaches — no member is kept when it reaches
   nothing or something that is not a number (root_entry). *)
From JP Require Import FiltParse CmpParse NegFilt RootOp QueryParse FiltChain FiltAddr CmpAddr QueryAddr FiltChainAddr.
Theorem C01_filter_retrieval : forall cfg parse_float regex_ok ffun afun regex_match,
  (forall f v w, small v -> ffun f v = Some w -> small w) ->
  (forall f l w, Forall small l -> afun f l = Some w -> small w) ->
  forall x r doc st, forallb fstep_ok (x :: r) = true -> forallb (fstep_okp parse_float regex_ok) (x :: r) = true -> small doc -> ok st ->
  exists t, parse_with cfg parse_float regex_ok jsonpath_grammar (fchain_path (x :: r)) = ParseOk t /\
            match nav_allf parse_float regex_match doc (x :: r) ([], doc) with
            | [] => exists e, fst (eval_run ffun afun regex_match t doc st) = OErr e
            | l => fst (eval_run ffun afun regex_match t doc st) = OOk (map (loc_result cfg) l)
            end.
Proof. exact fchain_retrieval. Qed.
Print Assumptions C01_filter_retrieval.

Example C01_filter_example :
  let doc := VArr [VObj [("a", VNum (num_of_Z 1))]; VObj [("b", VNum (num_of_Z 2))]; VNum (num_of_Z 3); VObj [("a", VNull)]]%string in
  let path := [FE [RPlain (SDot [97%N])]] in
  fchain_path path = [36; 91; 63; 40; 64; 46; 97; 41; 93]%N /\
  forallb fstep_ok path = true /\
  map snd (nav_allf (fun _ => None) (fun _ _ => false) doc path ([], doc)) = [VObj [("a", VNum (num_of_Z 1))]; VObj [("a", VNull)]]%string /\
  map snd (nav_allf (fun _ => None) (fun _ _ => false) VNull [FS (RPlain (SWild false)); FE []] ([], VObj [("k", doc)]%string)) = [VObj [("a", VNum (num_of_Z 1))]; VObj [("b", VNum (num_of_Z 2))]; VNum (num_of_Z 3); VObj [("a", VNull)]]%string.
Proof. cbv zeta. repeat split; vm_compute; reflexivity. Qed.

Example C01_comparison_filter_example :
  let pf := fun s : string => if String.eqb s "2" then Some (num_of_Z 2) else None in
  let doc := VArr [VObj [("a", VNum (num_of_Z 1))]; VObj [("a", VJNum "3" (num_of_Z 3))]; VObj [("b", VNum (num_of_Z 9))]; VObj [("a", VStr "5")]]%string in
  let gt := [FC [RPlain (SDot [97%N])] OGt [50%N]] in
  let ne := [FC [RPlain (SDot [97%N])] ONe [50%N]] in
  fchain_path gt = [36; 91; 63; 40; 64; 46; 97; 62; 50; 41; 93]%N /\
  forallb fstep_ok gt = true /\ forallb (fstep_okp pf (fun _ => true)) gt = true /\
  map snd (nav_allf pf (fun _ _ => false) doc gt ([], doc)) = [VObj [("a", VJNum "3" (num_of_Z 3))]]%string /\
  List.length (nav_allf pf (fun _ _ => false) doc ne ([], doc)) = 4%nat.
Proof. cbv zeta. repeat split; vm_compute; reflexivity. Qed.

Example C01_negated_filter_example :
  let doc := VArr [VObj [("a", VNum (num_of_Z 1))]; VObj [("b", VNum (num_of_Z 2))]; VNum (num_of_Z 3)]%string in
  let path := [FN [RPlain (SDot [97%N])]] in
  fchain_path path = [36; 91; 63; 40; 33; 64; 46; 97; 41; 93]%N /\ forallb fstep_ok path = true /\
  map snd (nav_allf (fun _ => None) (fun _ _ => false) doc path ([], doc)) = [VObj [("b", VNum (num_of_Z 2))]; VNum (num_of_Z 3)]%string.
Proof. cbv zeta. repeat split; vm_compute; reflexivity. Qed.

Example C01_query_filter_example :
  let pf := fun s : string => if String.eqb s "2" then Some (num_of_Z 2) else None in
  let doc := VArr [VObj [("a", VNum (num_of_Z 1)); ("b", VNull)]; VObj [("a", VNum (num_of_Z 3))]; VObj [("c", VNull)]; VObj [("a", VNum (num_of_Z 5)); ("b", VNull)]]%string in
  let a := [RPlain (SDot [97%N])] in let b := [RPlain (SDot [98%N])] in let c := [RPlain (SDot [99%N])] in
  let path := [FQ [[BC a OGt [50%N]; BN b]; [BE c]]] in
  fchain_path path = [36; 91; 63; 40; 64; 46; 97; 62; 50; 38; 38; 33; 64; 46; 98; 124; 124; 64; 46; 99; 41; 93]%N /\
  forallb fstep_ok path = true /\ forallb (fstep_okp pf (fun _ => true)) path = true /\
  map snd (nav_allf pf (fun _ _ => false) doc path ([], doc)) = [VObj [("a", VNum (num_of_Z 3))]; VObj [("c", VNull)]]%string.
Proof. cbv zeta. repeat split; vm_compute; reflexivity. Qed.

Example C01_root_operand_example :
  let pf := fun s : string => @None num in
  let doc := VObj [("lim", VNum (num_of_Z 2)); ("xs", VArr [VObj [("a", VNum (num_of_Z 1))]; VObj [("a", VJNum "3" (num_of_Z 3))]; VObj [("a", VStr "5")]])]%string in
  let a := [RPlain (SDot [97%N])] in let lim := [RPlain (SDot [108%N; 105%N; 109%N])] in let no := [RPlain (SDot [110%N])] in
  let xs := FS (RPlain (SDot [120%N; 115%N])) in
  let gt := [xs; FQ [[BCR a OGt lim]]] in
  fchain_path gt = [36; 46; 120; 115; 91; 63; 40; 64; 46; 97; 62; 36; 46; 108; 105; 109; 41; 93]%N /\
  forallb fstep_ok gt = true /\ forallb (fstep_okp pf (fun _ => true)) gt = true /\
  map snd (nav_allf pf (fun _ _ => false) doc gt ([], doc)) = [VObj [("a", VJNum "3" (num_of_Z 3))]]%string /\
  List.length (nav_allf pf (fun _ _ => false) doc [xs; FQ [[BRE lim]]] ([], doc)) = 3%nat /\
  nav_allf pf (fun _ _ => false) doc [xs; FQ [[BRE no]]] ([], doc) = [] /\
  List.length (nav_allf pf (fun _ _ => false) doc [xs; FQ [[BRN no; BE a]]] ([], doc)) = 3%nat /\
  nav_allf pf (fun _ _ => false) doc [xs; FQ [[BCR a OGt no]]] ([], doc) = [].
Proof. cbv zeta. repeat split; vm_compute; reflexivity. Qed.

(* @ inner == $ steps: deep equality with the one value the `$` path reaches; when it reaches nothing, the both-absent rule *)
Example C01_path_equality_example :
  let pf := fun s : string => @None num in
  let doc := VObj [("want", VArr [VNum (num_of_Z 1)]); ("xs", VArr [VObj [("a", VArr [VNum (num_of_Z 1)])]; VObj [("a", VNum (num_of_Z 1))]; VObj [("b", VNull)]])]%string in
  let a := [RPlain (SDot [97%N])] in let c := [RPlain (SDot [99%N])] in let want := [RPlain (SDot [119%N; 97%N; 110%N; 116%N])] in let no := [RPlain (SDot [110%N])] in
  let xs := FS (RPlain (SDot [120%N; 115%N])) in
  fchain_path [xs; FQ [[BPQ a false want]]] = [36; 46; 120; 115; 91; 63; 40; 64; 46; 97; 61; 61; 36; 46; 119; 97; 110; 116; 41; 93]%N /\
  forallb fstep_ok [xs; FQ [[BPQ a false want]]] = true /\
  map snd (nav_allf pf (fun _ _ => false) doc [xs; FQ [[BPQ a false want]]] ([], doc)) = [VObj [("a", VArr [VNum (num_of_Z 1)])]]%string /\
  List.length (nav_allf pf (fun _ _ => false) doc [xs; FQ [[BPQ a true want]]] ([], doc)) = 2%nat /\
  nav_allf pf (fun _ _ => false) doc [xs; FQ [[BPQ a false no]]] ([], doc) = [] /\
  List.length (nav_allf pf (fun _ _ => false) doc [xs; FQ [[BPQ c false no]]] ([], doc)) = 3%nat /\
  nav_allf pf (fun _ _ => false) doc [xs; FQ [[BPQ c true no]]] ([], doc) = [].
Proof. cbv zeta. repeat split; vm_compute; reflexivity. Qed.

(* @ inner =~ /body/ (RegexOp.v): the members whose value at inner is a string that the expression matches; what "matches"
   means is regexp.MatchString, a parameter of the model — here a toy one (equality with the expression's text) *)
Example C01_regex_filter_example :
  let pf := fun s : string => @None num in
  let rm := fun re s : string => String.eqb re s in
  let doc := VArr [VObj [("a", VStr "x")]; VObj [("a", VStr "y")]; VObj [("a", VNum (num_of_Z 1))]; VObj [("b", VStr "x")]]%string in
  let path := [FQ [[BX [RPlain (SDot [97%N])] [120%N]]]] in
  fchain_path path = [36; 91; 63; 40; 64; 46; 97; 61; 126; 47; 120; 47; 41; 93]%N /\
  forallb fstep_ok path = true /\ forallb (fstep_okp pf (fun _ => true)) path = true /\
  map snd (nav_allf pf rm doc path ([], doc)) = [VObj [("a", VStr "x")]]%string.
Proof. cbv zeta. repeat split; vm_compute; reflexivity. Qed.

(* `..` before a filter (FR): the filter applied to every container below and including the value, in pre-order *)
Example C01_recursive_filter_example :
  let pf := fun s : string => @None num in
  let rm := fun _ _ : string => false in
  let doc := VObj [("p", VArr [VObj [("a", VNum (num_of_Z 1))]; VObj [("b", VArr [VObj [("a", VNum (num_of_Z 2))]])]]); ("q", VObj [("a", VNum (num_of_Z 3))])]%string in
  let path := [FR (FE [RPlain (SDot [97%N])])] in
  fchain_path path = [36; 46; 46; 91; 63; 40; 64; 46; 97; 41; 93]%N /\
  forallb fstep_ok path = true /\
  map snd (nav_allf pf rm doc path ([], doc)) =
    [VObj [("a", VNum (num_of_Z 3))]; VObj [("a", VNum (num_of_Z 1))]; VObj [("a", VNum (num_of_Z 2))]]%string.
Proof. cbv zeta. split; [vm_compute; reflexivity|]. split; vm_compute; reflexivity. Qed.

(* the comparison filter with blanks (CmpSpace.v): `$[?( @.a  >= 2 )]` selects as `$[?(@.a>=2)]` does *)
Example C01_spaced_comparison_example :
  let pf := fun s : string => if String.eqb s "2" then Some (num_of_Z 2) else None in
  let rm := fun _ _ : string => false in
  let doc := VArr [VObj [("a", VNum (num_of_Z 1))]; VObj [("a", VJNum "3" (num_of_Z 3))]; VObj [("a", VNum (num_of_Z 2))]]%string in
  let path := [FCS [RPlain (SDot [97%N])] 1 2 OGe 1 1 [50%N]] in
  fchain_path path = [36; 91; 63; 40; 32; 64; 46; 97; 32; 32; 62; 61; 32; 50; 32; 41; 93]%N /\
  forallb fstep_ok path = true /\ forallb (fstep_okp pf (fun _ => true)) path = true /\
  map snd (nav_allf pf rm doc path ([], doc)) = [VObj [("a", VJNum "3" (num_of_Z 3))]; VObj [("a", VNum (num_of_Z 2))]]%string.
Proof. cbv zeta. do 3 (split; [vm_compute; reflexivity|]). vm_compute. reflexivity. Qed.

(* existence filters with blanks (FiltSpace.v): `$[?( !  @.a )]` selects as `$[?(!@.a)]` does *)
Example C01_spaced_existence_example :
  let pf := fun s : string => @None num in
  let rm := fun _ _ : string => false in
  let doc := VArr [VObj [("a", VNum (num_of_Z 1))]; VObj [("b", VNum (num_of_Z 2))]; VNum (num_of_Z 3)]%string in
  let pneg := [FES true 1 2 [RPlain (SDot [97%N])] 1] in
  let ppos := [FES false 2 0 [RPlain (SDot [97%N])] 3] in
  fchain_path pneg = [36; 91; 63; 40; 32; 33; 32; 32; 64; 46; 97; 32; 41; 93]%N /\
  fchain_path ppos = [36; 91; 63; 40; 32; 32; 64; 46; 97; 32; 32; 32; 41; 93]%N /\
  forallb fstep_ok pneg = true /\ forallb fstep_ok ppos = true /\
  map snd (nav_allf pf rm doc pneg ([], doc)) = [VObj [("b", VNum (num_of_Z 2))]; VNum (num_of_Z 3)]%string /\
  map snd (nav_allf pf rm doc ppos ([], doc)) = [VObj [("a", VNum (num_of_Z 1))]]%string.
Proof. cbv zeta. do 5 (split; [vm_compute; reflexivity|]). vm_compute. reflexivity. Qed.

(* a query in disjunctive form with blanks (QuerySpace.v): `$[?( @.a>1 &&  @.b || ! @.c )]` selects as `$[?(@.a>1&&@.b||!@.c)]` does *)
From JP Require Import QuerySpace.
Example C01_spaced_query_example :
  let pf := fun s : string => if String.eqb s "1" then Some (num_of_Z 1) else None in
  let rm := fun _ _ : string => false in
  let doc := VArr [VObj [("a", VNum (num_of_Z 2)); ("b", VNull); ("c", VNull)]; VObj [("a", VNum (num_of_Z 2)); ("c", VNull)];
                   VObj [("a", VNum (num_of_Z 1)); ("b", VNull)]; VObj [("a", VNum (num_of_Z 1)); ("b", VNull); ("c", VNull)]]%string in
  let d : sdnf := (((SBC [RPlain (SDot [97%N])] 0 OGt 0 [49%N], 1%nat), [(2%nat, (SBE false 0 [RPlain (SDot [98%N])], 1%nat))]), [(1%nat, ((SBE true 1 [RPlain (SDot [99%N])], 1%nat), []))]) in
  text_of (fchain_path [FQS 1 d]) = "$[?( @.a>1 &&  @.b || ! @.c )]"%string /\
  text_of (fchain_path [FQ (unspace_dnf d)]) = "$[?(@.a>1&&@.b||!@.c)]"%string /\
  forallb fstep_ok [FQS 1 d] = true /\ forallb (fstep_okp pf (fun _ => true)) [FQS 1 d] = true /\
  map snd (nav_allf pf rm doc [FQS 1 d] ([], doc)) =
    [VObj [("a", VNum (num_of_Z 2)); ("b", VNull); ("c", VNull)]; VObj [("a", VNum (num_of_Z 1)); ("b", VNull)]]%string.
Proof. cbv zeta. do 4 (split; [vm_compute; reflexivity|]). vm_compute. reflexivity. Qed.

(* parenthesised sub-queries (QueryTree.v): `$[?((@.a||@.b)&&!@.c)]` *)
From JP Require Import QueryTree.
Example C01_subquery_example :
  let pf := fun s : string => @None num in
  let rm := fun _ _ : string => false in
  let doc := VArr [VObj [("a", VNull)]; VObj [("b", VNull); ("c", VNull)]; VObj [("b", VNull)]; VObj [("c", VNull)]; VObj [("a", VNull); ("b", VNull)]]%string in
  let t := TA (TP (TO (TB (BE [RPlain (SDot [97%N])])) (TB (BE [RPlain (SDot [98%N])])))) (TB (BN [RPlain (SDot [99%N])])) in
  text_of (fchain_path [FT t]) = "$[?((@.a||@.b)&&!@.c)]"%string /\
  forallb fstep_ok [FT t] = true /\ forallb (fstep_okp pf (fun _ => true)) [FT t] = true /\
  map snd (nav_allf pf rm doc [FT t] ([], doc)) = [VObj [("a", VNull)]; VObj [("b", VNull)]; VObj [("a", VNull); ("b", VNull)]]%string.
Proof. cbv zeta. do 3 (split; [vm_compute; reflexivity|]). vm_compute. reflexivity. Qed.

(* the literal on the left (LitLeft.v): `$[?(2<=@.a)]` selects as `$[?(@.a>=2)]` *)
From JP Require Import LitLeft.
Example C01_literal_left_example :
  let pf := fun s : string => if String.eqb s "2" then Some (num_of_Z 2) else None in
  let rm := fun _ _ : string => false in
  let doc := VArr [VObj [("a", VNum (num_of_Z 1))]; VObj [("a", VNum (num_of_Z 3))]; VObj [("a", VNum (num_of_Z 2))]; VObj [("b", VNum (num_of_Z 5))]]%string in
  let p1 := [FQ [[BCL [50%N] OLe [RPlain (SDot [97%N])]]]] in
  let p2 := [FQ [[BC [RPlain (SDot [97%N])] OGe [50%N]]]] in
  text_of (fchain_path p1) = "$[?(2<=@.a)]"%string /\ text_of (fchain_path p2) = "$[?(@.a>=2)]"%string /\
  forallb fstep_ok p1 = true /\ forallb (fstep_okp pf (fun _ => true)) p1 = true /\
  nav_allf pf rm doc p1 ([], doc) = nav_allf pf rm doc p2 ([], doc) /\
  map snd (nav_allf pf rm doc p1 ([], doc)) = [VObj [("a", VNum (num_of_Z 3))]; VObj [("a", VNum (num_of_Z 2))]]%string.
Proof. cbv zeta. do 5 (split; [vm_compute; reflexivity|]). vm_compute. reflexivity. Qed.

(* string literals with backslashes (LitParse.v: `sbody_ok`): `\'` and `\\` are escapes of the grammar; a backslash before any
   other character is a character for the grammar and is dropped afterwards (with the character kept) by the unescaper:
   `$[?(@.a=='x\'y')]` compares with x'y, `$[?(@.a=="a\nb")]` with anb *)
Example C01_escaped_literal_example :
  let pf := fun s : string => @None num in
  let rm := fun _ _ : string => false in
  let doc := VArr [VObj [("a", VStr "x'y")]; VObj [("a", VStr "anb")]; VObj [("a", VStr "x\'y")]; VObj [("a", VStr "a\nb")]]%string in
  let p1 := [FQ [[BL [RPlain (SDot [97%N])] false (LStr 39 [120; 92; 39; 121]%N)]]] in
  let p2 := [FQ [[BL [RPlain (SDot [97%N])] false (LStr 34 [97; 92; 110; 98]%N)]]] in
  text_of (fchain_path p1) = "$[?(@.a=='x\'y')]"%string /\ text_of (fchain_path p2) = "$[?(@.a==""a\nb"")]"%string /\
  forallb fstep_ok p1 = true /\ forallb fstep_ok p2 = true /\
  map snd (nav_allf pf rm doc p1 ([], doc)) = [VObj [("a", VStr "x'y")]]%string /\
  map snd (nav_allf pf rm doc p2 ([], doc)) = [VObj [("a", VStr "anb")]]%string.
Proof. cbv zeta. do 5 (split; [vm_compute; reflexivity|]). vm_compute. reflexivity. Qed.
