(* FiltSpace.v — the existence filter and its negation written with blanks: [?(  @ steps  )], [?( ! @ steps )] — after `?(`,
   after `!` and before `)`.  The blanks before `)` are eaten by the operand (jsonpathParameter ends in `space`), those after
   `!` by logicNot, those after `?(` by filterStart; the actions are those of the unspaced filters. *)
From JP Require Import Peg Grammar Text Tree Actions PegFacts PegMono PegEv FuelRules ParseFacts KeyDefs KeyParse IdxParse SliceParse UnionParse WildParse RecParse ChainParse SpacePath FunParse AggParse Frame FiltParse CmpParse CmpSpace NegFilt LitParse RootOp RegexOp QueryParse NoDollar.
From Coq Require Import Lia.
Local Open Scope N_scope.
Open Scope list_scope.

Definition neg_len (neg : bool) (gn : nat) : nat := if neg then (1 + gn)%nat else 0%nat.
Lemma fes_inner_len neg gn i g1 : List.length (fes_inner neg gn i g1) = (neg_len neg gn + 1 + List.length (render_steps i) + g1)%nat.
Proof. unfold fes_inner, neg_len. destruct neg; cbn [app List.length]; rewrite ?app_length, ?blanks_len; cbn [List.length]; rewrite ?app_length, ?blanks_len; lia. Qed.
Lemma fes_text_len neg g0 gn i g1 : List.length (fes_text neg g0 gn i g1) = (6 + g0 + neg_len neg gn + List.length (render_steps i) + g1)%nat.
Proof. unfold fes_text. rewrite !app_length, fes_inner_len, blanks_len. cbn [List.length]. lia. Qed.

Definition fes35_tokens (pos : nat) (neg : bool) (gn : nat) (i : list rstep) (g1 : nat) : list token :=
  [TAct 38] ++ inner_tokens (pos + neg_len neg gn) i ++
  [TAct 39; TText pos (pos + (neg_len neg gn + 1 + List.length (render_steps i) + g1)); TAct 27].

(* no comparison stands there: the operand is read (with its blanks), then no operator follows *)
Lemma ev_rule39_exists_sp i g1 c t pos : forallb rstep_ok i = true -> qend c ->
  evG (PRef 39) (64 :: render_steps i ++ blanks g1 ++ c :: t) pos PFail.
Proof.
  intros Hs Hq. pose proof (qend_closer c Hq) as Hc. pose proof (qend_32 c Hq) as H32.
  pose proof (ev_rule43_sp i g1 c t pos Hs Hc) as E43.
  assert (Hlit : forall s, (s = [61; 61] \/ s = [33; 61] \/ s = [60; 61] \/ s = [60] \/ s = [62; 61] \/ s = [62] \/ s = [61; 126]) -> strip_prefix s (c :: t) = None).
  { intros s Hcase. destruct Hq as [E|[E|E]]; subst c; destruct Hcase as [E|[E|[E|[E|[E|[E|E]]]]]]; subst s; reflexivity. }
  eapply ev_ref; [reflexivity|].
  apply ev_alt_r.
  { eapply ev_seq_fail2.
    - eapply ev_ref; [reflexivity|]. apply ev_alt_r; [apply ev_seq_fail; apply ev_rule42_at|exact E43].
    - eapply ev_seq_fail2; [apply ev_space_stop; exact H32|].
      apply ev_alt_r; apply ev_seq_fail; apply (ev_lit_fail G); apply Hlit; auto 10. }
  apply ev_alt_r.
  { eapply ev_seq_fail2.
    - eapply ev_ref; [reflexivity|]. apply ev_alt_r; [apply ev_seq_fail; apply ev_rule45_at|exact E43].
    - eapply ev_seq_fail2; [apply ev_space_stop; exact H32|].
      apply ev_alt_r; [apply ev_seq_fail; apply (ev_lit_fail G); apply Hlit; auto 10|].
      apply ev_alt_r; [apply ev_seq_fail; apply (ev_lit_fail G); apply Hlit; auto 10|].
      apply ev_alt_r; apply ev_seq_fail; apply (ev_lit_fail G); apply Hlit; auto 10. }
  eapply ev_seq_fail2; [exact E43|].
  eapply ev_seq_fail2; [apply ev_space_stop; exact H32|].
  apply ev_seq_fail. apply (ev_lit_fail G). apply Hlit. auto 10.
Qed.

Lemma ev_rule44_sp i g1 c t pos : forallb rstep_ok i = true -> qend c ->
  evG (PRef 44) (64 :: render_steps i ++ blanks g1 ++ c :: t) pos
      (POk (c :: t) (pos + 1 + List.length (render_steps i) + g1) ([TAct 38] ++ inner_tokens pos i ++ [TAct 39])).
Proof.
  intros Hs Hq. pose proof (qend_closer c Hq) as Hc.
  eapply ev_ref; [reflexivity|].
  eapply ev_seq_ok; [apply ev_act| |reflexivity].
  eapply ev_seq_ok; [apply (ev_rule3_cur_sp i g1 c t pos Hs Hc)|apply ev_act|reflexivity].
Qed.

Lemma ev_rule35_fes neg gn i g1 c t pos : forallb rstep_ok i = true -> qend c ->
  evG (PRef 35) (fes_inner neg gn i g1 ++ c :: t) pos
      (POk (c :: t) (pos + (neg_len neg gn + 1 + List.length (render_steps i) + g1)) (fes35_tokens pos neg gn i g1)).
Proof.
  intros Hs Hq. unfold fes_inner, fes35_tokens, neg_len. destruct neg.
  - replace (((33 :: blanks gn) ++ 64 :: render_steps i ++ blanks g1) ++ c :: t) with (33 :: blanks gn ++ 64 :: render_steps i ++ blanks g1 ++ c :: t)
      by (repeat (progress (cbn [app]) || rewrite <- app_assoc); reflexivity).
    eapply ev_conv.
    + eapply ev_ref; [reflexivity|].
      apply ev_alt_r; [apply ev_seq_fail; eapply ev_ref; [reflexivity|]; apply ev_seq_fail; apply (ev_lit_fail G [40]); reflexivity|].
      apply ev_alt_r; [apply ev_seq_fail; apply ev_cap_fail; apply ev_rule39_bang|].
      eapply ev_seq_ok; [apply ev_cap| apply ev_act |reflexivity].
      eapply ev_seq_ok; [apply ev_opt_some; eapply ev_ref; [reflexivity|];
                         eapply ev_seq_ok; [apply (ev_lit_ok G [33]); apply strip1_ok|apply (ev_space_blanks gn (64 :: render_steps i ++ blanks g1 ++ c :: t)); discriminate|reflexivity]| |reflexivity].
      apply (ev_rule44_sp i g1 c t _ Hs Hq).
    + cbn [List.length app Nat.add]. f_equal; try lia.
      replace (pos + 1 + gn)%nat with (pos + S gn)%nat by lia.
      replace (pos + S gn + 1 + List.length (render_steps i) + g1)%nat with (pos + S (gn + 1 + List.length (render_steps i) + g1))%nat by lia.
      repeat (progress (cbn [app]) || rewrite <- app_assoc || rewrite app_nil_r). reflexivity.
  - replace (([] ++ 64 :: render_steps i ++ blanks g1) ++ c :: t) with (64 :: render_steps i ++ blanks g1 ++ c :: t)
      by (repeat (progress (cbn [app]) || rewrite <- app_assoc); reflexivity).
    eapply ev_conv.
    + eapply ev_ref; [reflexivity|].
      apply ev_alt_r; [apply ev_seq_fail; eapply ev_ref; [reflexivity|]; apply ev_seq_fail; apply (ev_lit_fail G [40]); reflexivity|].
      apply ev_alt_r; [apply ev_seq_fail; apply ev_cap_fail; apply (ev_rule39_exists_sp i g1 c t pos Hs Hq)|].
      eapply ev_seq_ok; [apply ev_cap| apply ev_act |reflexivity].
      eapply ev_seq_ok; [apply ev_opt_none; eapply ev_ref; [reflexivity|]; apply ev_seq_fail; apply (ev_lit_fail G [33]); reflexivity| |reflexivity].
      apply (ev_rule44_sp i g1 c t pos Hs Hq).
    + cbn [List.length app Nat.add]. rewrite Nat.add_0_r. f_equal; try lia.
      replace (pos + 1 + List.length (render_steps i) + g1)%nat with (pos + S (List.length (render_steps i) + g1))%nat by lia.
      repeat (progress (cbn [app]) || rewrite <- app_assoc || rewrite app_nil_r). reflexivity.
Qed.

Definition fes_tokens (p : nat) (neg : bool) (g0 gn : nat) (i : list rstep) (g1 : nat) : list token :=
  let n := (neg_len neg gn + 1 + List.length (render_steps i) + g1)%nat in
  fes35_tokens (p + 3 + g0) neg gn i g1 ++ [TAct 23; TText p (p + 5 + g0 + n); TAct 7].

Lemma ev_rule7_fes neg g0 gn i g1 r pos : forallb rstep_ok i = true ->
  evG (PRef 7) (fes_text neg g0 gn i g1 ++ r) pos (POk r (pos + List.length (fes_text neg g0 gn i g1)) (fes_tokens pos neg g0 gn i g1)).
Proof.
  intros Hs. unfold fes_tokens. cbv zeta.
  set (X := fes_inner neg gn i g1). pose proof (fes_inner_len neg gn i g1) as HX. fold X in HX.
  assert (E35 : evG (PRef 35) (X ++ blanks 0 ++ 41 :: 93 :: r) (pos + 3 + g0) (POk (blanks 0 ++ 41 :: 93 :: r) (pos + 3 + g0 + List.length X) (fes35_tokens (pos + 3 + g0) neg gn i g1))).
  { cbn [blanks repeat app]. rewrite HX. apply (ev_rule35_fes neg gn i g1 41 (93 :: r) (pos + 3 + g0) Hs (or_introl eq_refl)). }
  replace (fes_text neg g0 gn i g1 ++ r) with ([91; 63; 40] ++ blanks g0 ++ X ++ blanks 0 ++ [41; 93] ++ r)
    by (unfold fes_text; fold X; cbn [blanks repeat]; repeat (progress (cbn [app]) || rewrite <- app_assoc); reflexivity).
  eapply ev_conv; [apply (ev_rule7_of35_sp g0 X 0 r pos _ ltac:(unfold X, fes_inner; destruct neg; intros x0 r0 E; inversion E; discriminate) ltac:(unfold X, fes_inner; destruct neg; discriminate) E35)|].
  rewrite fes_text_len, HX. f_equal; try lia.
  replace (pos + 5 + g0 + (neg_len neg gn + 1 + List.length (render_steps i) + g1) + 0)%nat with (pos + 5 + g0 + (neg_len neg gn + 1 + List.length (render_steps i) + g1))%nat by lia.
  reflexivity.
Qed.

(* ---------- the token replay ---------- *)
Section FesExec.
  Variable cfg : config.
  Variable parse_float : string -> option num.
  Variable regex_ok : string -> bool.
  Notation execute := (execute cfg parse_float regex_ok).
  Notation exec_action := (exec_action cfg parse_float regex_ok).

  Definition fes_kind (neg : bool) (i : list rstep) : kind := if neg then neg_kind cfg i else filt_kind cfg i.
  Definition fes_basic (neg : bool) (g0 gn : nat) (i : list rstep) (g1 : nat) : basic := mk_basic (text_of (fes_text neg g0 gn i g1)) true (cfg_accessor cfg).
  Definition fes_node (neg : bool) (g0 gn : nat) (i : list rstep) (g1 : nat) : node := Node (fes_kind neg i) (fes_basic neg g0 gn i g1) ONone.

  Lemma exec_fes input p neg g0 gn i g1 rest ps toks cps b : forallb rstep_ok i = true ->
    skipn p input = fes_text neg g0 gn i g1 ++ rest ->
    exists cps' b', execute (fes_tokens p neg g0 gn i g1 ++ toks) input cps b (mk ps) = execute toks input cps' b' (mk (ps ++ [INode (fes_node neg g0 gn i g1)])).
  Proof.
    intros Hs Hin. unfold fes_tokens, fes35_tokens. cbv zeta.
    set (L := List.length (render_steps i)). set (NL := neg_len neg gn).
    assert (Hin' : skipn p input = ([91; 63; 40] ++ blanks g0 ++ (if neg then 33 :: blanks gn else [])) ++ (64 :: render_steps i) ++ blanks g1 ++ [41; 93] ++ rest).
    { rewrite Hin. unfold fes_text, fes_inner. destruct neg; repeat (progress (cbn [app]) || rewrite <- app_assoc); reflexivity. }
    assert (Hq : skipn (p + 3 + g0 + NL) input = 64 :: render_steps i ++ blanks g1 ++ [41; 93] ++ rest).
    { set (PRE := [91; 63; 40] ++ blanks g0 ++ (if neg then 33 :: blanks gn else [])) in Hin'.
      assert (HP : List.length PRE = (3 + g0 + NL)%nat)
        by (unfold PRE, NL, neg_len; destruct neg; repeat (first [rewrite app_length | rewrite blanks_len | progress cbn [List.length]]); lia).
      pose proof (skipn_next input p PRE _ Hin') as H. rewrite HP in H.
      replace (p + (3 + g0 + NL))%nat with (p + 3 + g0 + NL)%nat in H by lia. exact H. }
    replace ((([TAct 38] ++ inner_tokens (p + 3 + g0 + NL) i ++ [TAct 39; TText (p + 3 + g0) (p + 3 + g0 + (NL + 1 + L + g1)); TAct 27]) ++
              [TAct 23; TText p (p + 5 + g0 + (NL + 1 + L + g1)); TAct 7]) ++ toks)
      with ([TAct 38] ++ inner_tokens (p + 3 + g0 + NL) i ++ [TAct 39] ++
            ([TText (p + 3 + g0) (p + 3 + g0 + (NL + 1 + L + g1)); TAct 27; TAct 23; TText p (p + 5 + g0 + (NL + 1 + L + g1)); TAct 7] ++ toks))
      by (repeat (progress (cbn [app]) || rewrite <- app_assoc); reflexivity).
    rewrite (exec_operand cfg parse_float regex_ok input (p + 3 + g0 + NL) i _ ps _ cps b Hs Hq). cbn [app Actions.execute].
    assert (Ec : sub_list input (p + 3 + g0) (p + 3 + g0 + (NL + 1 + L + g1)) = fes_inner neg gn i g1).
    { pose proof (sub_at input p (3 + g0) ([91; 63; 40] ++ blanks g0) (fes_inner neg gn i g1) ([41; 93] ++ rest)) as H.
      replace (p + (3 + g0))%nat with (p + 3 + g0)%nat in H by lia. rewrite fes_inner_len in H. fold L NL in H. apply H.
      - rewrite Hin. unfold fes_text. repeat (progress (cbn [app]) || rewrite <- app_assoc). reflexivity.
      - rewrite app_length, blanks_len. reflexivity. }
    rewrite Ec.
    assert (E27 : forall b0, exec_action 27 (fes_inner neg gn i g1) b0 (mk (ps ++ [IPQ (filter_pq cfg i); IBool false])) =
                             AOk (mk (ps ++ [IQuery (if neg then QNot (QParam (filter_pq cfg i)) else QParam (filter_pq cfg i))]))).
    { intros b0. cbn [Actions.exec_action].
      change (ps ++ [IPQ (filter_pq cfg i); IBool false]) with (ps ++ [IPQ (filter_pq cfg i)] ++ [IBool false]). rewrite app_assoc, pop_mk. cbn [abind].
      unfold pop_query. rewrite pop_mk. cbn [abind]. unfold fes_inner. destruct neg; reflexivity. }
    rewrite E27. cbn [abind].
    assert (E23 : forall c0 b0 q0, exec_action 23 c0 b0 (mk (ps ++ [IQuery q0])) = AOk (mk (ps ++ [INode (Node (KFilter q0) (mk_basic "" true (cfg_accessor cfg)) ONone)]))).
    { intros c0 b0 q0. cbn [Actions.exec_action]. unfold pop_query. rewrite pop_mk. reflexivity. }
    rewrite E23. cbn [abind].
    assert (Et : sub_list input p (p + 5 + g0 + (NL + 1 + L + g1)) = fes_text neg g0 gn i g1).
    { pose proof (sub_at input p 0 [] (fes_text neg g0 gn i g1) rest) as H. rewrite Nat.add_0_r in H.
      replace (p + 5 + g0 + (NL + 1 + L + g1))%nat with (p + List.length (fes_text neg g0 gn i g1))%nat by (rewrite fes_text_len; unfold L, NL; lia).
      apply H; [exact Hin|reflexivity]. }
    rewrite Et.
    assert (E7 : forall b0 q0, exec_action 7 (fes_text neg g0 gn i g1) b0 (mk (ps ++ [INode (Node (KFilter q0) (mk_basic "" true (cfg_accessor cfg)) ONone)])) =
                              AOk (mk (ps ++ [INode (Node (KFilter q0) (fes_basic neg g0 gn i g1) ONone)]))).
    { intros b0 q0. cbn [Actions.exec_action]. unfold set_last_node_text, pop_node. rewrite pop_mk. reflexivity. }
    rewrite E7. cbn [abind]. eexists _, _. f_equal. f_equal. f_equal. unfold fes_node, fes_kind, neg_kind, filt_kind. destruct neg; reflexivity.
  Qed.
End FesExec.
