(* ErrAggs.v — the runtime error of a path of name and index steps followed by an AGGREGATE function and filter functions, from
   the path text (C15): `$` steps `.g().f()…` fails at the first step that cannot be taken; when every step can be taken, with
   "function failed" naming `.g()` when the aggregate fails on its argument list (the elements of the array reached, or the
   single value reached), else at the first filter function that fails on what came before it; else it succeeds. *)
From JP Require Import Peg Grammar Slice Text Tree Actions Json Eval WF Spec ErrSpec SortFacts EvalInv1 EvalInv4 EvalTop EndToEnd Codec KeyDefs KeyParse ChainParse ChainAddr FunParse AggParse FunAddr AggAddr CallDefs ErrNames ErrSteps ErrFuns.
From Coq Require Import Lia ZArith.
Open Scope list_scope.

Section ErrAggs.
  Variable cfg : config.
  Variable parse_float : string -> option num.
  Variable regex_ok : string -> bool.
  Variable ffun : string -> value -> option value.
  Variable afun : string -> list value -> option value.
  Variable regex_match : string -> string -> bool.
  Hypothesis ffun_small : forall f v w, small v -> ffun f v = Some w -> small w.
  Hypothesis afun_small : forall f l w, Forall small l -> afun f l = Some w -> small w.
  Notation parse := (parse_with cfg parse_float regex_ok jsonpath_grammar).
  Notation eval_run := (eval_run ffun afun regex_match).
  Notation serr := (serr ffun afun regex_match).
  Notation fun_fail := (fun_fail ffun).

  (* what fails first *)
  Definition agg_walk_err (doc : value) (steps : list kstep) (g : list N) (fs : list (list N)) : option fail_at :=
    match first_fail2 doc steps with
    | Some (s, why) => Some (FStep s why)
    | None => match afun (text_of g) (agg_input (map RPlain steps) doc) with
              | None => Some (FFun g)
              | Some v => option_map FFun (fun_fail v fs)
              end
    end.

  Lemma finp_steps p r : steps_shape r (finp p (cl (pres cfg (map RPlain r)))).
  Proof.
    induction r as [|s r IH]; [exact I|].
    unfold pres. cbn [map flat_map rstep_pre app cl finp fst snd steps_shape]. split; [reflexivity|]. split; [reflexivity|]. exact IH.
  Qed.
  Lemma param_steps p s r : steps_shape (s :: r) (OSome (param_of p (pres cfg (map RPlain (s :: r))))).
  Proof.
    unfold pres. cbn [map flat_map rstep_pre app param_of fst snd steps_shape]. split; [reflexivity|]. split; [reflexivity|]. apply (finp_steps p r).
  Qed.

  Theorem agg_path_error s r g fs doc st : forallb step_ok (s :: r) = true -> forallb is_loc_step (s :: r) = true ->
    forallb fname_ok (g :: fs) = true -> agg_known cfg g = true -> forallb (fun_known cfg) fs = true -> small doc -> ok st ->
    exists t, parse (chain_fun_path (map RPlain (s :: r)) (g :: fs)) = ParseOk t /\
              match agg_walk_err doc (s :: r) g fs with
              | None => exists rs, fst (eval_run t doc st) = OOk rs
              | Some (FStep x None) => exists b, fst (eval_run t doc st) = OErr (EMember b) /\ text b = step_text x
              | Some (FStep x (Some (ex, ty))) => exists b, fst (eval_run t doc st) = OErr (EType b ex ty) /\ text b = step_text x
              | Some (FFun f) => exists b, fst (eval_run t doc st) = OErr (EFunc b) /\ text b = text_of (fun_text f)
              end.
  Proof.
    intros Hs Hn Hf Hg Hk Hd Hok. pose proof (plain_ok (s :: r) Hs) as Hs'. cbn [map] in Hs'.
    exists (chain_agg_node cfg (map RPlain (s :: r)) g fs).
    pose proof (parse_chain_agg_path cfg parse_float regex_ok (RPlain s) (map RPlain r) g fs Hs' Hf Hg Hk) as Hp. split; [exact Hp|].
    pose proof (retrieve_end_to_end cfg parse_float regex_ok ffun afun regex_match ffun_small afun_small (chain_fun_path (map RPlain (s :: r)) (g :: fs)) doc st Hd Hok) as H.
    cbn [map] in H. rewrite Hp in H.
    (* the error specification on this tree *)
    assert (He : err_matches3 (ErrSpec.spec_error ffun afun regex_match (chain_agg_node cfg (map RPlain (s :: r)) g fs) doc) (agg_walk_err doc (s :: r) g fs)).
    { unfold ErrSpec.spec_error, chain_agg_node, agg_walk_err. cbn [ErrSpec.serr].
      pose proof (serr_steps ffun afun regex_match ffun_small afun_small (s :: r) _ doc (@Some (list pstep) []) doc Hn (param_steps (agg_ctext cfg g fs) s r)) as Hps.
      destruct (first_fail2 doc (s :: r)) as [[x [[ex ty]|]]|].
      - destruct Hps as (b & E & Hb). rewrite E. exists b. split; [reflexivity|exact Hb].
      - destruct Hps as (b & E & Hb). rewrite E. exists b. split; [reflexivity|exact Hb].
      - cbn [err_matches2] in Hps. rewrite Hps.
        pose proof (param_agg_args cfg ffun afun regex_match (agg_ctext cfg g fs) (RPlain s) (map RPlain r) doc Hs' Hd) as Ha.
        unfold agg_args in Ha. cbn [map] in Ha |- *. rewrite Ha.
        destruct (afun (text_of g) (agg_input (RPlain s :: map RPlain r) doc)) as [v|].
        + exact (serr_funs ffun afun regex_match fs (fin (fpres cfg fs)) doc None v (fin_funs cfg fs)).
        + cbn [err_matches3]. eexists. split; reflexivity. }
    cbn [map] in He. cbn [map].
    destruct (fst (eval_run (chain_agg_node cfg (RPlain s :: map RPlain r) g fs) doc st)) as [rs|e|pn]; [| |contradiction].
    - destruct H as (_ & _ & Hnone). rewrite Hnone in He. destruct (agg_walk_err doc (s :: r) g fs) as [[x [[ex ty]|]|f]|].
      + destruct He as (b & E & _). discriminate E.
      + destruct He as (b & E & _). discriminate E.
      + destruct He as (b & E & _). discriminate E.
      + exists rs. reflexivity.
    - destruct H as (_ & Hsome). rewrite Hsome in He. destruct (agg_walk_err doc (s :: r) g fs) as [[x [[ex ty]|]|f]|].
      + destruct He as (b & E & Hb). inversion E; subst. exists b. split; [reflexivity|exact Hb].
      + destruct He as (b & E & Hb). inversion E; subst. exists b. split; [reflexivity|exact Hb].
      + destruct He as (b & E & Hb). inversion E; subst. exists b. split; [reflexivity|exact Hb].
      + discriminate He.
  Qed.
End ErrAggs.
