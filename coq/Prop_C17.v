(* Prop_C17.v — property C17: the accepted language is the published grammar; syntax errors point
   at the spot (partial).  Acceptance in the model is by construction "derivable by the PEG
   interpreter (Peg.v) running the grammar REGENERATED from /repo/jsonpath.peg on this run, and no
   action rejects"; the 85 KB generated parser is tied to that by differential testing (translation
   validation, not a theorem).  Proved here: the start rule of the regenerated grammar never fails to
   match (every rejection is raised by an action), and every syntax error reports a character offset
   inside the path, and the offset of `unrecognized input` is EXACTLY the end of the match of
   `jsonpath?` (C17_unrecognized_offset: action 1 is emitted only by the catch-all alternative, after
   the capture that begins where `jsonpath?` stopped; no rule below `jsonpath` writes action 1 — a
   closure check evaluated on the regenerated grammar).  `near` = rest of the path from that character
   is compared with the library on every generated string (the model does not carry `near`). *)
From JP Require Import Peg Grammar Text Tree Actions PegFacts ParseFacts ErrPos.

Theorem C17_expression_total : forall fuel s pos, run jsonpath_grammar fuel (PRef 0) s pos <> PFail.
Proof. exact expression_total. Qed.
Print Assumptions C17_expression_total.

Theorem C17_syntax_error_inside_partial : forall cfg parse_float regex_ok g input p r,
  parse_with cfg parse_float regex_ok g input = ParseErr (ESyntax p r) -> p <= List.length input.
Proof. exact syntax_error_inside. Qed.
Print Assumptions C17_syntax_error_inside_partial.

Theorem C17_unrecognized_offset : forall cfg parse_float regex_ok input p,
  parse_with cfg parse_float regex_ok jsonpath_grammar input = ParseErr (ESyntax p RUnrecognized) ->
  exists fuel rest toks, run jsonpath_grammar fuel (POpt (PRef 2)) input 0 = POk rest p toks.
Proof. exact unrecognized_offset. Qed.
Print Assumptions C17_unrecognized_offset.

(* for every grammar: a successful match advances by what it consumed and every capture lies inside it *)
Theorem C17_position_accounting : forall g f e rest pos r p t,
  run g f e rest pos = POk r p t ->
  pos + List.length rest = p + List.length r /\ pos <= p /\ Forall (tok_ok pos p) t.
Proof. exact run_accounting. Qed.
Print Assumptions C17_position_accounting.

(* non-vacuity: the regenerated grammar really parses and rejects *)
Example C17_example_reject :
  parse_with cfg_none (fun _ => None) (fun _ => true) jsonpath_grammar [36%N; 46%N; 97%N; 93%N] (* $.a] *)
  = ParseErr (ESyntax 3 RUnrecognized).
Proof. vm_compute. reflexivity. Qed.

(* From the path text (ErrText.v): a valid path of steps and existence filters followed by a symbol that can neither
   continue it nor start a function, then anything, is rejected with "unrecognized input" at exactly the offset of
   that symbol (the excerpt `near` is the input from that offset: Actions/ErrPos). *)
From JP Require Import KeyDefs FiltParse FiltChain ErrText.
From Coq Require Import List NArith. Import ListNotations.
Theorem C17_garbage_after_path_from_text : forall cfg parse_float regex_ok l c t,
  forallb fstep_ok l = true -> forallb (fstep_okp parse_float regex_ok) l = true -> closer c ->
  parse_with cfg parse_float regex_ok jsonpath_grammar (fchain_path l ++ c :: t) =
  ParseErr (ESyntax (1 + List.length (render_fsteps l)) RUnrecognized).
Proof. exact garbage_after_path. Qed.
Print Assumptions C17_garbage_after_path_from_text.

Example C17_closers : closer 41%N /\ closer 93%N /\ closer 44%N /\ closer 63%N /\ closer 39%N /\ closer 126%N /\
  fchain_path [FS (RPlain (SDot [97%N]))] ++ [41%N] = [36; 46; 97; 41]%N /\ forallb fstep_ok [FS (RPlain (SDot [97%N]))] = true.
Proof. unfold closer. repeat split; try reflexivity; discriminate. Qed.

(* The grammar the theorems speak about (Grammar.v, regenerated from jsonpath.peg on every run) is, on this tree, the grammar
   of the pinned tree (GrammarPinned.v, a committed copy): a change of jsonpath.peg breaks this statement, and the C17 check
   then runs every generated string through the pinned grammar as well to exhibit a string whose acceptance changed. *)
From JP Require Import GrammarPinned GrammarPinnedEq.
Theorem C17_grammar_is_the_pinned_one : pinned_grammar = jsonpath_grammar.
Proof. exact pinned_is_current. Qed.
Print Assumptions C17_grammar_is_the_pinned_one.
