(* SpellText.v — equivalent spellings, from the path text: two paths of steps and filters whose steps MEAN the same (navigate
   alike from every value: nav1f) are both accepted and return the same results, or both fail; and the spellings that mean
   the same: .name / ['name'] / ["name"], .* / [*], an index or slice bound with a plus sign or leading zeros, a number
   literal written differently, a filter whose inner steps are respelled. *)
From JP Require Import Peg Grammar Slice Text Tree Actions Json Eval WF Spec SortFacts EvalInv1 EvalInv4 EvalTop EndToEnd Codec KeyDefs KeyParse IdxParse SliceParse UnionParse WildParse RecParse ChainParse SpacePath FunParse AggParse FiltParse CmpParse NegFilt LitParse RootOp RegexOp LitLeft QueryParse FiltSpace QuerySpace QueryTree FiltChain ChainAddr FunAddr AggAddr FiltAddr CmpAddr QueryAddr FiltChainAddr.
From Coq Require Import Lia.
Open Scope list_scope.

Section SpellText.
  Variable cfg : config.
  Variable parse_float : string -> option num.
  Variable regex_ok : string -> bool.
  Variable ffun : string -> value -> option value.
  Variable afun : string -> list value -> option value.
  Variable regex_match : string -> string -> bool.
  Hypothesis ffun_small : forall f v w, small v -> ffun f v = Some w -> small w.
  Hypothesis afun_small : forall f l w, Forall small l -> afun f l = Some w -> small w.
  Notation parse := (parse_with cfg parse_float regex_ok jsonpath_grammar).
  Notation eval_run := (eval_run ffun afun regex_match).
  Notation nav1f := (nav1f parse_float regex_match).
  Notation nav_allf := (nav_allf parse_float regex_match).

  (* two steps that navigate alike, whatever the document and the value they start from *)
  Definition same_step (x y : fstep) : Prop := forall root lv, nav1f root x lv = nav1f root y lv.
  Definition same_rstep (x y : rstep) : Prop := forall lv, nav1r x lv = nav1r y lv.

  Lemma nav_allf_same l1 : forall l2 root lv, Forall2 same_step l1 l2 -> nav_allf root l1 lv = nav_allf root l2 lv.
  Proof.
    induction l1 as [|x r IH]; intros l2 root lv H; inversion H as [|? y ? s Hxy Hrs]; subst; [reflexivity|].
    cbn [FiltChainAddr.nav_allf]. rewrite (Hxy root lv). apply flat_map_ext'. intros a. apply IH. exact Hrs.
  Qed.
  Lemma nav_all_same l1 : forall l2 lv, Forall2 same_rstep l1 l2 -> nav_all l1 lv = nav_all l2 lv.
  Proof.
    induction l1 as [|x r IH]; intros l2 lv H; inversion H as [|? y ? s Hxy Hrs]; subst; [reflexivity|].
    cbn [nav_all]. rewrite (Hxy lv). apply flat_map_ext'. intros a. apply IH. exact Hrs.
  Qed.

  Theorem spellings_from_text x r y s doc st :
    forallb fstep_ok (x :: r) = true -> forallb (fstep_okp parse_float regex_ok) (x :: r) = true ->
    forallb fstep_ok (y :: s) = true -> forallb (fstep_okp parse_float regex_ok) (y :: s) = true ->
    Forall2 same_step (x :: r) (y :: s) -> small doc -> ok st ->
    exists t1 t2, parse (fchain_path (x :: r)) = ParseOk t1 /\ parse (fchain_path (y :: s)) = ParseOk t2 /\
      match fst (eval_run t1 doc st) with
      | OOk rs => fst (eval_run t2 doc st) = OOk rs
      | OErr _ => exists e, fst (eval_run t2 doc st) = OErr e
      | OPanic _ => False
      end.
  Proof.
    intros H1 P1 H2 P2 Hsame Hd Hok.
    destruct (fchain_retrieval cfg parse_float regex_ok ffun afun regex_match ffun_small afun_small x r doc st H1 P1 Hd Hok) as (t1 & T1 & R1).
    destruct (fchain_retrieval cfg parse_float regex_ok ffun afun regex_match ffun_small afun_small y s doc st H2 P2 Hd Hok) as (t2 & T2 & R2).
    exists t1, t2. split; [exact T1|]. split; [exact T2|].
    rewrite <- (nav_allf_same (x :: r) (y :: s) doc ([], doc) Hsame) in R2.
    destruct (nav_allf doc (x :: r) ([], doc)) as [|a l].
    - destruct R1 as [e1 E1]. rewrite E1. exact R2.
    - rewrite R1. exact R2.
  Qed.

  (* ---------- spellings that mean the same ---------- *)
  Lemma same_plain a b : (forall lv, nav1 a lv = nav1 b lv) -> same_rstep (RPlain a) (RPlain b).
  Proof. intros H lv. exact (H lv). Qed.
  Lemma same_rec a b : (forall lv, nav1 a lv = nav1 b lv) -> same_rstep (RRec a) (RRec b).
  Proof. intros H lv. cbn [nav1r]. apply flat_map_ext'. intros cu. apply H. Qed.
  Lemma same_fs a b : same_rstep a b -> same_step (FS a) (FS b).
  Proof. intros H root lv. exact (H lv). Qed.

  (* .name, ['name'], ["name"] *)
  Lemma name_spellings q k lv : nav1 (SDot k) lv = nav1 (SBr q k) lv.
  Proof. reflexivity. Qed.
  Lemma quote_spellings q q' k lv : nav1 (SBr q k) lv = nav1 (SBr q' k) lv.
  Proof. reflexivity. Qed.
  (* .* and [*] *)
  Lemma wildcard_spellings b b' lv : nav1 (SWild b) lv = nav1 (SWild b') lv.
  Proof. reflexivity. Qed.
  (* an index written differently: only the number counts (a plus sign, leading zeros: Prop_C18's atoi lemmas) *)
  Lemma index_spellings t t' lv : atoi t = atoi t' -> nav1 (SIdx t) lv = nav1 (SIdx t') lv.
  Proof. intros E. unfold nav1, nav, step_loc, step_idx. rewrite E. reflexivity. Qed.
  Lemma bopt_spellings t t' : atoi t = atoi t' -> (t = [] <-> t' = []) -> bopt t = bopt t'.
  Proof.
    intros E Hn. unfold bopt, step_idx. destruct t as [|x r]; destruct t' as [|x' r']; try reflexivity.
    - exfalso. assert (H : x' :: r' = []) by (apply Hn; reflexivity). discriminate H.
    - exfalso. assert (H : x :: r = []) by (apply Hn; reflexivity). discriminate H.
    - rewrite E. reflexivity.
  Qed.
  Lemma slice_spellings a b c a' b' c' lv : bopt a = bopt a' -> bopt b = bopt b' ->
    match c with Some t => bopt t | None => None end = match c' with Some t => bopt t | None => None end ->
    nav1 (SSlice a b c) lv = nav1 (SSlice a' b' c') lv.
  Proof. intros Ea Eb Ec. unfold nav1. rewrite Ea, Eb, Ec. reflexivity. Qed.

  (* a filter whose inner steps are respelled; a comparison whose literal is another spelling of the same number *)
  Lemma reaches_same i j : Forall2 same_rstep i j -> forall v, reaches i v = reaches j v.
  Proof. intros H v. unfold reaches. rewrite (nav_all_same i j ([], v) H). reflexivity. Qed.
  Lemma reach1_same i j : Forall2 same_rstep i j -> forall v, reach1 i v = reach1 j v.
  Proof. intros H v. unfold reach1. rewrite (nav_all_same i j ([], v) H). reflexivity. Qed.
  Lemma navp_ext h h' lv : (forall v, h v = h' v) -> navp h lv = navp h' lv.
  Proof.
    intros H. unfold navp. destruct (snd lv); try reflexivity.
    - apply flat_map_ext'. intros iv. rewrite H. reflexivity.
    - apply flat_map_ext'. intros k. destruct (lookup _ k); [rewrite H|]; reflexivity.
  Qed.
  Lemma filter_spellings i j : Forall2 same_rstep i j -> same_step (FE i) (FE j).
  Proof.
    intros H root lv. cbn [FiltChainAddr.nav1f]. unfold navf. destruct (snd lv); try reflexivity.
    - apply flat_map_ext'. intros iv. rewrite (reaches_same i j H). reflexivity.
    - apply flat_map_ext'. intros k. destruct (lookup _ k); [rewrite (reaches_same i j H)|]; reflexivity.
  Qed.
  Lemma negation_spellings i j : Forall2 same_rstep i j -> same_step (FN i) (FN j).
  Proof. intros H root lv. cbn [FiltChainAddr.nav1f]. apply navp_ext. intros v. rewrite (reaches_same i j H). reflexivity. Qed.
  Lemma comparison_spellings i j o lit lit' : Forall2 same_rstep i j -> lit_num parse_float lit = lit_num parse_float lit' ->
    same_step (FC i o lit) (FC j o lit').
  Proof.
    intros H E root lv. cbn [FiltChainAddr.nav1f]. rewrite E. apply navp_ext. intros v. unfold ctest. rewrite (reach1_same i j H). reflexivity.
  Qed.
  Lemma rec_filter_spellings x y : same_step x y -> same_step (FR x) (FR y).
  Proof. intros H root lv. cbn [FiltChainAddr.nav1f]. apply flat_map_ext'. intros cu. apply H. Qed.
  (* blanks around the operator of a comparison change nothing *)
  Lemma spaced_comparison_spellings i g0 a o b g1 lit : same_step (FC i o lit) (FCS i g0 a o b g1 lit).
  Proof. intros root lv. reflexivity. Qed.
  (* blanks inside an existence filter or its negation change nothing *)
  Lemma spaced_filter_spellings i g0 gn g1 : same_step (FE i) (FES false g0 gn i g1) /\ same_step (FN i) (FES true g0 gn i g1).
  Proof. split; intros root lv; reflexivity. Qed.
  (* blanks inside a query in disjunctive form — after `?(`, `!`, around operators, after every basic query, `&&` and `||` — change nothing *)
  Lemma spaced_query_spellings g0 d : same_step (FQ (unspace_dnf d)) (FQS g0 d).
  Proof. intros root lv. reflexivity. Qed.
  (* the literal on the left: `1<@.a` means `@.a>1` (the parser exchanges the operands and mirrors an ordering) *)
  Lemma literal_left_spellings i o lit : same_step (FQ [[BC i o lit]]) (FQ [[BCL lit (mirror_op o) i]]).
  Proof. intros root lv. cbn [FiltChainAddr.nav1f]. apply navp_ext. intros v. unfold QueryAddr.dnf_test. cbn [existsb forallb QueryAddr.bq_test]. destruct o; reflexivity. Qed.
  Lemma typed_literal_left_spellings i ne l : same_step (FQ [[BL i ne l]]) (FQ [[BLL l ne i]]).
  Proof. intros root lv. reflexivity. Qed.
  (* a `$` path on the left: `$.x<@.a` means `@.a>$.x`, `$.x==@.a` means `@.a==$.x` *)
  Lemma root_left_spellings i o j : match o with OLt | OLe | OGt | OGe => true | _ => false end = true ->
    same_step (FQ [[BCR i o j]]) (FQ [[BRL j (mirror_op o) i]]).
  Proof.
    intros Ho root lv. cbn [FiltChainAddr.nav1f]. apply navp_ext. intros v. unfold QueryAddr.dnf_test. cbn [existsb forallb QueryAddr.bq_test].
    destruct o; try discriminate Ho; reflexivity.
  Qed.
  Lemma root_left_eq_spellings i ne j : same_step (FQ [[BPQ i ne j]]) (FQ [[BRL j (if ne then ONe else OEq) i]]).
  Proof. intros root lv. cbn [FiltChainAddr.nav1f]. apply navp_ext. intros v. unfold QueryAddr.dnf_test. cbn [existsb forallb QueryAddr.bq_test]. destruct ne; reflexivity. Qed.
  (* parentheses around a sub-query change nothing *)
  Lemma parenthesised_query_spellings t : same_step (FT t) (FT (TP t)).
  Proof. intros root lv. reflexivity. Qed.
End SpellText.
