(* QueryAddr.v — what a filter over a query in disjunctive form selects, from the path text: the members for which some
   conjunction has all its basic queries true — an existence test is true when its steps reach something, its negation when
   they reach nothing, a comparison when the number reached stands in the relation (!= : when not ==). *)
From JP Require Import Peg Grammar Slice Text Tree Actions Json Eval WF Spec SortFacts EvalInv1 EvalInv4 EvalTop EndToEnd Codec KeyDefs KeyParse IdxParse SliceParse UnionParse WildParse RecParse ChainParse SpacePath FunParse AggParse FiltParse CmpParse NegFilt LitParse RootOp RegexOp LitLeft QueryParse QueryTree ChainAddr FunAddr AggAddr FiltAddr CmpAddr SpecRootFree.
From Coq Require Import Lia.
Open Scope list_scope.

Lemma andb_lists_map {A} (f g : A -> bool) l : andb_lists (map f l) (map g l) = map (fun v => f v && g v) l.
Proof. induction l as [|x r IH]; [reflexivity|]. cbn [map andb_lists]. rewrite IH. reflexivity. Qed.
Lemma orb_lists_map {A} (f g : A -> bool) l : orb_lists (map f l) (map g l) = map (fun v => f v || g v) l.
Proof. induction l as [|x r IH]; [reflexivity|]. cbn [map orb_lists]. rewrite IH. reflexivity. Qed.
Lemma fold_and {A} (f : A -> bool) l a0 : fold_left (fun a x => a && f x) l a0 = a0 && forallb f l.
Proof. revert a0. induction l as [|x r IH]; intros a0; cbn [fold_left forallb]; [rewrite andb_true_r; reflexivity|]. rewrite IH, andb_assoc. reflexivity. Qed.
Lemma fold_or {A} (f : A -> bool) l a0 : fold_left (fun a x => a || f x) l a0 = a0 || existsb f l.
Proof. revert a0. induction l as [|x r IH]; intros a0; cbn [fold_left existsb]; [rewrite orb_false_r; reflexivity|]. rewrite IH, orb_assoc. reflexivity. Qed.

(* does the value a member offers equal the literal? (same JSON type and same content; a number is never a string, ...) *)
Definition lit_test (v : value) (e : entry) : bool :=
  match e, v with
  | Some (VStr s), VStr t => String.eqb s t
  | Some (VBool p), VBool q => Bool.eqb p q
  | Some VNull, VNull => true
  | _, _ => false
  end.

(* what a `$` operand offers: nothing, the single value its steps reach from the document, or `true` when they reach several *)
Definition root_entry (j : list rstep) (root : value) : entry :=
  match nav_all j ([], root) with [] => None | [lv] => Some (snd lv) | _ => Some (VBool true) end.

Section QueryAddr.
  Variable cfg : config.
  Variable parse_float : string -> option num.
  Variable ffun : string -> value -> option value.
  Variable afun : string -> list value -> option value.
  Variable regex_match : string -> string -> bool.
  Hypothesis ffun_small : forall f v w, small v -> ffun f v = Some w -> small w.
  Hypothesis afun_small : forall f l w, Forall small l -> afun f l = Some w -> small w.
  Notation sp := (sp ffun afun regex_match).
  Notation holds := (holds ffun afun regex_match).

  (* @ inner =~ /body/: the value is a string and the regular expression (regexp.MatchString, a parameter) matches it *)
  Definition rx_test (re : string) (e : entry) : bool := match e with Some (VStr s) => regex_match re s | _ => false end.
  (* @ inner == $ steps: deep equality with the value the `$` path offers; when it offers nothing, the library's both-absent
     rule — every member is kept exactly when no member has the inner value either (the verdict looks at all the members) *)
  Definition peq_test (i j : list rstep) (root : value) (vals : list value) (v : value) : bool :=
    match root_entry j root with
    | Some w => match reach1 i v with Some a => deep_eq a w | None => false end
    | None => negb (existsb (fun x => negb (isE (reach1 i x))) vals)
    end.
  Definition bq_test (root : value) (vals : list value) (b : bq) (v : value) : bool :=
    match b with
    | BE i => reaches i v
    | BN i => negb (reaches i v)
    | BC i o lit => ctest i o (qnum parse_float lit) v
    | BL i ne l => if ne then negb (lit_test (litv_value l) (reach1 i v)) else lit_test (litv_value l) (reach1 i v)
    | BRE j => reaches j root
    | BRN j => negb (reaches j root)
    | BCR i o j => match num_of_entry (root_entry j root) with
                   | Some f => entry_test o f (reach1 i v)
                   | None => false
                   end
    | BPQ i ne j => if ne then negb (peq_test i j root vals v) else peq_test i j root vals v
    | BX i body => rx_test (text_of body) (reach1 i v)
    | BCL lit o i => ctest i (mirror_op o) (qnum parse_float lit) v
    | BLL l ne i => if ne then negb (lit_test (litv_value l) (reach1 i v)) else lit_test (litv_value l) (reach1 i v)
    | BRL j o i => match o with
                   | OEq => peq_test i j root vals v
                   | ONe => negb (peq_test i j root vals v)
                   | _ => match num_of_entry (root_entry j root) with
                          | Some f => entry_test (mirror_op o) f (reach1 i v)
                          | None => false
                          end
                   end
    end.
  Definition dnf_test (root : value) (vals : list value) (d : list (list bq)) (v : value) : bool :=
    existsb (fun c => forallb (fun b => bq_test root vals b v) c) d.

  (* a query with parenthesised sub-queries: the parentheses only group *)
  Fixpoint qt_test (root : value) (vals : list value) (t : qt) (v : value) : bool :=
    match t with
    | TB b => bq_test root vals b v
    | TP q => qt_test root vals q v
    | TA l r => qt_test root vals l v && qt_test root vals r v
    | TO l r => qt_test root vals l v || qt_test root vals r v
    end.

  Lemma bq_ok_steps b : bq_ok b = true -> forallb rstep_ok (match b with BE i | BN i | BC i _ _ | BL i _ _ | BRE i | BRN i | BCR i _ _ | BPQ i _ _ | BX i _ | BCL _ _ i | BLL _ _ i | BRL _ _ i => i end) = true.
  Proof.
    destruct b as [i|i|i o lit|i ne l|j|j|i o j|i ne j|i body|lit o i|l ne i|j o i]; cbn [bq_ok]; intros H; try exact H.
    - apply andb_true_iff in H; destruct H as [H _]; apply andb_true_iff in H; exact (proj1 H).
    - apply andb_true_iff in H; destruct H as [H _]; apply andb_true_iff in H; exact (proj1 H).
    - apply andb_true_iff in H; destruct H as [H _]. apply andb_true_iff in H; destruct H as [H _]. apply andb_true_iff in H; exact (proj1 H).
    - apply andb_true_iff in H; destruct H as [H _]; apply andb_true_iff in H; exact (proj1 H).
    - apply andb_true_iff in H; destruct H as [H _]; apply andb_true_iff in H; exact (proj1 H).
    - apply andb_true_iff in H; destruct H as [H _]; apply andb_true_iff in H; exact (proj1 H).
    - apply andb_true_iff in H; destruct H as [H _]; apply andb_true_iff in H; exact (proj1 H).
    - apply andb_true_iff in H; destruct H as [H _]; apply andb_true_iff in H; exact (proj1 H).
  Qed.

  (* ---------- the `$` operand ---------- *)
  Notation accf := (fun b : basic => accessor b = false).
  Lemma root_operand_tree_acc x r : exists b1 b2 nx,
    clear_acc (delete_root (root_inner cfg (x :: r))) = seg x b1 b2 nx /\ shaped (kinds_of r) nx /\ accessor b2 = false /\ allb accf nx.
  Proof.
    unfold root_inner. pose proof (pres_plain cfg (x :: r)) as Hp.
    assert (Hk : map fst (cl (pres cfg (x :: r))) = kinds_of (x :: r)) by apply kinds_cl.
    destruct (pres cfg (x :: r)) as [|y l] eqn:Ep.
    { exfalso. unfold pres in Ep. cbn [flat_map] in Ep. destruct x as [s|s]; discriminate Ep. }
    inversion Hp as [|? ? Hy Hl]; subst.
    assert (Ev : exists by0, clear_acc (delete_root (update_vg (Node KRoot (root_basic cfg) (link (y :: l))))) = Node (fst y) by0 (link (cl l)) /\
                 accessor by0 = false).
    { unfold update_vg. cbn [chain_vg]. destruct (vgroup (root_basic cfg) || _).
      - cbn [set_node_vg link delete_root vgroup set_vgroup]. eexists. rewrite (clear_link (fst y) _ l (proj1 Hy) Hl). split; reflexivity.
      - cbn [link delete_root root_basic mk_basic vgroup]. eexists. rewrite (clear_link (fst y) _ l (proj1 Hy) Hl). split; reflexivity. }
    destruct Ev as (by0 & Ev & Hacc). rewrite Ev.
    assert (Hsh : shaped (kinds_of (x :: r)) (OSome (Node (fst y) by0 (link (cl l))))).
    { rewrite <- Hk. cbn [cl map fst shaped]. split; [reflexivity|]. apply (shaped_link (cl l)). }
    assert (Hall : allb accf (OSome (Node (fst y) by0 (link (cl l))))).
    { cbn [allb]. split; [exact Hacc|]. apply allb_link. unfold cl. apply Forall_forall. intros kb Hin. apply in_map_iff in Hin. destruct Hin as [kb0 [E _]]. subst kb. reflexivity. }
    unfold kinds_of in Hsh. cbn [flat_map] in Hsh. destruct (shaped_seg x _ _ Hsh) as (b1 & b2 & nx & E & Hn). inversion E as [E'].
    rewrite E' in Hall. destruct (allb_seg accf x b1 b2 nx Hall) as [Hb2 Hnx].
    exists b1, b2, nx. repeat split; assumption.
  Qed.

  Lemma operand_root j root vals : forallb rstep_ok j = true -> small root ->
    Spec.operand ffun afun regex_match (root_pq cfg j) root vals = [root_entry j root].
  Proof.
    intros Hs Hsm. unfold root_pq.
    change (Spec.operand ffun afun regex_match (PqRoot ?n) root vals) with
      (match sp n root (Some [], root) with [] => [None] | [x] => [Some (res_value (Spec.wrap x))] | _ => [Some (VBool true)] end).
    destruct j as [|x r].
    - unfold root_inner, update_vg. cbn. reflexivity.
    - destruct (root_operand_tree_acc x r) as (b1 & b2 & nx & E & Hn & Hb2 & Hnx). rewrite E.
      destruct (sp_shaped_P ffun afun regex_match accf r x b1 b2 nx Hn Hs Hb2 Hnx) as (B & HB & Hsp).
      pose proof (Hsp root [] root Hsm) as Hq.
      match goal with |- context [Spec.sp ffun afun regex_match ?n root ?c] =>
        replace (Spec.sp ffun afun regex_match n root c) with (map (fun lv : list pstep * value => (B, true, (Some (fst lv), snd lv))) (nav_all (x :: r) ([], root))) by (symmetry; exact Hq) end.
      unfold root_entry.
      destruct (nav_all (x :: r) ([], root)) as [|a [|a' l]]; cbn [map]; try reflexivity.
      cbn [Spec.wrap]. rewrite HB. reflexivity.
  Qed.

  Lemma reaches_root_entry j root : negb (isE (root_entry j root)) = reaches j root.
  Proof. unfold root_entry, reaches. destruct (nav_all j ([], root)) as [|a [|a' l]]; reflexivity. Qed.

  Lemma holds_root_exists j root vals : forallb rstep_ok j = true -> small root ->
    holds (QParam (root_pq cfg j)) root vals = map (fun _ => reaches j root) vals.
  Proof.
    intros Hs Hsm.
    change (holds (QParam ?p) root vals) with
      (let es := Spec.operand ffun afun regex_match p root vals in
       if Nat.eqb (List.length es) (List.length vals) then map (fun x => negb (isE x)) es
       else repeat (negb (isE (hd None es))) (List.length vals)).
    cbv zeta. rewrite (operand_root j root vals Hs Hsm). cbn [List.length hd map]. rewrite reaches_root_entry.
    destruct vals as [|v [|v' vals]]; [reflexivity|reflexivity|].
    change (Nat.eqb 1 (List.length (v :: v' :: vals))) with false. cbv iota.
    generalize (v :: v' :: vals). intros l. induction l as [|z l IH]; [reflexivity|]. cbn [List.length repeat map]. rewrite IH. reflexivity.
  Qed.

  (* a comparison against what a `$` path offers: the number it reaches, when it reaches exactly one value and that is a number *)
  Lemma cmp_holds_numeric_r c e es : numc c ->
    Spec.cmp_holds regex_match c (List.length es) (if existsb (fun x => negb (isE x)) es then es else [None]) e =
    match num_of_entry e with Some f => map (base_test c f) es | None => repeat false (List.length es) end.
  Proof.
    intros Hc. destruct (num_of_entry e) as [f|] eqn:En.
    - rewrite <- (cmp_holds_numeric regex_match c f es Hc). unfold Spec.cmp_holds. cbv zeta.
      assert (Ev : validate_to c e = validate_to c (Some (VNum f)) /\ is_valid c e = is_valid c (Some (VNum f))).
      { unfold validate_to, is_valid. destruct e as [v|]; [|discriminate En]. destruct v; try discriminate En; cbn [num_of_entry] in En; inversion En; subst;
          destruct Hc as [E|[E|[E|[E|E]]]]; subst c; split; reflexivity. }
      destruct Ev as [Ev1 Ev2]. rewrite Ev1, Ev2. reflexivity.
    - unfold Spec.cmp_holds. cbv zeta.
      assert (Ev : is_valid c e = false).
      { rewrite (valid_numeric c e Hc), En. reflexivity. }
      rewrite Ev, andb_false_r.
      assert (Hnot : match c with CDeepEq => False | _ => True end) by (destruct Hc as [E|[E|[E|[E|E]]]]; subst c; exact I).
      destruct (Bool.eqb _ false); destruct c; try contradiction; reflexivity.
  Qed.

  Lemma holds_root_cmp i o j root vals : forallb rstep_ok i = true -> forallb rstep_ok j = true ->
    match o with OLt | OLe | OGt | OGe => true | _ => false end = true -> small root -> Forall small vals ->
    holds (QCmp (cmp_left cfg i) (CP (root_pq cfg j) true) (match o with OLt => CLt | OLe => CLe | OGt => CGt | _ => CGe end)) root vals =
    map (fun v => match num_of_entry (root_entry j root) with Some f => entry_test o f (reach1 i v) | None => false end) vals.
  Proof.
    intros Hi Hj Ho Hsm Hv. set (c := match o with OLt => CLt | OLe => CLe | OGt => CGt | _ => CGe end).
    assert (Hc : numc c) by (unfold c, numc; destruct o; try discriminate Ho; auto).
    unfold cmp_left, filter_pq.
    change (holds (QCmp (CP (PqCur ?n) false) (CP ?rp true) c) root vals) with
      (Spec.cmp_holds regex_match c (List.length vals)
         (let es0 := map (fun v => match sp n root (None, v) with x :: _ => Some (res_value (Spec.wrap x)) | [] => None end) vals in
          if existsb (fun x => negb (isE x)) es0 then es0 else [None]) (hd None (Spec.operand ffun afun regex_match rp root vals))).
    cbv zeta. rewrite (operand_root j root vals Hj Hsm). cbn [hd].
    assert (E0 : map (fun v => match sp (clear_acc (delete_root (inner_root cfg i))) root (None, v) with x :: _ => Some (res_value (Spec.wrap x)) | [] => None end) vals
                 = map (reach1 i) vals).
    { apply map_ext_in. intros v Hin. rewrite Forall_forall in Hv. apply (operand_entry cfg ffun afun regex_match i root v Hi (Hv v Hin)). }
    rewrite E0. rewrite <- (map_length (reach1 i) vals). rewrite (cmp_holds_numeric_r c _ _ Hc).
    destruct (num_of_entry (root_entry j root)) as [f|].
    - rewrite map_map. apply map_ext. intros v. unfold base_test, entry_test, c. destruct (num_of_entry (reach1 i v)); destruct o; try discriminate Ho; reflexivity.
    - rewrite map_length. clear. induction vals as [|z l IH]; [reflexivity|]. cbn [List.length repeat map]. rewrite IH. reflexivity.
  Qed.

  (* == against a string, boolean or null literal: validate-then-compare over all members is a map of lit_test *)
  Lemma keeps_direct l e : cmp_keeps regex_match (CDirectEq (litv_vd l)) (validate_to (CDirectEq (litv_vd l)) (Some (litv_value l))) (validate_to (CDirectEq (litv_vd l)) e)
                           = lit_test (litv_value l) e.
  Proof.
    unfold cmp_keeps, validate_to. destruct l as [q body|b sp|sp]; cbn [litv_vd litv_value validator_of validate_entry];
      (destruct e as [v|]; [destruct v|]; cbn [validate_entry cmp_entry iface_eq fst lit_test]; try reflexivity).
    - destruct (String.eqb s (text_of (unescape_cps body))); reflexivity.
    - destruct (Bool.eqb b0 b); reflexivity.
  Qed.
  Lemma valid_direct l e : is_valid (CDirectEq (litv_vd l)) e = match e, litv_value l with Some (VStr _), VStr _ | Some (VBool _), VBool _ | Some VNull, VNull => true | _, _ => false end.
  Proof. unfold is_valid. destruct l as [q body|b sp|sp]; cbn [litv_vd litv_value validator_of]; (destruct e as [v|]; [destruct v|]); reflexivity. Qed.
  Lemma lit_test_valid l e : is_valid (CDirectEq (litv_vd l)) e = false -> lit_test (litv_value l) e = false.
  Proof. rewrite valid_direct. destruct l as [q body|b sp|sp]; cbn [litv_value]; (destruct e as [v|]; [destruct v|]); cbn [lit_test]; intros H; try reflexivity; discriminate H. Qed.

  Lemma cmp_holds_direct l es :
    Spec.cmp_holds regex_match (CDirectEq (litv_vd l)) (List.length es) (if existsb (fun x => negb (isE x)) es then es else [None]) (Some (litv_value l))
    = map (lit_test (litv_value l)) es.
  Proof.
    unfold Spec.cmp_holds. cbv zeta.
    assert (Hrf : is_valid (CDirectEq (litv_vd l)) (Some (litv_value l)) = true) by (destruct l; reflexivity).
    rewrite Hrf, andb_true_r.
    assert (Hnone : forall l0, existsb (is_valid (CDirectEq (litv_vd l))) l0 = false -> map (lit_test (litv_value l)) l0 = repeat false (List.length l0)).
    { induction l0 as [|e l0 IH]; intros H; [reflexivity|]. cbn [existsb] in H. apply orb_false_iff in H. destruct H as [H1 H2].
      cbn [map List.length repeat]. rewrite (IH H2), (lit_test_valid l e H1). reflexivity. }
    destruct (existsb (fun x => negb (isE x)) es) eqn:Ee.
    - destruct (existsb (is_valid (CDirectEq (litv_vd l))) es) eqn:Ev.
      + rewrite Nat.eqb_refl, map_map. apply map_ext. intros e. apply keeps_direct.
      + cbn [Bool.eqb]. rewrite (Hnone es Ev). reflexivity.
    - assert (Ev : existsb (is_valid (CDirectEq (litv_vd l))) [None] = false) by (destruct l; reflexivity).
      rewrite Ev. cbn [Bool.eqb].
      assert (Hall : map (lit_test (litv_value l)) es = repeat false (List.length es)).
      { clear -Ee. induction es as [|e es IH]; [reflexivity|]. cbn [existsb] in Ee. apply orb_false_iff in Ee. destruct Ee as [E1 E2].
        cbn [map List.length repeat]. rewrite (IH E2). destruct e; [discriminate E1|destruct (litv_value l); reflexivity]. }
      rewrite Hall. reflexivity.
  Qed.

  Lemma holds_lit_cmp i l root vals : forallb rstep_ok i = true -> Forall small vals ->
    holds (lit_cmp cfg i l) root vals = map (fun v => lit_test (litv_value l) (reach1 i v)) vals.
  Proof.
    intros Hs Hv. unfold lit_cmp, cmp_left, filter_pq.
    change (holds (QCmp (CP (PqCur ?n) false) (CP (PqLit ?lv) true) ?c) root vals) with
      (Spec.cmp_holds regex_match c (List.length vals)
         (let es0 := map (fun v => match sp n root (None, v) with x :: _ => Some (res_value (Spec.wrap x)) | [] => None end) vals in
          if existsb (fun x => negb (isE x)) es0 then es0 else [None]) (Some lv)).
    cbv zeta.
    assert (E0 : map (fun v => match sp (clear_acc (delete_root (inner_root cfg i))) root (None, v) with x :: _ => Some (res_value (Spec.wrap x)) | [] => None end) vals
                 = map (reach1 i) vals).
    { apply map_ext_in. intros v Hin. rewrite Forall_forall in Hv. apply (operand_entry cfg ffun afun regex_match i root v Hs (Hv v Hin)). }
    rewrite E0. rewrite <- (map_length (reach1 i) vals). rewrite (cmp_holds_direct l), map_map. reflexivity.
  Qed.

  Lemma cmp_holds_deep e es :
    Spec.cmp_holds regex_match CDeepEq (List.length es) (if existsb (fun x => negb (isE x)) es then es else [None]) e =
    map (fun x => match e with
                  | Some w => match x with Some a => deep_eq a w | None => false end
                  | None => negb (existsb (fun x => negb (isE x)) es)
                  end) es.
  Proof.
    unfold Spec.cmp_holds. cbv zeta.
    assert (Hv : forall x, validate_to CDeepEq x = x) by reflexivity.
    assert (Hnone : existsb (fun x => negb (isE x)) es = false -> forall x, In x es -> x = None).
    { intros Ee x Hin. destruct x as [a|]; [|reflexivity]. exfalso.
      assert (existsb (fun x => negb (isE x)) es = true) by (apply existsb_exists; exists (Some a); split; [exact Hin|reflexivity]). congruence. }
    destruct (existsb (fun x => negb (isE x)) es) eqn:Ee.
    - assert (Hlf : existsb (is_valid CDeepEq) es = true) by exact Ee. rewrite Hlf.
      destruct e as [w|].
      + change (is_valid CDeepEq (Some w)) with true. cbn [andb]. rewrite Nat.eqb_refl, map_map. apply map_ext. intros [a|]; [|reflexivity].
        unfold cmp_keeps, validate_to. cbn [validator_of cmp_entry fst]. destruct (deep_eq a w); reflexivity.
      + change (is_valid CDeepEq None) with false. cbn [andb Bool.eqb negb].
        clear. induction es as [|z l IH]; [reflexivity|]. cbn [List.length repeat map]. rewrite IH. reflexivity.
    - change (existsb (is_valid CDeepEq) [None]) with false. cbn [andb].
      destruct e as [w|].
      + change (is_valid CDeepEq (Some w)) with true. cbn [Bool.eqb].
        pose proof (Hnone eq_refl) as Hn. clear -Hn. induction es as [|z l IH]; [reflexivity|]. cbn [List.length repeat map].
        rewrite (Hn z (or_introl eq_refl)). rewrite IH; [reflexivity|]. intros x Hx. apply Hn. right. exact Hx.
      + change (is_valid CDeepEq None) with false. cbn [Bool.eqb negb].
        clear. induction es as [|z l IH]; [reflexivity|]. cbn [List.length repeat map]. rewrite IH. reflexivity.
  Qed.

  Lemma holds_root_peq i j root vals : forallb rstep_ok i = true -> forallb rstep_ok j = true -> small root -> Forall small vals ->
    holds (QCmp (cmp_left cfg i) (CP (root_pq cfg j) true) CDeepEq) root vals = map (peq_test i j root vals) vals.
  Proof.
    intros Hi Hj Hsm Hv. unfold cmp_left, filter_pq.
    change (holds (QCmp (CP (PqCur ?n) false) (CP ?rp true) CDeepEq) root vals) with
      (Spec.cmp_holds regex_match CDeepEq (List.length vals)
         (let es0 := map (fun v => match sp n root (None, v) with x :: _ => Some (res_value (Spec.wrap x)) | [] => None end) vals in
          if existsb (fun x => negb (isE x)) es0 then es0 else [None]) (hd None (Spec.operand ffun afun regex_match rp root vals))).
    cbv zeta. rewrite (operand_root j root vals Hj Hsm). cbn [hd].
    assert (E0 : map (fun v => match sp (clear_acc (delete_root (inner_root cfg i))) root (None, v) with x :: _ => Some (res_value (Spec.wrap x)) | [] => None end) vals
                 = map (reach1 i) vals).
    { apply map_ext_in. intros v Hin. rewrite Forall_forall in Hv. apply (operand_entry cfg ffun afun regex_match i root v Hi (Hv v Hin)). }
    rewrite E0. rewrite <- (map_length (reach1 i) vals). rewrite (cmp_holds_deep _ _), map_map.
    apply map_ext. intros v. unfold peq_test. destruct (root_entry j root) as [w|]; [reflexivity|]. f_equal. clear. induction vals as [|z l IH]; [reflexivity|]. cbn [map existsb]. rewrite IH. reflexivity.
  Qed.

  Lemma cmp_holds_regex re es :
    Spec.cmp_holds regex_match (CRegex re) (List.length es) (if existsb (fun x => negb (isE x)) es then es else [None]) (Some (VStr "regex")) =
    map (rx_test re) es.
  Proof.
    unfold Spec.cmp_holds. cbv zeta.
    change (is_valid (CRegex re) (Some (VStr "regex"))) with true. rewrite andb_true_r.
    assert (Hk : forall e, cmp_keeps regex_match (CRegex re) (validate_to (CRegex re) (Some (VStr "regex"))) (validate_to (CRegex re) e) = rx_test re e).
    { intros e. unfold cmp_keeps, validate_to. cbn [validator_of]. destruct e as [v|]; [destruct v|]; cbn [validate_entry cmp_entry fst rx_test]; try reflexivity.
      destruct (regex_match re s); reflexivity. }
    assert (Hnone : forall l0, existsb (is_valid (CRegex re)) l0 = false -> map (rx_test re) l0 = repeat false (List.length l0)).
    { induction l0 as [|e l0 IH]; intros H; [reflexivity|]. cbn [existsb] in H. apply orb_false_iff in H. destruct H as [H1 H2].
      cbn [map List.length repeat]. rewrite (IH H2). f_equal. unfold is_valid in H1. cbn [validator_of] in H1.
      destruct e as [v|]; [destruct v|]; try reflexivity; discriminate H1. }
    destruct (existsb (fun x => negb (isE x)) es) eqn:Ee.
    - destruct (existsb (is_valid (CRegex re)) es) eqn:Ev.
      + rewrite Nat.eqb_refl, map_map. apply map_ext. exact Hk.
      + cbn [Bool.eqb]. rewrite (Hnone es Ev). reflexivity.
    - change (existsb (is_valid (CRegex re)) [None]) with false. cbn [Bool.eqb].
      assert (Hall : map (rx_test re) es = repeat false (List.length es)).
      { clear -Ee. induction es as [|e es IH]; [reflexivity|]. cbn [existsb] in Ee. apply orb_false_iff in Ee. destruct Ee as [E1 E2].
        cbn [map List.length repeat]. rewrite (IH E2). destruct e; [discriminate E1|reflexivity]. }
      rewrite Hall. reflexivity.
  Qed.

  Lemma holds_rx i body root vals : forallb rstep_ok i = true -> Forall small vals ->
    holds (rx_query cfg i body) root vals = map (fun v => rx_test (text_of body) (reach1 i v)) vals.
  Proof.
    intros Hs Hv. unfold rx_query, cmp_left, filter_pq.
    change (holds (QCmp (CP (PqCur ?n) false) (CP (PqLit ?lv) true) ?c) root vals) with
      (Spec.cmp_holds regex_match c (List.length vals)
         (let es0 := map (fun v => match sp n root (None, v) with x :: _ => Some (res_value (Spec.wrap x)) | [] => None end) vals in
          if existsb (fun x => negb (isE x)) es0 then es0 else [None]) (Some lv)).
    cbv zeta.
    assert (E0 : map (fun v => match sp (clear_acc (delete_root (inner_root cfg i))) root (None, v) with x :: _ => Some (res_value (Spec.wrap x)) | [] => None end) vals
                 = map (reach1 i) vals).
    { apply map_ext_in. intros v Hin. rewrite Forall_forall in Hv. apply (operand_entry cfg ffun afun regex_match i root v Hs (Hv v Hin)). }
    rewrite E0. rewrite <- (map_length (reach1 i) vals). rewrite (cmp_holds_regex _ _), map_map. reflexivity.
  Qed.

  Lemma holds_bq b root vals : bq_ok b = true -> small root -> Forall small vals ->
    holds (bq_query cfg parse_float b) root vals = map (bq_test root vals b) vals.
  Proof.
    intros Hb Hr Hv. pose proof (bq_ok_steps b Hb) as Hs. destruct b as [i|i|i o lit|i ne l|j|j|i o j|i ne j|i body|lit o i|l ne i|j o i]; cbn [bq_query bq_test].
    - apply (holds_exists cfg ffun afun regex_match i root vals Hs Hv).
    - change (holds (QNot ?q) root vals) with (map negb (holds q root vals)).
      rewrite (holds_exists cfg ffun afun regex_match i root vals Hs Hv), map_map. reflexivity.
    - apply (holds_cmp cfg ffun afun regex_match i o _ root vals Hs Hv).
    - destruct ne.
      + change (holds (QNot ?q) root vals) with (map negb (holds q root vals)). rewrite (holds_lit_cmp i l root vals Hs Hv), map_map. reflexivity.
      + apply (holds_lit_cmp i l root vals Hs Hv).
    - apply (holds_root_exists j root vals Hs Hr).
    - change (holds (QNot ?q) root vals) with (map negb (holds q root vals)). rewrite (holds_root_exists j root vals Hs Hr), map_map. reflexivity.
    - cbn [bq_ok] in Hb. apply andb_true_iff in Hb. destruct Hb as [Hb Ho]. apply andb_true_iff in Hb. destruct Hb as [_ Hj].
      apply andb_true_iff in Hj. destruct Hj as [Hj _].
      apply (holds_root_cmp i o j root vals Hs Hj Ho Hr Hv).
    - cbn [bq_ok] in Hb. apply andb_true_iff in Hb. destruct Hb as [_ Hj]. apply andb_true_iff in Hj. destruct Hj as [Hj _].
      cbv zeta. destruct ne.
      + change (holds (QNot ?q) root vals) with (map negb (holds q root vals)). rewrite (holds_root_peq i j root vals Hs Hj Hr Hv), map_map. reflexivity.
      + apply (holds_root_peq i j root vals Hs Hj Hr Hv).
    - apply (holds_rx i body root vals Hs Hv).
    - apply (holds_cmp cfg ffun afun regex_match i (mirror_op o) _ root vals Hs Hv).
    - destruct ne.
      + change (holds (QNot ?q) root vals) with (map negb (holds q root vals)). rewrite (holds_lit_cmp i l root vals Hs Hv), map_map. reflexivity.
      + apply (holds_lit_cmp i l root vals Hs Hv).
    - cbn [bq_ok] in Hb. apply andb_true_iff in Hb. destruct Hb as [_ Hj]. apply andb_true_iff in Hj. destruct Hj as [Hj _].
      cbv zeta. destruct o; cbn [mirror_op].
      + apply (holds_root_peq i j root vals Hs Hj Hr Hv).
      + change (holds (QNot ?q) root vals) with (map negb (holds q root vals)). rewrite (holds_root_peq i j root vals Hs Hj Hr Hv), map_map. reflexivity.
      + apply (holds_root_cmp i OGt j root vals Hs Hj eq_refl Hr Hv).
      + apply (holds_root_cmp i OGe j root vals Hs Hj eq_refl Hr Hv).
      + apply (holds_root_cmp i OLt j root vals Hs Hj eq_refl Hr Hv).
      + apply (holds_root_cmp i OLe j root vals Hs Hj eq_refl Hr Hv).
  Qed.

  Lemma holds_and_fold bs : forall q0 h0 root vals, forallb bq_ok bs = true -> small root -> Forall small vals ->
    holds q0 root vals = map h0 vals ->
    holds (fold_left (fun q x => QAnd q (bq_query cfg parse_float x)) bs q0) root vals =
    map (fun v => fold_left (fun a x => a && bq_test root vals x v) bs (h0 v)) vals.
  Proof.
    induction bs as [|x r IH]; intros q0 h0 root vals Hs Hr Hv H0; [exact H0|].
    cbn [forallb] in Hs. apply andb_true_iff in Hs. destruct Hs as [H1 H2]. cbn [fold_left].
    apply (IH (QAnd q0 (bq_query cfg parse_float x)) (fun v => h0 v && bq_test root vals x v) root vals H2 Hr Hv).
    change (holds (QAnd ?a ?b) root vals) with (andb_lists (holds a root vals) (holds b root vals)).
    rewrite H0, (holds_bq x root vals H1 Hr Hv). apply andb_lists_map.
  Qed.
  Lemma holds_conj c root vals : conj_ok c = true -> small root -> Forall small vals ->
    holds (conj_query cfg parse_float c) root vals = map (fun v => forallb (fun b => bq_test root vals b v) c) vals.
  Proof.
    intros Hc Hr Hv. destruct c as [|b bs]; [discriminate Hc|]. cbn [conj_ok forallb] in Hc. apply andb_true_iff in Hc. destruct Hc as [H1 H2].
    cbn [conj_query]. rewrite (holds_and_fold bs _ (bq_test root vals b) root vals H2 Hr Hv (holds_bq b root vals H1 Hr Hv)).
    apply map_ext. intros v. rewrite fold_and. reflexivity.
  Qed.
  Lemma holds_or_fold cs : forall q0 h0 root vals, forallb conj_ok cs = true -> small root -> Forall small vals ->
    holds q0 root vals = map h0 vals ->
    holds (fold_left (fun q x => QOr q (conj_query cfg parse_float x)) cs q0) root vals =
    map (fun v => fold_left (fun a x => a || forallb (fun b => bq_test root vals b v) x) cs (h0 v)) vals.
  Proof.
    induction cs as [|x r IH]; intros q0 h0 root vals Hs Hr Hv H0; [exact H0|].
    cbn [forallb] in Hs. apply andb_true_iff in Hs. destruct Hs as [H1 H2]. cbn [fold_left].
    apply (IH (QOr q0 (conj_query cfg parse_float x)) (fun v => h0 v || forallb (fun b => bq_test root vals b v) x) root vals H2 Hr Hv).
    change (holds (QOr ?a ?b) root vals) with (orb_lists (holds a root vals) (holds b root vals)).
    rewrite H0, (holds_conj x root vals H1 Hr Hv). apply orb_lists_map.
  Qed.
  Lemma holds_dnf d root vals : dnf_ok d = true -> small root -> Forall small vals ->
    holds (dnf_query cfg parse_float d) root vals = map (dnf_test root vals d) vals.
  Proof.
    intros Hd Hr Hv. destruct d as [|c cs]; [discriminate Hd|]. cbn [dnf_ok forallb] in Hd. apply andb_true_iff in Hd. destruct Hd as [H1 H2].
    cbn [dnf_query]. rewrite (holds_or_fold cs _ (fun v => forallb (fun b => bq_test root vals b v) c) root vals H2 Hr Hv (holds_conj c root vals H1 Hr Hv)).
    apply map_ext. intros v. rewrite fold_or. reflexivity.
  Qed.

  Lemma sp_fq d b next root p v : dnf_ok d = true -> small root -> small v ->
    sp (Node (fq_kind cfg parse_float d) b next) root (Some p, v) =
    flat_map (ChainAddr.fwd ffun afun regex_match b next root) (navp (dnf_test root (kids v) d) (p, v)).
  Proof.
    intros Hd Hr Hsm. unfold fq_kind. apply (sp_kfilter_l ffun afun regex_match _ (fun vals => dnf_test root vals d)); [|exact Hsm].
    intros vals Hv. apply holds_dnf; assumption.
  Qed.

  Lemma holds_qt t root vals : qt_leaves bq_ok t = true -> small root -> Forall small vals ->
    holds (qt_query cfg parse_float t) root vals = map (qt_test root vals t) vals.
  Proof.
    intros Hs Hr Hv. induction t as [b|q IH|l IHl r IHr|l IHl r IHr]; cbn [qt_leaves qt_query qt_test] in *.
    - apply holds_bq; assumption.
    - apply IH. exact Hs.
    - apply andb_true_iff in Hs. destruct Hs as [Sl Sr].
      change (holds (QAnd ?a ?b) root vals) with (andb_lists (holds a root vals) (holds b root vals)).
      rewrite (IHl Sl), (IHr Sr). apply andb_lists_map.
    - apply andb_true_iff in Hs. destruct Hs as [Sl Sr].
      change (holds (QOr ?a ?b) root vals) with (orb_lists (holds a root vals) (holds b root vals)).
      rewrite (IHl Sl), (IHr Sr). apply orb_lists_map.
  Qed.
  Lemma sp_ft t b next root p v : qt_leaves bq_ok t = true -> small root -> small v ->
    sp (Node (ft_kind cfg parse_float t) b next) root (Some p, v) =
    flat_map (ChainAddr.fwd ffun afun regex_match b next root) (navp (qt_test root (kids v) t) (p, v)).
  Proof.
    intros Hd Hr Hsm. unfold ft_kind. apply (sp_kfilter_l ffun afun regex_match _ (fun vals => qt_test root vals t)); [|exact Hsm].
    intros vals Hv. apply holds_qt; assumption.
  Qed.
End QueryAddr.
