(* QueryAddr.v — what a filter over a query in disjunctive form selects, from the path text: the members for which some
   conjunction has all its basic queries true — an existence test is true when its steps reach something, its negation when
   they reach nothing, a comparison when the number reached stands in the relation (!= : when not ==). *)
From JP Require Import Peg Grammar Slice Text Tree Actions Json Eval WF Spec SortFacts EvalInv1 EvalInv4 EvalTop EndToEnd Codec KeyDefs KeyParse IdxParse SliceParse UnionParse WildParse RecParse ChainParse SpacePath FunParse AggParse FiltParse CmpParse NegFilt QueryParse ChainAddr FunAddr AggAddr FiltAddr CmpAddr SpecRootFree.
From Coq Require Import Lia.
Open Scope list_scope.

Lemma andb_lists_map {A} (f g : A -> bool) l : andb_lists (map f l) (map g l) = map (fun v => f v && g v) l.
Proof. induction l as [|x r IH]; [reflexivity|]. cbn [map andb_lists]. rewrite IH. reflexivity. Qed.
Lemma orb_lists_map {A} (f g : A -> bool) l : orb_lists (map f l) (map g l) = map (fun v => f v || g v) l.
Proof. induction l as [|x r IH]; [reflexivity|]. cbn [map orb_lists]. rewrite IH. reflexivity. Qed.
Lemma fold_and {A} (f : A -> bool) l a0 : fold_left (fun a x => a && f x) l a0 = a0 && forallb f l.
Proof. revert a0. induction l as [|x r IH]; intros a0; cbn [fold_left forallb]; [rewrite andb_true_r; reflexivity|]. rewrite IH, andb_assoc. reflexivity. Qed.
Lemma fold_or {A} (f : A -> bool) l a0 : fold_left (fun a x => a || f x) l a0 = a0 || existsb f l.
Proof. revert a0. induction l as [|x r IH]; intros a0; cbn [fold_left existsb]; [rewrite orb_false_r; reflexivity|]. rewrite IH, orb_assoc. reflexivity. Qed.

Section QueryAddr.
  Variable cfg : config.
  Variable parse_float : string -> option num.
  Variable ffun : string -> value -> option value.
  Variable afun : string -> list value -> option value.
  Variable regex_match : string -> string -> bool.
  Hypothesis ffun_small : forall f v w, small v -> ffun f v = Some w -> small w.
  Hypothesis afun_small : forall f l w, Forall small l -> afun f l = Some w -> small w.
  Notation sp := (sp ffun afun regex_match).
  Notation holds := (holds ffun afun regex_match).

  Definition bq_test (b : bq) (v : value) : bool :=
    match b with
    | BE i => reaches i v
    | BN i => negb (reaches i v)
    | BC i o lit => ctest i o (qnum parse_float lit) v
    end.
  Definition dnf_test (d : list (list bq)) (v : value) : bool := existsb (fun c => forallb (fun b => bq_test b v) c) d.

  Lemma bq_ok_steps b : bq_ok b = true -> forallb rstep_ok (match b with BE i | BN i | BC i _ _ => i end) = true.
  Proof. destruct b as [i|i|i o lit]; cbn [bq_ok]; intros H; try exact H. apply andb_true_iff in H. destruct H as [H _]. apply andb_true_iff in H. exact (proj1 H). Qed.

  Lemma holds_bq b root vals : bq_ok b = true -> Forall small vals ->
    holds (bq_query cfg parse_float b) root vals = map (bq_test b) vals.
  Proof.
    intros Hb Hv. pose proof (bq_ok_steps b Hb) as Hs. destruct b as [i|i|i o lit]; cbn [bq_query bq_test].
    - apply (holds_exists cfg ffun afun regex_match i root vals Hs Hv).
    - change (holds (QNot ?q) root vals) with (map negb (holds q root vals)).
      rewrite (holds_exists cfg ffun afun regex_match i root vals Hs Hv), map_map. reflexivity.
    - apply (holds_cmp cfg ffun afun regex_match i o _ root vals Hs Hv).
  Qed.

  Lemma holds_and_fold bs : forall q0 h0 root vals, forallb bq_ok bs = true -> Forall small vals ->
    holds q0 root vals = map h0 vals ->
    holds (fold_left (fun q x => QAnd q (bq_query cfg parse_float x)) bs q0) root vals =
    map (fun v => fold_left (fun a x => a && bq_test x v) bs (h0 v)) vals.
  Proof.
    induction bs as [|x r IH]; intros q0 h0 root vals Hs Hv H0; [exact H0|].
    cbn [forallb] in Hs. apply andb_true_iff in Hs. destruct Hs as [H1 H2]. cbn [fold_left].
    apply (IH (QAnd q0 (bq_query cfg parse_float x)) (fun v => h0 v && bq_test x v) root vals H2 Hv).
    change (holds (QAnd ?a ?b) root vals) with (andb_lists (holds a root vals) (holds b root vals)).
    rewrite H0, (holds_bq x root vals H1 Hv). apply andb_lists_map.
  Qed.
  Lemma holds_conj c root vals : conj_ok c = true -> Forall small vals ->
    holds (conj_query cfg parse_float c) root vals = map (fun v => forallb (fun b => bq_test b v) c) vals.
  Proof.
    intros Hc Hv. destruct c as [|b bs]; [discriminate Hc|]. cbn [conj_ok forallb] in Hc. apply andb_true_iff in Hc. destruct Hc as [H1 H2].
    cbn [conj_query]. rewrite (holds_and_fold bs _ (bq_test b) root vals H2 Hv (holds_bq b root vals H1 Hv)).
    apply map_ext. intros v. rewrite fold_and. reflexivity.
  Qed.
  Lemma holds_or_fold cs : forall q0 h0 root vals, forallb conj_ok cs = true -> Forall small vals ->
    holds q0 root vals = map h0 vals ->
    holds (fold_left (fun q x => QOr q (conj_query cfg parse_float x)) cs q0) root vals =
    map (fun v => fold_left (fun a x => a || forallb (fun b => bq_test b v) x) cs (h0 v)) vals.
  Proof.
    induction cs as [|x r IH]; intros q0 h0 root vals Hs Hv H0; [exact H0|].
    cbn [forallb] in Hs. apply andb_true_iff in Hs. destruct Hs as [H1 H2]. cbn [fold_left].
    apply (IH (QOr q0 (conj_query cfg parse_float x)) (fun v => h0 v || forallb (fun b => bq_test b v) x) root vals H2 Hv).
    change (holds (QOr ?a ?b) root vals) with (orb_lists (holds a root vals) (holds b root vals)).
    rewrite H0, (holds_conj x root vals H1 Hv). apply orb_lists_map.
  Qed.
  Lemma holds_dnf d root vals : dnf_ok d = true -> Forall small vals ->
    holds (dnf_query cfg parse_float d) root vals = map (dnf_test d) vals.
  Proof.
    intros Hd Hv. destruct d as [|c cs]; [discriminate Hd|]. cbn [dnf_ok forallb] in Hd. apply andb_true_iff in Hd. destruct Hd as [H1 H2].
    cbn [dnf_query]. rewrite (holds_or_fold cs _ (fun v => forallb (fun b => bq_test b v) c) root vals H2 Hv (holds_conj c root vals H1 Hv)).
    apply map_ext. intros v. rewrite fold_or. reflexivity.
  Qed.

  Lemma sp_fq d b next root p v : dnf_ok d = true -> small v ->
    sp (Node (fq_kind cfg parse_float d) b next) root (Some p, v) =
    flat_map (ChainAddr.fwd ffun afun regex_match b next root) (navp (dnf_test d) (p, v)).
  Proof.
    intros Hd Hsm. unfold fq_kind. apply (sp_kfilter ffun afun regex_match); [|exact Hsm].
    intros vals Hv. apply holds_dnf; assumption.
  Qed.
End QueryAddr.
