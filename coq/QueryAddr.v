(* QueryAddr.v — what a filter over a query in disjunctive form selects, from the path text: the members for which some
   conjunction has all its basic queries true — an existence test is true when its steps reach something, its negation when
   they reach nothing, a comparison when the number reached stands in the relation (!= : when not ==). *)
From JP Require Import Peg Grammar Slice Text Tree Actions Json Eval WF Spec SortFacts EvalInv1 EvalInv4 EvalTop EndToEnd Codec KeyDefs KeyParse IdxParse SliceParse UnionParse WildParse RecParse ChainParse SpacePath FunParse AggParse FiltParse CmpParse NegFilt LitParse QueryParse ChainAddr FunAddr AggAddr FiltAddr CmpAddr SpecRootFree.
From Coq Require Import Lia.
Open Scope list_scope.

Lemma andb_lists_map {A} (f g : A -> bool) l : andb_lists (map f l) (map g l) = map (fun v => f v && g v) l.
Proof. induction l as [|x r IH]; [reflexivity|]. cbn [map andb_lists]. rewrite IH. reflexivity. Qed.
Lemma orb_lists_map {A} (f g : A -> bool) l : orb_lists (map f l) (map g l) = map (fun v => f v || g v) l.
Proof. induction l as [|x r IH]; [reflexivity|]. cbn [map orb_lists]. rewrite IH. reflexivity. Qed.
Lemma fold_and {A} (f : A -> bool) l a0 : fold_left (fun a x => a && f x) l a0 = a0 && forallb f l.
Proof. revert a0. induction l as [|x r IH]; intros a0; cbn [fold_left forallb]; [rewrite andb_true_r; reflexivity|]. rewrite IH, andb_assoc. reflexivity. Qed.
Lemma fold_or {A} (f : A -> bool) l a0 : fold_left (fun a x => a || f x) l a0 = a0 || existsb f l.
Proof. revert a0. induction l as [|x r IH]; intros a0; cbn [fold_left existsb]; [rewrite orb_false_r; reflexivity|]. rewrite IH, orb_assoc. reflexivity. Qed.

(* does the value a member offers equal the literal? (same JSON type and same content; a number is never a string, ...) *)
Definition lit_test (v : value) (e : entry) : bool :=
  match e, v with
  | Some (VStr s), VStr t => String.eqb s t
  | Some (VBool p), VBool q => Bool.eqb p q
  | Some VNull, VNull => true
  | _, _ => false
  end.

Section QueryAddr.
  Variable cfg : config.
  Variable parse_float : string -> option num.
  Variable ffun : string -> value -> option value.
  Variable afun : string -> list value -> option value.
  Variable regex_match : string -> string -> bool.
  Hypothesis ffun_small : forall f v w, small v -> ffun f v = Some w -> small w.
  Hypothesis afun_small : forall f l w, Forall small l -> afun f l = Some w -> small w.
  Notation sp := (sp ffun afun regex_match).
  Notation holds := (holds ffun afun regex_match).

  Definition bq_test (b : bq) (v : value) : bool :=
    match b with
    | BE i => reaches i v
    | BN i => negb (reaches i v)
    | BC i o lit => ctest i o (qnum parse_float lit) v
    | BL i ne l => if ne then negb (lit_test (litv_value l) (reach1 i v)) else lit_test (litv_value l) (reach1 i v)
    end.
  Definition dnf_test (d : list (list bq)) (v : value) : bool := existsb (fun c => forallb (fun b => bq_test b v) c) d.

  Lemma bq_ok_steps b : bq_ok b = true -> forallb rstep_ok (match b with BE i | BN i | BC i _ _ | BL i _ _ => i end) = true.
  Proof. destruct b as [i|i|i o lit|i ne l]; cbn [bq_ok]; intros H; try exact H; apply andb_true_iff in H; destruct H as [H _]; apply andb_true_iff in H; exact (proj1 H). Qed.

  (* == against a string, boolean or null literal: validate-then-compare over all members is a map of lit_test *)
  Lemma keeps_direct l e : cmp_keeps regex_match (CDirectEq (litv_vd l)) (validate_to (CDirectEq (litv_vd l)) (Some (litv_value l))) (validate_to (CDirectEq (litv_vd l)) e)
                           = lit_test (litv_value l) e.
  Proof.
    unfold cmp_keeps, validate_to. destruct l as [q body|b sp|sp]; cbn [litv_vd litv_value validator_of validate_entry];
      (destruct e as [v|]; [destruct v|]; cbn [validate_entry cmp_entry iface_eq fst lit_test]; try reflexivity).
    - destruct (String.eqb s (text_of body)); reflexivity.
    - destruct (Bool.eqb b0 b); reflexivity.
  Qed.
  Lemma valid_direct l e : is_valid (CDirectEq (litv_vd l)) e = match e, litv_value l with Some (VStr _), VStr _ | Some (VBool _), VBool _ | Some VNull, VNull => true | _, _ => false end.
  Proof. unfold is_valid. destruct l as [q body|b sp|sp]; cbn [litv_vd litv_value validator_of]; (destruct e as [v|]; [destruct v|]); reflexivity. Qed.
  Lemma lit_test_valid l e : is_valid (CDirectEq (litv_vd l)) e = false -> lit_test (litv_value l) e = false.
  Proof. rewrite valid_direct. destruct l as [q body|b sp|sp]; cbn [litv_value]; (destruct e as [v|]; [destruct v|]); cbn [lit_test]; intros H; try reflexivity; discriminate H. Qed.

  Lemma cmp_holds_direct l es :
    Spec.cmp_holds regex_match (CDirectEq (litv_vd l)) (List.length es) (if existsb (fun x => negb (isE x)) es then es else [None]) (Some (litv_value l))
    = map (lit_test (litv_value l)) es.
  Proof.
    unfold Spec.cmp_holds. cbv zeta.
    assert (Hrf : is_valid (CDirectEq (litv_vd l)) (Some (litv_value l)) = true) by (destruct l; reflexivity).
    rewrite Hrf, andb_true_r.
    assert (Hnone : forall l0, existsb (is_valid (CDirectEq (litv_vd l))) l0 = false -> map (lit_test (litv_value l)) l0 = repeat false (List.length l0)).
    { induction l0 as [|e l0 IH]; intros H; [reflexivity|]. cbn [existsb] in H. apply orb_false_iff in H. destruct H as [H1 H2].
      cbn [map List.length repeat]. rewrite (IH H2), (lit_test_valid l e H1). reflexivity. }
    destruct (existsb (fun x => negb (isE x)) es) eqn:Ee.
    - destruct (existsb (is_valid (CDirectEq (litv_vd l))) es) eqn:Ev.
      + rewrite Nat.eqb_refl, map_map. apply map_ext. intros e. apply keeps_direct.
      + cbn [Bool.eqb]. rewrite (Hnone es Ev). reflexivity.
    - assert (Ev : existsb (is_valid (CDirectEq (litv_vd l))) [None] = false) by (destruct l; reflexivity).
      rewrite Ev. cbn [Bool.eqb].
      assert (Hall : map (lit_test (litv_value l)) es = repeat false (List.length es)).
      { clear -Ee. induction es as [|e es IH]; [reflexivity|]. cbn [existsb] in Ee. apply orb_false_iff in Ee. destruct Ee as [E1 E2].
        cbn [map List.length repeat]. rewrite (IH E2). destruct e; [discriminate E1|destruct (litv_value l); reflexivity]. }
      rewrite Hall. reflexivity.
  Qed.

  Lemma holds_lit_cmp i l root vals : forallb rstep_ok i = true -> Forall small vals ->
    holds (lit_cmp cfg i l) root vals = map (fun v => lit_test (litv_value l) (reach1 i v)) vals.
  Proof.
    intros Hs Hv. unfold lit_cmp, cmp_left, filter_pq.
    change (holds (QCmp (CP (PqCur ?n) false) (CP (PqLit ?lv) true) ?c) root vals) with
      (Spec.cmp_holds regex_match c (List.length vals)
         (let es0 := map (fun v => match sp n root (None, v) with x :: _ => Some (res_value (Spec.wrap x)) | [] => None end) vals in
          if existsb (fun x => negb (isE x)) es0 then es0 else [None]) (Some lv)).
    cbv zeta.
    assert (E0 : map (fun v => match sp (clear_acc (delete_root (inner_root cfg i))) root (None, v) with x :: _ => Some (res_value (Spec.wrap x)) | [] => None end) vals
                 = map (reach1 i) vals).
    { apply map_ext_in. intros v Hin. rewrite Forall_forall in Hv. apply (operand_entry cfg ffun afun regex_match i root v Hs (Hv v Hin)). }
    rewrite E0. rewrite <- (map_length (reach1 i) vals). rewrite (cmp_holds_direct l), map_map. reflexivity.
  Qed.

  Lemma holds_bq b root vals : bq_ok b = true -> Forall small vals ->
    holds (bq_query cfg parse_float b) root vals = map (bq_test b) vals.
  Proof.
    intros Hb Hv. pose proof (bq_ok_steps b Hb) as Hs. destruct b as [i|i|i o lit|i ne l]; cbn [bq_query bq_test].
    - apply (holds_exists cfg ffun afun regex_match i root vals Hs Hv).
    - change (holds (QNot ?q) root vals) with (map negb (holds q root vals)).
      rewrite (holds_exists cfg ffun afun regex_match i root vals Hs Hv), map_map. reflexivity.
    - apply (holds_cmp cfg ffun afun regex_match i o _ root vals Hs Hv).
    - destruct ne.
      + change (holds (QNot ?q) root vals) with (map negb (holds q root vals)). rewrite (holds_lit_cmp i l root vals Hs Hv), map_map. reflexivity.
      + apply (holds_lit_cmp i l root vals Hs Hv).
  Qed.

  Lemma holds_and_fold bs : forall q0 h0 root vals, forallb bq_ok bs = true -> Forall small vals ->
    holds q0 root vals = map h0 vals ->
    holds (fold_left (fun q x => QAnd q (bq_query cfg parse_float x)) bs q0) root vals =
    map (fun v => fold_left (fun a x => a && bq_test x v) bs (h0 v)) vals.
  Proof.
    induction bs as [|x r IH]; intros q0 h0 root vals Hs Hv H0; [exact H0|].
    cbn [forallb] in Hs. apply andb_true_iff in Hs. destruct Hs as [H1 H2]. cbn [fold_left].
    apply (IH (QAnd q0 (bq_query cfg parse_float x)) (fun v => h0 v && bq_test x v) root vals H2 Hv).
    change (holds (QAnd ?a ?b) root vals) with (andb_lists (holds a root vals) (holds b root vals)).
    rewrite H0, (holds_bq x root vals H1 Hv). apply andb_lists_map.
  Qed.
  Lemma holds_conj c root vals : conj_ok c = true -> Forall small vals ->
    holds (conj_query cfg parse_float c) root vals = map (fun v => forallb (fun b => bq_test b v) c) vals.
  Proof.
    intros Hc Hv. destruct c as [|b bs]; [discriminate Hc|]. cbn [conj_ok forallb] in Hc. apply andb_true_iff in Hc. destruct Hc as [H1 H2].
    cbn [conj_query]. rewrite (holds_and_fold bs _ (bq_test b) root vals H2 Hv (holds_bq b root vals H1 Hv)).
    apply map_ext. intros v. rewrite fold_and. reflexivity.
  Qed.
  Lemma holds_or_fold cs : forall q0 h0 root vals, forallb conj_ok cs = true -> Forall small vals ->
    holds q0 root vals = map h0 vals ->
    holds (fold_left (fun q x => QOr q (conj_query cfg parse_float x)) cs q0) root vals =
    map (fun v => fold_left (fun a x => a || forallb (fun b => bq_test b v) x) cs (h0 v)) vals.
  Proof.
    induction cs as [|x r IH]; intros q0 h0 root vals Hs Hv H0; [exact H0|].
    cbn [forallb] in Hs. apply andb_true_iff in Hs. destruct Hs as [H1 H2]. cbn [fold_left].
    apply (IH (QOr q0 (conj_query cfg parse_float x)) (fun v => h0 v || forallb (fun b => bq_test b v) x) root vals H2 Hv).
    change (holds (QOr ?a ?b) root vals) with (orb_lists (holds a root vals) (holds b root vals)).
    rewrite H0, (holds_conj x root vals H1 Hv). apply orb_lists_map.
  Qed.
  Lemma holds_dnf d root vals : dnf_ok d = true -> Forall small vals ->
    holds (dnf_query cfg parse_float d) root vals = map (dnf_test d) vals.
  Proof.
    intros Hd Hv. destruct d as [|c cs]; [discriminate Hd|]. cbn [dnf_ok forallb] in Hd. apply andb_true_iff in Hd. destruct Hd as [H1 H2].
    cbn [dnf_query]. rewrite (holds_or_fold cs _ (fun v => forallb (fun b => bq_test b v) c) root vals H2 Hv (holds_conj c root vals H1 Hv)).
    apply map_ext. intros v. rewrite fold_or. reflexivity.
  Qed.

  Lemma sp_fq d b next root p v : dnf_ok d = true -> small v ->
    sp (Node (fq_kind cfg parse_float d) b next) root (Some p, v) =
    flat_map (ChainAddr.fwd ffun afun regex_match b next root) (navp (dnf_test d) (p, v)).
  Proof.
    intros Hd Hsm. unfold fq_kind. apply (sp_kfilter ffun afun regex_match); [|exact Hsm].
    intros vals Hv. apply holds_dnf; assumption.
  Qed.
End QueryAddr.
