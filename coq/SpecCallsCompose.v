(* SpecCallsCompose.v — the calls of a continuation appended to a function-free prefix: the
   continuation is run once for each cursor the prefix selects, in result order (C14). *)
From JP Require Import Eval WF Spec CallDefs Actions EvalInv3 Refine1 SpecCompose SpecCalls.
Open Scope string_scope.
Open Scope list_scope.

Section SCC.
  Variable ffun : string -> value -> option value.
  Variable afun : string -> list value -> option value.
  Variable regex_match : string -> string -> bool.
  Notation sp := (Spec.sp ffun afun regex_match).
  Notation sp_ids := (Spec.sp_ids ffun afun regex_match).
  Notation sc := (sc ffun afun regex_match).
  Notation sc_ids := (sc_ids ffun afun regex_match).
  Notation sfwd := (sfwd ffun afun regex_match).
  Notation skey := (skey ffun afun regex_match).
  Notation sidx := (sidx ffun afun regex_match).
  Notation cfwd := (cfwd ffun afun regex_match).
  Notation ckey := (ckey ffun afun regex_match).
  Notation cidx := (cidx ffun afun regex_match).

  Definition cthen (x : node) (root : value) (rs : list sres) : list call := flat_map (fun r : sres => sc x root (snd r)) rs.
  Lemma cthen_app x root a b : cthen x root (a ++ b) = cthen x root a ++ cthen x root b.
  Proof. unfold cthen. apply flat_map_app. Qed.
  Lemma cthen_flat_map {A} x root (g : A -> list sres) (l : list A) :
    cthen x root (flat_map g l) = flat_map (fun a => cthen x root (g a)) l.
  Proof. induction l as [|a l IH]; cbn [flat_map]; [reflexivity|]. rewrite cthen_app, IH. reflexivity. Qed.

  Definition X_node (n : node) : Prop :=
    wf_node n = true -> call_free n = true -> forall x root cur, sc (append_deep n x) root cur = cthen x root (sp n root cur).
  Definition X_onode (o : onode) : Prop := match o with OSome n => X_node n | ONone => True end.
  Definition X_nodes (ids : nodes) : Prop :=
    wf_nodes ids = true -> call_free_ids ids = true -> forall x root cur, sc_ids (append_ids ids x) root cur = cthen x root (sp_ids ids root cur).
  Definition X_kind (k : kind) : Prop := match k with KMulti ids _ uq => X_nodes ids /\ X_onode uq | _ => True end.
  Definition cfo (o : onode) : bool := match o with OSome m => call_free m | ONone => true end.

  Lemma cfwd_then next x root settable b cur' : X_onode next -> wfo next = true -> cfo next = true ->
    cfwd (next' next x) root cur' = cthen x root (sfwd b next root settable cur').
  Proof.
    intros IH Hw Hc. unfold SpecCalls.cfwd, Refine1.sfwd, next'. destruct next as [|m].
    - unfold cthen. cbn [flat_map snd]. rewrite app_nil_r. reflexivity.
    - apply IH; assumption.
  Qed.
  Lemma ckey_then next x root b cur m key : X_onode next -> wfo next = true -> cfo next = true ->
    ckey (next' next x) root cur m key = cthen x root (skey b next root cur m key).
  Proof. intros IH Hw Hc. unfold SpecCalls.ckey, Refine1.skey. destruct (lookup m key); [apply cfwd_then; assumption|reflexivity]. Qed.
  Lemma cidx_then next x root b cur iv : X_onode next -> wfo next = true -> cfo next = true ->
    cidx (next' next x) root cur iv = cthen x root (sidx b next root cur iv).
  Proof. intros IH Hw Hc. unfold SpecCalls.cidx, Refine1.sidx. apply cfwd_then; assumption. Qed.

  (* the holds of the prefix's filters are untouched by append_deep (filters are not on the chain) *)
  Lemma xnode k b next : X_kind k -> X_onode next -> X_node (Node k b next).
  Proof.
    intros IHk IHn Hwf Hcf x root cur. rewrite append_deep_eq.
    cbn [wf_node] in Hwf. apply andb_true_iff in Hwf. destruct Hwf as [Hk Hnx].
    change (match next with OSome m => wf_node m | ONone => true end) with (wfo next) in Hnx.
    cbn [call_free] in Hcf. apply andb_true_iff in Hcf. destruct Hcf as [Hck Hcn].
    change (match next with OSome m => call_free m | ONone => true end) with (cfo next) in Hcn.
    destruct k as [| |key| |ids aw uq|mr lr|subs|q|f|f param]; try discriminate; rewrite sc_unfold, sp_unfold.
    - apply cfwd_then; assumption.
    - apply cfwd_then; assumption.
    - destruct (snd cur); cbv iota beta; try reflexivity. apply ckey_then; assumption.
    - destruct (snd cur); cbv iota beta; try reflexivity; rewrite cthen_flat_map; apply flat_map_ext; intros y;
        [apply cidx_then|apply ckey_then]; assumption.
    - destruct IHk as [IHids IHuq]. apply andb_true_iff in Hk. destruct Hk as [Hids Huq].
      apply andb_true_iff in Hck. destruct Hck as [Hcids Hcuq].
      destruct (snd cur); cbv iota beta; try (destruct aw; reflexivity).
      + destruct aw; [|reflexivity]. destruct uq as [|u]; [reflexivity|]. apply IHuq; assumption.
      + assert (H : sc_ids (append_ids ids x) root cur = cthen x root (sp_ids ids root cur)) by (apply IHids; assumption).
        destruct aw; exact H.
    - destruct next as [|nx]; [discriminate|]. cbn [next'].
      rewrite cthen_flat_map. apply flat_map_ext. intros cu.
      destruct (snd cu); try reflexivity; [destruct lr|destruct mr]; try reflexivity; apply IHn; assumption.
    - destruct (snd cur); cbv iota beta; try reflexivity. rewrite cthen_flat_map. apply flat_map_ext. intros sub.
      destruct (get_indexes sub _); [|reflexivity]. rewrite cthen_flat_map. apply flat_map_ext. intros i.
      destruct (nth_value l i); [apply cidx_then; assumption|reflexivity].
    - destruct (snd cur); cbv iota beta zeta; try reflexivity; rewrite cthen_flat_map; apply flat_map_ext.
      + intros [iv hb]. cbn [fst snd]. destruct hb; [apply cidx_then; assumption|reflexivity].
      + intros [key hb]. cbn [fst snd]. destruct hb; [apply ckey_then; assumption|reflexivity].
  Qed.

  Theorem sc_compose : forall n, X_node n.
  Proof.
    assert (H : (forall n, X_node n) /\ (forall o, X_onode o) /\ (forall k, X_kind k) /\ (forall ns, X_nodes ns) /\
                (forall q : query, True) /\ (forall cp : cparam, True) /\ (forall p : pquery, True)).
    { apply tree_mutind; try (intros; exact I).
      - intros k IHk b next IHn. apply xnode; assumption.
      - intros n IH. exact IH.
      - intros ids IHids aw uq IHuq. split; assumption.
      - intros _ _ x root cur. reflexivity.
      - intros id IHid rest IHrest Hw Hc x root cur.
        cbn [wf_nodes] in Hw. apply andb_true_iff in Hw. destruct Hw as [Hw1 Hw2].
        cbn [call_free_ids] in Hc. apply andb_true_iff in Hc. destruct Hc as [Hc1 Hc2].
        change (sc_ids (append_ids (NCons id rest) x) root cur) with (sc (append_deep id x) root cur ++ sc_ids (append_ids rest x) root cur).
        change (sp_ids (NCons id rest) root cur) with (sp id root cur ++ sp_ids rest root cur).
        rewrite cthen_app, IHid, IHrest by assumption. reflexivity. }
    exact (proj1 H).
  Qed.

  (* P.f(): the filter function f is called exactly once for each value the function-free path P selects,
     in result order, with that value *)
  Theorem ffun_after_prefix : forall p f b root cur,
    wf_node p = true -> call_free p = true ->
    sc (append_deep p (Node (KFFun f) b ONone)) root cur
    = map (fun r : sres => CallF f (sres_value r)) (sp p root cur).
  Proof.
    intros p f b root cur Hwf Hcf. rewrite (sc_compose p Hwf Hcf). unfold cthen.
    induction (sp p root cur) as [|r rs IH]; cbn [flat_map map]; [reflexivity|].
    rewrite IH. rewrite sc_unfold. unfold SpecCalls.cfwd. destruct (ffun f (snd (snd r))); reflexivity.
  Qed.
End SCC.
