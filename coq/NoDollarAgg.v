(* NoDollarAgg.v — the leading `$` may be omitted also when an AGGREGATE function follows the steps and filters (C18 / C14):
   `a[?(@.b)].g().f()` is accepted, calls g exactly once with all the values the steps and filters reach (or with the elements
   of the single array a single-valued path reaches), never when they reach nothing, and returns what `$.a[?(@.b)].g().f()` returns. *)
From JP Require Import Peg Grammar Slice Text Tree Actions Json Eval WF Spec SortFacts EvalInv1 EvalInv4 EvalTop EndToEnd Codec PegFacts PegMono PegEv FuelRules ParseFacts KeyDefs KeyParse IdxParse SliceParse UnionParse WildParse RecParse ChainParse SpacePath FunParse AggParse Frame FiltParse CmpParse CmpSpace NegFilt LitParse RootOp RegexOp LitLeft QueryParse FiltSpace QuerySpace QueryTree FiltChain ChainAddr FunAddr AggAddr FiltAddr CmpAddr QueryAddr FiltChainAddr NoDollar FiltFun NoDollarFilt NoDollarFun FiltAgg CallDefs.
From Coq Require Import Lia.
Local Open Scope N_scope.
Open Scope list_scope.

Section NoDollarAggExec.
  Variable cfg : config.
  Variable parse_float : string -> option num.
  Variable regex_ok : string -> bool.
  Notation execute := (execute cfg parse_float regex_ok).
  Notation exec_action := (exec_action cfg parse_float regex_ok).
  Notation plainl := (Forall (fun kb : kind * basic => plain_kind (fst kb))).
  Notation fpres_f := (FiltChain.fpres cfg parse_float).
  Notation fpres_u := (FunParse.fpres cfg).
  Notation fpres0 := (fpres0 cfg parse_float).

  Definition fchain_agg_node0 (s : kstep) (l : list fstep) (g : list N) (fs : list (list N)) : node :=
    Node (KAgg (text_of g) (param_of (agg_ctext cfg g fs) (fpres0 s l))) (set_ctext (agg_ctext cfg g fs) (agg_basic cfg g)) (fin (fpres_u fs)).

  Theorem parse_fchain_agg_path0 s l g fs : step_ok s = true -> forallb fstep_ok l = true -> forallb (fstep_okp parse_float regex_ok) l = true ->
    forallb fname_ok (g :: fs) = true -> agg_known cfg g = true -> forallb (fun_known cfg) fs = true ->
    parse_with cfg parse_float regex_ok G (fchain_fun_path0 s l (g :: fs)) = ParseOk (fchain_agg_node0 s l g fs).
  Proof.
    intros Hs Hl Hp Hf Hg Hkn. unfold parse_with, parse_from. rewrite (peg_fchain_fun_path0 s l (g :: fs) Hs Hl Hf). unfold fchain_fun_tokens0.
    destruct (exec_first cfg parse_float regex_ok (fchain_fun_path0 s l (g :: fs)) s
                (fsteps_tokens (List.length (rec_body s)) l ++ funs_tokens (List.length (rec_body s) + List.length (render_fsteps l)) (g :: fs) ++ [TAct 2; TAct 0])
                (render_fsteps l ++ render_funs (g :: fs)) Hs eq_refl) as (c1 & b1 & E1).
    rewrite E1. clear E1.
    assert (Hsk : skipn (List.length (rec_body s)) (fchain_fun_path0 s l (g :: fs)) = render_fsteps l ++ render_funs (g :: fs)).
    { unfold fchain_fun_path0. rewrite skipn_app, skipn_all, Nat.sub_diag. reflexivity. }
    destruct (exec_fsteps_tail cfg parse_float regex_ok (fchain_fun_path0 s l (g :: fs)) l (render_funs (g :: fs)) (List.length (rec_body s)) [INode (first_node cfg s)]
                (funs_tokens (List.length (rec_body s) + List.length (render_fsteps l)) (g :: fs) ++ [TAct 2; TAct 0]) c1 b1 Hl Hp Hsk) as (c2 & b2 & E).
    rewrite E. clear E.
    pose proof (skipn_next _ _ _ _ Hsk) as Hsk2. change (render_funs (g :: fs)) with (fun_text g ++ render_funs fs) in Hsk2.
    cbn [funs_tokens]. rewrite <- app_assoc.
    destruct (exec_agg cfg parse_float regex_ok (fchain_fun_path0 s l (g :: fs)) _ g (render_funs fs) ([INode (first_node cfg s)] ++ map (fun x => INode (fnode_of cfg parse_float x)) l)
                (funs_tokens (List.length (rec_body s) + List.length (render_fsteps l) + List.length (fun_text g)) fs ++ [TAct 2; TAct 0]) c2 b2 Hg Hsk2) as (c3 & b3 & E).
    rewrite E. clear E.
    destruct (exec_funs cfg parse_float regex_ok (fchain_fun_path0 s l (g :: fs)) fs _
                (([INode (first_node cfg s)] ++ map (fun x => INode (fnode_of cfg parse_float x)) l) ++ [INode (anode cfg g)])
                [TAct 2; TAct 0] c3 b3 Hkn (skipn_next _ _ _ _ Hsk2)) as (cps' & b' & E).
    rewrite E. clear E. cbn [app Actions.execute].
    change (exec_action 2 cps' b' ?st) with (abind (set_node_chain st) update_root_vg).
    assert (Hk : plain_kind (step_kind s)) by (apply step_kind_plain).
    assert (Hnm : forall ids aw uq, step_kind s <> KMulti ids aw uq) by (intros; destruct s as [q k|k|ds|[|]|a b c0|u us]; discriminate).
    set (P0 := clear_acc (update_vg (Node (step_kind s) (rec_inner_basic cfg s) (link (fpres_f l))))).
    assert (Hchain : set_node_chain (mk (INode (first_node cfg s) :: (map (fun x => INode (fnode_of cfg parse_float x)) l ++ [INode (anode cfg g)]) ++ map (fun f : list N => INode (fnode cfg f)) fs)) =
                     AOk (mk [INode (Node (KAgg (text_of g) P0) (agg_basic cfg g) (link (fpres_u fs)))])).
    { unfold set_node_chain, mk. cbn [params].
      assert (F : fold_left chain_step ((map (fun x => INode (fnode_of cfg parse_float x)) l ++ [INode (anode cfg g)]) ++ map (fun f : list N => INode (fnode cfg f)) fs)
                    (AOk (Node (step_kind s) (rec_inner_basic cfg s) (link []))) =
                  AOk (Node (KAgg (text_of g) P0) (agg_basic cfg g) (link (fpres_u fs)))).
      { rewrite !fold_left_app.
        pose proof (chain_fold_f cfg parse_float (step_kind s) (rec_inner_basic cfg s) l Hk [] (Forall_nil _)) as F1. cbn [app] in F1. rewrite F1.
        cbn [fold_left].
        change (chain_step (AOk (Node (step_kind s) (rec_inner_basic cfg s) (link (fpres_f l)))) (INode (anode cfg g)))
          with (AOk (Node (KAgg (text_of g) P0) (agg_basic cfg g) (link []))).
        rewrite (chain_fold_funs_nm cfg (KAgg (text_of g) P0) (agg_basic cfg g) fs ltac:(intros; discriminate) [] ltac:(constructor)). reflexivity. }
      destruct ((map (fun x => INode (fnode_of cfg parse_float x)) l ++ [INode (anode cfg g)]) ++ map (fun f : list N => INode (fnode cfg f)) fs) as [|i0 rest] eqn:Em.
      - exfalso. apply (f_equal (@List.length item)) in Em. rewrite !app_length in Em. cbn [List.length] in Em. lia.
      - unfold first_node. cbn [link] in F. rewrite F. reflexivity. }
    rewrite Hchain. cbn [abind]. unfold update_root_vg, mk. cbn [params with_params saved proot abind].
    unfold with_params. cbn [params saved proot].
    assert (Eu : forall P, update_vg (Node (KAgg (text_of g) P) (agg_basic cfg g) (link (fpres_u fs))) = Node (KAgg (text_of g) P) (agg_basic cfg g) (link (fpres_u fs))).
    { intros P. unfold update_vg. cbn [chain_vg]. rewrite link_vg, (any_vg_fpres cfg). reflexivity. }
    rewrite Eu.
    change (exec_action 0 cps' b' ?st) with
      (abind (pop_node st) (fun '(rt, st1) => AOk {| params := params st1; saved := saved st1; proot := Some (set_ctext_deep (delete_root rt) "") |})).
    unfold pop_node, pop. cbn [params rev app abind with_params saved proot delete_root].
    rewrite (set_ctext_agg _ _ _ (fpres_u fs) (FunParse.fpres_plain cfg fs)).
    unfold fchain_agg_node0, param_of, NoDollarFilt.fpres0. fold (agg_ctext cfg g fs).
    pose proof (FiltChain.fpres_plain cfg parse_float l) as Hpl.
    assert (Ev : delete_root P0 = Node (step_kind s) (set_vgroup (any_vg ((step_kind s, rec_inner_basic cfg s) :: fpres_f l)) (set_accessor false (rec_inner_basic cfg s))) (link (cl (fpres_f l)))).
    { subst P0. unfold update_vg. cbn [chain_vg]. rewrite link_vg. cbn [any_vg existsb snd]. fold (any_vg (fpres_f l)).
      destruct (vgroup (rec_inner_basic cfg s) || any_vg (fpres_f l)) eqn:Ea.
      - unfold set_node_vg. rewrite (clear_link _ _ (fpres_f l) Hnm Hpl). destruct s as [q k|k|ds|[|]|a b c0|u us]; reflexivity.
      - rewrite (clear_link _ _ (fpres_f l) Hnm Hpl). apply orb_false_iff in Ea. destruct Ea as [Ea _].
        remember (rec_inner_basic cfg s) as bb eqn:Ebb. destruct bb as [t0 c0 v0 a0]. cbn [vgroup] in Ea. subst v0.
        clear Ebb. destruct s as [q k|k|ds|[|]|a b c0'|u us]; reflexivity. }
    rewrite Ev. rewrite (set_ctext_link_p _ _ _ (cl (fpres_f l)) Hk (cl_plain (fpres_f l) Hpl)). reflexivity.
  Qed.
End NoDollarAggExec.

Section NoDollarAggAddr.
  Variable cfg : config.
  Variable parse_float : string -> option num.
  Variable regex_ok : string -> bool.
  Variable ffun : string -> value -> option value.
  Variable afun : string -> list value -> option value.
  Variable regex_match : string -> string -> bool.
  Hypothesis ffun_small : forall f v w, small v -> ffun f v = Some w -> small w.
  Hypothesis afun_small : forall f l w, Forall small l -> afun f l = Some w -> small w.
  Notation parse := (parse_with cfg parse_float regex_ok jsonpath_grammar).
  Notation eval_run := (eval_run ffun afun regex_match).
  Notation sp := (sp ffun afun regex_match).
  Notation nav_allf := (nav_allf parse_float regex_match).
  Notation fpres_f := (FiltChain.fpres cfg parse_float).
  Notation fpres_u := (FunParse.fpres cfg).
  Notation fpres0 := (fpres0 cfg parse_float).
  Notation fseg := (fseg cfg parse_float).
  Notation fagg_input := (fagg_input parse_float regex_match).
  Notation fagg_outcome := (fagg_outcome parse_float ffun afun regex_match).

  Lemma fparam_seg0 p s l : exists b2, param_of p (fpres0 s l) = fseg (FS (RPlain s)) b2 b2 (finp p (cl (fpres_f l))) /\ accessor b2 = false.
  Proof.
    unfold NoDollarFilt.fpres0. cbn [param_of fst snd FiltChainAddr.fseg seg]. eexists. split; [reflexivity|].
    destruct s as [q k|k|ds|[|]|a b c0|u us]; reflexivity.
  Qed.

  Lemma fparam_vg0 p s l : vgroup (node_basic (param_of p (fpres0 s l))) = fsteps_vg (FS (RPlain s) :: l).
  Proof.
    unfold NoDollarFilt.fpres0. cbn [param_of node_basic fst snd fsteps_vg existsb fstep_vg rstep_vg].
    change (existsb fstep_vg l) with (fsteps_vg l). rewrite <- (fpres_vg cfg parse_float l).
    cbn [any_vg existsb snd]. fold (any_vg (fpres_f l)). cbn [vgroup set_ctext set_vgroup].
    destruct s as [q k|k|ds|[|]|a b c0|u us]; try reflexivity.
  Qed.

  Lemma fparam_args0 p s l doc : step_ok s = true -> forallb fstep_ok l = true -> small doc ->
    sp (param_of p (fpres0 s l)) doc (Some [], doc) = [] <-> nav_allf doc (FS (RPlain s) :: l) ([], doc) = [].
  Proof.
    intros Hs Hl Hd.
    assert (Hall : forallb fstep_ok (FS (RPlain s) :: l) = true) by (cbn [forallb fstep_ok rstep_ok]; rewrite Hs, Hl; reflexivity).
    destruct (fparam_seg0 p s l) as (b2 & En & Hb).
    destruct (sp_fchain_p cfg parse_float ffun afun regex_match p l (FS (RPlain s)) b2 b2 Hall Hb) as (B & HB & Hsp).
    rewrite En, Hsp by exact Hd. split; intros H; [apply map_eq_nil in H; exact H|].
    apply (f_equal (map (fun lv : list pstep * value => (B, true, (Some (fst lv), snd lv))))) in H. exact H.
  Qed.
  Lemma fparam_agg_args0 p s l doc : step_ok s = true -> forallb fstep_ok l = true -> small doc ->
    agg_args ffun afun regex_match (param_of p (fpres0 s l)) doc (Some [], doc) = fagg_input (FS (RPlain s) :: l) doc.
  Proof.
    intros Hs Hl Hd.
    assert (Hall : forallb fstep_ok (FS (RPlain s) :: l) = true) by (cbn [forallb fstep_ok rstep_ok]; rewrite Hs, Hl; reflexivity).
    unfold agg_args, FiltAgg.fagg_input. rewrite fparam_vg0.
    destruct (fparam_seg0 p s l) as (b2 & En & Hb).
    destruct (sp_fchain_p cfg parse_float ffun afun regex_match p l (FS (RPlain s)) b2 b2 Hall Hb) as (B & HB & Hsp).
    rewrite En, Hsp by exact Hd. rewrite map_map.
    apply args_eq. intros [q z]. cbn [wrap fst snd]. rewrite HB. reflexivity.
  Qed.

  Lemma spec_fchain_agg0 s l g fs doc : step_ok s = true -> forallb fstep_ok l = true -> small doc ->
    spec_results ffun afun regex_match (fchain_agg_node0 cfg parse_float s l g fs) doc =
    match fagg_outcome (FS (RPlain s) :: l) g fs doc with Some w => [fun_result cfg w] | None => [] end.
  Proof.
    intros Hs Hl Hd. unfold spec_results, fchain_agg_node0, FiltAgg.fagg_outcome. rewrite (sp_agg ffun afun regex_match).
    pose proof (fparam_args0 (agg_ctext cfg g fs) s l doc Hs Hl Hd) as Hn.
    rewrite (fparam_agg_args0 (agg_ctext cfg g fs) s l doc Hs Hl Hd).
    destruct (sp (param_of (agg_ctext cfg g fs) (fpres0 s l)) doc (Some [], doc)) as [|a0 l0].
    - rewrite (proj1 Hn eq_refl). reflexivity.
    - destruct (nav_allf doc (FS (RPlain s) :: l) ([], doc)) as [|a1 l1]; [discriminate (proj2 Hn eq_refl)|].
      destruct (afun (text_of g) (fagg_input (FS (RPlain s) :: l) doc)) as [v|]; [|reflexivity].
      destruct (sp_tail_funs cfg ffun afun regex_match fs (set_ctext (agg_ctext cfg g fs) (agg_basic cfg g)) eq_refl) as (B & HB & Ht).
      rewrite Ht. destruct (apply_funs ffun fs v) as [w|]; [|reflexivity]. cbn [map wrap fst snd]. rewrite HB. unfold fun_result. destruct (cfg_accessor cfg); reflexivity.
  Qed.

  Theorem fchain_agg_retrieval0 s l g fs doc st : step_ok s = true -> forallb fstep_ok l = true -> forallb (fstep_okp parse_float regex_ok) l = true ->
    forallb fname_ok (g :: fs) = true -> agg_known cfg g = true -> forallb (fun_known cfg) fs = true -> small doc -> ok st ->
    exists t, parse (fchain_fun_path0 s l (g :: fs)) = ParseOk t /\
              match fagg_outcome (FS (RPlain s) :: l) g fs doc with
              | Some w => fst (eval_run t doc st) = OOk [fun_result cfg w]
              | None => exists e, fst (eval_run t doc st) = OErr e
              end.
  Proof.
    intros Hs Hl Hokp Hf Hg Hk Hd Hok. exists (fchain_agg_node0 cfg parse_float s l g fs).
    pose proof (parse_fchain_agg_path0 cfg parse_float regex_ok s l g fs Hs Hl Hokp Hf Hg Hk) as Hp. split; [exact Hp|].
    pose proof (retrieve_end_to_end cfg parse_float regex_ok ffun afun regex_match ffun_small afun_small (fchain_fun_path0 s l (g :: fs)) doc st Hd Hok) as H.
    rewrite Hp in H. rewrite (spec_fchain_agg0 s l g fs doc Hs Hl Hd) in H.
    destruct (fagg_outcome (FS (RPlain s) :: l) g fs doc) as [w|].
    - destruct (fst (eval_run (fchain_agg_node0 cfg parse_float s l g fs) doc st)) as [rs|e|pn].
      + destruct H as [H _]. rewrite H. reflexivity.
      + destruct H as [H _]. discriminate.
      + contradiction.
    - destruct (fst (eval_run (fchain_agg_node0 cfg parse_float s l g fs) doc st)) as [rs|e|pn].
      + destruct H as [H1 [H2 _]]. contradiction (H2 H1).
      + exists e. reflexivity.
      + contradiction.
  Qed.

  (* with and without the leading $ : the same single result, or both fail *)
  Theorem dollar_optional_agg s l g fs doc st : step_ok s = true -> forallb fstep_ok l = true -> forallb (fstep_okp parse_float regex_ok) l = true ->
    forallb fname_ok (g :: fs) = true -> agg_known cfg g = true -> forallb (fun_known cfg) fs = true -> small doc -> ok st ->
    exists t1 t0, parse (fchain_fun_path (FS (RPlain s) :: l) (g :: fs)) = ParseOk t1 /\ parse (fchain_fun_path0 s l (g :: fs)) = ParseOk t0 /\
      match fst (eval_run t1 doc st) with
      | OOk rs => fst (eval_run t0 doc st) = OOk rs
      | OErr _ => exists e, fst (eval_run t0 doc st) = OErr e
      | OPanic _ => False
      end.
  Proof.
    intros Hs Hl Hokp Hf Hg Hk Hd Hok.
    assert (Hall : forallb fstep_ok (FS (RPlain s) :: l) = true) by (cbn [forallb fstep_ok rstep_ok]; rewrite Hs, Hl; reflexivity).
    assert (Hallp : forallb (fstep_okp parse_float regex_ok) (FS (RPlain s) :: l) = true) by (cbn [forallb fstep_okp]; exact Hokp).
    destruct (fchain_agg_retrieval cfg parse_float regex_ok ffun afun regex_match ffun_small afun_small (FS (RPlain s)) l g fs doc st Hall Hallp Hf Hg Hk Hd Hok) as (t1 & P1 & H1).
    destruct (fchain_agg_retrieval0 s l g fs doc st Hs Hl Hokp Hf Hg Hk Hd Hok) as (t0 & P0 & H0).
    exists t1, t0. split; [exact P1|]. split; [exact P0|].
    destruct (fagg_outcome (FS (RPlain s) :: l) g fs doc) as [w|].
    - rewrite H1. exact H0.
    - destruct H1 as [e1 E1]. rewrite E1. exact H0.
  Qed.
End NoDollarAggAddr.

(* ---------- the calls ---------- *)
From JP Require Import SpecCalls SpecCallsCompose StackRules.
Section NoDollarAggCalls.
  Variable cfg : config.
  Variable parse_float : string -> option num.
  Variable regex_ok : string -> bool.
  Variable ffun : string -> value -> option value.
  Variable afun : string -> list value -> option value.
  Variable regex_match : string -> string -> bool.
  Hypothesis ffun_small : forall f v w, small v -> ffun f v = Some w -> small w.
  Hypothesis afun_small : forall f l w, Forall small l -> afun f l = Some w -> small w.
  Notation parse := (parse_with cfg parse_float regex_ok jsonpath_grammar).
  Notation eval_run := (eval_run ffun afun regex_match).
  Notation sp := (sp ffun afun regex_match).
  Notation sc := (sc ffun afun regex_match).
  Notation nav_allf := (nav_allf parse_float regex_match).
  Notation fpres_f := (FiltChain.fpres cfg parse_float).
  Notation fpres_u := (FunParse.fpres cfg).
  Notation fpres0 := (fpres0 cfg parse_float).
  Notation fagg_calls := (fagg_calls parse_float ffun afun regex_match).

  Lemma fparam_cf0 p s l : forallb fstep_ok l = true -> call_free (param_of p (fpres0 s l)) = true.
  Proof.
    intros Hs. pose proof (fpres_cfc cfg parse_float l Hs) as H. unfold NoDollarFilt.fpres0. cbn [param_of fst snd call_free].
    rewrite (finp_cfc p (cl (fpres_f l)) (cl_cfc _ H)). destruct s as [q k|k|ds|[|]|a b c0|u us]; reflexivity.
  Qed.

  Lemma sc_fchain_agg0 s l g fs doc : step_ok s = true -> forallb fstep_ok l = true -> small doc ->
    sc (fchain_agg_node0 cfg parse_float s l g fs) doc (Some [], doc) = fagg_calls (FS (RPlain s) :: l) g fs doc.
  Proof.
    intros Hs Hl Hd. unfold fchain_agg_node0, FiltAgg.fagg_calls. rewrite sc_unfold.
    rewrite (proj2 (proj1 (call_free_nocalls ffun afun regex_match) _ (fparam_cf0 (agg_ctext cfg g fs) s l Hl))). cbn [app].
    pose proof (fparam_args0 cfg parse_float ffun afun regex_match (agg_ctext cfg g fs) s l doc Hs Hl Hd) as Hn. cbv zeta.
    rewrite (fparam_agg_args0 cfg parse_float ffun afun regex_match (agg_ctext cfg g fs) s l doc Hs Hl Hd).
    destruct (sp (param_of (agg_ctext cfg g fs) (fpres0 s l)) doc (Some [], doc)) as [|a0 l0].
    - rewrite (proj1 Hn eq_refl). reflexivity.
    - destruct (nav_allf doc (FS (RPlain s) :: l) ([], doc)) as [|a1 l1]; [discriminate (proj2 Hn eq_refl)|].
      destruct (afun (text_of g) (fagg_input parse_float regex_match (FS (RPlain s) :: l) doc)) as [v|]; [|reflexivity].
      rewrite (cfwd_tail_funs cfg ffun afun regex_match). reflexivity.
  Qed.

  Lemma fchain_agg_node0_fcf s l g fs : forallb fstep_ok l = true -> filters_call_free (fchain_agg_node0 cfg parse_float s l g fs) = true.
  Proof.
    intros Hs. unfold fchain_agg_node0. cbn [filters_call_free].
    rewrite (proj1 (proj1 (call_free_nocalls ffun afun regex_match) _ (fparam_cf0 (agg_ctext cfg g fs) s l Hs))).
    rewrite (fin_fcf (fpres_u fs) (fpres_nofilter cfg fs)). reflexivity.
  Qed.

  (* the aggregate is called exactly once, with all the values the steps and filters reach, and not at all when they reach nothing *)
  Theorem fchain_agg_calls0 s l g fs doc st : step_ok s = true -> forallb fstep_ok l = true -> forallb (fstep_okp parse_float regex_ok) l = true ->
    forallb fname_ok (g :: fs) = true -> agg_known cfg g = true -> forallb (fun_known cfg) fs = true -> small doc -> ok st ->
    exists t, parse (fchain_fun_path0 s l (g :: fs)) = ParseOk t /\
              calls (snd (eval_run t doc st)) = calls st ++ fagg_calls (FS (RPlain s) :: l) g fs doc.
  Proof.
    intros Hs Hl Hokp Hf Hg Hk Hd Hok. exists (fchain_agg_node0 cfg parse_float s l g fs).
    pose proof (parse_fchain_agg_path0 cfg parse_float regex_ok s l g fs Hs Hl Hokp Hf Hg Hk) as Hp. split; [exact Hp|].
    rewrite (eval_call_log ffun afun regex_match ffun_small afun_small _ doc st (parse_builds_wf cfg parse_float regex_ok _ _ Hp) (fchain_agg_node0_fcf s l g fs Hl) Hd Hok).
    rewrite (sc_fchain_agg0 s l g fs doc Hs Hl Hd). reflexivity.
  Qed.
End NoDollarAggCalls.
