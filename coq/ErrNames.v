(* ErrNames.v — the runtime error of a path of name steps, from the path text (C15): the call fails at the FIRST step
   that cannot be taken — "member did not exist" naming that step when the value there is an object without that member,
   "type unmatched" (expected object, found the Go type of the value) naming that step when the value is not an object. *)
From JP Require Import Peg Grammar Slice Text Tree Actions Json Eval WF Spec ErrSpec SortFacts EvalInv1 EvalInv4 EvalTop EndToEnd Codec KeyDefs KeyParse ChainParse ChainAddr.
From Coq Require Import Lia.
Open Scope list_scope.

Definition is_name (s : kstep) : bool := match s with SBr _ _ | SDot _ => true | _ => false end.

(* the first step that cannot be taken: the step, and the Go type found there when the value is not an object *)
Fixpoint first_fail (v : value) (steps : list kstep) : option (kstep * option string) :=
  match steps with
  | [] => None
  | s :: r => match v with
              | VObj m => match lookup m (step_key s) with Some x => first_fail x r | None => Some (s, None) end
              | _ => Some (s, Some (go_type v))
              end
  end.

Section ErrNames.
  Variable cfg : config.
  Variable parse_float : string -> option num.
  Variable regex_ok : string -> bool.
  Variable ffun : string -> value -> option value.
  Variable afun : string -> list value -> option value.
  Variable regex_match : string -> string -> bool.
  Hypothesis ffun_small : forall f v w, small v -> ffun f v = Some w -> small w.
  Hypothesis afun_small : forall f l w, Forall small l -> afun f l = Some w -> small w.
  Notation parse := (parse_with cfg parse_float regex_ok jsonpath_grammar).
  Notation eval_run := (eval_run ffun afun regex_match).
  Notation serr := (serr ffun afun regex_match).

  Definition err_matches (o : option rerr) (f : option (kstep * option string)) : Prop :=
    match f with
    | None => o = None
    | Some (s, None) => exists b, o = Some (EMember b) /\ text b = step_text s
    | Some (s, Some ty) => exists b, o = Some (EType b "object" ty) /\ text b = step_text s
    end.

  (* a chain of name nodes whose texts are those of the steps *)
  Fixpoint names_shape (steps : list kstep) (o : onode) : Prop :=
    match steps, o with
    | [], ONone => True
    | s :: r, OSome (Node k b nx) => k = KSingle (step_key s) /\ text b = step_text s /\ names_shape r nx
    | _, _ => False
    end.

  Lemma serr_names : forall steps n root (ol : option (list pstep)) v, forallb is_name steps = true -> names_shape steps (OSome n) ->
    err_matches (serr n root (@pair (option (list pstep)) value ol v)) (first_fail v steps).
  Proof.
    induction steps as [|s r IH]; intros n root ol v Hn Hsh; [contradiction|].
    destruct n as [k b nx]. destruct Hsh as (Ek & Et & Hr). subst k. cbn [forallb] in Hn. apply andb_true_iff in Hn. destruct Hn as [_ Hn].
    cbn [first_fail]. destruct v as [|bb|x|s0 x|s0|xs|m|t i s0];
      try (cbn [ErrSpec.serr snd err_matches]; eexists; split; [reflexivity|exact Et]).
    cbn [ErrSpec.serr snd fst]. destruct (lookup m (step_key s)) as [x|] eqn:El.
    - destruct nx as [|n']; [destruct r; [reflexivity|contradiction]|]. apply IH; assumption.
    - cbn [err_matches]. eexists. split; [reflexivity|exact Et].
  Qed.

  Lemma fin_names r : forallb is_name r = true -> names_shape r (fin (pres cfg (map RPlain r))).
  Proof.
    induction r as [|s r IH]; intros Hn; [exact I|]. cbn [forallb] in Hn. apply andb_true_iff in Hn. destruct Hn as [Hs Hr].
    unfold pres. cbn [map flat_map rstep_pre app fin fst snd names_shape]. split; [destruct s; try discriminate Hs; reflexivity|]. split; [reflexivity|].
    apply IH. exact Hr.
  Qed.
  Lemma chain_names s r : forallb is_name (s :: r) = true -> names_shape (s :: r) (OSome (chain_node cfg (map RPlain (s :: r)))).
  Proof.
    intros Hn. cbn [forallb] in Hn. apply andb_true_iff in Hn. destruct Hn as [Hs Hr].
    unfold chain_node, pres. cbn [map flat_map rstep_pre app fst snd names_shape]. split; [destruct s; try discriminate Hs; reflexivity|]. split; [reflexivity|].
    apply (fin_names r Hr).
  Qed.

  Theorem name_path_error s r doc st : forallb step_ok (s :: r) = true -> forallb is_name (s :: r) = true -> small doc -> ok st ->
    exists t, parse (chain_path (map RPlain (s :: r))) = ParseOk t /\
              match first_fail doc (s :: r) with
              | None => exists rs, fst (eval_run t doc st) = OOk rs
              | Some (x, None) => exists b, fst (eval_run t doc st) = OErr (EMember b) /\ text b = step_text x
              | Some (x, Some ty) => exists b, fst (eval_run t doc st) = OErr (EType b "object" ty) /\ text b = step_text x
              end.
  Proof.
    intros Hs Hn Hd Hok. pose proof (plain_ok (s :: r) Hs) as Hs'. cbn [map] in Hs'.
    exists (chain_node cfg (map RPlain (s :: r))).
    pose proof (parse_chain_path cfg parse_float regex_ok (RPlain s) (map RPlain r) Hs') as Hp. split; [exact Hp|].
    pose proof (retrieve_end_to_end cfg parse_float regex_ok ffun afun regex_match ffun_small afun_small (chain_path (map RPlain (s :: r))) doc st Hd Hok) as H.
    cbn [map] in H. rewrite Hp in H.
    pose proof (serr_names (s :: r) (chain_node cfg (map RPlain (s :: r))) doc (@Some (list pstep) []) doc Hn (chain_names s r Hn)) as He.
    cbn [map] in He. unfold ErrSpec.spec_error in H. cbn [map].
    destruct (fst (eval_run (chain_node cfg (RPlain s :: map RPlain r)) doc st)) as [rs|e|pn]; [| |contradiction].
    - destruct H as (_ & _ & Hnone). rewrite Hnone in He. destruct (first_fail doc (s :: r)) as [[x [ty|]]|].
      + destruct He as (b & E & _). discriminate E.
      + destruct He as (b & E & _). discriminate E.
      + exists rs. reflexivity.
    - destruct H as (_ & Hsome). rewrite Hsome in He. destruct (first_fail doc (s :: r)) as [[x [ty|]]|].
      + destruct He as (b & E & Hb). inversion E; subst. exists b. split; [reflexivity|exact Hb].
      + destruct He as (b & E & Hb). inversion E; subst. exists b. split; [reflexivity|exact Hb].
      + discriminate He.
  Qed.
End ErrNames.
