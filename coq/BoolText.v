(* BoolText.v — the Boolean algebra of filters, from the path text: a filter step selects a SUBSEQUENCE of the members of the
   value it is applied to (elements in index order, member values in ascending key order: `members`), namely those whose
   verdict is true; so `||` selects the union, `&&` the intersection, `!` the complement — as sets AND in member order. *)
From JP Require Import Peg Grammar Slice Text Tree Actions Json Eval WF Spec SortFacts EvalInv1 EvalInv4 EvalTop EndToEnd Codec KeyDefs KeyParse IdxParse SliceParse UnionParse WildParse RecParse ChainParse SpacePath FunParse AggParse FiltParse CmpParse CmpSpace NegFilt LitParse RootOp RegexOp QueryParse FiltSpace QuerySpace QueryTree FiltChain ChainAddr FunAddr AggAddr FiltAddr CmpAddr QueryAddr FiltChainAddr.
From Coq Require Import Lia.
Open Scope list_scope.

(* the members a filter chooses among, with their locations *)
Definition members (lv : list pstep * value) : list (list pstep * value) := navp (fun _ => true) lv.

Lemma filter_flat_map {A B} (p : B -> bool) (f : A -> list B) l : filter p (flat_map f l) = flat_map (fun a => filter p (f a)) l.
Proof. induction l as [|a l IH]; [reflexivity|]. cbn [flat_map]. rewrite filter_app, IH. reflexivity. Qed.

Lemma navp_filter h lv : navp h lv = filter (fun m => h (snd m)) (members lv).
Proof.
  unfold members, navp. destruct (snd lv); try reflexivity.
  - rewrite filter_flat_map. apply flat_map_ext'. intros iv. cbn [filter snd]. destruct (h (snd iv)); reflexivity.
  - rewrite filter_flat_map. apply flat_map_ext'. intros k. destruct (lookup _ k) as [x|]; [|reflexivity]. cbn [filter snd]. destruct (h x); reflexivity.
Qed.
Lemma navf_navp i lv : navf i lv = navp (reaches i) lv.
Proof. reflexivity. Qed.

Lemma filter_ext' {A} (p q : A -> bool) l : (forall a, p a = q a) -> filter p l = filter q l.
Proof. intros H. induction l as [|a l IH]; [reflexivity|]. cbn [filter]. rewrite H, IH. reflexivity. Qed.
Lemma in_filter_or {A} (p q : A -> bool) l a : In a (filter (fun x => p x || q x) l) <-> In a (filter p l) \/ In a (filter q l).
Proof.
  rewrite !filter_In. split.
  - intros [Hin H]. apply orb_true_iff in H. destruct H as [H|H]; [left|right]; split; assumption.
  - intros [[Hin H]|[Hin H]]; (split; [exact Hin|]); rewrite H; [reflexivity|apply orb_true_r].
Qed.
Lemma in_filter_and {A} (p q : A -> bool) l a : In a (filter (fun x => p x && q x) l) <-> In a (filter p l) /\ In a (filter q l).
Proof.
  rewrite !filter_In. split.
  - intros [Hin H]. apply andb_true_iff in H. destruct H as [H1 H2]. split; split; assumption.
  - intros [[Hin H1] [_ H2]]. split; [exact Hin|]. rewrite H1, H2. reflexivity.
Qed.
Lemma in_filter_not {A} (p : A -> bool) l a : In a l -> (In a (filter (fun x => negb (p x)) l) <-> ~ In a (filter p l)).
Proof.
  intros Hin. rewrite !filter_In. split.
  - intros [_ H] [_ H']. rewrite H' in H. discriminate H.
  - intros H. split; [exact Hin|]. destruct (p a) eqn:E; [exfalso; apply H; split; [exact Hin|reflexivity]|reflexivity].
Qed.
(* in member order: filtering by a conjunction is filtering twice *)
Lemma filter_and_twice {A} (p q : A -> bool) l : filter (fun x => p x && q x) l = filter q (filter p l).
Proof. induction l as [|a l IH]; [reflexivity|]. cbn [filter]. destruct (p a); cbn [andb filter]; [destruct (q a); rewrite IH; reflexivity|exact IH]. Qed.

Section BoolText.
  Variable parse_float : string -> option num.
  Variable regex_match : string -> string -> bool.
  Notation nav1f := (nav1f parse_float regex_match).
  Notation dnf_test := (dnf_test parse_float regex_match).
  Notation bq_test := (bq_test parse_float regex_match).

  (* every filter step is "the members whose verdict is true" *)
  Definition verdict (root : value) (x : fstep) (vals : list value) (v : value) : bool :=
    match x with
    | FE i => reaches i v
    | FN i => negb (reaches i v)
    | FC i o lit | FCS i _ _ o _ _ lit => ctest i o (lit_num parse_float lit) v
    | FQ d => dnf_test root vals d v
    | FQS _ d => dnf_test root vals (unspace_dnf d) v
    | FT t => qt_test parse_float regex_match root vals t v
    | FES neg _ _ i _ => if neg then negb (reaches i v) else reaches i v
    | _ => false
    end.
  Lemma filter_step_selects root x lv : is_filt x = true ->
    nav1f root x lv = filter (fun m => verdict root x (kids (snd lv)) (snd m)) (members lv).
  Proof.
    destruct x as [y|i|i o lit|i|d|y|i g0 a o b g1 lit|neg g0 gn i g1|g0' d'|t']; intros H; try discriminate H; cbn [FiltChainAddr.nav1f verdict];
      try (rewrite navf_navp); try (destruct neg; try (rewrite navf_navp)); apply navp_filter.
  Qed.

  (* || : union, in member order *)
  Theorem or_is_union root d1 d2 lv m :
    In m (nav1f root (FQ (d1 ++ d2)) lv) <-> In m (nav1f root (FQ d1) lv) \/ In m (nav1f root (FQ d2) lv).
  Proof.
    rewrite !(filter_step_selects root (FQ _) lv eq_refl). cbn [verdict].
    rewrite (filter_ext' _ (fun x => dnf_test root (kids (snd lv)) d1 (snd x) || dnf_test root (kids (snd lv)) d2 (snd x))).
    - apply in_filter_or.
    - intros a. unfold QueryAddr.dnf_test. apply existsb_app.
  Qed.
  (* && : intersection; in member order it is filtering twice *)
  Theorem and_is_intersection root c1 c2 lv m :
    In m (nav1f root (FQ [c1 ++ c2]) lv) <-> In m (nav1f root (FQ [c1]) lv) /\ In m (nav1f root (FQ [c2]) lv).
  Proof.
    rewrite !(filter_step_selects root (FQ _) lv eq_refl). cbn [verdict].
    rewrite (filter_ext' _ (fun x => dnf_test root (kids (snd lv)) [c1] (snd x) && dnf_test root (kids (snd lv)) [c2] (snd x))).
    - apply in_filter_and.
    - intros a. unfold QueryAddr.dnf_test. cbn [existsb]. rewrite !orb_false_r. apply forallb_app.
  Qed.
  Theorem and_in_member_order root c1 c2 lv :
    nav1f root (FQ [c1 ++ c2]) lv =
    filter (fun m => dnf_test root (kids (snd lv)) [c2] (snd m)) (nav1f root (FQ [c1]) lv).
  Proof.
    rewrite !(filter_step_selects root (FQ _) lv eq_refl). cbn [verdict]. rewrite <- filter_and_twice. apply filter_ext'.
    intros a. unfold QueryAddr.dnf_test. cbn [existsb]. rewrite !orb_false_r. apply forallb_app.
  Qed.
  (* ! : complement among the members *)
  Theorem not_is_complement root i lv m : In m (members lv) ->
    (In m (nav1f root (FN i) lv) <-> ~ In m (nav1f root (FE i) lv)).
  Proof.
    intros Hin. rewrite (filter_step_selects root (FN i) lv eq_refl), (filter_step_selects root (FE i) lv eq_refl). cbn [verdict].
    apply (in_filter_not (fun x => reaches i (snd x))). exact Hin.
  Qed.
  (* the negated forms of the basic queries are the negations *)
  Theorem negated_basic_queries root vals v :
    (forall i, bq_test root vals (BN i) v = negb (bq_test root vals (BE i) v)) /\
    (forall j, bq_test root vals (BRN j) v = negb (bq_test root vals (BRE j) v)) /\
    (forall i l, bq_test root vals (BL i true l) v = negb (bq_test root vals (BL i false l) v)) /\
    (forall i j, bq_test root vals (BPQ i true j) v = negb (bq_test root vals (BPQ i false j) v)) /\
    (forall i lit, bq_test root vals (BC i ONe lit) v = negb (bq_test root vals (BC i OEq lit) v)).
  Proof.
    repeat split; intros; try reflexivity.
    cbn [QueryAddr.bq_test]. unfold ctest, entry_test. destruct (num_of_entry (reach1 i v)); reflexivity.
  Qed.
  (* the same for arbitrary sub-queries, parenthesised or not (QueryTree.v): `||` selects the union of what its two sides
     select, `&&` the intersection (in member order: filtering twice), parentheses change nothing *)
  Theorem tree_or_is_union root l r lv m :
    In m (nav1f root (FT (TO l r)) lv) <-> In m (nav1f root (FT l) lv) \/ In m (nav1f root (FT r) lv).
  Proof. rewrite !(filter_step_selects root (FT _) lv eq_refl). cbn [verdict qt_test]. apply in_filter_or. Qed.
  Theorem tree_and_is_intersection root l r lv m :
    In m (nav1f root (FT (TA l r)) lv) <-> In m (nav1f root (FT l) lv) /\ In m (nav1f root (FT r) lv).
  Proof. rewrite !(filter_step_selects root (FT _) lv eq_refl). cbn [verdict qt_test]. apply in_filter_and. Qed.
  Theorem tree_and_in_member_order root l r lv :
    nav1f root (FT (TA l r)) lv = filter (fun m => qt_test parse_float regex_match root (kids (snd lv)) r (snd m)) (nav1f root (FT l) lv).
  Proof. rewrite !(filter_step_selects root (FT _) lv eq_refl). cbn [verdict qt_test]. apply filter_and_twice. Qed.
  Theorem parentheses_only_group root t lv : nav1f root (FT (TP t)) lv = nav1f root (FT t) lv.
  Proof. reflexivity. Qed.
  (* `&&` distributes over a parenthesised `||`: (a||b)&&c selects what a&&c||b&&c selects *)
  Theorem and_distributes_over_or root a b c lv :
    nav1f root (FT (TA (TP (TO a b)) c)) lv = nav1f root (FT (TO (TA a c) (TA b c))) lv.
  Proof.
    rewrite !(filter_step_selects root (FT _) lv eq_refl). cbn [verdict qt_test]. apply filter_ext'. intros x. apply andb_orb_distrib_l.
  Qed.
  (* a query in disjunctive form is the tree without parentheses *)
  Lemma conj_tree_test root vals v bs : forall t, qt_test parse_float regex_match root vals (fold_left (fun t x => TA t (TB x)) bs t) v =
    qt_test parse_float regex_match root vals t v && forallb (fun b => bq_test root vals b v) bs.
  Proof. induction bs as [|x r IH]; intros t; cbn [fold_left forallb]; [rewrite andb_true_r; reflexivity|]. rewrite IH. cbn [qt_test]. rewrite andb_assoc. reflexivity. Qed.
  Lemma dnf_tree_test root vals v cs : forall t, qt_test parse_float regex_match root vals (fold_left (fun t c => TO t (conj_tree (fst c) (snd c))) cs t) v =
    qt_test parse_float regex_match root vals t v || existsb (fun c : bq * list bq => forallb (fun b => bq_test root vals b v) (fst c :: snd c)) cs.
  Proof.
    induction cs as [|x r IH]; intros t; cbn [fold_left existsb]; [rewrite orb_false_r; reflexivity|]. rewrite IH. cbn [qt_test]. unfold conj_tree at 1. rewrite conj_tree_test.
    cbn [qt_test forallb]. rewrite orb_assoc. reflexivity.
  Qed.
  Theorem dnf_is_the_flat_tree root b bs cs lv :
    nav1f root (FQ ((b :: bs) :: map (fun c : bq * list bq => fst c :: snd c) cs)) lv = nav1f root (FT (dnf_tree b bs cs)) lv.
  Proof.
    rewrite (filter_step_selects root (FQ _) lv eq_refl), (filter_step_selects root (FT _) lv eq_refl). cbn [verdict]. apply filter_ext'. intros x.
    unfold dnf_tree. rewrite dnf_tree_test. unfold conj_tree. rewrite conj_tree_test. cbn [qt_test]. unfold QueryAddr.dnf_test. cbn [existsb forallb].
    f_equal. induction cs as [|c r IH]; [reflexivity|]. cbn [map existsb forallb]. rewrite IH. reflexivity.
  Qed.

  (* spelled out for an object and for an array: ascending key order, index order *)
  Theorem filter_step_order root x p : is_filt x = true ->
    (forall m, nav1f root x (p, VObj m) =
       flat_map (fun k => match lookup m k with
                          | Some v => if verdict root x (kids (VObj m)) v then [(p ++ [PKey k], v)] else []
                          | None => []
                          end) (sorted_keys m)) /\
    (forall xs, nav1f root x (p, VArr xs) =
       flat_map (fun iv : Z * value => if verdict root x xs (snd iv) then [(p ++ [PIdx (fst iv)], snd iv)] else []) (index_list xs 0)).
  Proof.
    destruct x as [y|i|i o lit|i|d|y|i g0 a o b g1 lit|neg g0 gn i g1|g0' d'|t']; intros H; try discriminate H; split; intros; try reflexivity; destruct neg; reflexivity.
  Qed.
  (* a selected member is a member, and the selection keeps the members' order *)
  Theorem selection_is_subsequence root x lv : is_filt x = true ->
    exists h, nav1f root x lv = filter h (members lv).
  Proof. intros H. eexists. apply (filter_step_selects root x lv H). Qed.
End BoolText.
