(* Refine1.v — refinement of the specification (Spec.v) by the evaluator model (Eval.v), part 1:
   unfolding of the specification, the loops, and every node kind except filters. *)
From JP Require Import Eval WF Verdict Spec SliceProofs EvalInv1 EvalInv2 EvalInv3 EvalInv4.
From Coq Require Import Lia.
Open Scope string_scope.
Open Scope list_scope.

Section R1.
  Variable ffun : string -> value -> option value.
  Variable afun : string -> list value -> option value.
  Variable regex_match : string -> string -> bool.
  Hypothesis ffun_small : forall f v w, small v -> ffun f v = Some w -> small w.
  Hypothesis afun_small : forall f l w, Forall small l -> afun f l = Some w -> small w.

  Notation retrieve := (retrieve ffun afun regex_match).
  Notation retrieve_ids := (retrieve_ids ffun afun regex_match).
  Notation compute := (compute ffun afun regex_match).
  Notation sp := (sp ffun afun regex_match).
  Notation sp_ids := (sp_ids ffun afun regex_match).
  Notation holds := (holds ffun afun regex_match).
  Notation fwd := (fwd ffun afun regex_match).
  Notation map_next := (map_next ffun afun regex_match).
  Notation list_next := (list_next ffun afun regex_match).

  (* ---------- the closures of Spec.sp ---------- *)
  Definition sfwd (b : basic) (next : onode) (root : value) (settable : bool) (cur' : cursor) : list sres :=
    match next with OSome nx => sp nx root cur' | ONone => [(b, settable, cur')] end.
  Definition skey b next root (cur : cursor) (m : list (string * value)) (key : string) : list sres :=
    match lookup m key with
    | Some v => sfwd b next root true (ext_loc (fst cur) (PKey key), v)
    | None => []
    end.
  Definition sidx b next root (cur : cursor) (iv : Z * value) : list sres :=
    sfwd b next root true (ext_loc (fst cur) (PIdx (fst iv)), snd iv).

  Lemma sp_unfold k b next root cur :
    sp (Node k b next) root cur =
    match k with
    | KRoot => sfwd b next root false (Some [], root)
    | KCurrent => sfwd b next root false cur
    | KSingle key => match snd cur with VObj m => skey b next root cur m key | _ => [] end
    | KWild =>
        match snd cur with
        | VObj m => flat_map (skey b next root cur m) (sorted_keys m)
        | VArr xs => flat_map (sidx b next root cur) (index_list xs 0)
        | _ => []
        end
    | KMulti ids allWild uq =>
        match snd cur, allWild with
        | VArr _, true => match uq with OSome u => sp u root cur | ONone => [] end
        | VObj m, _ => sp_ids ids root cur
        | _, _ => []
        end
    | KRec mapReq listReq =>
        match next with
        | ONone => []
        | OSome nx =>
            flat_map (fun cu => match snd cu with
                                | VObj _ => if mapReq then sp nx root cu else []
                                | VArr _ => if listReq then sp nx root cu else []
                                | _ => []
                                end) (containers (fst cur) (snd cur))
        end
    | KUnion subs =>
        match snd cur with
        | VArr xs =>
            flat_map (fun sub =>
              match get_indexes sub (Z.of_nat (List.length xs)) with
              | IOk idxs => flat_map (fun i => match nth_value xs i with Some v => sidx b next root cur (i, v) | None => [] end) idxs
              | IPanic => []
              end) subs
        | _ => []
        end
    | KFilter q =>
        match snd cur with
        | VObj m =>
            let keys := sorted_keys m in
            let vals := flat_map (fun k => match lookup m k with Some v => [v] | None => [] end) keys in
            flat_map (fun kb : string * bool => if snd kb then skey b next root cur m (fst kb) else []) (combine keys (holds q root vals))
        | VArr xs =>
            flat_map (fun ib : (Z * value) * bool => if snd ib then sidx b next root cur (fst ib) else []) (combine (index_list xs 0) (holds q root xs))
        | _ => []
        end
    | KFFun f => match ffun f (snd cur) with Some v => sfwd b next root false (None, v) | None => [] end
    | KAgg f param =>
        let vals := sp param root cur in
        match vals with
        | [] => []
        | _ :: _ =>
            let plain := map (fun x => res_value (wrap x)) vals in
            let args := if vgroup (node_basic param) then plain
                        else match plain with VArr xs :: _ => xs | _ => plain end in
            match afun f args with Some v => sfwd b next root false (None, v) | None => [] end
        end
    end.
  Proof. destruct k; reflexivity. Qed.

  (* ---------- what a step appends ---------- *)
  Definition step_eq (f : cont -> estate -> rresult) (g : list sres) : Prop :=
    forall c st, ok st -> fst (fst (f c st)) = c ++ map wrap g.

  Definition Q_node (n : node) : Prop :=
    wf_node n = true -> forall root cur, small root -> cur_ok root cur ->
    step_eq (retrieve n root cur) (sp n root cur).
  Definition Q_onode (o : onode) : Prop := match o with OSome n => Q_node n | ONone => True end.

  Lemma A_node n root cur : wf_node n = true -> small root -> cur_ok root cur -> step_ok root (retrieve n root cur).
  Proof.
    intros Hwf Hr Hc.
    destruct (evaluator_invariant ffun afun regex_match ffun_small afun_small) as [HN _].
    exact (proj1 (HN n Hwf) root cur Hr Hc).
  Qed.
  Lemma A_onode next : P_onode ffun afun regex_match next.
  Proof.
    destruct (evaluator_invariant ffun afun regex_match ffun_small afun_small) as (_ & HO & _). apply HO.
  Qed.

  Lemma fwd_eq b next root settable cur' :
    Q_onode next -> wf_onode next = true -> small root -> cur_ok root cur' ->
    step_eq (fwd b next root settable cur') (sfwd b next root settable cur').
  Proof.
    intros IH Hwf Hr Hc c st Hok. unfold EvalInv3.fwd, sfwd. destruct next as [|nx].
    - cbn [fst map]. unfold append_res, wrap. destruct (accessor b); reflexivity.
    - apply (IH Hwf root cur' Hr Hc c st Hok).
  Qed.

  Lemma map_next_eq b next root cur m key :
    Q_onode next -> wf_onode next = true -> small root -> cur_ok root cur -> snd cur = VObj m ->
    step_eq (map_next b next root cur m key) (skey b next root cur m key).
  Proof.
    intros IH Hwf Hr Hc Hm c st Hok. unfold EvalInv3.map_next, skey.
    destruct (lookup m key) as [v|] eqn:El; [|cbn; rewrite app_nil_r; reflexivity].
    apply fwd_eq; try assumption. apply cur_ok_ext; [exact Hc|]. rewrite Hm. exact El.
  Qed.

  Lemma list_next_eq b next root cur xs iv :
    Q_onode next -> wf_onode next = true -> small root -> cur_ok root cur -> snd cur = VArr xs ->
    step_into (VArr xs) (PIdx (fst iv)) = Some (snd iv) ->
    step_eq (list_next b next root cur iv) (sidx b next root cur iv).
  Proof.
    intros IH Hwf Hr Hc Hm Hs. unfold EvalInv3.list_next, sidx.
    apply fwd_eq; try assumption. apply cur_ok_ext; [exact Hc|]. rewrite Hm. exact Hs.
  Qed.

  (* ---------- loops ---------- *)
  Definition lcont (s : lstate) : cont := fst (fst (fst s)).
  Lemma loop_finish_cont b s : fst (fst (loop_finish b s)) = lcont s.
  Proof. destruct s as [[[c dl] de] st]. unfold loop_finish, lcont. destruct c; reflexivity. Qed.
  Lemma loop_step_cont out dl de : lcont (loop_step out dl de) = fst (fst out).
  Proof.
    destruct out as [[c e] st]. unfold loop_step, lcont. destruct e as [r|]; [|reflexivity].
    destruct c; [|reflexivity]. destruct (add_deepest r dl de). reflexivity.
  Qed.

  (* the loop invariant of Theorem A together with the contents of the container *)
  Definition linv2 (root : value) (c0 : cont) (st0 : estate) (acc : list sres) (s : lstate) : Prop :=
    linv root c0 st0 s /\ lcont s = c0 ++ map wrap acc.

  Lemma linv2_step root c0 st0 acc s f g :
    ok st0 -> linv2 root c0 st0 acc s -> step_ok' root f -> step_eq f g ->
    linv2 root c0 st0 (acc ++ g) (let '(c, dl, de, st) := s in loop_step (f c st) dl de).
  Proof.
    intros Hok [Hl Hc] Hf Hg. split; [apply linv_step'; assumption|].
    destruct s as [[[c dl] de] st]. rewrite loop_step_cont.
    assert (Hok' : ok st) by (destruct Hl as [Hfr _]; eapply ok_frame; eassumption).
    rewrite (Hg c st Hok'). unfold lcont in Hc. cbn [fst] in Hc. rewrite Hc, map_app, app_assoc. reflexivity.
  Qed.

  Lemma fold_linv2 {A} root c0 st0 (h : lstate -> A -> lstate) (g : A -> list sres) (xs : list A) :
    (forall s x acc, In x xs -> linv2 root c0 st0 acc s -> linv2 root c0 st0 (acc ++ g x) (h s x)) ->
    forall s acc, linv2 root c0 st0 acc s -> linv2 root c0 st0 (acc ++ flat_map g xs) (fold_left h xs s).
  Proof.
    induction xs as [|x xs IH]; intros Hh s acc Hs; cbn [fold_left flat_map]; [rewrite app_nil_r; exact Hs|].
    rewrite app_assoc. apply IH; [intros s' y acc' Hy; apply Hh; right; exact Hy|].
    apply Hh; [left; reflexivity|exact Hs].
  Qed.

  Lemma linv2_init root c st : linv2 root c st [] (c, 0%nat, None, st).
  Proof. split; [apply linv_init|]. unfold lcont. cbn. rewrite app_nil_r. reflexivity. Qed.

  Lemma run_loop_eq {A} root b (f : A -> cont -> estate -> rresult) (g : A -> list sres) (xs : list A) :
    (forall x, In x xs -> step_ok' root (f x) /\ step_eq (f x) (g x)) ->
    step_eq (run_loop b f xs) (flat_map g xs).
  Proof.
    intros Hf c st Hok. unfold run_loop. rewrite loop_finish_cont.
    pose proof (fold_linv2 root c st (fun s x => let '(c, dl, de, st) := s in loop_step (f x c st) dl de) g xs) as H.
    destruct (H (fun s x acc Hx Hs => linv2_step root c st acc s (f x) (g x) Hok Hs (proj1 (Hf x Hx)) (proj2 (Hf x Hx)))
                (c, 0%nat, None, st) [] (linv2_init root c st)) as [_ Hc].
    exact Hc.
  Qed.

  Lemma step_ok'_of root f : step_ok root f -> step_ok' root f.
  Proof. apply step_ok_weaken. Qed.

  Lemma nil_eq (f : cont -> estate -> rresult) : (forall c st, fst (fst (f c st)) = c) -> step_eq f [].
  Proof. intros H c st _. rewrite H. cbn. rewrite app_nil_r. reflexivity. Qed.

  (* ---------- node kinds ---------- *)
  Lemma wild_eq b next root cur :
    Q_onode next -> wf_onode next = true -> small root -> cur_ok root cur ->
    step_eq (fun c st => match snd cur with
                         | VObj m => run_loop b (map_next b next root cur m) (sorted_keys m) c st
                         | VArr xs => run_loop b (list_next b next root cur) (index_list xs 0) c st
                         | v => (c, Some (EType b "object/array" (go_type v)), st)
                         end)
            (match snd cur with
             | VObj m => flat_map (skey b next root cur m) (sorted_keys m)
             | VArr xs => flat_map (sidx b next root cur) (index_list xs 0)
             | _ => []
             end).
  Proof.
    intros IH Hwf Hr Hc. destruct (snd cur) eqn:E; try (apply nil_eq; reflexivity).
    - apply (run_loop_eq root). intros [i v] Hin. split.
      + apply step_ok'_of. eapply list_next_ok; try eassumption; try apply A_onode. apply index_list_step. exact Hin.
      + eapply list_next_eq; try eassumption. apply index_list_step. exact Hin.
    - apply (run_loop_eq root). intros k Hin. split.
      + apply step_ok'_of. eapply map_next_ok; try eassumption; apply A_onode.
      + eapply map_next_eq; eassumption.
  Qed.

  Lemma rec_eq b nx mr lr root cur :
    Q_node nx -> wf_node nx = true -> small root -> cur_ok root cur ->
    step_eq (run_loop b (rec_step ffun afun regex_match nx mr lr root) (containers (fst cur) (snd cur)))
            (flat_map (fun cu => match snd cu with
                                 | VObj _ => if mr then sp nx root cu else []
                                 | VArr _ => if lr then sp nx root cu else []
                                 | _ => []
                                 end) (containers (fst cur) (snd cur))).
  Proof.
    intros IH Hwf Hr Hc. apply (run_loop_eq root). intros cu Hin.
    destruct cur as [l v]. cbn [fst snd] in Hin.
    destruct (containers_cur_ok root v l Hc cu Hin) as [Hcu _].
    split.
    - intros c st Hok. unfold rec_step. destruct (snd cu) eqn:E; try (right; reflexivity).
      + destruct lr; [left; apply A_node; assumption|right; reflexivity].
      + destruct mr; [left; apply A_node; assumption|right; reflexivity].
    - unfold rec_step. destruct (snd cu) eqn:E; try (apply nil_eq; reflexivity).
      + destruct lr; [apply (IH Hwf root cu Hr Hcu)|apply nil_eq; reflexivity].
      + destruct mr; [apply (IH Hwf root cu Hr Hcu)|apply nil_eq; reflexivity].
  Qed.

  Lemma union_eq b next root cur xs subs :
    Q_onode next -> wf_onode next = true -> small root -> cur_ok root cur -> snd cur = VArr xs ->
    forallb sub_okb subs = true ->
    step_eq (fun c st => loop_finish b (fold_left (union_outer ffun afun regex_match b next root cur xs) subs (c, 0%nat, None, st)))
            (flat_map (fun sub =>
               match get_indexes sub (Z.of_nat (List.length xs)) with
               | IOk idxs => flat_map (fun i => match nth_value xs i with Some v => sidx b next root cur (i, v) | None => [] end) idxs
               | IPanic => []
               end) subs).
  Proof.
    intros IH Hwf Hr Hc Hx Hsubs c st Hok. rewrite loop_finish_cont.
    rewrite forallb_forall in Hsubs.
    assert (Hlen : (0 <= Z.of_nat (List.length xs) < two62)%Z).
    { apply small_arr_len. destruct Hc as [_ Hsm]. rewrite Hx in Hsm. exact Hsm. }
    refine (proj2 (fold_linv2 root c st _ _ subs _ (c, 0%nat, None, st) [] (linv2_init root c st))).
    intros s sub acc Hin Hs. unfold union_outer.
    pose proof (sub_okb_built sub (Hsubs sub Hin)) as Hb.
    destruct (get_indexes_total sub _ Hlen Hb) as [idxs [Hg Hrange]]. rewrite Hg.
    apply fold_linv2; [|exact Hs].
    intros s' i acc' Hi Hs'. unfold union_inner. destruct s' as [[[c' dl] de] st'].
    destruct (nth_value_some xs i (Hrange i Hi)) as [v Hv]. rewrite Hv.
    apply (linv2_step root c st acc' (c', dl, de, st') (list_next b next root cur (i, v)) _ Hok Hs').
    - apply step_ok'_of. eapply list_next_ok; try eassumption; apply A_onode.
    - eapply list_next_eq; eassumption.
  Qed.

  (* ---------- the filter loop selects exactly the members the verdict list denotes ---------- *)
  Lemma combine_map_r {A B C} (h : B -> C) : forall (xs : list A) (ws : list B),
    combine xs (map h ws) = map (fun p => (fst p, h (snd p))) (combine xs ws).
  Proof. induction xs as [|x xs IH]; intros [|w ws]; cbn; try reflexivity. rewrite IH. reflexivity. Qed.

  Lemma flat_map_map {A B C} (h : A -> B) (k : B -> list C) : forall l, flat_map k (map h l) = flat_map (fun x => k (h x)) l.
  Proof. induction l as [|x l IH]; cbn; [reflexivity|]. rewrite IH. reflexivity. Qed.

  Lemma filter_loop_eq {A} root b (next_of : A -> cont -> estate -> rresult) (g : A -> list sres)
        (members : list A) lv (hs : list bool) :
    (forall x, In x members -> step_ok root (next_of x) /\ step_eq (next_of x) (g x)) ->
    forall c st1, ok st1 -> vl_ok (List.length members) (lget st1 lv) ->
    List.length hs = List.length members ->
    (forall i, (i < List.length members)%nat -> den (List.length members) (lget st1 lv) i = nth i hs false) ->
    fst (fst (filter_loop b next_of members lv c st1)) =
    c ++ map wrap (flat_map (fun xb : A * bool => if snd xb then g (fst xb) else []) (combine members hs)).
  Proof.
    intros Hf c st1 Hok Hvl Hlen Hden. unfold filter_loop.
    set (n := List.length members) in *.
    set (vl := lget st1 lv) in *.
    set (is_each := Nat.eqb (List.length vl) n).
    assert (Hst2 : (match vl with [] => if is_each then st1 else set_panic "filter: valueList[0]" st1 | _ => st1 end) = st1).
    { destruct vl as [|x vl'] eqn:Evl; [|reflexivity]. unfold is_each. cbn [List.length].
      destruct Hvl as [H|H]; cbn [List.length] in H; [rewrite <- H; reflexivity|discriminate]. }
    rewrite Hst2.
    set (ws := if is_each then vl else map (fun _ => Some VNull) members).
    set (selb := fun w : entry => negb (is_each && isE w)).
    assert (Hws : List.length ws = n).
    { unfold ws, is_each. destruct (Nat.eqb (List.length vl) n) eqn:E; [apply Nat.eqb_eq; exact E|apply map_length]. }
    destruct (negb is_each && isE (hd_entry vl)) eqn:Eb.
    - (* whole match, false: nothing is selected *)
      cbn [fst]. apply andb_true_iff in Eb. destruct Eb as [Ee Eh]. apply negb_true_iff in Ee.
      assert (Hall : forall i, (i < n)%nat -> nth i hs false = false).
      { intros i Hi. rewrite <- Hden by exact Hi. unfold den. fold vl. fold is_each. rewrite Ee, Eh.
        cbn. apply andb_false_r. }
      assert (Hnil : flat_map (fun xb : A * bool => if snd xb then g (fst xb) else []) (combine members hs) = []).
      { clear - Hall Hlen. fold n in Hlen. revert hs Hlen Hall. subst n.
        induction members as [|x xs IH]; intros [|h hs] Hl Ha; cbn in *; try reflexivity; try discriminate.
        rewrite (Ha 0%nat ltac:(lia)). cbn. apply IH; [lia|]. intros i Hi. apply (Ha (S i)). lia. }
      rewrite Hnil. cbn. rewrite app_nil_r. reflexivity.
    - rewrite loop_finish_cont.
      assert (Hsel : map selb ws = hs).
      { apply (nth_ext _ _ false false); [rewrite map_length; congruence|].
        intros i Hi. rewrite map_length, Hws in Hi.
        rewrite <- Hden by exact Hi.
        rewrite (nth_indep (map selb ws) false (selb (Some VNull))) by (rewrite map_length; lia).
        rewrite map_nth. unfold selb, den. fold vl. fold is_each.
        apply Nat.ltb_lt in Hi. rewrite Hi. cbn [andb]. unfold ws.
        destruct is_each eqn:Ei.
        + cbn [andb]. rewrite (nth_indep vl (Some VNull) None); [reflexivity|].
          apply Nat.ltb_lt in Hi. apply Nat.eqb_eq in Ei. lia.
        + cbn [andb negb] in *. rewrite Eb. reflexivity. }
      rewrite <- Hsel, combine_map_r, flat_map_map. cbn [fst snd].
      refine (proj2 (fold_linv2 root c st1 _ (fun xw : A * entry => if selb (snd xw) then g (fst xw) else []) (combine members ws) _
                                 (c, 0%nat, None, st1) [] (linv2_init root c st1))).
      intros s [x w] acc Hin Hs. destruct s as [[[c' dl] de] st']. cbn [fst snd]. unfold selb.
      destruct (is_each && isE w); cbn [negb].
      + rewrite app_nil_r. exact Hs.
      + apply in_combine_l in Hin.
        apply (linv2_step root c st1 acc (c', dl, de, st') (next_of x) (g x) Hok Hs).
        * apply step_ok'_of. apply (proj1 (Hf x Hin)).
        * apply (proj2 (Hf x Hin)).
  Qed.
End R1.
