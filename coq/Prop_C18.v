(* Prop_C18.v — property C18: equivalent spellings behave identically.
   At the end of the file, from the path TEXT (SpellText.v): C18_equivalent_spellings_from_text — two paths of steps and
   filters whose steps mean the same are both accepted and return the same results or both fail — with
   C18_spellings_that_mean_the_same listing the respellings covered (name / quotes, wildcard, signs and leading zeros of
   indexes and slice bounds, respelled filter operands, number literals); C18_dollar_optional and
   C18_outer_spaces_same_tree for the leading `$` and the outer blanks.  The earlier, partial statements:
   Proved: (1) what a path selects does not depend on the text / connected-text fields of its nodes
   (C18_values_text_independent, on the specification which the implementation refines exactly): two
   spellings that the parser turns into trees equal up to those texts return the same values and fail
   together; (2) lexical facts on the regenerated grammar / the lexical model: `space` consumes every
   blank and emits nothing, an explicit + sign and leading zeros do not change an integer, single- and
   double-quoted spellings of a key name the same member, `.*` and `[*]` push the same node.
   NOT proved: that equivalent spellings are parsed into trees equal up to texts for arbitrary paths
   (structural round trip), and the "same error type at the same step" half.  Both are decided by
   the correspondence check: every generated AST is rendered in 2..6 spellings that must agree on the
   real library and with the model. *)
From JP Require Import Eval WF Spec Slice Text Peg PegFacts LexFacts Codec Actions SpecText.
Local Open Scope N_scope.

Theorem C18_values_text_independent : forall (g : basic -> basic),
  (forall b, vgroup (g b) = vgroup b) -> (forall b, accessor (g b) = accessor b) ->
  forall ffun afun regex_match t doc,
  spec_results ffun afun regex_match (mapb g t) doc = spec_results ffun afun regex_match t doc.
Proof. exact results_text_independent. Qed.
Print Assumptions C18_values_text_independent.

Theorem C18_space_partial : forall g f s pos,
  match run g f (PStar (PLit [32])) s pos with
  | PFail => False
  | PFuel => True
  | POk r p t => r = skip_blanks s /\ p = (pos + count_blanks s)%nat /\ t = []
  end.
Proof. exact run_space. Qed.
Print Assumptions C18_space_partial.

Theorem C18_plus_sign_partial : forall c r, c <> 45 -> c <> 43 -> atoi (43 :: c :: r) = atoi (c :: r).
Proof. exact atoi_plus. Qed.
Theorem C18_leading_zero_partial : forall ds, ds <> [] ->
  atoi (48 :: ds) = atoi ds \/ (exists c r, ds = c :: r /\ (c = 45 \/ c = 43)).
Proof. exact atoi_leading_zero. Qed.
Print Assumptions C18_leading_zero_partial.

Theorem C18_quote_styles_partial : forall k, unescape_single (esc_single k) = unescape_double (esc_double k).
Proof. intros k. rewrite unescape_single_esc, unescape_double_esc. reflexivity. Qed.
Print Assumptions C18_quote_styles_partial.

(* `.*` and `[*]` run the same action (12), which ignores the captured text *)
Theorem C18_wildcard_spellings_partial : forall cfg pf rx cps cps' b b' st,
  exec_action cfg pf rx 12 cps b st = exec_action cfg pf rx 12 cps' b' st.
Proof. reflexivity. Qed.


(* ---------- from the path text (KeyParse.v, KeyAddr.v) ---------- *)
From JP Require Import Grammar Tree EvalInv1 EvalInv4 EvalTop KeyDefs KeyParse KeyAddr.
Local Open Scope N_scope.
Open Scope list_scope.

(* single vs double quotes, and .name vs ['name']: for every non-empty name without control characters the three
   spellings $["name"], $['name'] and $.name (symbols backslash-escaped) are accepted and, on every object, return
   the same results or all fail — proved from the text through the regenerated grammar, the actions and the
   refinement theorem *)
Theorem C18_name_spellings_agree : forall cfg parse_float regex_ok ffun afun regex_match,
  (forall f v w, small v -> ffun f v = Some w -> small w) ->
  (forall f l w, Forall small l -> afun f l = Some w -> small w) ->
  forall c k m st, forallb dot_char (c :: k) = true -> small (VObj m) -> ok st ->
  exists t1 t2 t3,
    parse_with cfg parse_float regex_ok jsonpath_grammar (key_path 34 (c :: k)) = ParseOk t1 /\
    parse_with cfg parse_float regex_ok jsonpath_grammar (key_path 39 (c :: k)) = ParseOk t2 /\
    parse_with cfg parse_float regex_ok jsonpath_grammar (dot_path (c :: k)) = ParseOk t3 /\
    match fst (eval_run ffun afun regex_match t1 (VObj m) st) with
    | OOk rs => fst (eval_run ffun afun regex_match t2 (VObj m) st) = OOk rs /\ fst (eval_run ffun afun regex_match t3 (VObj m) st) = OOk rs
    | OErr _ => (exists e, fst (eval_run ffun afun regex_match t2 (VObj m) st) = OErr e) /\
                (exists e, fst (eval_run ffun afun regex_match t3 (VObj m) st) = OErr e)
    | OPanic _ => False
    end.
Proof. exact spellings_agree. Qed.
Print Assumptions C18_name_spellings_agree.


(* omitting the leading `$`: for every path of name / index / wildcard / slice steps (each step after the first
   possibly after `..`) the text without `$` (KeyDefs.chain_path0: the first step written bare) is accepted and
   returns the same results as the text with it, or both fail *)
From JP Require Import IdxParse SliceParse UnionParse WildParse RecParse ChainParse ChainAddr NoDollar NoDollarAddr.
Theorem C18_dollar_optional : forall cfg parse_float regex_ok ffun afun regex_match,
  (forall f v w, small v -> ffun f v = Some w -> small w) ->
  (forall f l w, Forall small l -> afun f l = Some w -> small w) ->
  forall s r doc st, step_ok s = true -> forallb rstep_ok r = true -> small doc -> ok st ->
  exists t1 t0,
    parse_with cfg parse_float regex_ok jsonpath_grammar (chain_path (RPlain s :: r)) = ParseOk t1 /\
    parse_with cfg parse_float regex_ok jsonpath_grammar (chain_path0 s r) = ParseOk t0 /\
    match fst (eval_run ffun afun regex_match t1 doc st) with
    | OOk rs => fst (eval_run ffun afun regex_match t0 doc st) = OOk rs
    | OErr _ => exists e, fst (eval_run ffun afun regex_match t0 doc st) = OErr e
    | OPanic _ => False
    end.
Proof. exact dollar_optional. Qed.
Print Assumptions C18_dollar_optional.

(* the same when FILTERS follow the first step (NoDollarFilt.v): `a[?(@.b)].c` returns what `$.a[?(@.b)].c` returns *)
From JP Require Import FiltChain FiltChainAddr NoDollarFilt.
Theorem C18_dollar_optional_before_filters : forall cfg parse_float regex_ok ffun afun regex_match,
  (forall f v w, small v -> ffun f v = Some w -> small w) ->
  (forall f l w, Forall small l -> afun f l = Some w -> small w) ->
  forall s l doc st, step_ok s = true -> forallb fstep_ok l = true -> forallb (fstep_okp parse_float regex_ok) l = true -> small doc -> ok st ->
  exists t1 t0,
    parse_with cfg parse_float regex_ok jsonpath_grammar (fchain_path (FS (RPlain s) :: l)) = ParseOk t1 /\
    parse_with cfg parse_float regex_ok jsonpath_grammar (fchain_path0 s l) = ParseOk t0 /\
    match fst (eval_run ffun afun regex_match t1 doc st) with
    | OOk rs => fst (eval_run ffun afun regex_match t0 doc st) = OOk rs
    | OErr _ => exists e, fst (eval_run ffun afun regex_match t0 doc st) = OErr e
    | OPanic _ => False
    end.
Proof. exact dollar_optional_filt. Qed.
Print Assumptions C18_dollar_optional_before_filters.
(* the same when filter functions follow the steps and filters (NoDollarFun.v): `a[?(@.b)].f().g()` returns what `$.a[?(@.b)].f().g()` returns *)
From JP Require Import FunParse NoDollarFun.
Theorem C18_dollar_optional_before_functions : forall cfg parse_float regex_ok ffun afun regex_match,
  (forall f v w, small v -> ffun f v = Some w -> small w) ->
  (forall f l w, Forall small l -> afun f l = Some w -> small w) ->
  forall s l f fs doc st, step_ok s = true -> forallb fstep_ok l = true -> forallb (fstep_okp parse_float regex_ok) l = true ->
  forallb fname_ok (f :: fs) = true -> forallb (fun_known cfg) (f :: fs) = true -> small doc -> ok st ->
  exists t1 t0,
    parse_with cfg parse_float regex_ok jsonpath_grammar (fchain_fun_path (FS (RPlain s) :: l) (f :: fs)) = ParseOk t1 /\
    parse_with cfg parse_float regex_ok jsonpath_grammar (fchain_fun_path0 s l (f :: fs)) = ParseOk t0 /\
    match fst (eval_run ffun afun regex_match t1 doc st) with
    | OOk rs => fst (eval_run ffun afun regex_match t0 doc st) = OOk rs
    | OErr _ => exists e, fst (eval_run ffun afun regex_match t0 doc st) = OErr e
    | OPanic _ => False
    end.
Proof. exact dollar_optional_fun. Qed.
Print Assumptions C18_dollar_optional_before_functions.
(* … and when an aggregate function follows them (NoDollarAgg.v): `a[?(@.b)].g().f()` *)
From JP Require Import AggParse NoDollarAgg.
Theorem C18_dollar_optional_before_aggregates : forall cfg parse_float regex_ok ffun afun regex_match,
  (forall f v w, small v -> ffun f v = Some w -> small w) ->
  (forall f l w, Forall small l -> afun f l = Some w -> small w) ->
  forall s l g fs doc st, step_ok s = true -> forallb fstep_ok l = true -> forallb (fstep_okp parse_float regex_ok) l = true ->
  forallb fname_ok (g :: fs) = true -> agg_known cfg g = true -> forallb (fun_known cfg) fs = true -> small doc -> ok st ->
  exists t1 t0,
    parse_with cfg parse_float regex_ok jsonpath_grammar (fchain_fun_path (FS (RPlain s) :: l) (g :: fs)) = ParseOk t1 /\
    parse_with cfg parse_float regex_ok jsonpath_grammar (fchain_fun_path0 s l (g :: fs)) = ParseOk t0 /\
    match fst (eval_run ffun afun regex_match t1 doc st) with
    | OOk rs => fst (eval_run ffun afun regex_match t0 doc st) = OOk rs
    | OErr _ => exists e, fst (eval_run ffun afun regex_match t0 doc st) = OErr e
    | OPanic _ => False
    end.
Proof. exact dollar_optional_agg. Qed.
Print Assumptions C18_dollar_optional_before_aggregates.
Example C18_dollar_functions_example :
  fchain_fun_path0 (SDot [97]) [FE [RPlain (SDot [98])]] [[102]; [103]] = [97; 91; 63; 40; 64; 46; 98; 41; 93; 46; 102; 40; 41; 46; 103; 40; 41] /\
  fchain_fun_path [FS (RPlain (SDot [97])); FE [RPlain (SDot [98])]] [[102]; [103]] = [36; 46; 97; 91; 63; 40; 64; 46; 98; 41; 93; 46; 102; 40; 41; 46; 103; 40; 41] /\
  forallb fname_ok [[102]; [103]] = true /\
  forallb (fun_known {| cfg_filters := ["f"%string; "g"%string]; cfg_aggs := []; cfg_accessor := false |}) [[102]; [103]] = true.
Proof. repeat split; vm_compute; reflexivity. Qed.

Example C18_dollar_example :
  chain_path0 (SDot [97]) [RPlain (SWild false); RRec (SIdx [48])] = [97; 91; 42; 93; 46; 46; 91; 48; 93] /\
  chain_path (RPlain (SDot [97]) :: [RPlain (SWild false); RRec (SIdx [48])]) = [36; 46; 97; 91; 42; 93; 46; 46; 91; 48; 93].
Proof. split; vm_compute; reflexivity. Qed.


(* leading and trailing spaces: the padded text is accepted and Parse returns THE SAME TREE as for the bare text, so
   every behaviour (values, errors, accessors) is identical *)
From JP Require Import SpacePath.
Theorem C18_outer_spaces_same_tree : forall cfg parse_float regex_ok n1 n2 s r, forallb rstep_ok (s :: r) = true ->
  parse_with cfg parse_float regex_ok jsonpath_grammar (padded_path n1 n2 (s :: r)) =
  parse_with cfg parse_float regex_ok jsonpath_grammar (chain_path (s :: r)).
Proof. exact padded_same_parse. Qed.
Print Assumptions C18_outer_spaces_same_tree.
(* the same when the path has filters (NoDollarFilt.v, FPaddedExec) *)
Theorem C18_outer_spaces_same_tree_with_filters : forall cfg parse_float regex_ok n1 n2 s r,
  forallb fstep_ok (s :: r) = true -> forallb (fstep_okp parse_float regex_ok) (s :: r) = true ->
  parse_with cfg parse_float regex_ok jsonpath_grammar (fpadded_path n1 n2 (s :: r)) =
  parse_with cfg parse_float regex_ok jsonpath_grammar (fchain_path (s :: r)).
Proof. exact fpadded_same_parse. Qed.
Print Assumptions C18_outer_spaces_same_tree_with_filters.
(* the same when function calls follow — filter functions and aggregates, in any order (PadFun.v): ` $.a[?(@.b)].f().g() ` *)
From JP Require Import FunParse PadFun.
Theorem C18_outer_spaces_same_tree_with_functions : forall cfg parse_float regex_ok n1 n2 l fs,
  forallb fstep_ok l = true -> forallb (fstep_okp parse_float regex_ok) l = true ->
  forallb fname_ok fs = true -> forallb (call_ok cfg) fs = true ->
  parse_with cfg parse_float regex_ok jsonpath_grammar (fpadded_fun_path n1 n2 l fs) =
  parse_with cfg parse_float regex_ok jsonpath_grammar (fchain_fun_path l fs).
Proof. exact fpadded_fun_same_parse. Qed.
Print Assumptions C18_outer_spaces_same_tree_with_functions.
(* ` $.a[?(@.b)].f().g()  ` with f a filter function and g an aggregate: the text, and the premises hold *)
Example C18_outer_spaces_functions_example :
  let cfg := {| cfg_filters := ["f"%string]; cfg_aggs := ["g"%string]; cfg_accessor := false |} in
  let l := [FS (RPlain (SDot [97])); FE [RPlain (SDot [98])]] in
  fpadded_fun_path 1 2 l [[102]; [103]] = [32; 36; 46; 97; 91; 63; 40; 64; 46; 98; 41; 93; 46; 102; 40; 41; 46; 103; 40; 41; 32; 32] /\
  forallb fstep_ok l = true /\ forallb (fstep_okp (fun _ => None) (fun _ => true)) l = true /\
  forallb fname_ok [[102]; [103]] = true /\ forallb (call_ok cfg) [[102]; [103]] = true.
Proof. repeat split; vm_compute; reflexivity. Qed.


(* Equivalent spellings in general, from the path text (SpellText.v): two paths of steps and filters (KeyDefs.fchain_path)
   whose steps mean the same — navigate alike from every value (same_step) — are both accepted and return the same results,
   or both fail.  And these spellings mean the same: .name / ['name'] / ["name"]; .* / [*]; an index, or the bounds of a
   slice, written with a plus sign or leading zeros (only the number counts: C18_plus_sign_partial, C18_leading_zero_partial
   give atoi); a filter whose inner steps are respelled; a comparison whose literal is another spelling of the same number; a comparison
   with blanks around its operator and inside the parentheses; the same after `..`. *)
From JP Require Import FiltParse CmpParse LitLeft QueryParse QuerySpace FiltChain FiltAddr CmpAddr FiltChainAddr SpellText.
Theorem C18_equivalent_spellings_from_text : forall cfg parse_float regex_ok ffun afun regex_match,
  (forall f v w, small v -> ffun f v = Some w -> small w) ->
  (forall f l w, Forall small l -> afun f l = Some w -> small w) ->
  forall x r y s doc st,
  forallb fstep_ok (x :: r) = true -> forallb (fstep_okp parse_float regex_ok) (x :: r) = true ->
  forallb fstep_ok (y :: s) = true -> forallb (fstep_okp parse_float regex_ok) (y :: s) = true ->
  Forall2 (same_step parse_float regex_match) (x :: r) (y :: s) -> small doc -> ok st ->
  exists t1 t2, parse_with cfg parse_float regex_ok jsonpath_grammar (fchain_path (x :: r)) = ParseOk t1 /\
                parse_with cfg parse_float regex_ok jsonpath_grammar (fchain_path (y :: s)) = ParseOk t2 /\
    match fst (eval_run ffun afun regex_match t1 doc st) with
    | OOk rs => fst (eval_run ffun afun regex_match t2 doc st) = OOk rs
    | OErr _ => exists e, fst (eval_run ffun afun regex_match t2 doc st) = OErr e
    | OPanic _ => False
    end.
Proof. exact spellings_from_text. Qed.
Print Assumptions C18_equivalent_spellings_from_text.

Theorem C18_spellings_that_mean_the_same : forall parse_float regex_match,
  (forall q k, same_rstep (RPlain (SDot k)) (RPlain (SBr q k)) /\ same_rstep (RRec (SDot k)) (RRec (SBr q k))) /\
  (forall q q' k, same_rstep (RPlain (SBr q k)) (RPlain (SBr q' k)) /\ same_rstep (RRec (SBr q k)) (RRec (SBr q' k))) /\
  (forall b b', same_rstep (RPlain (SWild b)) (RPlain (SWild b')) /\ same_rstep (RRec (SWild b)) (RRec (SWild b'))) /\
  (forall t t', atoi t = atoi t' -> same_rstep (RPlain (SIdx t)) (RPlain (SIdx t')) /\ same_rstep (RRec (SIdx t)) (RRec (SIdx t'))) /\
  (forall a b c a' b' c', bopt a = bopt a' -> bopt b = bopt b' ->
     match c with Some t => bopt t | None => None end = match c' with Some t => bopt t | None => None end ->
     same_rstep (RPlain (SSlice a b c)) (RPlain (SSlice a' b' c'))) /\
  (forall a b, same_rstep a b -> same_step parse_float regex_match (FS a) (FS b)) /\
  (forall i j, Forall2 same_rstep i j -> same_step parse_float regex_match (FE i) (FE j) /\ same_step parse_float regex_match (FN i) (FN j)) /\
  (forall i j o lit lit', Forall2 same_rstep i j -> lit_num parse_float lit = lit_num parse_float lit' ->
     same_step parse_float regex_match (FC i o lit) (FC j o lit')) /\
  (forall i g0 a o b g1 lit, same_step parse_float regex_match (FC i o lit) (FCS i g0 a o b g1 lit)) /\
  (forall x y, same_step parse_float regex_match x y -> same_step parse_float regex_match (FR x) (FR y)) /\
  (forall i g0 gn g1, same_step parse_float regex_match (FE i) (FES false g0 gn i g1) /\ same_step parse_float regex_match (FN i) (FES true g0 gn i g1)) /\
  (forall g0 d, same_step parse_float regex_match (FQ (unspace_dnf d)) (FQS g0 d)) /\
  (forall t, same_step parse_float regex_match (FT t) (FT (TP t))) /\
  (forall i o lit, same_step parse_float regex_match (FQ [[BC i o lit]]) (FQ [[BCL lit (mirror_op o) i]])) /\
  (forall i ne l, same_step parse_float regex_match (FQ [[BL i ne l]]) (FQ [[BLL l ne i]])) /\
  (forall i o j, match o with OLt | OLe | OGt | OGe => true | _ => false end = true ->
     same_step parse_float regex_match (FQ [[BCR i o j]]) (FQ [[BRL j (mirror_op o) i]])) /\
  (forall i ne j, same_step parse_float regex_match (FQ [[BPQ i ne j]]) (FQ [[BRL j (if ne then ONe else OEq) i]])).
Proof.
  intros pf rm.
  split; [intros q k; split; [apply same_plain|apply same_rec]; intros lv; apply name_spellings|].
  split; [intros q q' k; split; [apply same_plain|apply same_rec]; intros lv; apply quote_spellings|].
  split; [intros b b'; split; [apply same_plain|apply same_rec]; intros lv; apply wildcard_spellings|].
  split; [intros t t' H; split; [apply same_plain|apply same_rec]; intros lv; apply index_spellings; exact H|].
  split; [intros a b c a' b' c' Ha Hb Hc; apply same_plain; intros lv; apply slice_spellings; assumption|].
  split; [intros a b H; apply same_fs; exact H|].
  split; [intros i j H; split; [apply filter_spellings|apply negation_spellings]; exact H|].
  split; [intros i j o lit lit' H E; apply comparison_spellings; assumption|].
  split; [intros i g0 a o b g1 lit; apply spaced_comparison_spellings|].
  split; [intros x y H; apply rec_filter_spellings; exact H|].
  split; [intros i g0 gn g1; apply spaced_filter_spellings|].
  split; [intros g0 d; apply spaced_query_spellings|].
  split; [intros t; apply parenthesised_query_spellings|].
  split; [intros i o lit; apply literal_left_spellings|].
  split; [intros i ne l; apply typed_literal_left_spellings|].
  split; [intros i o j Ho; apply root_left_spellings; exact Ho|].
  intros i ne j. apply root_left_eq_spellings.
Qed.
Print Assumptions C18_spellings_that_mean_the_same.

(* two spellings of one path: $.a[01]..['b'][?(@.c>1.0)] and $['a'][1]..b[?(@["c"]>1)] *)
Example C18_spellings_example :
  let pf := fun s : string => if String.eqb s "1.0" then Some (num_of_Z 1) else if String.eqb s "1" then Some (num_of_Z 1) else None in
  let rm := fun _ _ : string => false in
  let p1 := [FS (RPlain (SDot [97])); FS (RPlain (SIdx [48; 49])); FS (RRec (SBr 39 [98])); FC [RPlain (SDot [99])] OGt [49; 46; 48]] in
  let p2 := [FS (RPlain (SBr 39 [97])); FS (RPlain (SIdx [49])); FS (RRec (SDot [98])); FC [RPlain (SBr 34 [99])] OGt [49]] in
  fchain_path p1 = [36; 46; 97; 91; 48; 49; 93; 46; 46; 91; 39; 98; 39; 93; 91; 63; 40; 64; 46; 99; 62; 49; 46; 48; 41; 93] /\
  fchain_path p2 = [36; 91; 39; 97; 39; 93; 91; 49; 93; 46; 46; 98; 91; 63; 40; 64; 91; 34; 99; 34; 93; 62; 49; 41; 93] /\
  forallb fstep_ok p1 = true /\ forallb fstep_ok p2 = true /\
  forallb (fstep_okp pf (fun _ => true)) p1 = true /\ forallb (fstep_okp pf (fun _ => true)) p2 = true /\
  Forall2 (same_step pf rm) p1 p2.
Proof.
  cbv zeta. do 6 (split; [vm_compute; reflexivity|]).
  apply Forall2_cons; [apply same_fs, same_plain; intros lv; apply name_spellings|].
  apply Forall2_cons; [apply same_fs, same_plain; intros lv; apply index_spellings; vm_compute; reflexivity|].
  apply Forall2_cons; [apply same_fs, same_rec; intros lv; symmetry; apply name_spellings|].
  apply Forall2_cons; [|apply Forall2_nil].
  apply comparison_spellings; [|vm_compute; reflexivity]. apply Forall2_cons; [|apply Forall2_nil]. apply same_plain. intros lv. apply name_spellings.
Qed.
