(* Prop_C20.v — property C20: values that are not decoded JSON are opaque leaves, never crash.
   The model represents a foreign Go value as VOpaque (its reflect type string, an identity, whether
   it is deep-equal to itself); interface equality is partial in the model (iface_eq returns None =
   a Go run-time panic when both operands have the same uncomparable dynamic type).  Proved: no call
   on a well-formed tree reaches any panic site, for EVERY document — foreign leaves included (C20_no_panic);
   a navigation step applied to a foreign value fails with a type error naming its Go type. *)
From JP Require Import Eval WF Verdict EvalInv1 EvalInv3 EvalInv4 EvalTop.
Open Scope string_scope.

Section C20.
  Variable ffun : string -> value -> option value.
  Variable afun : string -> list value -> option value.
  Variable regex_match : string -> string -> bool.
  Hypothesis ffun_small : forall f v w, small v -> ffun f v = Some w -> small w.
  Hypothesis afun_small : forall f l w, Forall small l -> afun f l = Some w -> small w.

  Theorem C20_no_panic : forall t doc st,
    wf_node t = true -> small doc -> ok st ->
    forall s, fst (eval_run ffun afun regex_match t doc st) <> OPanic s.
  Proof.
    intros t doc st Hwf Hs Hok s Hp.
    pose proof (eval_run_spec ffun afun regex_match ffun_small afun_small t doc st Hwf Hs Hok) as H.
    destruct (eval_run ffun afun regex_match t doc st) as [o st']. cbn [fst] in Hp. subst o.
    destruct H as [_ [[rs [Heq _]]|[e Heq]]]; discriminate.
  Qed.

  (* name, wildcard, recursive-descent, subscript and filter steps applied to a foreign value *)
  Theorem C20_navigation_type_error : forall k b next root l ty id se c st,
    match k with KSingle _ | KWild | KRec _ _ | KUnion _ | KFilter _ => True | _ => False end ->
    exists expected,
      retrieve ffun afun regex_match (Node k b next) root (l, VOpaque ty id se) c st
      = (c, Some (EType b expected ty), st).
  Proof.
    intros k b next root l ty id se c st Hk. rewrite retrieve_unfold.
    destruct k; try contradiction; cbn [snd is_container go_type]; eexists; reflexivity.
  Qed.
End C20.
Print Assumptions C20_no_panic.
Print Assumptions C20_navigation_type_error.

(* comparisons of a foreign value with a literal, an ordering or a regex never keep it *)
Theorem C20_literal_comparisons_no_match : forall vd ty id se,
  validate_entry vd (Some (VOpaque ty id se)) = Some None.
Proof. intros vd ty id se. destruct vd; reflexivity. Qed.
Print Assumptions C20_literal_comparisons_no_match.

(* From the path text (FiltChainAddr.v): a value of a foreign Go type is a leaf for every path of steps and filters — as
   the whole document it is selected by nothing (every such path fails on it), whatever its type, identity or
   self-equality; as a member or element it is returned as it is by the steps that reach it (C01_filter_retrieval:
   navigation copies the value reached). *)
From JP Require Import Json Text Tree Grammar Actions KeyDefs ChainParse ChainAddr FiltChain FiltAddr FiltChainAddr.
From Coq Require Import List. Import ListNotations.
Lemma opaque_reaches_nothing parse_float regex_match root x r t i s l : nav_allf parse_float regex_match root (x :: r) (l, VOpaque t i s) = [].
Proof.
  cbn [nav_allf]. assert (E : nav1f parse_float regex_match root x (l, VOpaque t i s) = []); [|rewrite E; reflexivity].
  destruct x as [[k|k]|i0|i0 o lit|i0|d|y|i0 g0 a o b g1 lit|neg g0 gn i0 g1|g0' d'|t']; cbn [nav1f nav1r navf navp fst snd]; try reflexivity.
  - destruct k; reflexivity.
  - destruct neg; reflexivity.
Qed.
Theorem C20_foreign_root_from_text : forall cfg parse_float regex_ok ffun afun regex_match,
  (forall f v w, small v -> ffun f v = Some w -> small w) ->
  (forall f l w, Forall small l -> afun f l = Some w -> small w) ->
  forall x r t i s st, forallb fstep_ok (x :: r) = true -> forallb (fstep_okp parse_float regex_ok) (x :: r) = true -> ok st ->
  exists tr e, parse_with cfg parse_float regex_ok jsonpath_grammar (fchain_path (x :: r)) = ParseOk tr /\
               fst (eval_run ffun afun regex_match tr (VOpaque t i s) st) = OErr e.
Proof.
  intros cfg parse_float regex_ok ffun afun regex_match Hf Ha x r t i s st Hs Hp Hok.
  destruct (fchain_retrieval cfg parse_float regex_ok ffun afun regex_match Hf Ha x r (VOpaque t i s) st Hs Hp I Hok) as (tr & Ht & H).
  rewrite opaque_reaches_nothing in H. destruct H as [e He]. exists tr, e. split; assumption.
Qed.
Print Assumptions C20_foreign_root_from_text.

(* A value that is not JSON met at depth (ErrSteps.v): a path of name and index steps that reaches such a value and has a further
   step to take there fails with "type unmatched" naming that step as written — expected object (array for an index step), found the
   Go type of the value — and never panics. *)
From JP Require Import KeyDefs ChainParse ErrNames ErrSteps.
Theorem C20_foreign_value_at_depth_from_text : forall cfg parse_float regex_ok ffun afun regex_match,
  (forall f v w, small v -> ffun f v = Some w -> small w) ->
  (forall f l w, Forall small l -> afun f l = Some w -> small w) ->
  forall pre x post doc ty i s st,
  forallb step_ok (pre ++ x :: post) = true -> forallb is_loc_step (pre ++ x :: post) = true -> small doc -> ok st ->
  walk doc pre = Some (VOpaque ty i s) ->
  exists t b, parse_with cfg parse_float regex_ok jsonpath_grammar (chain_path (map RPlain (pre ++ x :: post))) = ParseOk t /\
              fst (eval_run ffun afun regex_match t doc st) = OErr (EType b (expected_container x) ty) /\ text b = step_text x.
Proof. exact foreign_value_step_error. Qed.
Print Assumptions C20_foreign_value_at_depth_from_text.

(* `$.a[1].b` and `$.a[1][0]` on {"a":[0, <time.Time>]} *)
Example C20_foreign_at_depth_example :
  let doc := VObj [("a", VArr [VNum (num_of_Z 0); VOpaque "time.Time" 1 true])]%string in
  walk doc [SDot [97%N]; SIdx [49%N]] = Some (VOpaque "time.Time" 1 true) /\
  expected_container (SDot [98%N]) = "object"%string /\ expected_container (SIdx [48%N]) = "array"%string.
Proof. repeat split; vm_compute; reflexivity. Qed.
