(* EndToEnd.v — the library model from text to result: for EVERY path string, Parse returns a tree or a
   documented error (C02); every tree it returns is well formed (parse_builds_wf), so the evaluator
   theorems apply to it without further hypothesis: a retrieval on any document returns exactly the
   results of the specification Spec.sp, or — exactly when the specification selects nothing — the
   error of the specification ErrSpec.serr; it never panics. *)
From JP Require Import Peg Grammar Text Tree Actions Eval WF Spec ErrSpec ErrFacts ErrReal EvalInv1 EvalInv3 EvalInv4 EvalTop
                       Refine1 Refine2 RefineTop ErrRefine ErrTop StackRules FuelRules.
Open Scope list_scope.

Section E2E.
  Variable cfg : config.
  Variable parse_float : string -> option num.
  Variable regex_ok : string -> bool.
  Variable ffun : string -> value -> option value.
  Variable afun : string -> list value -> option value.
  Variable regex_match : string -> string -> bool.
  Hypothesis ffun_small : forall f v w, small v -> ffun f v = Some w -> small w.
  Hypothesis afun_small : forall f l w, Forall small l -> afun f l = Some w -> small w.
  Notation parse := (parse_with cfg parse_float regex_ok jsonpath_grammar).
  Notation eval_run := (eval_run ffun afun regex_match).
  Notation spec_results := (spec_results ffun afun regex_match).
  Notation spec_error := (spec_error ffun afun regex_match).

  Theorem parsed_tree_wf input t : parse input = ParseOk t -> wf_node t = true.
  Proof. apply parse_builds_wf. Qed.

  Theorem retrieve_end_to_end input doc st : small doc -> ok st ->
    match parse input with
    | ParseCrash _ => False
    | ParseErr _ => True
    | ParseOk t =>
        match fst (eval_run t doc st) with
        | OOk rs => rs = spec_results t doc /\ rs <> [] /\ spec_error t doc = None
        | OErr e => spec_results t doc = [] /\ spec_error t doc = Some e
        | OPanic _ => False
        end
    end.
  Proof.
    intros Hs Hok. destruct (parse input) as [t|e|s] eqn:Ep.
    - pose proof (parse_builds_wf cfg parse_float regex_ok input t Ep) as Hwf.
      pose proof (eval_refines_spec ffun afun regex_match ffun_small afun_small t doc st Hwf Hs Hok) as Hr.
      pose proof (eval_run_error ffun afun regex_match ffun_small afun_small t doc st Hwf Hs Hok) as He.
      cbv zeta in Hr.
      destruct (fst (eval_run t doc st)) as [rs|err|p].
      + destruct Hr as [[Hn Ho]|[_ [e0 Ho]]]; [|discriminate]. inversion Ho; subst. repeat split; [exact Hn|exact He].
      + destruct Hr as [[_ Ho]|[Hn _]]; [discriminate|]. split; [exact Hn|exact He].
      + exact He.
    - exact I.
    - destruct (parse_total cfg parse_float regex_ok input) as [[t Ht]|[e He]]; congruence.
  Qed.
  (* the error of a failing retrieval on a parsed tree: a real failure event, on a step of the path, the deepest *)
  Theorem retrieve_error_end_to_end input t doc st e : parse input = ParseOk t -> small doc -> ok st ->
    fst (eval_run t doc st) = OErr e ->
    In e (events ffun afun regex_match t doc (Some [], doc)) /\
    In (err_basic e) (basics t) /\
    (forall x, In x (events ffun afun regex_match t doc (Some [], doc)) -> depth_len e <= depth_len x)%nat /\
    (is_type_err e = true ->
     forall x, In x (events ffun afun regex_match t doc (Some [], doc)) -> depth_len x = depth_len e -> is_type_err x = true).
  Proof.
    intros Hp Hs Hok Hr.
    apply (eval_run_error_real ffun afun regex_match ffun_small afun_small t doc st e); try assumption.
    - exact (parse_builds_wf cfg parse_float regex_ok input t Hp).
    - exact (parse_builds_ctext_ok cfg parse_float regex_ok input t Hp).
  Qed.
End E2E.
