(* VerdictCompute.v — the logical operators of Eval.compute are and_lists / or_lists / not_list
   on the operand lists (so the set algebra of Verdict.v is about the evaluator model itself). *)
From JP Require Import Eval Verdict.
From Coq Require Import Lia.
Open Scope nat_scope.
Arguments Nat.ltb : simpl never.
Arguments Nat.eqb : simpl never.

Section VC.
  Variable ffun : string -> value -> option value.
  Variable afun : string -> list value -> option value.
  Variable regex_match : string -> string -> bool.
  Notation compute := (compute ffun afun regex_match).

  Lemma compute_and_eq a b root vals st :
    compute (QAnd a b) root vals st =
      let '(L, st1) := compute a root vals st in
      let l := lget st1 L in
      if len1 l then
        if isE (hd_entry l) then (L, st1) else compute b root vals st1
      else
        let '(R, st2) := compute b root vals st1 in
        let r := lget st2 R in
        if len1 r then
          if isE (hd_entry r) then (R, st2) else (L, st2)
        else
          let l2 := lget st2 L in
          let '(m, ws, hv) := and_merge l2 r 0 in
          let st3 := if Nat.ltb (List.length l2) (List.length r)
                     then set_panic "and: leftComputedList[index]" st2 else st2 in
          let '(L', st4) := commit L m ws st3 in
          if hv then (L', st4) else (GEmpty, st4).
  Proof. reflexivity. Qed.

  Lemma compute_or_eq a b root vals st :
    compute (QOr a b) root vals st =
      let '(L, st1) := compute a root vals st in
      let l := lget st1 L in
      if len1 l then
        if isE (hd_entry l) then compute b root vals st1 else (L, st1)
      else
        let '(R, st2) := compute b root vals st1 in
        let r := lget st2 R in
        if len1 r then
          if isE (hd_entry r) then (L, st2) else (R, st2)
        else
          let l2 := lget st2 L in
          let '(m, ws) := or_merge l2 r 0 in
          let st3 := if Nat.ltb (List.length l2) (List.length r)
                     then set_panic "or: leftComputedList[index]" st2 else st2 in
          commit L m ws st3.
  Proof. reflexivity. Qed.

  Lemma compute_not_eq a root vals st :
    compute (QNot a) root vals st =
      let '(L, st1) := compute a root vals st in
      let l := lget st1 L in
      if len1 l then
        if isE (hd_entry l) then (GFull, st1) else (GEmpty, st1)
      else
        let '(m, ws, hv) := not_flip l 0 in
        let '(L', st2) := commit L m ws st1 in
        if hv then (L', st2) else (GEmpty, st2).
  Proof. reflexivity. Qed.

  Lemma good_set_panic s st : good st -> good (set_panic s st).
  Proof. unfold good, set_panic. destruct (panicked st); cbn; auto. Qed.

  Lemma good_len1 st L : good st -> len1 (lget st L) = false -> exists l, L = Own l.
  Proof.
    intros [G1 G2] H. destruct L as [l| |]; [exists l; reflexivity| |]; cbn [lget] in H.
    - rewrite G1 in H. discriminate.
    - rewrite G2 in H. discriminate.
  Qed.

  Lemma lget_good st st' L : good st -> good st' -> lget st' L = lget st L.
  Proof. intros [A B] [C D]. destruct L; cbn [lget]; congruence. Qed.

  (* A && B: the verdict list is and_lists of the operands' verdict lists *)
  Lemma compute_and n a b root vals st :
    forall L st1 R st2 X st3,
    compute a root vals st = (L, st1) ->
    compute b root vals st1 = (R, st2) ->
    compute (QAnd a b) root vals st = (X, st3) ->
    good st1 -> good st2 ->
    vl_ok n (lget st1 L) -> vl_ok n (lget st2 R) ->
    lget st3 X = and_lists (lget st1 L) (lget st2 R) /\ good st3 /\ (st3 = st1 \/ st3 = st2).
  Proof.
    intros L st1 R st2 X st3 Ha Hb Hab G1 G2 VL VR.
    rewrite compute_and_eq, Ha in Hab. cbv zeta in Hab. unfold and_lists.
    destruct (len1 (lget st1 L)) eqn:E1.
    - destruct (isE (hd_entry (lget st1 L))) eqn:Eh.
      + inversion Hab; subst. split; [reflexivity|split; [assumption|left; reflexivity]].
      + rewrite Hb in Hab. inversion Hab; subst. split; [reflexivity|split; [assumption|right; reflexivity]].
    - rewrite Hb in Hab. cbv zeta in Hab.
      destruct (len1 (lget st2 R)) eqn:E2.
      + destruct (isE (hd_entry (lget st2 R))) eqn:Eh; inversion Hab; subst;
          (split; [|split; [assumption|right; reflexivity]]); try reflexivity.
        apply lget_good; assumption.
      + destruct (good_len1 st1 L G1 E1) as [l HL]. subst L. cbn [lget] in *.
        assert (Ll : List.length l = n) by (destruct VL as [|V]; [assumption|unfold len1 in E1; rewrite V in E1; discriminate]).
        assert (Lr : List.length (lget st2 R) = n) by (destruct VR as [|V]; [assumption|unfold len1 in E2; rewrite V in E2; discriminate]).
        pose proof (and_merge_spec l (lget st2 R) 0 ltac:(lia)) as Hm.
        destruct (and_merge l (lget st2 R) 0) as [[m ws] hv]. destruct Hm as [Hm Hh].
        rewrite Ll, Lr, Nat.ltb_irrefl in Hab. cbn [commit] in Hab.
        rewrite <- Hm, <- Hh.
        destruct hv; inversion Hab; subst; (split; [|split; [assumption|right; reflexivity]]); try reflexivity.
        destruct G2 as [G2 _]. exact G2.
  Qed.

  Lemma compute_or n a b root vals st :
    forall L st1 R st2 X st3,
    compute a root vals st = (L, st1) ->
    compute b root vals st1 = (R, st2) ->
    compute (QOr a b) root vals st = (X, st3) ->
    good st1 -> good st2 ->
    vl_ok n (lget st1 L) -> vl_ok n (lget st2 R) ->
    lget st3 X = or_lists (lget st1 L) (lget st2 R) /\ good st3 /\ (st3 = st1 \/ st3 = st2).
  Proof.
    intros L st1 R st2 X st3 Ha Hb Hab G1 G2 VL VR.
    rewrite compute_or_eq, Ha in Hab. cbv zeta in Hab. unfold or_lists.
    destruct (len1 (lget st1 L)) eqn:E1.
    - destruct (isE (hd_entry (lget st1 L))) eqn:Eh.
      + rewrite Hb in Hab. inversion Hab; subst. split; [reflexivity|split; [assumption|right; reflexivity]].
      + inversion Hab; subst. split; [reflexivity|split; [assumption|left; reflexivity]].
    - rewrite Hb in Hab. cbv zeta in Hab.
      destruct (len1 (lget st2 R)) eqn:E2.
      + destruct (isE (hd_entry (lget st2 R))) eqn:Eh; inversion Hab; subst;
          (split; [|split; [assumption|right; reflexivity]]); try reflexivity.
        apply lget_good; assumption.
      + destruct (good_len1 st1 L G1 E1) as [l HL]. subst L. cbn [lget] in *.
        assert (Ll : List.length l = n) by (destruct VL as [|V]; [assumption|unfold len1 in E1; rewrite V in E1; discriminate]).
        assert (Lr : List.length (lget st2 R) = n) by (destruct VR as [|V]; [assumption|unfold len1 in E2; rewrite V in E2; discriminate]).
        pose proof (or_merge_spec l (lget st2 R) 0 ltac:(lia)) as Hm.
        destruct (or_merge l (lget st2 R) 0) as [m ws]. cbn [fst] in Hm.
        rewrite Ll, Lr, Nat.ltb_irrefl in Hab. cbn [commit] in Hab.
        inversion Hab; subst. split; [reflexivity|split; [assumption|right; reflexivity]].
  Qed.

  Lemma compute_not n a root vals st :
    forall L st1 X st2,
    compute a root vals st = (L, st1) ->
    compute (QNot a) root vals st = (X, st2) ->
    good st1 -> vl_ok n (lget st1 L) ->
    lget st2 X = not_list (lget st1 L) /\ good st2 /\ st2 = st1.
  Proof.
    intros L st1 X st2 Ha Hn G1 VL.
    rewrite compute_not_eq, Ha in Hn. cbv zeta in Hn. unfold not_list.
    destruct (len1 (lget st1 L)) eqn:E1.
    - destruct G1 as [Ge Gf].
      destruct (isE (hd_entry (lget st1 L))); inversion Hn; subst; cbn [lget]; (split; [assumption|split; [split; assumption|reflexivity]]).
    - destruct (good_len1 st1 L G1 E1) as [l HL]. subst L. cbn [lget] in *.
      pose proof (not_flip_spec l 0) as Hm.
      destruct (not_flip l 0) as [[m ws] hv]. destruct Hm as [Hm Hh]. cbn [commit] in Hn.
      rewrite <- Hm, <- Hh.
      destruct hv; inversion Hn; subst; (split; [|split; [assumption|reflexivity]]); try reflexivity.
      destruct G1 as [G1 _]. exact G1.
  Qed.
End VC.
