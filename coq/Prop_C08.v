(* Prop_C08.v — property C08: steps compose.  On the specification: for a well-formed prefix P and a
   continuation Q without `$` (no root node, no `$`-rooted filter operand) and without aggregates,
   the values of P followed by Q (the chain the parser links with append_deep) are the concatenation,
   in order, of the values `$`+Q selects from each value P selects, taken as a document of its own.
   Failure "exactly when that concatenation is empty" and the transport to the implementation model
   follow from C01_refines_spec (a call fails iff the specification selects nothing).
   Not proved: that the parser builds append_deep P Q for the text P++Q (parser model vs real parser:
   tree dumps; three retrievals per split on the real library need no model at all). *)
From JP Require Import Eval WF Spec Actions Refine1 SpecCompose SpecRootFree.

Theorem C08_compose : forall ffun afun regex_match p q b0 doc cur,
  wf_node p = true -> root_free q = true ->
  map sres_value (sp ffun afun regex_match (append_deep p q) doc cur)
  = flat_map (fun r => map sres_value (sp ffun afun regex_match (dollar b0 q) (sres_value r) (Some [], sres_value r)))
             (sp ffun afun regex_match p doc cur).
Proof. exact compose_spec. Qed.
Print Assumptions C08_compose.

(* the same-root form: Q applied to every cursor P selects (any Q, aggregates and `$` included) *)
Theorem C08_compose_same_root : forall ffun afun regex_match p, wf_node p = true -> forall q root cur,
  sp ffun afun regex_match (append_deep p q) root cur
  = flat_map (fun r : sres => sp ffun afun regex_match q root (snd r)) (sp ffun afun regex_match p root cur).
Proof. intros ffun afun rm p Hwf q root cur. exact (sp_compose ffun afun rm p Hwf q root cur). Qed.
Print Assumptions C08_compose_same_root.

(* a union / multi-name selector is the concatenation of its single selectors: by definition of sp_ids and of the
   union case of sp (flat_map over the written subscripts) *)
Theorem C08_multi_is_concat : forall ffun afun regex_match id rest root cur,
  sp_ids ffun afun regex_match (NCons id rest) root cur
  = sp ffun afun regex_match id root cur ++ sp_ids ffun afun regex_match rest root cur.
Proof. reflexivity. Qed.

(* From the path text (C08Text.v): for paths of steps and filters written as fchain_path writes them, in plain (non-accessor)
   mode: the values `$` P Q returns are the concatenation, in the order P reaches them, of the values `$` Q returns from each
   value P reaches (a value from which `$` Q fails contributes nothing), and `$` P Q fails exactly when that is empty.  Q's
   filters must not look at the document root (fstep_rootfree: `$` inside a filter of Q would mean the whole document in
   `$` P Q but the value reached by P in `$` Q); P's may. *)
From JP Require Import Json Text Tree Grammar Actions Eval WF EvalInv1 KeyDefs FiltChain FiltChainAddr C08Text.
From Coq Require Import List. Import ListNotations.
Theorem C08_concatenation_from_text : forall cfg parse_float regex_ok ffun afun regex_match,
  (forall f v w, small v -> ffun f v = Some w -> small w) ->
  (forall f l w, Forall small l -> afun f l = Some w -> small w) ->
  cfg_accessor cfg = false ->
  forall p0 p q0 q doc st,
  forallb fstep_ok ((p0 :: p) ++ q0 :: q) = true -> forallb (fstep_okp parse_float regex_ok) ((p0 :: p) ++ q0 :: q) = true ->
  forallb (fstep_rootfree) (q0 :: q) = true -> small doc -> ok st ->
  exists tpq tq,
    parse_with cfg parse_float regex_ok jsonpath_grammar (fchain_path ((p0 :: p) ++ q0 :: q)) = ParseOk tpq /\
    parse_with cfg parse_float regex_ok jsonpath_grammar (fchain_path (q0 :: q)) = ParseOk tq /\
    vals_of (fst (eval_run ffun afun regex_match tpq doc st)) =
      flat_map (fun lv => vals_of (fst (eval_run ffun afun regex_match tq (snd lv) st))) (nav_allf parse_float regex_match doc (p0 :: p) ([], doc)) /\
    ((exists e, fst (eval_run ffun afun regex_match tpq doc st) = OErr e) <->
     flat_map (fun lv => vals_of (fst (eval_run ffun afun regex_match tq (snd lv) st))) (nav_allf parse_float regex_match doc (p0 :: p) ([], doc)) = []).
Proof. exact concatenation_from_text. Qed.
Print Assumptions C08_concatenation_from_text.
