(* Model.v — the executable entry points of the implementation model: the fixed user-function
   library (implemented a second time in Go by the runner) and one-call wrappers. *)
From JP Require Export Json Tree Eval Peg Grammar GrammarPinned Text Actions WF Spec AccDefs CallDefs ErrSpec.
Open Scope string_scope.

(* ---------- the user-function library of the harness ---------- *)
Definition lib_filter_names : list string := ["twice"; "wrap"; "tn"; "fail"; "fstr"; "id"; "k3"; "relay"; "zfail"; "ufail"].
Definition lib_agg_names : list string := ["cnt"; "first"; "arr"; "afail"; "amax"; "c5"; "azfail"].

Definition lib_ffun (name : string) (v : value) : option value :=
  if String.eqb name "twice" then match v with VNum x => Some (VNum (num_double x)) | _ => None end
  else if String.eqb name "wrap" then Some (VArr [v])
  else if String.eqb name "tn" then Some (VStr (go_type v))
  else if String.eqb name "fail" then None
  else if String.eqb name "fstr" then match v with VStr _ => None | _ => Some v end
  else if String.eqb name "id" then Some v
  else if String.eqb name "k3" then Some (VOpaque "int" 1 true)      (* returns the Go value int(3): not a float64 *)
  else None.

Fixpoint max_num (l : list value) (best : option num) : option num :=
  match l with
  | [] => best
  | VNum x :: r => max_num r (match best with
                              | None => Some x
                              | Some b => if num_ltb b x then Some x else Some b
                              end)
  | _ :: r => max_num r best
  end.

Definition lib_afun (name : string) (l : list value) : option value :=
  if String.eqb name "cnt" then Some (VNum (num_of_Z (Z.of_nat (List.length l))))
  else if String.eqb name "first" then match l with x :: _ => Some x | [] => None end
  else if String.eqb name "arr" then Some (VArr l)
  else if String.eqb name "afail" then None
  else if String.eqb name "amax" then option_map VNum (max_num l None)
  else if String.eqb name "c5" then Some (VOpaque "int64" 3 true)   (* returns the Go value int64(5) *)
  else None.

(* the state a later call of a parsed function starts from: the package-level lists persist,
   the per-call ghost fields are reset *)
Definition next_call_state (st : estate) : estate :=
  {| g_empty := g_empty st; g_full := g_full st; wlog := []; calls := []; panicked := None |}.

Definition parse_path (cfg : config) (parse_float : string -> option num) (regex_ok : string -> bool)
                      (path : list N) : presult :=
  parse_with cfg parse_float regex_ok jsonpath_grammar path.

(* the same parser run on the grammar of the pinned tree (GrammarPinned.v) *)
Definition parse_path_pinned (cfg : config) (parse_float : string -> option num) (regex_ok : string -> bool)
                             (path : list N) : presult :=
  parse_with cfg parse_float regex_ok pinned_grammar path.

Definition eval_doc (regex_match : string -> string -> bool) (t : node) (doc : value) (st : estate)
  : outcome * estate :=
  eval_run lib_ffun lib_afun regex_match t doc st.

(* the specification (Spec.v) with the same function library: the independent oracle of C01 *)
Definition spec_doc (regex_match : string -> string -> bool) (t : node) (doc : value) : list res :=
  spec_results lib_ffun lib_afun regex_match t doc.

(* the error specification (ErrSpec.v): what a failing retrieval must report *)
Definition spec_err (regex_match : string -> string -> bool) (t : node) (doc : value) : option rerr :=
  spec_error lib_ffun lib_afun regex_match t doc.

Definition spec_calls (regex_match : string -> string -> bool) (t : node) (doc : value) : list call :=
  sc lib_ffun lib_afun regex_match t doc (Some [], doc).
