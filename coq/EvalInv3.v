(* EvalInv3.v — the evaluator invariant: every call of retrieve / compute on a well-formed tree
   from a good state keeps the package-level lists and the write log untouched, reaches no panic
   site, only appends to the shared container, reports an error exactly when it appended nothing
   to an empty container, and hands out only results whose location really holds their value. *)
From JP Require Import Eval WF Verdict SliceProofs EvalInv1 EvalInv2.
From Coq Require Import Lia.
Open Scope list_scope.

Scheme node_mind := Induction for node Sort Prop
  with onode_mind := Induction for onode Sort Prop
  with kind_mind := Induction for kind Sort Prop
  with nodes_mind := Induction for nodes Sort Prop
  with query_mind := Induction for query Sort Prop
  with cparam_mind := Induction for cparam Sort Prop
  with pquery_mind := Induction for pquery Sort Prop.
Combined Scheme tree_mutind from node_mind, onode_mind, kind_mind, nodes_mind, query_mind, cparam_mind, pquery_mind.

Section Inv.
  Variable ffun : string -> value -> option value.
  Variable afun : string -> list value -> option value.
  Variable regex_match : string -> string -> bool.
  Notation retrieve := (retrieve ffun afun regex_match).
  Notation retrieve_ids := (retrieve_ids ffun afun regex_match).
  Notation compute := (compute ffun afun regex_match).
  Notation compute_p := (compute_p ffun afun regex_match).

  (* ---------- the closures of Eval.retrieve as top-level functions ---------- *)
  Definition fwd (b : basic) (next : onode) (root : value) (settable : bool) (cur' : cursor) (c : cont) (st : estate) : rresult :=
    match next with
    | OSome nx => retrieve nx root cur' c st
    | ONone => (append_res b settable cur' c, None, st)
    end.
  Definition map_next b next root (cur : cursor) (m : list (string * value)) (key : string) (c : cont) (st : estate) : rresult :=
    match lookup m key with
    | None => (c, Some (EMember b), st)
    | Some v => fwd b next root true (ext_loc (fst cur) (PKey key), v) c st
    end.
  Definition list_next b next root (cur : cursor) (iv : Z * value) (c : cont) (st : estate) : rresult :=
    fwd b next root true (ext_loc (fst cur) (PIdx (fst iv)), snd iv) c st.

  Definition rec_step (nx : node) (mapReq listReq : bool) root (cu : cursor) (c : cont) (st : estate) : rresult :=
    match snd cu with
    | VObj _ => if mapReq then retrieve nx root cu c st else (c, None, st)
    | VArr _ => if listReq then retrieve nx root cu c st else (c, None, st)
    | _ => (c, None, st)
    end.

  Definition union_inner b next root cur (xs : list value) (s : lstate) (i : Z) : lstate :=
    let '(c, dl, de, st) := s in
    match nth_value xs i with
    | Some v => loop_step (list_next b next root cur (i, v) c st) dl de
    | None => (c, dl, de, set_panic "union: index out of range" st)
    end.
  Definition union_outer b next root cur (xs : list value) (s : lstate) (sub : subscript) : lstate :=
    match get_indexes sub (Z.of_nat (List.length xs)) with
    | IPanic => let '(c, dl, de, st) := s in (c, dl, de, set_panic "slice: index out of range" st)
    | IOk idxs => fold_left (union_inner b next root cur xs) idxs s
    end.

  Lemma retrieve_unfold k b next root cur c st :
    retrieve (Node k b next) root cur c st =
    match k with
    | KRoot => fwd b next root false (Some [], root) c st
    | KCurrent => fwd b next root false cur c st
    | KSingle key =>
        match snd cur with
        | VObj m => map_next b next root cur m key c st
        | v => (c, Some (EType b "object" (go_type v)), st)
        end
    | KWild =>
        match snd cur with
        | VObj m => run_loop b (map_next b next root cur m) (sorted_keys m) c st
        | VArr xs => run_loop b (list_next b next root cur) (index_list xs 0) c st
        | v => (c, Some (EType b "object/array" (go_type v)), st)
        end
    | KMulti ids allWild uq =>
        match snd cur, allWild with
        | VArr _, true =>
            match uq with
            | OSome u => retrieve u root cur c st
            | ONone => (c, None, set_panic "multi: nil unionQualifier" st)
            end
        | VObj m, _ => loop_finish b (retrieve_ids ids m root cur (c, 0%nat, None, st))
        | v, _ => (c, Some (EType b "object" (go_type v)), st)
        end
    | KRec mapReq listReq =>
        if is_container (snd cur) then
          match next with
          | ONone => (c, None, set_panic "recursive: nil next" st)
          | OSome nx => run_loop b (rec_step nx mapReq listReq root) (containers (fst cur) (snd cur)) c st
          end
        else (c, Some (EType b "object/array" (go_type (snd cur))), st)
    | KUnion subs =>
        match snd cur with
        | VArr xs => loop_finish b (fold_left (union_outer b next root cur xs) subs (c, 0%nat, None, st))
        | v => (c, Some (EType b "array" (go_type v)), st)
        end
    | KFilter q =>
        match snd cur with
        | VObj m =>
            let keys := sorted_keys m in
            let vals := flat_map (fun k => match lookup m k with Some v => [v] | None => [] end) keys in
            let '(lv, st1) := compute q root vals st in
            filter_loop b (map_next b next root cur m) keys lv c st1
        | VArr xs =>
            let '(lv, st1) := compute q root xs st in
            filter_loop b (list_next b next root cur) (index_list xs 0) lv c st1
        | v => (c, Some (EType b "object/array" (go_type v)), st)
        end
    | KFFun f =>
        let st1 := log_call (CallF f (snd cur)) st in
        match ffun f (snd cur) with
        | None => (c, Some (EFunc b), st1)
        | Some v => fwd b next root false (None, v) c st1
        end
    | KAgg f param =>
        let '(vals, e, st1) := retrieve param root cur [] st in
        match e with
        | Some err => (c, Some err, st1)
        | None =>
            let plain := map res_value vals in
            let st2 := if vgroup (node_basic param) then st1
                       else match vals with [] => set_panic "aggregate: values.result[0]" st1 | _ => st1 end in
            let args :=
              if vgroup (node_basic param) then plain
              else match plain with
                   | VArr xs :: _ => xs
                   | _ => plain
                   end in
            let st3 := log_call (CallA f args) st2 in
            match afun f args with
            | None => (c, Some (EFunc b), st3)
            | Some v => fwd b next root false (None, v) c st3
            end
        end
    end.
  Proof. destruct k; try reflexivity. Qed.

  Lemma retrieve_ids_unfold ids m root cur s :
    retrieve_ids ids m root cur s =
    match ids with
    | NNil => s
    | NCons id rest =>
        let '(c, dl, de, st) := s in
        let skip :=
          match node_kind id with
          | KSingle key => match lookup m key with None => true | Some _ => false end
          | _ => false
          end in
        let s' := if skip then s else loop_step (retrieve id root cur c st) dl de in
        retrieve_ids rest m root cur s'
    end.
  Proof. destruct ids; reflexivity. Qed.

  (* ---------- the postcondition of one call ---------- *)
  Definition post (root : value) (c : cont) (st : estate) (out : rresult) : Prop :=
    let '(c', e, st') := out in
    frame st st' /\
    exists r, c' = c ++ r /\ (e <> None -> r = []) /\ (e = None -> c' <> []) /\ Forall (loc_ok root) r.
  Definition step_ok (root : value) (f : cont -> estate -> rresult) : Prop :=
    forall c st, ok st -> post root c st (f c st).
  Definition step_single (f : cont -> estate -> rresult) : Prop :=
    forall c st, (List.length (fst (fst (f c st))) <= S (List.length c))%nat.

  (* invariant of the loops: relative to the container c0 and state st0 at loop entry *)
  Definition linv (root : value) (c0 : cont) (st0 : estate) (s : lstate) : Prop :=
    let '(c', dl, de, st') := s in
    frame st0 st' /\ exists r, c' = c0 ++ r /\ Forall (loc_ok root) r.

  Lemma linv_init root c st : linv root c st (c, 0%nat, None, st).
  Proof. split; [apply frame_refl|]. exists []. rewrite app_nil_r. split; [reflexivity|constructor]. Qed.

  Lemma linv_step_at root c0 st0 c dl de st out :
    linv root c0 st0 (c, dl, de, st) -> post root c st out -> linv root c0 st0 (loop_step out dl de).
  Proof.
    intros [Hfr [r [Hc Hr]]] Hp. destruct out as [[c' e] st']. destruct Hp as [Hfr' [r' [Hc' [_ [_ Hr']]]]].
    assert (L : linv root c0 st0 (c', dl, de, st')).
    { split; [eapply frame_trans; eassumption|]. exists (r ++ r'). split; [subst; rewrite app_assoc; reflexivity|].
      apply Forall_app. split; assumption. }
    unfold loop_step. destruct e as [err|]; [|exact L].
    destruct c' as [|x c'']; [|exact L].
    destruct (add_deepest err dl de) as [dl' de']. destruct L as [L1 L2]. split; assumption.
  Qed.

  Definition step_ok' (root : value) (f : cont -> estate -> rresult) : Prop :=
    forall c st, ok st -> post root c st (f c st) \/ f c st = (c, None, st).
  Lemma step_ok_weaken root f : step_ok root f -> step_ok' root f.
  Proof. intros H c st Hok. left. apply H. exact Hok. Qed.

  Lemma linv_step' root c0 st0 s f :
    ok st0 -> linv root c0 st0 s -> step_ok' root f ->
    linv root c0 st0 (let '(c, dl, de, st) := s in loop_step (f c st) dl de).
  Proof.
    intros Hok Hs Hf. destruct s as [[[c dl] de] st].
    assert (Hok' : ok st) by (destruct Hs as [Hfr _]; eapply ok_frame; eassumption).
    destruct (Hf c st Hok') as [Hp|Hid].
    - eapply linv_step_at; eassumption.
    - rewrite Hid. cbn [loop_step]. exact Hs.
  Qed.
  Lemma linv_step root c0 st0 s f :
    ok st0 -> linv root c0 st0 s -> step_ok root f ->
    linv root c0 st0 (let '(c, dl, de, st) := s in loop_step (f c st) dl de).
  Proof. intros Hok Hs Hf. apply linv_step'; try assumption. apply step_ok_weaken. exact Hf. Qed.

  Lemma linv_skip_panic root c0 st0 c dl de st s :
    linv root c0 st0 (c, dl, de, st) -> panicked st = Some s -> linv root c0 st0 (c, dl, de, set_panic s st).
  Proof. intros H Hp. unfold set_panic. rewrite Hp. exact H. Qed.

  Lemma linv_finish root c0 st0 b s :
    linv root c0 st0 s -> post root c0 st0 (loop_finish b s).
  Proof.
    destruct s as [[[c dl] de] st]. intros [Hfr [r [Hc Hr]]]. unfold loop_finish, post.
    destruct c as [|x c'].
    - split; [exact Hfr|]. exists r. split; [exact Hc|]. split; [|split; [intros H; discriminate|exact Hr]].
      intros _. symmetry in Hc. apply app_eq_nil in Hc. tauto.
    - split; [exact Hfr|]. exists r. split; [exact Hc|]. split; [intros H; contradiction H; reflexivity|].
      split; [intros _; discriminate|exact Hr].
  Qed.

  Lemma fold_linv {A} root c0 st0 (g : lstate -> A -> lstate) (xs : list A) :
    (forall s x, In x xs -> linv root c0 st0 s -> linv root c0 st0 (g s x)) ->
    forall s, linv root c0 st0 s -> linv root c0 st0 (fold_left g xs s).
  Proof.
    induction xs as [|x xs IH]; intros Hg s Hs; cbn [fold_left]; [exact Hs|].
    apply IH; [intros s' y Hy; apply Hg; right; exact Hy|]. apply Hg; [left; reflexivity|exact Hs].
  Qed.

  Lemma run_loop_ok' {A} root b (f : A -> cont -> estate -> rresult) (xs : list A) :
    (forall x, In x xs -> step_ok' root (f x)) -> step_ok root (run_loop b f xs).
  Proof.
    intros Hf c st Hok. unfold run_loop. apply linv_finish.
    apply fold_linv; [|apply linv_init].
    intros s x Hx Hs. apply (linv_step' root c st s (f x) Hok Hs (Hf x Hx)).
  Qed.
  Lemma run_loop_ok {A} root b (f : A -> cont -> estate -> rresult) (xs : list A) :
    (forall x, In x xs -> step_ok root (f x)) -> step_ok root (run_loop b f xs).
  Proof. intros Hf. apply run_loop_ok'. intros x Hx. apply step_ok_weaken. apply Hf. exact Hx. Qed.

  (* ---------- filter_loop ---------- *)
  Lemma filter_loop_ok {A} root b (next_of : A -> cont -> estate -> rresult) (members : list A) lv :
    (forall x, In x members -> step_ok root (next_of x)) ->
    forall c st1, ok st1 -> vl_ok (List.length members) (lget st1 lv) ->
    post root c st1 (filter_loop b next_of members lv c st1).
  Proof.
    intros Hf c st1 Hok Hvl. unfold filter_loop.
    set (vl := lget st1 lv) in *.
    set (is_each := Nat.eqb (List.length vl) (List.length members)).
    assert (Hst2 : (match vl with [] => if is_each then st1 else set_panic "filter: valueList[0]" st1 | _ => st1 end) = st1).
    { destruct vl as [|x vl'] eqn:Evl; [|reflexivity]. unfold is_each. cbn [List.length].
      destruct Hvl as [H|H]; cbn [List.length] in H; [rewrite <- H; reflexivity|discriminate]. }
    rewrite Hst2.
    destruct (negb is_each && isE (hd_entry vl)) eqn:Eb.
    - unfold post. split; [apply frame_refl|]. exists []. rewrite app_nil_r.
      split; [reflexivity|]. split; [reflexivity|]. split; [intros H; discriminate|constructor].
    - apply linv_finish. apply fold_linv; [|apply linv_init].
      intros s xv Hx Hs. destruct s as [[[c' dl] de] st'].
      destruct (is_each && isE (snd xv)); [exact Hs|].
      apply (linv_step root c st1 (c', dl, de, st') (next_of (fst xv)) Hok Hs).
      apply Hf. destruct xv as [x v]. apply in_combine_l in Hx. exact Hx.
  Qed.
End Inv.
