(* EvalTop.v — consequences of the evaluator invariant for whole calls (Eval.eval_run) and for
   call histories of one parsed function. *)
From JP Require Import Eval WF Verdict EvalInv1 EvalInv3 EvalInv4.
From Coq Require Import Lia.
Open Scope list_scope.

Section Top.
  Variable ffun : string -> value -> option value.
  Variable afun : string -> list value -> option value.
  Variable regex_match : string -> string -> bool.
  Hypothesis ffun_small : forall f v w, small v -> ffun f v = Some w -> small w.
  Hypothesis afun_small : forall f l w, Forall small l -> afun f l = Some w -> small w.
  Notation eval_run := (eval_run ffun afun regex_match).

  Lemma ok_init : ok st_init.
  Proof. repeat split. Qed.

  (* one call *)
  Theorem eval_run_spec t doc st :
    wf_node t = true -> small doc -> ok st ->
    let '(o, st') := eval_run t doc st in
    frame st st' /\
    ((exists rs, o = OOk rs /\ rs <> [] /\ Forall (loc_ok doc) rs) \/ (exists e, o = OErr e)).
  Proof.
    intros Hwf Hs Hok. unfold Eval.eval_run.
    destruct (evaluator_invariant ffun afun regex_match ffun_small afun_small) as [HN _].
    pose proof (proj1 (HN t Hwf) doc (Some [], doc) Hs (cur_ok_root doc Hs) [] st Hok) as Hp.
    unfold post in Hp.
    destruct (Eval.retrieve ffun afun regex_match t doc (Some [], doc) [] st) as [[c e] st'].
    destruct Hp as [Hfr [r [Hc [He1 [He2 Hloc]]]]]. cbn [app] in Hc. subst r.
    assert (Hpn : panicked st' = None) by (destruct Hfr as (_ & _ & _ & F4 & _); destruct Hok as [_ Hp]; congruence).
    rewrite Hpn.
    destruct e as [err|].
    - split; [exact Hfr|]. right. exists err. reflexivity.
    - split; [exact Hfr|]. left. exists c. split; [reflexivity|]. split; [apply He2; reflexivity|exact Hloc].
  Qed.

  Definition outcome_of (t : node) (doc : value) (st : estate) := fst (eval_run t doc st).

  (* the state the next call of the same parsed function starts from (Model.next_call_state) *)
  Definition next_state (st : estate) : estate :=
    {| g_empty := g_empty st; g_full := g_full st; wlog := []; calls := []; panicked := None |}.

  Lemma next_state_init t doc :
    wf_node t = true -> small doc -> next_state (snd (eval_run t doc st_init)) = st_init.
  Proof.
    intros Hwf Hs. pose proof (eval_run_spec t doc st_init Hwf Hs ok_init) as H.
    destruct (eval_run t doc st_init) as [o st']. destruct H as [(F1 & F2 & _) _]. cbn [snd].
    unfold next_state. rewrite F1, F2. reflexivity.
  Qed.

  (* a history of calls of one parsed function *)
  Fixpoint run_history (t : node) (docs : list value) (st : estate) : list (outcome) :=
    match docs with
    | [] => []
    | d :: r => let '(o, st') := eval_run t d st in o :: run_history t r (next_state st')
    end.

  Theorem history_independent t : wf_node t = true -> forall docs, Forall small docs ->
    run_history t docs st_init = map (fun d => outcome_of t d st_init) docs.
  Proof.
    intros Hwf. induction docs as [|d r IH]; intros Hs; cbn [run_history map]; [reflexivity|].
    inversion Hs as [|? ? Hd Hr]; subst.
    pose proof (next_state_init t d Hwf Hd) as Hn. unfold outcome_of.
    destruct (eval_run t d st_init) as [o st']. cbn [fst snd] in *. rewrite Hn, IH by assumption. reflexivity.
  Qed.
End Top.

(* ---------- lens laws of document locations (Accessor.Get / Accessor.Set on the model) ---------- *)
Lemma lookup_set_assoc_same m k w : lookup m k <> None -> lookup (set_assoc m k w) k = Some w.
Proof.
  induction m as [|[k' a] m IH]; cbn [lookup set_assoc]; intros H; [contradiction H; reflexivity|].
  destruct (String.eqb k k') eqn:E; cbn [lookup]; rewrite E; [reflexivity|apply IH; exact H].
Qed.
Lemma lookup_set_assoc_other m k k2 w : k2 <> k -> lookup (set_assoc m k w) k2 = lookup m k2.
Proof.
  intros Hn. induction m as [|[k' a] m IH]; cbn [lookup set_assoc]; [reflexivity|].
  destruct (String.eqb k k') eqn:E; cbn [lookup].
  - apply String.eqb_eq in E. subst k'. destruct (String.eqb k2 k) eqn:E2; [apply String.eqb_eq in E2; contradiction|reflexivity].
  - destruct (String.eqb k2 k'); [reflexivity|exact IH].
Qed.
Lemma nth_set_nth_same : forall xs i w, nth_value xs i <> None -> nth_value (set_nth xs i w) i = Some w.
Proof.
  induction xs as [|x xs IH]; intros i w H; cbn [nth_value set_nth] in *; [contradiction H; reflexivity|].
  destruct (i =? 0)%Z eqn:E0; cbn [nth_value]; rewrite ?E0; [reflexivity|].
  destruct (i <? 0)%Z eqn:E1; [contradiction H; reflexivity|]. cbn [nth_value]. rewrite E0, E1. apply IH. exact H.
Qed.
Lemma nth_set_nth_other : forall xs i j w, j <> i -> nth_value (set_nth xs i w) j = nth_value xs j.
Proof.
  induction xs as [|x xs IH]; intros i j w Hn; cbn [nth_value set_nth]; [reflexivity|].
  destruct (i =? 0)%Z eqn:E0.
  - cbn [nth_value]. destruct (j =? 0)%Z eqn:J0; [lia|reflexivity].
  - destruct (i <? 0)%Z eqn:E1; [reflexivity|]. cbn [nth_value].
    destruct (j =? 0)%Z; [reflexivity|]. destruct (j <? 0)%Z; [reflexivity|]. apply IH. lia.
Qed.

(* Get after Set returns the value written *)
Theorem get_set_same : forall p v w, get_loc v p <> None -> get_loc (set_loc v p w) p = Some w.
Proof.
  induction p as [|s p IH]; intros v w H; cbn [get_loc set_loc] in *; [reflexivity|].
  destruct s as [k|i], v; cbn [step_into] in *; try (contradiction H; reflexivity).
  - destruct (lookup m k) as [x|] eqn:El; [|contradiction H; reflexivity].
    cbn [step_into]. rewrite lookup_set_assoc_same by (rewrite El; discriminate). apply IH. exact H.
  - destruct (nth_value l i) as [x|] eqn:El; [|contradiction H; reflexivity].
    cbn [step_into]. rewrite nth_set_nth_same by (rewrite El; discriminate). apply IH. exact H.
Qed.

(* two locations are disjoint when neither is a prefix of the other *)
Fixpoint disjoint (p q : loc) : Prop :=
  match p, q with
  | s :: p', t :: q' => s <> t \/ (s = t /\ disjoint p' q')
  | _, _ => False
  end.

(* Set changes nothing at any disjoint location: exactly one place is written *)
Theorem get_set_other : forall p q v w, disjoint p q -> get_loc (set_loc v p w) q = get_loc v q.
Proof.
  induction p as [|s p IH]; intros q v w Hd; [destruct q; contradiction|].
  destruct q as [|t q]; [contradiction|]. cbn [disjoint] in Hd. cbn [set_loc get_loc].
  destruct s as [k|i], v; try reflexivity.
  - destruct (lookup m k) as [x|] eqn:El; [|reflexivity].
    destruct t as [k2|j]; cbn [step_into]; [|reflexivity].
    destruct Hd as [Hn|[He Hd]].
    + rewrite lookup_set_assoc_other by congruence. reflexivity.
    + inversion He; subst k2. rewrite lookup_set_assoc_same by (rewrite El; discriminate). rewrite El. apply IH. exact Hd.
  - destruct (nth_value l i) as [x|] eqn:El; [|reflexivity].
    destruct t as [k2|j]; cbn [step_into]; [reflexivity|].
    destruct Hd as [Hn|[He Hd]].
    + rewrite nth_set_nth_other by congruence. reflexivity.
    + inversion He; subst j. rewrite nth_set_nth_same by (rewrite El; discriminate). rewrite El. apply IH. exact Hd.
Qed.
