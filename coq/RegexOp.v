(* RegexOp.v — a regular-expression test as a basic query: [?(@ steps=~/body/)].  The third alternative of `comparator`:
   the first two (== / != and the orderings) read the operand and then fail on `=~`; the body is any text without `/` in
   which a backslash is not followed by `/` or `\` (so the two-character escapes of the grammar never apply and every
   character is taken one by one); the text between the slashes goes to regexp.Compile (regex_ok, a parameter of the model). *)
From JP Require Import Peg Grammar Text Tree Actions PegFacts PegMono PegEv FuelRules ParseFacts KeyDefs KeyParse IdxParse SliceParse UnionParse WildParse RecParse ChainParse SpacePath FunParse AggParse Frame FiltParse CmpParse NegFilt LitParse RootOp NoDollar.
From Coq Require Import Lia.
Local Open Scope N_scope.
Open Scope list_scope.

Fixpoint re_plain (body : list N) : bool :=
  match body with
  | [] => true
  | x :: r => negb (x =? 47) &&
              (if x =? 92 then match r with [] => false | y :: _ => negb (y =? 92) && negb (y =? 47) end else true) &&
              re_plain r
  end.

Definition rx39_tokens (pos : nat) (i : list rstep) (body : list N) : list token :=
  let pr := (pos + 1 + List.length (render_steps i) + 3)%nat in
  left43_tokens pos i ++ [TText pr (pr + List.length body); TAct 34].

(* the body, character by character, up to the closing slash *)
Lemma ev_re_star body t : re_plain body = true -> forall pos,
  evG (PRef 49) (body ++ 47 :: t) pos (POk (47 :: t) (pos + List.length body) []).
Proof.
  intros Hb pos. eapply ev_ref; [reflexivity|]. revert pos Hb. induction body as [|x r IH]; intros pos Hb.
  - cbn [app List.length]. eapply ev_conv.
    + apply ev_star_stop. apply ev_alt_r; [apply ev_seq_fail; apply (ev_lit_fail G [92]); reflexivity|].
      apply ev_cls_fail. reflexivity.
    + f_equal. lia.
  - cbn [re_plain] in Hb. apply andb_true_iff in Hb. destruct Hb as [Hb Hr]. apply andb_true_iff in Hb. destruct Hb as [H47 Hesc].
    apply negb_true_iff in H47.
    assert (E1 : evG (PAlt (PSeq (PLit [92]) (PCls false [(92, 92); (47, 47)])) (PCls true [(47, 47)])) ((x :: r) ++ 47 :: t) pos
                     (POk (r ++ 47 :: t) (S pos) [])).
    { cbn [app]. apply ev_alt_r.
      - destruct (x =? 92) eqn:E92.
        + apply N.eqb_eq in E92. subst x. destruct r as [|y r']; [discriminate Hesc|]. apply andb_true_iff in Hesc. destruct Hesc as [Hy92 Hy47].
          apply negb_true_iff in Hy92. apply negb_true_iff in Hy47.
          eapply ev_seq_fail2; [apply (ev_lit_ok G [92]); apply strip1_ok|]. cbn [app]. apply ev_cls_fail.
          cbn [xorb in_ranges]. rewrite N.eqb_sym in Hy92. rewrite N.eqb_sym in Hy47.
          assert (A : (92 <=? y) && (y <=? 92) = false).
          { destruct ((92 <=? y) && (y <=? 92)) eqn:A; [|reflexivity]. apply andb_true_iff in A. destruct A as [A1 A2]. apply N.leb_le in A1. apply N.leb_le in A2.
            apply N.eqb_neq in Hy92. exfalso. apply Hy92. lia. }
          assert (B : (47 <=? y) && (y <=? 47) = false).
          { destruct ((47 <=? y) && (y <=? 47)) eqn:B; [|reflexivity]. apply andb_true_iff in B. destruct B as [B1 B2]. apply N.leb_le in B1. apply N.leb_le in B2.
            apply N.eqb_neq in Hy47. exfalso. apply Hy47. lia. }
          rewrite A, B. reflexivity.
        + apply ev_seq_fail. apply (ev_lit_fail G [92]). apply strip1_no. apply N.eqb_neq in E92. exact E92.
      - apply ev_cls_ok. cbn [xorb in_ranges].
        assert (B : (47 <=? x) && (x <=? 47) = false).
        { destruct ((47 <=? x) && (x <=? 47)) eqn:B; [|reflexivity]. apply andb_true_iff in B. destruct B as [B1 B2]. apply N.leb_le in B1. apply N.leb_le in B2.
          apply N.eqb_neq in H47. exfalso. apply H47. lia. }
        rewrite B. reflexivity. }
    assert (Hlen : (S pos <> pos)%nat) by lia.
    pose proof (ev_star_step G _ _ _ _ _ _ _ _ _ E1 Hlen (IH (S pos) Hr)) as E2.
    eapply ev_conv; [exact E2|]. cbn [List.length app]. f_equal. lia.
Qed.

Lemma ev_rule39_rx i body c t pos : forallb rstep_ok i = true -> re_plain body = true ->
  evG (PRef 39) (64 :: render_steps i ++ 61 :: 126 :: 47 :: body ++ 47 :: c :: t) pos
      (POk (c :: t) (pos + 1 + List.length (render_steps i) + 3 + List.length body + 1) (rx39_tokens pos i body)).
Proof.
  intros Hs Hb. set (L := List.length (render_steps i)). unfold rx39_tokens. fold L. cbv zeta.
  assert (Hc : closer 61) by (unfold closer; repeat split; try reflexivity; discriminate).
  assert (E43 := ev_rule43_c i 61 (126 :: 47 :: body ++ 47 :: c :: t) pos Hs Hc). fold L in E43.
  assert (Hsp : forall q, evG (PRef 58) (61 :: 126 :: 47 :: body ++ 47 :: c :: t) q (POk (61 :: 126 :: 47 :: body ++ 47 :: c :: t) q []))
    by (intros q; apply ev_space_stop; discriminate).
  eapply ev_ref; [reflexivity|].
  apply ev_alt_r.
  { eapply ev_seq_fail2; [eapply ev_ref; [reflexivity|]; apply ev_alt_r; [apply ev_seq_fail; apply ev_rule42_at|exact E43]|].
    eapply ev_seq_fail2; [apply Hsp|]. apply ev_alt_r; apply ev_seq_fail; apply (ev_lit_fail G); reflexivity. }
  apply ev_alt_r.
  { eapply ev_seq_fail2; [eapply ev_ref; [reflexivity|]; apply ev_alt_r; [apply ev_seq_fail; apply ev_rule45_at|exact E43]|].
    eapply ev_seq_fail2; [apply Hsp|].
    apply ev_alt_r; [apply ev_seq_fail; apply (ev_lit_fail G); reflexivity|].
    apply ev_alt_r; [apply ev_seq_fail; apply (ev_lit_fail G); reflexivity|].
    apply ev_alt_r; apply ev_seq_fail; apply (ev_lit_fail G); reflexivity. }
  eapply ev_conv.
  - eapply ev_seq_ok; [exact E43| |reflexivity].
    eapply ev_seq_ok; [apply Hsp| |reflexivity].
    eapply ev_seq_ok; [apply (ev_lit_ok G [61; 126]); reflexivity| |reflexivity].
    eapply ev_seq_ok; [apply ev_space_stop; discriminate| |reflexivity].
    eapply ev_seq_ok; [apply (ev_lit_ok G [47]); apply strip1_ok| |reflexivity].
    eapply ev_seq_ok; [apply ev_cap; apply (ev_re_star body (c :: t) Hb)| |reflexivity].
    eapply ev_seq_ok; [apply (ev_lit_ok G [47]); apply strip1_ok|apply ev_act|reflexivity].
  - cbn [List.length app Nat.add]. f_equal; try lia.
    replace (pos + 1 + L + 2 + 1)%nat with (pos + 1 + L + 3)%nat by lia.
    repeat (progress (cbn [app]) || rewrite <- app_assoc || rewrite app_nil_r). reflexivity.
Qed.

Section RegexExec.
  Variable cfg : config.
  Variable parse_float : string -> option num.
  Variable regex_ok : string -> bool.
  Notation execute := (execute cfg parse_float regex_ok).
  Notation exec_action := (exec_action cfg parse_float regex_ok).

  Definition rx_query (i : list rstep) (body : list N) : query :=
    QCmp (cmp_left cfg i) (CP (PqLit (VStr "regex")) true) (CRegex (text_of body)).
End RegexExec.
