(* CmpAddr.v — what the comparison filter [?(@ steps OP number)] selects, from the path text: the elements / members whose
   value reached by the steps is a number (float64 or json.Number) standing in the relation OP to the literal; for !=,
   the complement (members from which the steps reach no number are kept). *)
From JP Require Import Peg Grammar Slice Text Tree Actions Json Eval WF Spec SortFacts EvalInv1 EvalInv4 EvalTop EndToEnd Codec KeyDefs KeyParse IdxParse SliceParse UnionParse WildParse RecParse ChainParse SpacePath FunParse AggParse FiltParse CmpParse ChainAddr FunAddr AggAddr FiltAddr SpecRootFree.
From Coq Require Import Lia.
Open Scope list_scope.

(* the number a member offers to the comparison, and the verdict *)
Definition num_of_entry (e : entry) : option num :=
  match e with Some (VNum a) => Some a | Some (VJNum _ a) => Some a | _ => None end.
Definition rel_test (o : cmpop) (a f : num) : bool :=
  match o with
  | OEq => num_eqb a f
  | ONe => negb (num_eqb a f)
  | OLt => num_ltb a f
  | OLe => num_leb a f
  | OGt => num_ltb f a
  | OGe => num_leb f a
  end.
Definition entry_test (o : cmpop) (f : num) (e : entry) : bool :=
  match num_of_entry e with
  | Some a => rel_test o a f
  | None => match o with ONe => true | _ => false end
  end.

Section CmpAddr.
  Variable cfg : config.
  Variable ffun : string -> value -> option value.
  Variable afun : string -> list value -> option value.
  Variable regex_match : string -> string -> bool.
  Hypothesis ffun_small : forall f v w, small v -> ffun f v = Some w -> small w.
  Hypothesis afun_small : forall f l w, Forall small l -> afun f l = Some w -> small w.
  Notation sp := (sp ffun afun regex_match).
  Notation holds := (holds ffun afun regex_match).
  Notation cmp_holds := (cmp_holds regex_match).

  Definition numc (c : comparator) : Prop := c = CDirectEq VdNumeric \/ c = CLt \/ c = CLe \/ c = CGt \/ c = CGe.
  Definition base_test (c : comparator) (f : num) (e : entry) : bool :=
    match num_of_entry e with
    | Some a => match c with CDirectEq _ => num_eqb a f | CLt => num_ltb a f | CLe => num_leb a f | CGt => num_ltb f a | CGe => num_leb f a | _ => false end
    | None => false
    end.

  Lemma keeps_numeric c f e : numc c -> cmp_keeps regex_match c (validate_to c (Some (VNum f))) (validate_to c e) = base_test c f e.
  Proof.
    intros Hc. unfold cmp_keeps, validate_to, base_test, num_of_entry.
    destruct e as [v|].
    - destruct v; destruct Hc as [E|[E|[E|[E|E]]]]; subst c; cbn [validator_of validate_entry cmp_entry iface_eq fst]; try reflexivity;
        match goal with |- context [num_eqb ?a ?b] => destruct (num_eqb a b); reflexivity
                   | |- context [num_ltb ?a ?b] => destruct (num_ltb a b); reflexivity
                   | |- context [num_leb ?a ?b] => destruct (num_leb a b); reflexivity end.
    - destruct Hc as [E|[E|[E|[E|E]]]]; subst c; reflexivity.
  Qed.
  Lemma valid_numeric c e : numc c -> is_valid c e = match num_of_entry e with Some _ => true | None => false end.
  Proof. intros Hc. unfold is_valid. destruct e as [v|]; [destruct v|]; destruct Hc as [E|[E|[E|[E|E]]]]; subst c; reflexivity. Qed.

  Lemma cmp_holds_numeric c f es : numc c ->
    cmp_holds c (List.length es) (if existsb (fun x => negb (isE x)) es then es else [None]) (Some (VNum f)) = map (base_test c f) es.
  Proof.
    intros Hc. unfold Spec.cmp_holds. cbv zeta.
    assert (Hrf : is_valid c (Some (VNum f)) = true) by (rewrite (valid_numeric c _ Hc); reflexivity).
    rewrite Hrf, andb_true_r.
    assert (Hnone : forall l, existsb (is_valid c) l = false -> map (base_test c f) l = repeat false (List.length l)).
    { induction l as [|e l IH]; intros H; [reflexivity|]. cbn [existsb] in H. apply orb_false_iff in H. destruct H as [H1 H2].
      cbn [map List.length repeat]. rewrite (IH H2). f_equal. rewrite (valid_numeric c e Hc) in H1. unfold base_test. destruct (num_of_entry e); [discriminate|reflexivity]. }
    assert (Hnot : match c with CDeepEq => False | _ => True end) by (destruct Hc as [E|[E|[E|[E|E]]]]; subst c; exact I).
    destruct (existsb (fun x => negb (isE x)) es) eqn:Ee.
    - destruct (existsb (is_valid c) es) eqn:Ev.
      + rewrite Nat.eqb_refl, map_map. apply map_ext. intros e. apply keeps_numeric. exact Hc.
      + cbn [Bool.eqb]. rewrite (Hnone es Ev). destruct c; try contradiction; reflexivity.
    - assert (Ev : existsb (is_valid c) [None] = false) by (cbn [existsb]; rewrite (valid_numeric c None Hc); reflexivity).
      rewrite Ev. cbn [Bool.eqb].
      assert (Hall : map (base_test c f) es = repeat false (List.length es)).
      { clear -Ee. induction es as [|e es IH]; [reflexivity|]. cbn [existsb] in Ee. apply orb_false_iff in Ee. destruct Ee as [E1 E2].
        cbn [map List.length repeat]. rewrite (IH E2). destruct e; [discriminate E1|reflexivity]. }
      rewrite Hall. destruct c; try contradiction; reflexivity.
  Qed.

  (* the verdict of the comparison filter for a member *)
  Definition ctest (isteps : list rstep) (o : cmpop) (f : num) (v : value) : bool := entry_test o f (reach1 isteps v).

  Lemma holds_cmp isteps o f root vals : forallb rstep_ok isteps = true -> Forall small vals ->
    holds (cmp_query cfg isteps o f) root vals = map (ctest isteps o f) vals.
  Proof.
    intros Hs Hv.
    assert (Hop : forall c, numc c ->
              holds (QCmp (cmp_left cfg isteps) (cmp_right f) c) root vals = map (fun v => base_test c f (reach1 isteps v)) vals).
    { intros c Hc. unfold cmp_left, cmp_right, filter_pq.
      change (holds (QCmp (CP (PqCur ?n) false) (CP (PqLit (VNum f)) true) c) root vals) with
        (cmp_holds c (List.length vals)
           (let es0 := map (fun v => match sp n root (None, v) with x :: _ => Some (res_value (Spec.wrap x)) | [] => None end) vals in
            if existsb (fun x => negb (isE x)) es0 then es0 else [None]) (Some (VNum f))).
      cbv zeta.
      assert (E0 : map (fun v => match sp (clear_acc (delete_root (inner_root cfg isteps))) root (None, v) with x :: _ => Some (res_value (Spec.wrap x)) | [] => None end) vals
                   = map (reach1 isteps) vals).
      { apply map_ext_in. intros v Hin. rewrite Forall_forall in Hv. apply (operand_entry cfg ffun afun regex_match isteps root v Hs (Hv v Hin)). }
      rewrite E0. rewrite <- (map_length (reach1 isteps) vals). rewrite (cmp_holds_numeric c f _ Hc), map_map. reflexivity. }
    unfold cmp_query, ctest, entry_test. cbv zeta. destruct o.
    - rewrite (Hop (CDirectEq VdNumeric)) by (left; reflexivity). apply map_ext. intros v. unfold base_test. destruct (num_of_entry (reach1 isteps v)); reflexivity.
    - change (holds (QNot ?q) root vals) with (map negb (holds q root vals)).
      rewrite (Hop (CDirectEq VdNumeric)) by (left; reflexivity). rewrite map_map. apply map_ext. intros v. unfold base_test. destruct (num_of_entry (reach1 isteps v)); reflexivity.
    - rewrite (Hop CLt) by (right; left; reflexivity). apply map_ext. intros v. unfold base_test. destruct (num_of_entry (reach1 isteps v)); reflexivity.
    - rewrite (Hop CLe) by (right; right; left; reflexivity). apply map_ext. intros v. unfold base_test. destruct (num_of_entry (reach1 isteps v)); reflexivity.
    - rewrite (Hop CGt) by (right; right; right; left; reflexivity). apply map_ext. intros v. unfold base_test. destruct (num_of_entry (reach1 isteps v)); reflexivity.
    - rewrite (Hop CGe) by (right; right; right; right; reflexivity). apply map_ext. intros v. unfold base_test. destruct (num_of_entry (reach1 isteps v)); reflexivity.
  Qed.

  Lemma sp_cmp isteps o f b next root p v : forallb rstep_ok isteps = true -> small v ->
    sp (Node (cmp_kind cfg isteps o f) b next) root (Some p, v) =
    flat_map (ChainAddr.fwd ffun afun regex_match b next root) (navp (ctest isteps o f) (p, v)).
  Proof.
    intros Hs Hsm. unfold cmp_kind. apply (sp_kfilter ffun afun regex_match); [|exact Hsm].
    intros vals Hv. apply holds_cmp; assumption.
  Qed.
End CmpAddr.
