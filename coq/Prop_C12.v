(* Prop_C12.v — property C12: accessor mode changes only the wrapping of results.
   On the specification (which the implementation model refines exactly, C01_refines_spec): for a
   tree whose function parameters and filter operands carry no accessor flag (acc_clean — what
   updateAccessorMode guarantees: C12_parsed_trees_acc_clean proves it for EVERY tree the parser model
   returns, by the stack-effect checker whose item types carry the flag discipline; the harness also
   evaluates it on every parsed tree; and C12_modes_parse_alike proves that Parse in plain mode returns exactly the
   flag-erased tree of Parse in accessor mode, or the same error — the 46 actions commute with flag erasure,
   EraseParse.v), erasing
   every accessor flag selects the same cursors in the same order: one result per value, each yielding
   that value, hence the same failures; function parameters and filter operands are the very same
   subtrees in both modes (erase is the identity on them), so user functions and filters see the same
   plain values. *)
From JP Require Import Peg Grammar Text Tree Actions Eval WF Spec AccDefs Refine1 SpecAcc StackRules EraseParse.

Theorem C12_parity : forall ffun afun regex_match t doc, acc_clean t = true ->
  map plain (spec_results ffun afun regex_match (erase t) doc) = map plain (spec_results ffun afun regex_match t doc).
Proof. exact parity_values. Qed.
Print Assumptions C12_parity.

Theorem C12_same_cursors : forall ffun afun regex_match n, acc_clean n = true -> forall root cur,
  sp ffun afun regex_match (erase n) root cur = map erase_res (sp ffun afun regex_match n root cur).
Proof. exact erase_parity. Qed.
Print Assumptions C12_same_cursors.

(* parameters of functions and operands of filters are untouched by the mode *)
Theorem C12_operands_unchanged : forall q, all_false_q q = true -> erase_q q = q.
Proof. exact (proj1 (proj2 (proj2 (proj2 (proj2 erase_id))))). Qed.
Theorem C12_parameters_unchanged : forall n, all_false n = true -> erase n = n.
Proof. exact (proj1 erase_id). Qed.
Print Assumptions C12_operands_unchanged.

(* the hypothesis of C12_parity holds for every tree Parse returns, in either mode *)
Theorem C12_parsed_trees_acc_clean : forall cfg parse_float regex_ok input t,
  parse_with cfg parse_float regex_ok jsonpath_grammar input = ParseOk t -> acc_clean t = true.
Proof. exact parse_builds_acc_clean. Qed.
Print Assumptions C12_parsed_trees_acc_clean.

Theorem C12_parity_of_parsed_trees : forall cfg parse_float regex_ok ffun afun regex_match input t doc,
  parse_with cfg parse_float regex_ok jsonpath_grammar input = ParseOk t ->
  map plain (spec_results ffun afun regex_match (erase t) doc) = map plain (spec_results ffun afun regex_match t doc).
Proof. intros. apply parity_values. eapply parse_builds_acc_clean. eassumption. Qed.
Print Assumptions C12_parity_of_parsed_trees.

(* the two modes parse alike: same acceptance, same error, trees equal up to the accessor flags *)
Theorem C12_modes_parse_alike : forall cfg parse_float regex_ok g input,
  parse_with (plain_cfg cfg) parse_float regex_ok g input = erase_result (parse_with cfg parse_float regex_ok g input).
Proof. exact parse_erase. Qed.
Print Assumptions C12_modes_parse_alike.

(* from the path text: whatever is parsed in accessor mode, plain mode parses to the erased tree and selects the
   same values in the same order on every document *)
Theorem C12_end_to_end : forall cfg parse_float regex_ok ffun afun regex_match input t,
  parse_with cfg parse_float regex_ok jsonpath_grammar input = ParseOk t ->
  parse_with (plain_cfg cfg) parse_float regex_ok jsonpath_grammar input = ParseOk (erase t) /\
  forall doc, map plain (spec_results ffun afun regex_match (erase t) doc) = map plain (spec_results ffun afun regex_match t doc).
Proof.
  intros cfg pf rx ffun afun rm input t H. split.
  - rewrite parse_erase, H. reflexivity.
  - intros doc. apply parity_values. eapply parse_builds_acc_clean. exact H.
Qed.
Print Assumptions C12_end_to_end.

(* From the path text (AccFilt.v): the same path of steps and filters parsed with accessor mode off and on returns the same
   values in the same order — plain in one mode, wrapped with the locations the walk reaches in the other — or fails in both. *)
From JP Require Import Json Eval WF EvalInv1 KeyDefs FiltChain FiltChainAddr AccFilt.
From Coq Require Import List. Import ListNotations.
Theorem C12_modes_agree_from_text : forall cfgP cfgA parse_float regex_ok ffun afun regex_match,
  (forall f v w, small v -> ffun f v = Some w -> small w) ->
  (forall f l w, Forall small l -> afun f l = Some w -> small w) ->
  cfg_accessor cfgP = false -> cfg_accessor cfgA = true ->
  forall x r doc st st', forallb fstep_ok (x :: r) = true -> forallb (fstep_okp parse_float regex_ok) (x :: r) = true -> small doc -> ok st -> ok st' ->
  exists tP tA, parse_with cfgP parse_float regex_ok jsonpath_grammar (fchain_path (x :: r)) = ParseOk tP /\
                parse_with cfgA parse_float regex_ok jsonpath_grammar (fchain_path (x :: r)) = ParseOk tA /\
    match nav_allf parse_float regex_match doc (x :: r) ([], doc) with
    | [] => (exists e, fst (eval_run ffun afun regex_match tP doc st) = OErr e) /\ (exists e, fst (eval_run ffun afun regex_match tA doc st') = OErr e)
    | l => fst (eval_run ffun afun regex_match tP doc st) = OOk (map (fun lv => RVal (snd lv)) l) /\
           fst (eval_run ffun afun regex_match tA doc st') = OOk (map (fun lv => RAcc true (Some (fst lv)) (snd lv)) l)
    end.
Proof. exact modes_agree_from_text. Qed.
Print Assumptions C12_modes_agree_from_text.

(* Functions after steps and filters (FiltAgg.v, ModesFun): `$` steps-and-filters `.f()` `.g()` … under two configurations that
   differ only in the accessor flag — the same values in the same order (in accessor mode each wrapped in an accessor without a
   location, Set nil), or both fail; and the user functions receive the SAME calls (plain values) in both modes. *)
From JP Require Import FiltChain FiltChainAddr FiltFun FiltAgg FunParse FunAddr.
Theorem C12_functions_after_filters_from_text : forall cfgP cfgA parse_float regex_ok ffun afun regex_match,
  (forall f v w, small v -> ffun f v = Some w -> small w) ->
  (forall f l w, Forall small l -> afun f l = Some w -> small w) ->
  cfg_accessor cfgP = false -> cfg_accessor cfgA = true -> cfg_filters cfgP = cfg_filters cfgA ->
  forall x r f fs doc st st',
  forallb fstep_ok (x :: r) = true -> forallb (fstep_okp parse_float regex_ok) (x :: r) = true ->
  forallb fname_ok (f :: fs) = true -> forallb (fun_known cfgP) (f :: fs) = true -> small doc -> ok st -> ok st' ->
  exists tP tA, parse_with cfgP parse_float regex_ok jsonpath_grammar (fchain_fun_path (x :: r) (f :: fs)) = ParseOk tP /\
                parse_with cfgA parse_float regex_ok jsonpath_grammar (fchain_fun_path (x :: r) (f :: fs)) = ParseOk tA /\
    match fun_vals ffun (f :: fs) (nav_allf parse_float regex_match doc (x :: r) ([], doc)) with
    | [] => (exists e, fst (eval_run ffun afun regex_match tP doc st) = OErr e) /\ (exists e, fst (eval_run ffun afun regex_match tA doc st') = OErr e)
    | l => fst (eval_run ffun afun regex_match tP doc st) = OOk (map RVal l) /\
           fst (eval_run ffun afun regex_match tA doc st') = OOk (map (RAcc false None) l)
    end /\
    exists cs, calls (snd (eval_run ffun afun regex_match tP doc st)) = calls st ++ cs /\
               calls (snd (eval_run ffun afun regex_match tA doc st')) = calls st' ++ cs.
Proof.
  intros cfgP cfgA pf rok ffun afun rm Hf Ha Hp HA Hfl x r f fs doc st st'.
  exact (modes_agree_functions cfgP cfgA pf rok ffun afun rm Hf Ha Hp HA Hfl x r f fs doc st st').
Qed.
Print Assumptions C12_functions_after_filters_from_text.
(* … and followed by an aggregate function (AggCor.v): the same single value in both modes, or both fail; the aggregate and the
   filter functions behind it receive the same calls *)
From JP Require Import AggParse AggCor.
Theorem C12_aggregate_after_filters_from_text : forall cfgP cfgA parse_float regex_ok ffun afun regex_match,
  (forall f v w, small v -> ffun f v = Some w -> small w) ->
  (forall f l w, Forall small l -> afun f l = Some w -> small w) ->
  cfg_accessor cfgP = false -> cfg_accessor cfgA = true -> cfg_filters cfgP = cfg_filters cfgA -> cfg_aggs cfgP = cfg_aggs cfgA ->
  forall x r g fs doc st st',
  forallb fstep_ok (x :: r) = true -> forallb (fstep_okp parse_float regex_ok) (x :: r) = true ->
  forallb fname_ok (g :: fs) = true -> agg_known cfgP g = true -> forallb (fun_known cfgP) fs = true -> small doc -> ok st -> ok st' ->
  exists tP tA, parse_with cfgP parse_float regex_ok jsonpath_grammar (fchain_fun_path (x :: r) (g :: fs)) = ParseOk tP /\
                parse_with cfgA parse_float regex_ok jsonpath_grammar (fchain_fun_path (x :: r) (g :: fs)) = ParseOk tA /\
    match fagg_outcome parse_float ffun afun regex_match (x :: r) g fs doc with
    | None => (exists e, fst (eval_run ffun afun regex_match tP doc st) = OErr e) /\ (exists e, fst (eval_run ffun afun regex_match tA doc st') = OErr e)
    | Some w => fst (eval_run ffun afun regex_match tP doc st) = OOk [RVal w] /\ fst (eval_run ffun afun regex_match tA doc st') = OOk [RAcc false None w]
    end /\
    exists cs, calls (snd (eval_run ffun afun regex_match tP doc st)) = calls st ++ cs /\
               calls (snd (eval_run ffun afun regex_match tA doc st')) = calls st' ++ cs.
Proof. exact modes_agree_aggregates. Qed.
Print Assumptions C12_aggregate_after_filters_from_text.
