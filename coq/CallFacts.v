(* CallFacts.v — the function call protocol (C14) on the evaluator model: what a function node logs
   and hands to the user function, stated with the specification for "the values selected before it". *)
From JP Require Import Eval WF Verdict Spec CallDefs EvalInv1 EvalInv3 EvalInv4 Refine1 Refine2.
From Coq Require Import Lia.
Open Scope string_scope.
Open Scope list_scope.

Section Calls.
  Variable ffun : string -> value -> option value.
  Variable afun : string -> list value -> option value.
  Variable regex_match : string -> string -> bool.
  Hypothesis ffun_small : forall f v w, small v -> ffun f v = Some w -> small w.
  Hypothesis afun_small : forall f l w, Forall small l -> afun f l = Some w -> small w.
  Notation retrieve := (retrieve ffun afun regex_match).
  Notation sp := (sp ffun afun regex_match).
  Notation fwd := (fwd ffun afun regex_match).

  (* a filter function node calls the function exactly once, with the value it was handed (the cursor
     value, never an Accessor), logs that call before anything the rest of the chain does, and its
     result replaces the value; when the function fails the node reports ErrorFunctionFailed naming itself *)
  Theorem ffun_node_call f b next root cur c st :
    retrieve (Node (KFFun f) b next) root cur c st =
    match ffun f (snd cur) with
    | Some v => fwd b next root false (None, v) c (log_call (CallF f (snd cur)) st)
    | None => (c, Some (EFunc b), log_call (CallF f (snd cur)) st)
    end.
  Proof. rewrite retrieve_unfold. cbv zeta. destruct (ffun f (snd cur)); reflexivity. Qed.

  Notation agg_args := (agg_args ffun afun regex_match).

  (* an aggregate node evaluates its parameter path into a private container; when that path selects
     something it calls the function exactly once with agg_args and its result becomes the single
     cursor handed on; when the path selects nothing the function is not called at all *)
  Theorem agg_node_call f param b next root cur c st :
    wf_node param = true -> small root -> cur_ok root cur -> ok st ->
    let '(vals, e, st1) := retrieve param root cur [] st in
    (sp param root cur = [] /\ exists err, retrieve (Node (KAgg f param) b next) root cur c st = (c, Some err, st1)) \/
    (sp param root cur <> [] /\
     let st3 := log_call (CallA f (agg_args param root cur)) st1 in
     retrieve (Node (KAgg f param) b next) root cur c st =
     match afun f (agg_args param root cur) with
     | Some v => fwd b next root false (None, v) c st3
     | None => (c, Some (EFunc b), st3)
     end).
  Proof.
    intros Hwf Hr Hc Hok.
    pose proof (A_node ffun afun regex_match ffun_small afun_small param root cur Hwf Hr Hc [] st Hok) as Hp.
    destruct (refinement ffun afun regex_match ffun_small afun_small) as [HQ _].
    pose proof (HQ param Hwf root cur Hr Hc [] st Hok) as Heq.
    rewrite (retrieve_unfold ffun afun regex_match (KAgg f param)). unfold post in Hp.
    destruct (retrieve param root cur [] st) as [[vals e] st1]. cbn [fst app] in Heq.
    destruct Hp as [Hfr [r [Hvals [He1 [He2 _]]]]]. cbn [app] in Hvals. subst r.
    destruct e as [err|].
    - left. assert (Hv0 : vals = []) by (apply He1; discriminate). rewrite Hv0 in Heq.
      split; [destruct (sp param root cur); [reflexivity|discriminate]|]. exists err. reflexivity.
    - right. specialize (He2 eq_refl).
      split; [intros Hn; rewrite Hn in Heq; cbn in Heq; contradiction|].
      cbv zeta. unfold CallDefs.agg_args.
      assert (Hplain : map res_value vals = map (fun x => res_value (Spec.wrap x)) (sp param root cur))
        by (rewrite Heq, map_map; reflexivity).
      rewrite Hplain.
      assert (Hst2 : (if vgroup (node_basic param) then st1
                      else match vals with [] => set_panic "aggregate: values.result[0]" st1 | _ => st1 end) = st1).
      { destruct (vgroup (node_basic param)); [reflexivity|]. destruct vals; [contradiction He2; reflexivity|reflexivity]. }
      rewrite Hst2. reflexivity.
  Qed.
End Calls.
