(* NoDollarFilt.v — the leading `$` may be omitted before a name, a bracket or a wildcard also when FILTERS follow (C18):
   `a[?(@.b)].c` is accepted, builds the chain of the same nodes and returns what `$.a[?(@.b)].c` returns. *)
From JP Require Import Peg Grammar Slice Text Tree Actions Json Eval WF Spec SortFacts EvalInv1 EvalInv4 EvalTop EndToEnd Codec PegFacts PegMono PegEv FuelRules ParseFacts KeyDefs KeyParse IdxParse SliceParse UnionParse WildParse RecParse ChainParse SpacePath FunParse AggParse Frame FiltParse CmpParse CmpSpace NegFilt LitParse RootOp RegexOp LitLeft QueryParse FiltSpace QuerySpace QueryTree FiltChain ChainAddr FunAddr AggAddr FiltAddr CmpAddr QueryAddr FiltChainAddr NoDollar.
From Coq Require Import Lia.
Local Open Scope N_scope.
Open Scope list_scope.

Definition fchain_tokens0 (s : kstep) (l : list fstep) : list token :=
  first_tokens s ++ fsteps_tokens (List.length (rec_body s)) l ++ [TAct 2; TAct 0].

Lemma ev_fchain_path0 s l : step_ok s = true -> forallb fstep_ok l = true ->
  evG (PRef 0) (fchain_path0 s l) 0 (POk [] (List.length (rec_body s) + List.length (render_fsteps l)) (fchain_tokens0 s l)).
Proof.
  intros Hs Hl. unfold fchain_path0, fchain_tokens0. destruct (rec_body_head s Hs) as (c & r0 & Hc & H32). eapply ev_conv.
  - eapply ev_ref; [reflexivity|]. apply ev_alt_l.
    eapply ev_seq_ok; [| |reflexivity].
    + eapply ev_ref; [reflexivity|].
      eapply ev_seq_ok; [rewrite Hc; cbn [app]; apply ev_space_stop; exact H32| |reflexivity].
      change (c :: r0 ++ render_fsteps l) with ((c :: r0) ++ render_fsteps l). rewrite <- Hc.
      eapply ev_seq_ok; [apply (ev_rule5_first s (render_fsteps l) Hs (fsteps_stop l))| |reflexivity].
      eapply ev_ref; [reflexivity|].
      pose proof (ev_fsteps_star l [] (0 + List.length (rec_body s))%nat Hl I (fun p => ev_rule7_eof p)) as E. rewrite app_nil_r in E.
      eapply ev_seq_ok; [exact E| |reflexivity].
      eapply ev_seq_ok; [apply ev_star_stop; apply ev_rule8_eof| |reflexivity].
      eapply ev_seq_ok; [apply ev_space_eof|apply ev_act|reflexivity].
    + eapply ev_seq_ok; [| apply ev_act |reflexivity].
      eapply ev_ref; [reflexivity|]. apply ev_not_ok. apply ev_any_fail.
  - cbn [app Nat.add]. rewrite <- !app_assoc. cbn [app]. reflexivity.
Qed.
Lemma peg_fchain_path0 s l : step_ok s = true -> forallb fstep_ok l = true ->
  peg_parse G (fchain_path0 s l) = POk [] (List.length (rec_body s) + List.length (render_fsteps l)) (fchain_tokens0 s l).
Proof. intros Hs Hl. apply ev_peg_parse; [apply ev_fchain_path0; assumption|apply peg_never_out_of_fuel]. Qed.

Section NoDollarFiltExec.
  Variable cfg : config.
  Variable parse_float : string -> option num.
  Variable regex_ok : string -> bool.
  Notation execute := (execute cfg parse_float regex_ok).
  Notation exec_action := (exec_action cfg parse_float regex_ok).
  Notation fpres_f := (FiltChain.fpres cfg parse_float).

  Definition fpres0 (s : kstep) (l : list fstep) : list (kind * basic) := (step_kind s, rec_inner_basic cfg s) :: fpres_f l.
  Definition fchain_node0 (s : kstep) (l : list fstep) : node :=
    Node (step_kind s) (set_ctext (text (rec_inner_basic cfg s) ++ ctx (fpres_f l)) (set_vgroup (any_vg (fpres0 s l)) (rec_inner_basic cfg s)))
         (fin (fpres_f l)).

  Theorem parse_fchain_path0 s l : step_ok s = true -> forallb fstep_ok l = true -> forallb (fstep_okp parse_float regex_ok) l = true ->
    parse_with cfg parse_float regex_ok G (fchain_path0 s l) = ParseOk (fchain_node0 s l).
  Proof.
    intros Hs Hl Hp. unfold parse_with, parse_from. rewrite (peg_fchain_path0 s l Hs Hl). unfold fchain_tokens0.
    destruct (exec_first cfg parse_float regex_ok (fchain_path0 s l) s (fsteps_tokens (List.length (rec_body s)) l ++ [TAct 2; TAct 0]) (render_fsteps l) Hs eq_refl) as (c1 & b1 & E1).
    rewrite E1. clear E1.
    assert (Hsk : skipn (List.length (rec_body s)) (fchain_path0 s l) = render_fsteps l).
    { unfold fchain_path0. rewrite skipn_app, skipn_all, Nat.sub_diag. reflexivity. }
    destruct (exec_fsteps cfg parse_float regex_ok (fchain_path0 s l) l (List.length (rec_body s)) [INode (first_node cfg s)] [TAct 2; TAct 0] c1 b1 Hl Hp Hsk) as (cps' & b' & E).
    rewrite E. clear E. cbn [app Actions.execute].
    change (exec_action 2 cps' b' ?st) with (abind (set_node_chain st) update_root_vg).
    assert (Hk : plain_kind (step_kind s)) by (apply step_kind_plain).
    assert (Hchain : set_node_chain (mk (INode (first_node cfg s) :: map (fun x => INode (fnode_of cfg parse_float x)) l)) =
                     AOk (mk [INode (Node (step_kind s) (rec_inner_basic cfg s) (link (fpres_f l)))])).
    { unfold set_node_chain, mk. cbn [params]. destruct l as [|x r'].
      - reflexivity.
      - cbn [map]. pose proof (chain_fold_f cfg parse_float (step_kind s) (rec_inner_basic cfg s) (x :: r') Hk [] (Forall_nil _)) as F.
        cbn [link app map] in F. unfold first_node. rewrite F. reflexivity. }
    rewrite Hchain. cbn [abind]. unfold update_root_vg, mk. cbn [params with_params saved proot abind].
    unfold with_params. cbn [params saved proot].
    change (exec_action 0 cps' b' ?st) with
      (abind (pop_node st) (fun '(rt, st1) => AOk {| params := params st1; saved := saved st1; proot := Some (set_ctext_deep (delete_root rt) "") |})).
    unfold pop_node, pop. cbn [params rev app abind with_params saved proot].
    assert (Ev : delete_root (update_vg (Node (step_kind s) (rec_inner_basic cfg s) (link (fpres_f l)))) =
                 Node (step_kind s) (set_vgroup (any_vg (fpres0 s l)) (rec_inner_basic cfg s)) (link (fpres_f l))).
    { unfold update_vg. cbn [chain_vg]. rewrite link_vg. unfold fpres0. cbn [any_vg existsb snd]. fold (any_vg (fpres_f l)).
      destruct (vgroup (rec_inner_basic cfg s) || any_vg (fpres_f l)) eqn:Ea.
      - cbn [set_node_vg]. destruct s as [q k|k|ds|[|]|a b c0|u us]; reflexivity.
      - apply orb_false_iff in Ea. destruct Ea as [Ea _]. pose proof (set_vgroup_same (rec_inner_basic cfg s)) as Hsame. rewrite Ea in Hsame. rewrite Hsame.
        destruct s as [q k|k|ds|[|]|a b c0|u us]; reflexivity. }
    rewrite Ev. rewrite (set_ctext_link _ _ (fpres_f l) Hk (FiltChain.fpres_plain cfg parse_float l)). reflexivity.
  Qed.
End NoDollarFiltExec.

Section NoDollarFiltAddr.
  Variable cfg : config.
  Variable parse_float : string -> option num.
  Variable regex_ok : string -> bool.
  Variable ffun : string -> value -> option value.
  Variable afun : string -> list value -> option value.
  Variable regex_match : string -> string -> bool.
  Hypothesis ffun_small : forall f v w, small v -> ffun f v = Some w -> small w.
  Hypothesis afun_small : forall f l w, Forall small l -> afun f l = Some w -> small w.
  Notation parse := (parse_with cfg parse_float regex_ok jsonpath_grammar).
  Notation eval_run := (eval_run ffun afun regex_match).
  Notation nav_allf := (nav_allf parse_float regex_match).
  Notation fpres_f := (FiltChain.fpres cfg parse_float).

  Lemma fchain_node0_seg s l : exists b2, fchain_node0 cfg parse_float s l = FiltChainAddr.fseg cfg parse_float (FS (RPlain s)) b2 b2 (fin (fpres_f l)) /\ accessor b2 = cfg_accessor cfg.
  Proof.
    unfold fchain_node0. cbn [FiltChainAddr.fseg seg]. eexists. split; [reflexivity|]. destruct s as [q k|k|ds|[|]|a b c0|u us]; reflexivity.
  Qed.

  Lemma spec_fchain0 s l doc : step_ok s = true -> forallb fstep_ok l = true -> small doc ->
    spec_results ffun afun regex_match (fchain_node0 cfg parse_float s l) doc = map (loc_result cfg) (nav_allf doc (FS (RPlain s) :: l) ([], doc)).
  Proof.
    intros Hs Hl Hsm. destruct (fchain_node0_seg s l) as (b2 & En & Hb).
    assert (Hall : forallb fstep_ok (FS (RPlain s) :: l) = true) by (cbn [forallb fstep_ok rstep_ok]; rewrite Hs, Hl; reflexivity).
    destruct (sp_fchain cfg parse_float ffun afun regex_match l (FS (RPlain s)) b2 b2 Hall Hb) as (B & HB & Hsp).
    unfold spec_results. rewrite En, Hsp by exact Hsm. rewrite map_map. apply map_ext. intros [p z].
    cbn [wrap fst snd]. rewrite HB. unfold loc_result. cbn [fst snd]. destruct (cfg_accessor cfg); reflexivity.
  Qed.

  Theorem fchain_retrieval0 s l doc st : step_ok s = true -> forallb fstep_ok l = true -> forallb (fstep_okp parse_float regex_ok) l = true -> small doc -> ok st ->
    exists t, parse (fchain_path0 s l) = ParseOk t /\
              match nav_allf doc (FS (RPlain s) :: l) ([], doc) with
              | [] => exists e, fst (eval_run t doc st) = OErr e
              | r => fst (eval_run t doc st) = OOk (map (loc_result cfg) r)
              end.
  Proof.
    intros Hs Hl Hokp Hd Hok. exists (fchain_node0 cfg parse_float s l).
    pose proof (parse_fchain_path0 cfg parse_float regex_ok s l Hs Hl Hokp) as Hp. split; [exact Hp|].
    pose proof (retrieve_end_to_end cfg parse_float regex_ok ffun afun regex_match ffun_small afun_small (fchain_path0 s l) doc st Hd Hok) as H.
    rewrite Hp in H. rewrite (spec_fchain0 s l doc Hs Hl Hd) in H.
    destruct (nav_allf doc (FS (RPlain s) :: l) ([], doc)) as [|a r] eqn:En.
    - destruct (fst (eval_run (fchain_node0 cfg parse_float s l) doc st)) as [rs|e|pn].
      + destruct H as [H1 [H2 _]]. contradiction (H2 H1).
      + exists e. reflexivity.
      + contradiction.
    - destruct (fst (eval_run (fchain_node0 cfg parse_float s l) doc st)) as [rs|e|pn].
      + destruct H as [H _]. rewrite H. reflexivity.
      + destruct H as [H _]. discriminate.
      + contradiction.
  Qed.

  (* with and without the leading $ : the same results, or both fail *)
  Theorem dollar_optional_filt s l doc st : step_ok s = true -> forallb fstep_ok l = true -> forallb (fstep_okp parse_float regex_ok) l = true -> small doc -> ok st ->
    exists t1 t0, parse (fchain_path (FS (RPlain s) :: l)) = ParseOk t1 /\ parse (fchain_path0 s l) = ParseOk t0 /\
      match fst (eval_run t1 doc st) with
      | OOk rs => fst (eval_run t0 doc st) = OOk rs
      | OErr _ => exists e, fst (eval_run t0 doc st) = OErr e
      | OPanic _ => False
      end.
  Proof.
    intros Hs Hl Hokp Hd Hok.
    assert (Hall : forallb fstep_ok (FS (RPlain s) :: l) = true) by (cbn [forallb fstep_ok rstep_ok]; rewrite Hs, Hl; reflexivity).
    assert (Hallp : forallb (fstep_okp parse_float regex_ok) (FS (RPlain s) :: l) = true) by (cbn [forallb fstep_okp]; exact Hokp).
    destruct (fchain_retrieval cfg parse_float regex_ok ffun afun regex_match ffun_small afun_small (FS (RPlain s)) l doc st Hall Hallp Hd Hok) as (t1 & P1 & H1).
    destruct (fchain_retrieval0 s l doc st Hs Hl Hokp Hd Hok) as (t0 & P0 & H0).
    exists t1, t0. split; [exact P1|]. split; [exact P0|].
    destruct (nav_allf doc (FS (RPlain s) :: l) ([], doc)) as [|a r].
    - destruct H1 as [e1 E1]. rewrite E1. exact H0.
    - rewrite H1. exact H0.
  Qed.
End NoDollarFiltAddr.

(* ---------- blanks before and after a path with filters: the very same tree ---------- *)
Definition fpadded_tokens (n1 : nat) (l : list fstep) : list token := TAct 8 :: fsteps_tokens (n1 + 1) l ++ [TAct 2; TAct 0].

Lemma blanks_stop n : dot_stop (blanks n).
Proof. destruct n as [|n]; [exact I|]. unfold blanks. simpl. repeat split; try reflexivity; discriminate. Qed.
Lemma blanks_rule7_fail n : forall p, evG (PRef 7) (blanks n) p PFail.
Proof. intros p. destruct n as [|n]; [apply ev_rule7_eof|apply ev_rule7_blank]. Qed.

Lemma ev_fpadded_path n1 n2 l : forallb fstep_ok l = true ->
  evG (PRef 0) (fpadded_path n1 n2 l) 0 (POk [] (n1 + 1 + List.length (render_fsteps l) + n2) (fpadded_tokens n1 l)).
Proof.
  intros Hs. unfold fpadded_path, fchain_path, fpadded_tokens. eapply ev_conv.
  - eapply ev_ref; [reflexivity|]. apply ev_alt_l.
    eapply ev_seq_ok; [| |reflexivity].
    + eapply ev_ref; [reflexivity|].
      eapply ev_seq_ok; [apply (ev_space_blanks n1 ((36 :: render_fsteps l) ++ blanks n2) 0); cbn [app]; discriminate| |reflexivity].
      eapply ev_seq_ok; [| |reflexivity].
      * cbn [app]. eapply ev_ref; [reflexivity|]. apply ev_alt_l. eapply ev_ref; [reflexivity|].
        eapply ev_seq_ok; [apply (ev_lit_ok G [36]); apply strip1_ok|apply ev_act|reflexivity].
      * eapply ev_ref; [reflexivity|].
        eapply ev_seq_ok; [apply (ev_fsteps_star l (blanks n2) _ Hs (blanks_stop n2) (blanks_rule7_fail n2))| |reflexivity].
        eapply ev_seq_ok; [apply ev_star_stop; destruct n2; [apply ev_rule8_eof|apply ev_rule8_blank]| |reflexivity].
        eapply ev_seq_ok; [|apply ev_act|reflexivity].
        pose proof (ev_space_blanks n2 [] (0 + n1 + 1 + List.length (render_fsteps l)) I) as H. rewrite app_nil_r in H. exact H.
    + eapply ev_seq_ok; [| apply ev_act |reflexivity].
      eapply ev_ref; [reflexivity|]. apply ev_not_ok. apply ev_any_fail.
  - cbn [List.length app Nat.add]. rewrite <- !app_assoc. cbn [app]. f_equal.
Qed.
Lemma peg_fpadded_path n1 n2 l : forallb fstep_ok l = true ->
  peg_parse G (fpadded_path n1 n2 l) = POk [] (n1 + 1 + List.length (render_fsteps l) + n2) (fpadded_tokens n1 l).
Proof. intros Hs. apply ev_peg_parse; [apply ev_fpadded_path; exact Hs|apply peg_never_out_of_fuel]. Qed.

Section FPaddedExec.
  Variable cfg : config.
  Variable parse_float : string -> option num.
  Variable regex_ok : string -> bool.
  Notation execute := (execute cfg parse_float regex_ok).
  Notation exec_action := (exec_action cfg parse_float regex_ok).
  Notation fpres_f := (FiltChain.fpres cfg parse_float).

  Theorem parse_fpadded_path n1 n2 s r : forallb fstep_ok (s :: r) = true -> forallb (fstep_okp parse_float regex_ok) (s :: r) = true ->
    parse_with cfg parse_float regex_ok G (fpadded_path n1 n2 (s :: r)) = ParseOk (fchain_node cfg parse_float (s :: r)).
  Proof.
    intros Hs Hokp. unfold parse_with, parse_from. rewrite (peg_fpadded_path n1 n2 (s :: r) Hs). unfold fpadded_tokens.
    cbn [Actions.execute].
    change (exec_action 8 [] 0 ps_init) with (AOk (mk [INode (Node KRoot (root_basic cfg) ONone)])). cbn [abind].
    assert (Hsk : skipn (n1 + 1) (fpadded_path n1 n2 (s :: r)) = render_fsteps (s :: r) ++ blanks n2).
    { unfold fpadded_path, fchain_path. rewrite skipn_add, skipn_app. rewrite (skipn_all2 (blanks n1)) by (rewrite blanks_len; lia).
      rewrite blanks_len, Nat.sub_diag. reflexivity. }
    destruct (exec_fsteps_tail cfg parse_float regex_ok (fpadded_path n1 n2 (s :: r)) (s :: r) (blanks n2) (n1 + 1) [INode (Node KRoot (root_basic cfg) ONone)] [TAct 2; TAct 0] [] 0 Hs Hokp Hsk) as (cps' & b' & E).
    rewrite E. clear E. cbn [app Actions.execute].
    change (exec_action 2 cps' b' ?st) with (abind (set_node_chain st) update_root_vg).
    unfold set_node_chain, mk. cbn [params map app].
    change (INode (fnode_of cfg parse_float s) :: map (fun x => INode (fnode_of cfg parse_float x)) r) with (map (fun x => INode (fnode_of cfg parse_float x)) (s :: r)).
    pose proof (chain_fold_f cfg parse_float KRoot (root_basic cfg) (s :: r) ltac:(split; intros; discriminate) [] ltac:(constructor)) as F. cbn [link app] in F. rewrite F. clear F.
    cbn [abind with_params params saved proot]. unfold update_root_vg. cbn [params with_params saved proot abind].
    unfold with_params. cbn [params saved proot].
    change (exec_action 0 cps' b' ?st) with
      (abind (pop_node st) (fun '(rt, st1) => AOk {| params := params st1; saved := saved st1; proot := Some (set_ctext_deep (delete_root rt) "") |})).
    unfold pop_node, pop. cbn [params rev app abind with_params saved proot].
    unfold fchain_node, node_of. pose proof (FiltChain.fpres_plain cfg parse_float (s :: r)) as Hp.
    destruct (fpres_f (s :: r)) as [|x l] eqn:Ep.
    { exfalso. unfold FiltChain.fpres in Ep. cbn [flat_map] in Ep. pose proof (fpre_nonempty cfg parse_float s) as Hn. destruct (fpre_of cfg parse_float s); [contradiction Hn; reflexivity|discriminate Ep]. }
    inversion Hp as [|? ? Hx Hl]; subst.
    assert (Ev : delete_root (update_vg (Node KRoot (root_basic cfg) (link (x :: l)))) = Node (fst x) (set_vgroup (any_vg (x :: l)) (snd x)) (link l)).
    { unfold update_vg. cbn [chain_vg]. rewrite link_vg. cbn [root_basic mk_basic vgroup orb].
      destruct (any_vg (x :: l)) eqn:Ea.
      - reflexivity.
      - cbn [link delete_root vgroup]. cbn [any_vg existsb] in Ea. apply orb_false_iff in Ea. destruct Ea as [Ea _].
        rewrite <- Ea at 1. rewrite set_vgroup_same. reflexivity. }
    rewrite Ev. rewrite (set_ctext_link _ _ l Hx Hl). reflexivity.
  Qed.

  Corollary fpadded_same_parse n1 n2 s r : forallb fstep_ok (s :: r) = true -> forallb (fstep_okp parse_float regex_ok) (s :: r) = true ->
    parse_with cfg parse_float regex_ok G (fpadded_path n1 n2 (s :: r)) = parse_with cfg parse_float regex_ok G (fchain_path (s :: r)).
  Proof. intros Hs Hp. rewrite parse_fpadded_path, parse_fchain_path by assumption. reflexivity. Qed.
End FPaddedExec.
