(* FuelRules.v — the side conditions of Fuel.v evaluated on the regenerated grammar: which rules must
   consume input, a rank for every rule that decreases along unguarded references, and the fuel the
   model gives a parse.  Conclusion: Parse is total in the model — it returns a tree or a documented
   error for every string (C02). *)
From JP Require Import Peg Grammar Text Tree Actions PegFacts ParseFacts ErrPos StackLogic StackActs StackCheck StackRules Fuel.
From Coq Require Import Lia.
Open Scope list_scope.

Definition consuming_rules : list nat :=
  [2; 3; 5; 6; 7; 8; 9; 10; 11; 12; 13; 14; 15; 16; 17; 18; 19; 20; 21; 22; 23; 24; 25; 27; 28; 29; 30; 31; 32; 33;
   34; 35; 36; 37; 38; 39; 40; 41; 42; 43; 44; 45; 46; 47; 48; 50; 51; 52; 53; 54; 55; 56; 57].
Definition consuming (r : nat) : bool := existsb (Nat.eqb r) consuming_rules.
Definition ranks : list nat :=
  [4; 0; 3; 2; 3; 2; 1; 2; 0; 0; 1; 0; 0; 1; 0; 2; 1; 0; 0; 0; 0; 0; 5; 4; 3; 2; 1; 0; 1; 1; 1; 2; 1; 9; 8; 7; 1; 1; 0;
   6; 5; 5; 1; 4; 3; 0; 0; 0; 0; 0; 0; 1; 0; 1; 0; 1; 0; 1; 0].
Definition rule_rank (r : nat) : nat := nth r ranks 0.
Definition fuel_K : nat := 40.

Definition rule_fuel_ok (r : nat) : bool :=
  match nth_error jsonpath_grammar r with
  | Some body => (if consuming r then consumesb consuming body else true) &&
                 gcheck consuming rule_rank (rule_rank r) false body && Nat.ltb (rule_rank r) fuel_K
  | None => true
  end.
Lemma grammar_fuel_checks : forallb rule_fuel_ok (seq 0 (List.length jsonpath_grammar)) = true.
Proof. vm_compute. reflexivity. Qed.

Lemma rule_fuel_ok_all r : rule_fuel_ok r = true.
Proof.
  destruct (Nat.lt_ge_cases r (List.length jsonpath_grammar)) as [Hlt|Hge].
  - pose proof grammar_fuel_checks as H. rewrite forallb_forall in H. apply H. apply in_seq. lia.
  - unfold rule_fuel_ok. assert (En : nth_error jsonpath_grammar r = None) by (apply nth_error_None; exact Hge).
    rewrite En. reflexivity.
Qed.

Lemma consuming_ok : forall r body, consuming r = true -> nth_error jsonpath_grammar r = Some body -> consumesb consuming body = true.
Proof.
  intros r body Hc Hn. pose proof (rule_fuel_ok_all r) as H. unfold rule_fuel_ok in H. rewrite Hn, Hc in H.
  apply andb_true_iff in H. destruct H as [H _]. apply andb_true_iff in H. destruct H as [H _]. exact H.
Qed.
Lemma ranks_ok : forall r body, nth_error jsonpath_grammar r = Some body ->
  gcheck consuming rule_rank (rule_rank r) false body = true /\ rule_rank r < fuel_K.
Proof.
  intros r body Hn. pose proof (rule_fuel_ok_all r) as H. unfold rule_fuel_ok in H. rewrite Hn in H.
  apply andb_true_iff in H. destruct H as [H H2]. apply andb_true_iff in H. destruct H as [_ H1].
  split; [exact H1|apply Nat.ltb_lt; exact H2].
Qed.

(* the fuel the model gives a parse is enough: the interpreter never gives up, and no repetition of the
   grammar can spin without consuming input *)
Theorem peg_never_out_of_fuel : forall s, peg_parse jsonpath_grammar s <> PFuel.
Proof.
  intros s. unfold peg_parse.
  pose proof (no_fuel jsonpath_grammar consuming consuming_ok rule_rank fuel_K ranks_ok) as H.
  assert (HK : 1 <= fuel_K) by (unfold fuel_K; lia).
  specialize (H HK (List.length s) (S (rule_rank 0)) (PRef 0) false).
  assert (Hg : gcheck consuming rule_rank (S (rule_rank 0)) false (PRef 0) = true) by (cbn [gcheck orb]; apply Nat.ltb_lt; lia).
  specialize (H Hg (parse_fuel s) s 0). apply H.
  unfold ok, parse_fuel, fuel_K. change (rule_rank 0) with 4. split; lia.
Qed.

Section Total.
  Variable cfg : config.
  Variable parse_float : string -> option num.
  Variable regex_ok : string -> bool.

  Theorem parse_total : forall input,
    (exists t, parse_with cfg parse_float regex_ok jsonpath_grammar input = ParseOk t) \/
    (exists e, parse_with cfg parse_float regex_ok jsonpath_grammar input = ParseErr e).
  Proof.
    intros input. destruct (parse_with cfg parse_float regex_ok jsonpath_grammar input) as [t|e|s] eqn:E.
    - left. exists t. reflexivity.
    - right. exists e. reflexivity.
    - exfalso. apply parse_never_crashes in E. exact (peg_never_out_of_fuel input E).
  Qed.
End Total.
