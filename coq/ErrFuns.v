(* ErrFuns.v — the runtime error of a path of name and index steps followed by filter functions, from the path text (C15):
   `$` steps `.f().g()` fails at the first step that cannot be taken (ErrSteps), and, when every step can be taken, at the FIRST
   function that fails on what the functions before it returned: "function failed" naming that call `.f()` as written; it
   succeeds when no step and no function fails.  walk_err is defined on the document and the function library alone. *)
From JP Require Import Peg Grammar Slice Text Tree Actions Json Eval WF Spec ErrSpec SortFacts EvalInv1 EvalInv4 EvalTop EndToEnd Codec KeyDefs KeyParse ChainParse ChainAddr FunParse ErrNames ErrSteps.
From Coq Require Import Lia ZArith.
Open Scope list_scope.

Inductive fail_at :=
| FStep (s : kstep) (why : option (string * string))     (* the step; expected container and Go type found, or a missing member / element *)
| FFun (f : list N).                                      (* the function that failed *)

Section WalkErr.
  Variable ffun : string -> value -> option value.

  Fixpoint fun_fail (v : value) (fs : list (list N)) : option (list N) :=
    match fs with
    | [] => None
    | f :: r => match ffun (text_of f) v with None => Some f | Some w => fun_fail w r end
    end.

  Fixpoint walk_err (v : value) (steps : list kstep) (fs : list (list N)) : option fail_at :=
    match steps with
    | [] => option_map FFun (fun_fail v fs)
    | s :: r =>
        match s with
        | SIdx ds => match v with
                     | VArr xs => match idx_pick xs (step_idx ds) with Some x => walk_err x r fs | None => Some (FStep s None) end
                     | _ => Some (FStep s (Some ("array"%string, go_type v)))
                     end
        | _ => match v with
               | VObj m => match lookup m (step_key s) with Some x => walk_err x r fs | None => Some (FStep s None) end
               | _ => Some (FStep s (Some ("object"%string, go_type v)))
               end
        end
    end.
End WalkErr.

Section ErrFuns.
  Variable cfg : config.
  Variable parse_float : string -> option num.
  Variable regex_ok : string -> bool.
  Variable ffun : string -> value -> option value.
  Variable afun : string -> list value -> option value.
  Variable regex_match : string -> string -> bool.
  Hypothesis ffun_small : forall f v w, small v -> ffun f v = Some w -> small w.
  Hypothesis afun_small : forall f l w, Forall small l -> afun f l = Some w -> small w.
  Notation parse := (parse_with cfg parse_float regex_ok jsonpath_grammar).
  Notation eval_run := (eval_run ffun afun regex_match).
  Notation serr := (serr ffun afun regex_match).
  Notation walk_err := (walk_err ffun).
  Notation fun_fail := (fun_fail ffun).

  Definition err_matches3 (o : option rerr) (f : option fail_at) : Prop :=
    match f with
    | None => o = None
    | Some (FStep s None) => exists b, o = Some (EMember b) /\ text b = step_text s
    | Some (FStep s (Some (ex, ty))) => exists b, o = Some (EType b ex ty) /\ text b = step_text s
    | Some (FFun f) => exists b, o = Some (EFunc b) /\ text b = text_of (fun_text f)
    end.

  (* a chain of function nodes whose texts are the calls as written *)
  Fixpoint funs_shape (fs : list (list N)) (o : onode) : Prop :=
    match fs, o with
    | [], ONone => True
    | f :: r, OSome (Node k b nx) => k = KFFun (text_of f) /\ text b = text_of (fun_text f) /\ funs_shape r nx
    | _, _ => False
    end.
  (* the steps' nodes, then the functions' nodes *)
  Fixpoint path_shape (steps : list kstep) (fs : list (list N)) (o : onode) : Prop :=
    match steps with
    | [] => funs_shape fs o
    | s :: r => match o with
                | OSome (Node k b nx) => k = step_kind s /\ text b = step_text s /\ path_shape r fs nx
                | ONone => False
                end
    end.

  Lemma serr_funs : forall fs o root cu v, funs_shape fs o ->
    err_matches3 (match o with OSome n => serr n root (@pair (option (list pstep)) value cu v) | ONone => None end) (option_map FFun (fun_fail v fs)).
  Proof.
    induction fs as [|f r IH]; intros o root cu v Hsh.
    - destruct o; [reflexivity|contradiction].
    - destruct o as [|[k b nx]]; [contradiction|]. destruct Hsh as (Ek & Et & Hr). subst k.
      cbn [ErrSpec.serr snd ErrFuns.fun_fail]. destruct (ffun (text_of f) v) as [w|].
      + exact (IH nx root None w Hr).
      + cbn [option_map err_matches3]. eexists. split; [reflexivity|exact Et].
  Qed.

  Lemma serr_path : forall steps fs o root (ol : option (list pstep)) v, forallb is_loc_step steps = true -> path_shape steps fs o ->
    err_matches3 (match o with OSome n => serr n root (@pair (option (list pstep)) value ol v) | ONone => None end) (walk_err v steps fs).
  Proof.
    induction steps as [|s r IH]; intros fs o root ol v Hn Hsh.
    - cbn [path_shape ErrFuns.walk_err] in *. apply serr_funs. exact Hsh.
    - cbn [path_shape] in Hsh. destruct o as [|[k b nx]]; [contradiction|]. destruct Hsh as (Ek & Et & Hr). subst k.
      cbn [forallb] in Hn. apply andb_true_iff in Hn. destruct Hn as [Hs Hn].
      assert (Hfwd : forall cu x, err_matches3 (match nx with OSome n' => serr n' root (cu, x) | ONone => None end) (walk_err x r fs))
        by (intros cu x; apply IH; assumption).
      destruct s as [q key|key|ds|w|sa sb sc|u us]; try discriminate Hs.
      + cbn [ErrFuns.walk_err step_kind]. destruct v as [|bb|x|s0 x|s0|xs|m|t i s0];
          try (cbn [ErrSpec.serr snd err_matches3]; eexists; split; [reflexivity|exact Et]).
        cbn [ErrSpec.serr snd fst]. destruct (lookup m (step_key (SBr q key))) as [x|] eqn:El.
        * apply Hfwd.
        * cbn [err_matches3]. eexists. split; [reflexivity|exact Et].
      + cbn [ErrFuns.walk_err step_kind]. destruct v as [|bb|x|s0 x|s0|xs|m|t i s0];
          try (cbn [ErrSpec.serr snd err_matches3]; eexists; split; [reflexivity|exact Et]).
        cbn [ErrSpec.serr snd fst]. destruct (lookup m (step_key (SDot key))) as [x|] eqn:El.
        * apply Hfwd.
        * cbn [err_matches3]. eexists. split; [reflexivity|exact Et].
      + cbn [ErrFuns.walk_err step_kind]. destruct v as [|bb|x|s0 x|s0|xs|m|t i s0];
          try (cbn [ErrSpec.serr snd err_matches3]; eexists; split; [reflexivity|exact Et]).
        cbn [ErrSpec.serr snd fst flat_map get_indexes]. rewrite app_nil_r. unfold get_indexes_index, idx_pick.
        set (len := Z.of_nat (List.length xs)). set (i := if (step_idx ds <? 0)%Z then Slice.wrap (step_idx ds + len) else step_idx ds).
        destruct ((i <? 0) || (i >=? len))%Z eqn:Eo.
        * cbn [flat_map]. cbn [err_matches3]. eexists. split; [reflexivity|exact Et].
        * apply orb_false_iff in Eo. destruct Eo as [E1 E2]. apply Z.ltb_ge in E1. rewrite Z.geb_leb in E2. apply Z.leb_gt in E2.
          destruct (nth_value_some xs i ltac:(subst len; lia)) as (x & Ex). cbn [flat_map app]. rewrite Ex, app_nil_r. rewrite loop_err_single. cbn [fst snd]. apply Hfwd.
  Qed.

  Lemma fin_funs fs : funs_shape fs (fin (fpres cfg fs)).
  Proof. induction fs as [|f r IH]; [exact I|]. cbn [fpres map fin fpre fst snd funs_shape]. split; [reflexivity|]. split; [reflexivity|exact IH]. Qed.
  Lemma fin_path r fs : path_shape r fs (fin (pres cfg (map RPlain r) ++ fpres cfg fs)).
  Proof.
    induction r as [|s r IH]; [apply fin_funs|].
    unfold pres. cbn [map flat_map rstep_pre app fin fst snd path_shape]. split; [reflexivity|]. split; [reflexivity|]. exact IH.
  Qed.
  Lemma chain_fun_shape s r fs : path_shape (s :: r) fs (OSome (chain_fun_node cfg (map RPlain (s :: r)) fs)).
  Proof.
    unfold chain_fun_node, node_of, pres. cbn [map flat_map rstep_pre app fst snd path_shape]. split; [reflexivity|]. split; [reflexivity|]. apply (fin_path r fs).
  Qed.

  Theorem fun_path_error s r fs doc st : forallb step_ok (s :: r) = true -> forallb is_loc_step (s :: r) = true ->
    forallb fname_ok fs = true -> forallb (fun_known cfg) fs = true -> small doc -> ok st ->
    exists t, parse (chain_fun_path (map RPlain (s :: r)) fs) = ParseOk t /\
              match walk_err doc (s :: r) fs with
              | None => exists rs, fst (eval_run t doc st) = OOk rs
              | Some (FStep x None) => exists b, fst (eval_run t doc st) = OErr (EMember b) /\ text b = step_text x
              | Some (FStep x (Some (ex, ty))) => exists b, fst (eval_run t doc st) = OErr (EType b ex ty) /\ text b = step_text x
              | Some (FFun f) => exists b, fst (eval_run t doc st) = OErr (EFunc b) /\ text b = text_of (fun_text f)
              end.
  Proof.
    intros Hs Hn Hf Hk Hd Hok. pose proof (plain_ok (s :: r) Hs) as Hs'. cbn [map] in Hs'.
    exists (chain_fun_node cfg (map RPlain (s :: r)) fs).
    pose proof (parse_chain_fun_path cfg parse_float regex_ok (RPlain s) (map RPlain r) fs Hs' Hf Hk) as Hp. split; [exact Hp|].
    pose proof (retrieve_end_to_end cfg parse_float regex_ok ffun afun regex_match ffun_small afun_small (chain_fun_path (map RPlain (s :: r)) fs) doc st Hd Hok) as H.
    cbn [map] in H. rewrite Hp in H.
    pose proof (serr_path (s :: r) fs (OSome (chain_fun_node cfg (map RPlain (s :: r)) fs)) doc (@Some (list pstep) []) doc Hn (chain_fun_shape s r fs)) as He.
    cbn [map] in He. unfold ErrSpec.spec_error in H. cbn [map].
    destruct (fst (eval_run (chain_fun_node cfg (RPlain s :: map RPlain r) fs) doc st)) as [rs|e|pn]; [| |contradiction].
    - destruct H as (_ & _ & Hnone). rewrite Hnone in He. destruct (walk_err doc (s :: r) fs) as [[x [[ex ty]|]|f]|].
      + destruct He as (b & E & _). discriminate E.
      + destruct He as (b & E & _). discriminate E.
      + destruct He as (b & E & _). discriminate E.
      + exists rs. reflexivity.
    - destruct H as (_ & Hsome). rewrite Hsome in He. destruct (walk_err doc (s :: r) fs) as [[x [[ex ty]|]|f]|].
      + destruct He as (b & E & Hb). inversion E; subst. exists b. split; [reflexivity|exact Hb].
      + destruct He as (b & E & Hb). inversion E; subst. exists b. split; [reflexivity|exact Hb].
      + destruct He as (b & E & Hb). inversion E; subst. exists b. split; [reflexivity|exact Hb].
      + discriminate He.
  Qed.
End ErrFuns.
