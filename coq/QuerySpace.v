(* QuerySpace.v — a filter over a query in disjunctive form written WITH BLANKS: [?( b  && b ||  b )] — after `?(`, after every
   basic query, after every `&&` and `||`.  A basic query here is an existence test (possibly negated, blanks after `!`) or a
   comparison with a number (blanks around the operator).  Who eats which blanks: those after an existence test are eaten
   by its operand (jsonpathParameter ends with `space`); those after a number stay, and the next logicAnd / logicOr /
   filterEnd takes them with its leading `space`; those after `&&`, `||`, `?(` by the trailing `space` of these rules. *)
From JP Require Import Peg Grammar Text Tree Actions PegFacts PegMono PegEv FuelRules ParseFacts KeyDefs KeyParse IdxParse SliceParse UnionParse WildParse RecParse ChainParse SpacePath FunParse AggParse Frame FiltParse CmpParse CmpSpace NegFilt LitParse RootOp RegexOp QueryParse FiltSpace NoDollar.
From Coq Require Import Lia.
Local Open Scope N_scope.
Open Scope list_scope.

Definition sbq_ok (b : sbq) : bool :=
  match b with
  | SBE _ _ i => forallb rstep_ok i
  | SBC i _ o _ lit => forallb rstep_ok i && negb (steps_vg i) && lit_ok lit
  end.
(* the blanks after a basic query that the basic query itself eats / leaves for the next rule *)
Definition eaten (e : selem) : nat := match fst e with SBE _ _ _ => snd e | SBC _ _ _ _ _ => 0%nat end.
Definition left (e : selem) : nat := match fst e with SBE _ _ _ => 0%nat | SBC _ _ _ _ _ => snd e end.
Lemma eaten_left e : (eaten e + left e = snd e)%nat.
Proof. destruct e as [[neg gn i|i a o b lit] ga]; cbn [eaten left fst snd]; lia. Qed.

Definition sbq_tokens (pos : nat) (e : selem) : list token :=
  match fst e with
  | SBE neg gn i => fes35_tokens pos neg gn i (snd e)
  | SBC i a o b lit => scmp39_tokens pos i a o b lit ++
                       [TText pos (pos + (1 + List.length (render_steps i) + a + List.length (op_text o) + b + List.length lit)); TAct 26]
  end.
Definition sbq_len (b : sbq) : nat := List.length (sbq_text b).
Lemma sbq_len_eq b : sbq_len b = match b with
                                 | SBE neg gn i => (neg_len neg gn + 1 + List.length (render_steps i))%nat
                                 | SBC i a o b lit => (1 + List.length (render_steps i) + a + List.length (op_text o) + b + List.length lit)%nat
                                 end.
Proof.
  unfold sbq_len. destruct b as [neg gn i|i a o b lit]; cbn [sbq_text].
  - unfold neg_len. destruct neg; cbn [app List.length]; rewrite ?app_length, ?blanks_len; cbn [List.length]; lia.
  - cbn [List.length]. rewrite !app_length, !blanks_len. lia.
Qed.
Lemma sbq_head b : exists x r, sbq_text b = x :: r /\ x <> 32.
Proof. destruct b as [[|] gn i|i a o b lit]; cbn [sbq_text app]; eexists _, _; (split; [reflexivity|discriminate]). Qed.

(* one basic query with its blanks, before a terminator `)`, `&` or `|` *)
Lemma ev35_s e c t pos : sbq_ok (fst e) = true -> qend c ->
  evG (PRef 35) (selem_core e ++ c :: t) pos
      (POk (blanks (left e) ++ c :: t) (pos + sbq_len (fst e) + eaten e) (sbq_tokens pos e)).
Proof.
  intros Hb Hq. rewrite sbq_len_eq. destruct e as [[neg gn i|i a o b lit] ga]; unfold selem_core, sbq_tokens, eaten, left; cbn [fst snd sbq_text sbq_ok] in *.
  - cbn [blanks repeat app]. eapply ev_conv.
    + pose proof (ev_rule35_fes neg gn i ga c t pos Hb Hq) as E. unfold fes_inner in E.
      replace ((((if neg then 33 :: blanks gn else []) ++ 64 :: render_steps i) ++ blanks ga) ++ c :: t)
        with (((if neg then 33 :: blanks gn else []) ++ 64 :: render_steps i ++ blanks ga) ++ c :: t)
        by (repeat (progress (cbn [app]) || rewrite <- app_assoc); reflexivity).
      exact E.
    + f_equal. lia.
  - apply andb_true_iff in Hb. destruct Hb as [Hb Hl]. apply andb_true_iff in Hb. destruct Hb as [Hs _].
    replace (((64 :: render_steps i ++ blanks a ++ op_text o ++ blanks b ++ lit) ++ blanks ga) ++ c :: t)
      with (64 :: render_steps i ++ blanks a ++ op_text o ++ blanks b ++ lit ++ blanks ga ++ c :: t)
      by (repeat (progress (cbn [app]) || rewrite <- app_assoc); reflexivity).
    eapply ev_conv.
    + eapply ev_ref; [reflexivity|].
      apply ev_alt_r; [apply ev_seq_fail; eapply ev_ref; [reflexivity|]; apply ev_seq_fail; apply (ev_lit_fail G [40]); reflexivity|].
      apply ev_alt_l. eapply ev_seq_ok; [apply ev_cap; apply (ev_rule39_scmp i lit t c a b ga Hq Hs Hl o pos)|apply ev_act|reflexivity].
    + f_equal; try lia.
      replace (pos + 1 + List.length (render_steps i) + a + List.length (op_text o) + b + List.length lit)%nat
        with (pos + (1 + List.length (render_steps i) + a + List.length (op_text o) + b + List.length lit))%nat by lia.
      rewrite <- !app_assoc. reflexivity.
Qed.

(* ---------- conjunctions: (logicAnd basicQuery {25})* starting with k blanks left over ---------- *)
Definition sand_tail (r : list (nat * selem)) : list N := flat_map (fun gx : nat * selem => [38; 38] ++ blanks (fst gx) ++ selem_core (snd gx)) r.
Fixpoint lastleft (k : nat) (r : list (nat * selem)) : nat := match r with [] => k | gx :: r' => lastleft (left (snd gx)) r' end.
(* what the repetition consumes, starting with k blanks *)
Fixpoint used_tail (k : nat) (r : list (nat * selem)) : nat :=
  match r with [] => 0%nat | gx :: r' => (k + 2 + fst gx + sbq_len (fst (snd gx)) + eaten (snd gx) + used_tail (left (snd gx)) r')%nat end.
(* p: the position of the first `&&` *)
Fixpoint sand_rest (p : nat) (r : list (nat * selem)) : list token :=
  match r with
  | [] => []
  | gx :: r' => sbq_tokens (p + 2 + fst gx) (snd gx) ++ [TAct 25] ++
                sand_rest (p + 2 + fst gx + sbq_len (fst (snd gx)) + snd (snd gx)) r'
  end.
Lemma selem_core_len e : List.length (selem_core e) = (sbq_len (fst e) + snd e)%nat.
Proof. unfold selem_core, sbq_len. rewrite app_length, blanks_len. reflexivity. Qed.
Lemma used_tail_len r : forall k, (k + List.length (sand_tail r) = used_tail k r + lastleft k r)%nat.
Proof.
  induction r as [|[g x] r IH]; intros k; [cbn [sand_tail flat_map used_tail lastleft List.length]; lia|].
  unfold sand_tail. cbn [flat_map fst snd]. fold (sand_tail r). cbn [used_tail lastleft fst snd].
  rewrite !app_length, blanks_len, selem_core_len. cbn [List.length].
  pose proof (IH (left x)) as H. pose proof (eaten_left x) as He. lia.
Qed.

Lemma sand_tail_head r c t : cend c -> exists c' t', sand_tail r ++ c :: t = c' :: t' /\ qend c'.
Proof. intros Hc. destruct r as [|[g x] r]; cbn [sand_tail flat_map app]; eexists _, _; (split; [reflexivity|]); [apply cend_qend; exact Hc|right; left; reflexivity]. Qed.

Lemma ev_sand_star r c t : forallb (fun gx : nat * selem => sbq_ok (fst (snd gx))) r = true -> cend c -> forall k pos,
  evG (PStar (PSeq (PRef 37) (PSeq (PRef 35) (PAct 25)))) (blanks k ++ sand_tail r ++ c :: t) pos
      (POk (blanks (lastleft k r) ++ c :: t) (pos + used_tail k r) (sand_rest (pos + k) r)).
Proof.
  intros Hs Hc. induction r as [|[g x] r IH]; intros k pos.
  - cbn [sand_tail flat_map app used_tail lastleft sand_rest]. eapply ev_conv.
    + apply ev_star_stop. apply ev_seq_fail. eapply ev_ref; [reflexivity|].
      eapply ev_seq_fail2; [apply (ev_space_blanks k (c :: t)); destruct Hc as [E|E]; subst c; discriminate|].
      apply ev_seq_fail. apply (ev_lit_fail G [38; 38]). destruct Hc as [E|E]; subst c; reflexivity.
    + f_equal. lia.
  - cbn [forallb fst snd] in Hs. apply andb_true_iff in Hs. destruct Hs as [H1 H2].
    cbn [sand_tail flat_map used_tail lastleft sand_rest fst snd]. fold (sand_tail r). rewrite <- !app_assoc. cbn [app].
    destruct (sand_tail_head r c t Hc) as (c' & t' & Eh & Hq'). destruct (sbq_head (fst x)) as (x0 & xr & Ex & Hx0).
    assert (E1 : evG (PSeq (PRef 37) (PSeq (PRef 35) (PAct 25))) (blanks k ++ 38 :: 38 :: blanks g ++ selem_core x ++ sand_tail r ++ c :: t) pos
                     (POk (blanks (left x) ++ sand_tail r ++ c :: t) (pos + k + 2 + g + sbq_len (fst x) + eaten x)
                          (sbq_tokens (pos + k + 2 + g) x ++ [TAct 25]))).
    { eapply ev_conv.
      - eapply ev_seq_ok; [| |reflexivity].
        + eapply ev_ref; [reflexivity|].
          eapply ev_seq_ok; [apply (ev_space_blanks k (38 :: 38 :: blanks g ++ selem_core x ++ sand_tail r ++ c :: t)); discriminate| |reflexivity].
          eapply ev_seq_ok; [apply (ev_lit_ok G [38; 38]); cbn [strip_prefix]; rewrite !N.eqb_refl; reflexivity| |reflexivity].
          apply (ev_space_blanks g (selem_core x ++ sand_tail r ++ c :: t)). unfold selem_core. rewrite Ex. cbn [app]. exact Hx0.
        + rewrite Eh. eapply ev_seq_ok; [apply (ev35_s x c' t' _ H1 Hq')|apply ev_act|reflexivity].
      - rewrite Eh. cbn [List.length app Nat.add]. f_equal; try lia. }
    assert (Hlen : (pos + k + 2 + g + sbq_len (fst x) + eaten x <> pos)%nat) by lia.
    pose proof (ev_star_step G _ _ _ _ _ _ _ _ _ E1 Hlen (IH H2 (left x) (pos + k + 2 + g + sbq_len (fst x) + eaten x)%nat)) as E2.
    eapply ev_conv; [exact E2|].
    replace (pos + k + 2 + g + sbq_len (fst x) + snd x)%nat with (pos + k + 2 + g + sbq_len (fst x) + eaten x + left x)%nat by (pose proof (eaten_left x); lia).
    rewrite <- app_assoc. f_equal. lia.
Qed.

(* a conjunction *)
Definition sconj_ok (cj : sconj) : bool := sbq_ok (fst (fst cj)) && forallb (fun gx : nat * selem => sbq_ok (fst (snd gx))) (snd cj).
Definition sconj_left (cj : sconj) : nat := lastleft (left (fst cj)) (snd cj).
Definition sconj_used (cj : sconj) : nat := (sbq_len (fst (fst cj)) + eaten (fst cj) + used_tail (left (fst cj)) (snd cj))%nat.
Definition sconj_tokens (pos : nat) (cj : sconj) : list token :=
  sbq_tokens pos (fst cj) ++ sand_rest (pos + sbq_len (fst (fst cj)) + snd (fst cj)) (snd cj).
Lemma sconj_text_len cj : List.length (sconj_text cj) = (sconj_used cj + sconj_left cj)%nat.
Proof.
  unfold sconj_text, sconj_used, sconj_left. destruct cj as [e r]. cbn [fst snd]. change (flat_map (fun gx : nat * (sbq * nat) => [38; 38] ++ blanks (fst gx) ++ selem_core (snd gx)) r) with (sand_tail r).
  rewrite app_length, selem_core_len. pose proof (used_tail_len r (left e)) as H. pose proof (eaten_left e) as He. lia.
Qed.

Lemma ev34_s cj c t pos : sconj_ok cj = true -> cend c ->
  evG (PRef 34) (sconj_text cj ++ c :: t) pos (POk (blanks (sconj_left cj) ++ c :: t) (pos + sconj_used cj) (sconj_tokens pos cj)).
Proof.
  intros Hs Hc. destruct cj as [e r]. unfold sconj_ok, sconj_text, sconj_left, sconj_used, sconj_tokens in *. cbn [fst snd] in *.
  apply andb_true_iff in Hs. destruct Hs as [H1 H2]. change (flat_map (fun gx : nat * (sbq * nat) => [38; 38] ++ blanks (fst gx) ++ selem_core (snd gx)) r) with (sand_tail r). rewrite <- app_assoc.
  destruct (sand_tail_head r c t Hc) as (c' & t' & Eh & Hq').
  eapply ev_conv.
  - eapply ev_ref; [reflexivity|].
    eapply ev_seq_ok; [rewrite Eh; apply (ev35_s e c' t' pos H1 Hq')| |reflexivity].
    rewrite <- Eh. apply (ev_sand_star r c t H2 Hc (left e)).
  - f_equal; try lia. f_equal. f_equal. pose proof (eaten_left e). lia.
Qed.

(* ---------- disjunctions ---------- *)
Definition sor_tail (cs : list (nat * sconj)) : list N := flat_map (fun gc : nat * sconj => [124; 124] ++ blanks (fst gc) ++ sconj_text (snd gc)) cs.
Fixpoint lastleft_or (k : nat) (cs : list (nat * sconj)) : nat := match cs with [] => k | gc :: r => lastleft_or (sconj_left (snd gc)) r end.
Fixpoint used_or (k : nat) (cs : list (nat * sconj)) : nat :=
  match cs with [] => 0%nat | gc :: r => (k + 2 + fst gc + sconj_used (snd gc) + used_or (sconj_left (snd gc)) r)%nat end.
Fixpoint sor_rest (p : nat) (cs : list (nat * sconj)) : list token :=
  match cs with
  | [] => []
  | gc :: r => sconj_tokens (p + 2 + fst gc) (snd gc) ++ [TAct 24] ++ sor_rest (p + 2 + fst gc + List.length (sconj_text (snd gc))) r
  end.
Lemma used_or_len cs : forall k, (k + List.length (sor_tail cs) = used_or k cs + lastleft_or k cs)%nat.
Proof.
  induction cs as [|[g x] r IH]; intros k; [cbn [sor_tail flat_map used_or lastleft_or List.length]; lia|].
  unfold sor_tail. cbn [flat_map fst snd]. fold (sor_tail r). cbn [used_or lastleft_or fst snd].
  rewrite !app_length, blanks_len, sconj_text_len. cbn [List.length]. pose proof (IH (sconj_left x)) as H. lia.
Qed.
Lemma sor_tail_head cs t : exists c' t', sor_tail cs ++ 41 :: t = c' :: t' /\ cend c'.
Proof. destruct cs as [|[g x] r]; cbn [sor_tail flat_map app]; eexists _, _; (split; [reflexivity|]); [left|right]; reflexivity. Qed.
Lemma sconj_head cj : exists x r, sconj_text cj = x :: r /\ x <> 32.
Proof. destruct cj as [[b ga] r]. destruct (sbq_head b) as (x & xr & E & H). unfold sconj_text, selem_core. cbn [fst snd]. rewrite E. cbn [app]. eexists _, _. split; [reflexivity|exact H]. Qed.

Lemma ev_sor_star cs t : forallb (fun gc : nat * sconj => sconj_ok (snd gc)) cs = true -> forall k pos,
  evG (PStar (PSeq (PRef 36) (PSeq (PRef 34) (PAct 24)))) (blanks k ++ sor_tail cs ++ 41 :: t) pos
      (POk (blanks (lastleft_or k cs) ++ 41 :: t) (pos + used_or k cs) (sor_rest (pos + k) cs)).
Proof.
  intros Hs. induction cs as [|[g x] r IH]; intros k pos.
  - cbn [sor_tail flat_map app used_or lastleft_or sor_rest]. eapply ev_conv.
    + apply ev_star_stop. apply ev_seq_fail. eapply ev_ref; [reflexivity|].
      eapply ev_seq_fail2; [apply (ev_space_blanks k (41 :: t)); discriminate|]. apply ev_seq_fail. apply (ev_lit_fail G [124; 124]). reflexivity.
    + f_equal. lia.
  - cbn [forallb fst snd] in Hs. apply andb_true_iff in Hs. destruct Hs as [H1 H2].
    cbn [sor_tail flat_map used_or lastleft_or sor_rest fst snd]. fold (sor_tail r). rewrite <- !app_assoc. cbn [app].
    destruct (sor_tail_head r t) as (c' & t' & Eh & Hc'). destruct (sconj_head x) as (x0 & xr & Ex & Hx0).
    assert (E1 : evG (PSeq (PRef 36) (PSeq (PRef 34) (PAct 24))) (blanks k ++ 124 :: 124 :: blanks g ++ sconj_text x ++ sor_tail r ++ 41 :: t) pos
                     (POk (blanks (sconj_left x) ++ sor_tail r ++ 41 :: t) (pos + k + 2 + g + sconj_used x) (sconj_tokens (pos + k + 2 + g) x ++ [TAct 24]))).
    { eapply ev_conv.
      - eapply ev_seq_ok; [| |reflexivity].
        + eapply ev_ref; [reflexivity|].
          eapply ev_seq_ok; [apply (ev_space_blanks k (124 :: 124 :: blanks g ++ sconj_text x ++ sor_tail r ++ 41 :: t)); discriminate| |reflexivity].
          eapply ev_seq_ok; [apply (ev_lit_ok G [124; 124]); cbn [strip_prefix]; rewrite !N.eqb_refl; reflexivity| |reflexivity].
          apply (ev_space_blanks g (sconj_text x ++ sor_tail r ++ 41 :: t)). rewrite Ex. cbn [app]. exact Hx0.
        + rewrite Eh. eapply ev_seq_ok; [apply (ev34_s x c' t' _ H1 Hc')|apply ev_act|reflexivity].
      - rewrite Eh. cbn [List.length app Nat.add]. f_equal; try lia. }
    assert (Hlen : (pos + k + 2 + g + sconj_used x <> pos)%nat) by lia.
    pose proof (ev_star_step G _ _ _ _ _ _ _ _ _ E1 Hlen (IH H2 (sconj_left x) (pos + k + 2 + g + sconj_used x)%nat)) as E2.
    eapply ev_conv; [exact E2|].
    replace (pos + k + 2 + g + List.length (sconj_text x))%nat with (pos + k + 2 + g + sconj_used x + sconj_left x)%nat by (rewrite sconj_text_len; lia).
    rewrite <- app_assoc. f_equal. lia.
Qed.

Definition sdnf_ok (d : sdnf) : bool := sconj_ok (fst d) && forallb (fun gc : nat * sconj => sconj_ok (snd gc)) (snd d).
Definition sdnf_left (d : sdnf) : nat := lastleft_or (sconj_left (fst d)) (snd d).
Definition sdnf_used (d : sdnf) : nat := (sconj_used (fst d) + used_or (sconj_left (fst d)) (snd d))%nat.
Definition sq_tokens (pos : nat) (d : sdnf) : list token :=
  sconj_tokens pos (fst d) ++ sor_rest (pos + List.length (sconj_text (fst d))) (snd d).
Lemma sdnf_text_len d : List.length (sdnf_text d) = (sdnf_used d + sdnf_left d)%nat.
Proof.
  unfold sdnf_text, sdnf_used, sdnf_left. destruct d as [c r]. cbn [fst snd]. change (flat_map (fun gc : nat * ((sbq * nat) * list (nat * (sbq * nat))) => [124; 124] ++ blanks (fst gc) ++ sconj_text (snd gc)) r) with (sor_tail r).
  rewrite app_length, sconj_text_len. pose proof (used_or_len r (sconj_left c)) as H. lia.
Qed.

Lemma ev33_s d t pos : sdnf_ok d = true ->
  evG (PRef 33) (sdnf_text d ++ 41 :: t) pos (POk (blanks (sdnf_left d) ++ 41 :: t) (pos + sdnf_used d) (sq_tokens pos d)).
Proof.
  intros Hd. destruct d as [cj r]. unfold sdnf_ok, sdnf_text, sdnf_left, sdnf_used, sq_tokens in *. cbn [fst snd] in *.
  apply andb_true_iff in Hd. destruct Hd as [H1 H2]. change (flat_map (fun gc : nat * ((sbq * nat) * list (nat * (sbq * nat))) => [124; 124] ++ blanks (fst gc) ++ sconj_text (snd gc)) r) with (sor_tail r). rewrite <- app_assoc.
  destruct (sor_tail_head r t) as (c' & t' & Eh & Hc').
  eapply ev_conv.
  - eapply ev_ref; [reflexivity|].
    eapply ev_seq_ok; [rewrite Eh; apply (ev34_s cj c' t' pos H1 Hc')| |reflexivity].
    rewrite <- Eh. apply (ev_sor_star r t H2 (sconj_left cj)).
  - f_equal; try lia. f_equal. f_equal. rewrite sconj_text_len. lia.
Qed.

(* from the query to the bracket: filterStart eats g0 blanks, filterEnd the blanks the last basic query left *)
Lemma ev_rule7_of33_gen g0 X LL used r pos toks : (forall x0 r0, X = x0 :: r0 -> x0 <> 32) -> X <> [] -> List.length X = (used + LL)%nat ->
  evG (PRef 33) (X ++ 41 :: 93 :: r) (pos + 3 + g0) (POk (blanks LL ++ 41 :: 93 :: r) (pos + 3 + g0 + used) toks) ->
  evG (PRef 7) ([91; 63; 40] ++ blanks g0 ++ X ++ [41; 93] ++ r) pos
      (POk r (pos + 5 + g0 + List.length X) (toks ++ [TAct 23; TText pos (pos + 5 + g0 + List.length X); TAct 7])).
Proof.
  intros Hx Hne HL E33. destruct X as [|x0 X']; [contradiction Hne; reflexivity|]. pose proof (Hx x0 X' eq_refl) as E0.
  eapply ev_ref; [reflexivity|].
  apply ev_alt_r; [apply ev_seq_fail; apply (ev_lit_fail G [46; 46]); reflexivity|].
  apply ev_alt_r; [apply ev_seq_fail; apply ev_cap_fail; apply ev_seq_fail; apply (ev_lit_fail G [46]); reflexivity|].
  cbn [app]. eapply ev_conv.
  - eapply ev_ref; [reflexivity|].
    eapply ev_seq_ok; [apply ev_cap|apply ev_act|reflexivity].
    eapply ev_seq_ok; [| |reflexivity].
    + eapply ev_ref; [reflexivity|]. eapply ev_seq_ok; [apply (ev_lit_ok G [91]); apply strip1_ok|apply ev_space_stop; discriminate|reflexivity].
    + eapply ev_seq_ok; [| |reflexivity].
      * apply ev_alt_r; [apply ev_rule15_q|].
        eapply ev_ref; [reflexivity|].
        apply ev_alt_r; [apply ev_rule23_q|].
        apply ev_alt_r; [eapply ev_ref; [reflexivity|]; apply ev_seq_fail; eapply ev_ref; [reflexivity|]; apply ev_seq_fail; apply (ev_lit_fail G [40]); reflexivity|].
        eapply ev_ref; [reflexivity|].
        eapply ev_seq_ok; [| |reflexivity].
        -- eapply ev_ref; [reflexivity|]. eapply ev_seq_ok; [apply (ev_lit_ok G [63; 40]); reflexivity|apply (ev_space_blanks g0 ((x0 :: X') ++ [41; 93] ++ r)); exact E0|reflexivity].
        -- eapply ev_seq_ok; [| |reflexivity].
           ++ assert (E33' : evG (PRef 33) ((x0 :: X') ++ [41; 93] ++ r) (pos + List.length [91] + List.length [63; 40] + g0)%nat
                                 (POk (blanks LL ++ 41 :: 93 :: r) (pos + 3 + g0 + used) toks))
                by (replace (pos + List.length [91] + List.length [63; 40] + g0)%nat with (pos + 3 + g0)%nat by (cbn [List.length]; lia); exact E33).
              exact E33'.
           ++ eapply ev_seq_ok; [|apply ev_act|reflexivity].
              eapply ev_ref; [reflexivity|]. eapply ev_seq_ok; [apply (ev_space_blanks LL (41 :: 93 :: r)); discriminate|apply (ev_lit_ok G [41]); apply strip1_ok|reflexivity].
      * eapply ev_ref; [reflexivity|]. eapply ev_seq_ok; [apply ev_space_stop; discriminate|apply (ev_lit_ok G [93]); apply strip1_ok|reflexivity].
  - cbn [List.length app Nat.add] in *. f_equal; try lia.
    replace (pos + 3 + g0 + used + LL + 1 + 1)%nat with (pos + 5 + g0 + S (List.length X'))%nat by lia.
    repeat (progress (cbn [app]) || rewrite <- app_assoc || rewrite app_nil_r). reflexivity.
Qed.

Definition sfq_tokens (p : nat) (g0 : nat) (d : sdnf) : list token :=
  sq_tokens (p + 3 + g0) d ++ [TAct 23; TText p (p + 5 + g0 + List.length (sdnf_text d)); TAct 7].
Lemma sfq_text_len g0 d : List.length (sfq_text g0 d) = (5 + g0 + List.length (sdnf_text d))%nat.
Proof. unfold sfq_text. rewrite !app_length, blanks_len. cbn [List.length]. lia. Qed.
Lemma sdnf_head d : exists x r, sdnf_text d = x :: r /\ x <> 32.
Proof. destruct d as [cj r]. destruct (sconj_head cj) as (x & xr & E & H). unfold sdnf_text. cbn [fst snd]. rewrite E. cbn [app]. eexists _, _. split; [reflexivity|exact H]. Qed.

Lemma ev_rule7_sfq g0 d r pos : sdnf_ok d = true ->
  evG (PRef 7) (sfq_text g0 d ++ r) pos (POk r (pos + List.length (sfq_text g0 d)) (sfq_tokens pos g0 d)).
Proof.
  intros Hd. unfold sfq_tokens. destruct (sdnf_head d) as (x0 & xr & Ex & Hx0).
  pose proof (ev33_s d (93 :: r) (pos + 3 + g0) Hd) as E33.
  replace (sfq_text g0 d ++ r) with ([91; 63; 40] ++ blanks g0 ++ sdnf_text d ++ [41; 93] ++ r)
    by (unfold sfq_text; repeat (progress (cbn [app]) || rewrite <- app_assoc); reflexivity).
  eapply ev_conv; [apply (ev_rule7_of33_gen g0 (sdnf_text d) (sdnf_left d) (sdnf_used d) r pos _
                            ltac:(intros y0 r0 E; rewrite Ex in E; inversion E; subst; exact Hx0) ltac:(rewrite Ex; discriminate) (sdnf_text_len d) E33)|].
  rewrite sfq_text_len. f_equal; lia.
Qed.

(* ---------- the token replay ---------- *)
Definition unspace (b : sbq) : bq :=
  match b with SBE neg _ i => if neg then BN i else BE i | SBC i _ o _ lit => BC i o lit end.
Definition unspace_conj (cj : sconj) : list bq := unspace (fst (fst cj)) :: map (fun gx : nat * selem => unspace (fst (snd gx))) (snd cj).
Definition unspace_dnf (d : sdnf) : list (list bq) := unspace_conj (fst d) :: map (fun gc : nat * sconj => unspace_conj (snd gc)) (snd d).
Lemma unspace_ok b : bq_ok (unspace b) = sbq_ok b.
Proof. destruct b as [[|] gn i|i a o b lit]; reflexivity. Qed.
Lemma forallb_map' {A B} (f : B -> bool) (g : A -> B) l : forallb f (map g l) = forallb (fun x => f (g x)) l.
Proof. induction l as [|a l IH]; [reflexivity|]. cbn [map forallb]. rewrite IH. reflexivity. Qed.
Lemma forallb_ext' {A} (f g : A -> bool) l : (forall a, f a = g a) -> forallb f l = forallb g l.
Proof. intros H. induction l as [|a l IH]; [reflexivity|]. cbn [forallb]. rewrite H, IH. reflexivity. Qed.
Lemma unspace_conj_ok cj : sconj_ok cj = true -> conj_ok (unspace_conj cj) = true.
Proof.
  destruct cj as [[b ga] r]. unfold sconj_ok, unspace_conj, conj_ok. cbn [fst snd forallb]. intros H. apply andb_true_iff in H. destruct H as [H1 H2].
  rewrite unspace_ok, H1. cbn [andb]. rewrite forallb_map'. rewrite <- H2. apply forallb_ext'. intros gx. apply unspace_ok.
Qed.
Lemma unspace_dnf_ok d : sdnf_ok d = true -> dnf_ok (unspace_dnf d) = true.
Proof.
  destruct d as [cj r]. unfold sdnf_ok, unspace_dnf, dnf_ok. cbn [fst snd forallb]. intros H. apply andb_true_iff in H. destruct H as [H1 H2].
  rewrite (unspace_conj_ok cj H1). cbn [andb]. rewrite forallb_map'. rewrite forallb_forall in H2. apply forallb_forall. intros gc Hin. apply unspace_conj_ok. exact (H2 gc Hin).
Qed.

Section QuerySpaceExec.
  Variable cfg : config.
  Variable parse_float : string -> option num.
  Variable regex_ok : string -> bool.
  Notation execute := (execute cfg parse_float regex_ok).
  Notation exec_action := (exec_action cfg parse_float regex_ok).
  Notation bq_query := (bq_query cfg parse_float).

  Definition sbq_okp (b : sbq) : bool := bq_okp parse_float regex_ok (unspace b).
  Definition sconj_okp (cj : sconj) : bool := sbq_okp (fst (fst cj)) && forallb (fun gx : nat * selem => sbq_okp (fst (snd gx))) (snd cj).
  Definition sdnf_okp (d : sdnf) : bool := sconj_okp (fst d) && forallb (fun gc : nat * sconj => sconj_okp (snd gc)) (snd d).

  Lemma exec_sbq input p e rest ps toks cps bg : sbq_ok (fst e) = true -> sbq_okp (fst e) = true -> skipn p input = selem_core e ++ rest ->
    exists cps' b', execute (sbq_tokens p e ++ toks) input cps bg (mk ps) = execute toks input cps' b' (mk (ps ++ [IQuery (bq_query (unspace (fst e)))])).
  Proof.
    intros Hb Hp Hin. destruct e as [[neg gn i|i a o b0 lit] ga]; unfold sbq_tokens, selem_core, sbq_okp in *; cbn [fst snd sbq_text sbq_ok unspace] in *.
    - set (L := List.length (render_steps i)). set (NL := neg_len neg gn). unfold fes35_tokens. fold L NL.
      set (PRE := if neg then 33 :: blanks gn else []).
      assert (HP : List.length PRE = NL) by (unfold PRE, NL, neg_len; destruct neg; cbn [List.length]; rewrite ?blanks_len; reflexivity).
      assert (Hin' : skipn p input = PRE ++ (64 :: render_steps i) ++ blanks ga ++ rest).
      { rewrite Hin. unfold PRE. repeat (progress (cbn [app]) || rewrite <- app_assoc). reflexivity. }
      assert (Hq : skipn (p + NL) input = 64 :: render_steps i ++ blanks ga ++ rest).
      { pose proof (skipn_next input p PRE _ Hin') as H. rewrite HP in H. exact H. }
      replace (([TAct 38] ++ inner_tokens (p + NL) i ++ [TAct 39; TText p (p + (NL + 1 + L + ga)); TAct 27]) ++ toks)
        with ([TAct 38] ++ inner_tokens (p + NL) i ++ [TAct 39] ++ ([TText p (p + (NL + 1 + L + ga)); TAct 27] ++ toks))
        by (repeat (progress (cbn [app]) || rewrite <- app_assoc); reflexivity).
      rewrite (exec_operand cfg parse_float regex_ok input (p + NL) i _ ps _ cps bg Hb Hq). cbn [app Actions.execute].
      assert (Ec : sub_list input p (p + (NL + 1 + L + ga)) = fes_inner neg gn i ga).
      { pose proof (sub_at input p 0 [] (fes_inner neg gn i ga) rest) as H. rewrite Nat.add_0_r in H. rewrite fes_inner_len in H. fold L NL in H. apply H; [|reflexivity].
        rewrite Hin. unfold fes_inner. repeat (progress (cbn [app]) || rewrite <- app_assoc). reflexivity. }
      rewrite Ec.
      assert (E27 : forall b1, exec_action 27 (fes_inner neg gn i ga) b1 (mk (ps ++ [IPQ (filter_pq cfg i); IBool false])) =
                               AOk (mk (ps ++ [IQuery (bq_query (if neg then BN i else BE i))]))).
      { intros b1. cbn [Actions.exec_action].
        change (ps ++ [IPQ (filter_pq cfg i); IBool false]) with (ps ++ [IPQ (filter_pq cfg i)] ++ [IBool false]). rewrite app_assoc, pop_mk. cbn [abind].
        unfold pop_query. rewrite pop_mk. cbn [abind]. unfold fes_inner. destruct neg; reflexivity. }
      rewrite E27. cbn [abind]. eexists _, _. reflexivity.
    - apply andb_true_iff in Hb. destruct Hb as [Hb Hl]. apply andb_true_iff in Hb. destruct Hb as [Hs Hvg]. apply negb_true_iff in Hvg.
      cbn [bq_okp] in Hp. destruct (parse_float (text_of lit)) as [f|] eqn:Hpf; [|discriminate Hp].
      assert (Eq : qnum parse_float lit = f) by (unfold qnum; rewrite Hpf; reflexivity).
      set (L := List.length (render_steps i)). set (K := List.length (op_text o)). set (M := List.length lit).
      unfold scmp39_tokens, left43_tokens_sp. cbv zeta. fold L K M.
      assert (Hin' : skipn p input = 64 :: render_steps i ++ blanks a ++ op_text o ++ blanks b0 ++ lit ++ blanks ga ++ rest)
        by (rewrite Hin; repeat (progress (cbn [app]) || rewrite <- app_assoc); reflexivity).
      replace (((([TAct 38] ++ inner_tokens p i ++ [TAct 39; TText p (p + 1 + L + a); TAct 37]) ++
                 [TText (p + 1 + L + a + K + b0) (p + 1 + L + a + K + b0 + M); TAct 40; TAct (lit_act o); TAct (op_act o)]) ++ [TText p (p + (1 + L + a + K + b0 + M)); TAct 26]) ++ toks)
        with ([TAct 38] ++ inner_tokens p i ++ [TAct 39] ++
              ([TText p (p + 1 + L + a); TAct 37; TText (p + 1 + L + a + K + b0) (p + 1 + L + a + K + b0 + M); TAct 40; TAct (lit_act o); TAct (op_act o); TText p (p + (1 + L + a + K + b0 + M)); TAct 26] ++ toks))
        by (repeat (progress (cbn [app]) || rewrite <- app_assoc); reflexivity).
      rewrite (exec_operand cfg parse_float regex_ok input p i _ ps _ cps bg Hs Hin'). cbn [app Actions.execute].
      assert (E37 : forall c0 b1, exec_action 37 c0 b1 (mk (ps ++ [IPQ (filter_pq cfg i); IBool false])) = AOk (mk (ps ++ [ICParam (cmp_left cfg i)]))).
      { intros c0 b1. cbn [Actions.exec_action].
        change (ps ++ [IPQ (filter_pq cfg i); IBool false]) with (ps ++ [IPQ (filter_pq cfg i)] ++ [IBool false]). rewrite app_assoc, pop_mk. cbn [abind].
        rewrite pop_mk. cbn [abind]. unfold cmp_left, filter_pq. rewrite (operand_vg cfg), Hvg. reflexivity. }
      rewrite E37. cbn [abind].
      assert (Elit : sub_list input (p + 1 + L + a + K + b0) (p + 1 + L + a + K + b0 + M) = lit).
      { pose proof (sub_at input p (1 + L + a + K + b0) ((64 :: render_steps i) ++ blanks a ++ op_text o ++ blanks b0) lit (blanks ga ++ rest)) as H.
        replace (p + (1 + L + a + K + b0))%nat with (p + 1 + L + a + K + b0)%nat in H by lia. apply H.
        - rewrite Hin'. repeat (progress (cbn [app]) || rewrite <- app_assoc). reflexivity.
        - unfold L, K. repeat (first [rewrite app_length | rewrite blanks_len | progress cbn [List.length]]). lia. }
      fold L K M. rewrite Elit.
      assert (E40 : forall b1 st, exec_action 40 lit b1 st = AOk (push (INum f) st)) by (intros b1 st; cbn [Actions.exec_action]; rewrite Hpf; reflexivity).
      rewrite E40. cbn [abind].
      change (push (INum f) (mk (ps ++ [ICParam (cmp_left cfg i)]))) with (mk ((ps ++ [ICParam (cmp_left cfg i)]) ++ [INum f])).
      assert (Elt : forall c0 b1, exec_action (lit_act o) c0 b1 (mk ((ps ++ [ICParam (cmp_left cfg i)]) ++ [INum f])) =
                                 AOk (mk ((ps ++ [ICParam (cmp_left cfg i)]) ++ [ICParam (cmp_right f)]))).
      { intros c0 b1. destruct o; cbn [lit_act Actions.exec_action]; rewrite pop_mk; reflexivity. }
      rewrite Elt. cbn [abind].
      assert (Eop : forall c0 b1, exec_action (op_act o) c0 b1 (mk ((ps ++ [ICParam (cmp_left cfg i)]) ++ [ICParam (cmp_right f)])) =
                                 AOk (mk (ps ++ [IQuery (cmp_query cfg i o f)]))).
      { intros c0 b1. destruct o; cbn [op_act Actions.exec_action]; unfold two_operands, pop_cparam; rewrite pop_mk; cbn [abind]; rewrite pop_mk; cbn [abind]; try reflexivity.
        unfold pop_query. change (push_compare_eq (cmp_left cfg i) (cmp_right f) (mk ps)) with (mk (ps ++ [IQuery (QCmp (cmp_left cfg i) (cmp_right f) (CDirectEq VdNumeric))])).
        rewrite pop_mk. reflexivity. }
      rewrite Eop. cbn [abind].
      assert (E26 : forall c0 b1, exec_action 26 c0 b1 (mk (ps ++ [IQuery (cmp_query cfg i o f)])) = AOk (mk (ps ++ [IQuery (cmp_query cfg i o f)]))).
      { intros c0 b1. cbn [Actions.exec_action]. rewrite pop_mk. cbn [abind]. destruct o; reflexivity. }
      rewrite E26. cbn [abind]. cbn [QueryParse.bq_query]. rewrite Eq. eexists _, _. reflexivity.
  Qed.

  Lemma fold_left_map {A B C} (f : C -> B -> C) (g : A -> B) l : forall c0, fold_left f (map g l) c0 = fold_left (fun c x => f c (g x)) l c0.
  Proof. induction l as [|a l IH]; intros c0; [reflexivity|]. cbn [map fold_left]. apply IH. Qed.

  (* p: the position of the first `&&` *)
  Lemma exec_sand_rest input r : forall p q rest ps toks cps bg,
    forallb (fun gx : nat * selem => sbq_ok (fst (snd gx))) r = true -> forallb (fun gx : nat * selem => sbq_okp (fst (snd gx))) r = true ->
    skipn p input = sand_tail r ++ rest ->
    exists cps' b', execute (sand_rest p r ++ toks) input cps bg (mk (ps ++ [IQuery q])) =
                    execute toks input cps' b' (mk (ps ++ [IQuery (fold_left (fun q0 gx => QAnd q0 (bq_query (unspace (fst (snd gx))))) r q)])).
  Proof.
    induction r as [|[g x] r IH]; intros p q rest ps toks cps bg Hs Hp Hin.
    - exists cps, bg. reflexivity.
    - cbn [forallb fst snd] in Hs, Hp. apply andb_true_iff in Hs. destruct Hs as [H1 H2]. apply andb_true_iff in Hp. destruct Hp as [P1 P2].
      unfold sand_tail in Hin. cbn [flat_map fst snd] in Hin. fold (sand_tail r) in Hin. rewrite <- !app_assoc in Hin.
      assert (Hin2 : skipn (p + 2 + g) input = selem_core x ++ sand_tail r ++ rest).
      { pose proof (skipn_next input p ([38; 38] ++ blanks g) (selem_core x ++ sand_tail r ++ rest)) as H.
        rewrite app_length, blanks_len in H. cbn [List.length] in H. replace (p + (2 + g))%nat with (p + 2 + g)%nat in H by lia.
        apply H. rewrite Hin. rewrite <- !app_assoc. reflexivity. }
      cbn [sand_rest fst snd]. rewrite <- !app_assoc.
      destruct (exec_sbq input (p + 2 + g) x _ (ps ++ [IQuery q]) ([TAct 25] ++ sand_rest (p + 2 + g + sbq_len (fst x) + snd x) r ++ toks) cps bg H1 P1 Hin2) as (c1 & b1 & E1).
      rewrite E1. clear E1. cbn [app Actions.execute].
      assert (E25 : forall c0 b0, exec_action 25 c0 b0 (mk ((ps ++ [IQuery q]) ++ [IQuery (bq_query (unspace (fst x)))])) = AOk (mk (ps ++ [IQuery (QAnd q (bq_query (unspace (fst x))))]))).
      { intros c0 b0. cbn [Actions.exec_action]. unfold pop_query. rewrite pop_mk. cbn [abind]. rewrite pop_mk. reflexivity. }
      rewrite E25. cbn [abind].
      assert (Hin3 : skipn (p + 2 + g + sbq_len (fst x) + snd x) input = sand_tail r ++ rest).
      { pose proof (skipn_next input (p + 2 + g) (selem_core x) _ Hin2) as H. rewrite selem_core_len in H.
        replace (p + 2 + g + (sbq_len (fst x) + snd x))%nat with (p + 2 + g + sbq_len (fst x) + snd x)%nat in H by lia. exact H. }
      destruct (IH _ (QAnd q (bq_query (unspace (fst x)))) rest ps toks c1 b1 H2 P2 Hin3) as (c2 & b2 & E2).
      rewrite E2. cbn [fold_left fst snd]. eexists _, _. reflexivity.
  Qed.

  Lemma exec_sconj input p cj rest ps toks cps bg : sconj_ok cj = true -> sconj_okp cj = true -> skipn p input = sconj_text cj ++ rest ->
    exists cps' b', execute (sconj_tokens p cj ++ toks) input cps bg (mk ps) =
                    execute toks input cps' b' (mk (ps ++ [IQuery (conj_query cfg parse_float (unspace_conj cj))])).
  Proof.
    intros Hc Hp Hin. destruct cj as [e r]. unfold sconj_ok, sconj_okp, sconj_text, sconj_tokens, unspace_conj in *. cbn [fst snd] in *.
    apply andb_true_iff in Hc. destruct Hc as [H1 H2]. apply andb_true_iff in Hp. destruct Hp as [P1 P2].
    change (flat_map (fun gx : nat * (sbq * nat) => [38; 38] ++ blanks (fst gx) ++ selem_core (snd gx)) r) with (sand_tail r) in Hin.
    rewrite <- app_assoc in Hin. rewrite <- app_assoc.
    destruct (exec_sbq input p e _ ps (sand_rest (p + sbq_len (fst e) + snd e) r ++ toks) cps bg H1 P1 Hin) as (c1 & b1 & E1). rewrite E1.
    assert (Hin2 : skipn (p + sbq_len (fst e) + snd e) input = sand_tail r ++ rest).
    { pose proof (skipn_next input p (selem_core e) _ Hin) as H. rewrite selem_core_len in H.
      replace (p + (sbq_len (fst e) + snd e))%nat with (p + sbq_len (fst e) + snd e)%nat in H by lia. exact H. }
    destruct (exec_sand_rest input r _ (bq_query (unspace (fst e))) rest ps toks c1 b1 H2 P2 Hin2) as (c2 & b2 & E2).
    rewrite E2. cbn [conj_query]. rewrite fold_left_map. eexists _, _. reflexivity.
  Qed.

  Lemma exec_sor_rest input cs : forall p q rest ps toks cps bg,
    forallb (fun gc : nat * sconj => sconj_ok (snd gc)) cs = true -> forallb (fun gc : nat * sconj => sconj_okp (snd gc)) cs = true ->
    skipn p input = sor_tail cs ++ rest ->
    exists cps' b', execute (sor_rest p cs ++ toks) input cps bg (mk (ps ++ [IQuery q])) =
                    execute toks input cps' b' (mk (ps ++ [IQuery (fold_left (fun q0 gc => QOr q0 (conj_query cfg parse_float (unspace_conj (snd gc)))) cs q)])).
  Proof.
    induction cs as [|[g x] r IH]; intros p q rest ps toks cps bg Hs Hp Hin.
    - exists cps, bg. reflexivity.
    - cbn [forallb fst snd] in Hs, Hp. apply andb_true_iff in Hs. destruct Hs as [H1 H2]. apply andb_true_iff in Hp. destruct Hp as [P1 P2].
      unfold sor_tail in Hin. cbn [flat_map fst snd] in Hin. fold (sor_tail r) in Hin. rewrite <- !app_assoc in Hin.
      assert (Hin2 : skipn (p + 2 + g) input = sconj_text x ++ sor_tail r ++ rest).
      { pose proof (skipn_next input p ([124; 124] ++ blanks g) (sconj_text x ++ sor_tail r ++ rest)) as H.
        rewrite app_length, blanks_len in H. cbn [List.length] in H. replace (p + (2 + g))%nat with (p + 2 + g)%nat in H by lia.
        apply H. rewrite Hin. rewrite <- !app_assoc. reflexivity. }
      cbn [sor_rest fst snd]. rewrite <- !app_assoc.
      destruct (exec_sconj input (p + 2 + g) x _ (ps ++ [IQuery q]) ([TAct 24] ++ sor_rest (p + 2 + g + List.length (sconj_text x)) r ++ toks) cps bg H1 P1 Hin2) as (c1 & b1 & E1).
      rewrite E1. clear E1. cbn [app Actions.execute].
      assert (E24 : forall c0 b0 q2, exec_action 24 c0 b0 (mk ((ps ++ [IQuery q]) ++ [IQuery q2])) = AOk (mk (ps ++ [IQuery (QOr q q2)]))).
      { intros c0 b0 q2. cbn [Actions.exec_action]. unfold pop_query. rewrite pop_mk. cbn [abind]. rewrite pop_mk. reflexivity. }
      rewrite E24. cbn [abind].
      destruct (IH _ (QOr q (conj_query cfg parse_float (unspace_conj x))) rest ps toks c1 b1 H2 P2 (skipn_next input (p + 2 + g) _ _ Hin2)) as (c2 & b2 & E2).
      rewrite E2. cbn [fold_left fst snd]. eexists _, _. reflexivity.
  Qed.

  Definition sfq_basic (g0 : nat) (d : sdnf) : basic := mk_basic (text_of (sfq_text g0 d)) true (cfg_accessor cfg).
  Definition sfq_node (g0 : nat) (d : sdnf) : node := Node (fq_kind cfg parse_float (unspace_dnf d)) (sfq_basic g0 d) ONone.

  Lemma exec_sfq input p g0 d rest ps toks cps bg : sdnf_ok d = true -> sdnf_okp d = true -> skipn p input = sfq_text g0 d ++ rest ->
    exists cps' b', execute (sfq_tokens p g0 d ++ toks) input cps bg (mk ps) = execute toks input cps' b' (mk (ps ++ [INode (sfq_node g0 d)])).
  Proof.
    intros Hd Hp Hin. destruct d as [cj r]. unfold sdnf_ok, sdnf_okp in *. cbn [fst snd] in *.
    apply andb_true_iff in Hd. destruct Hd as [H1 H2]. apply andb_true_iff in Hp. destruct Hp as [P1 P2].
    assert (Hin' : skipn p input = ([91; 63; 40] ++ blanks g0) ++ sconj_text cj ++ sor_tail r ++ [41; 93] ++ rest).
    { rewrite Hin. unfold sfq_text, sdnf_text. cbn [fst snd].
      change (flat_map (fun gc : nat * ((sbq * nat) * list (nat * (sbq * nat))) => [124; 124] ++ blanks (fst gc) ++ sconj_text (snd gc)) r) with (sor_tail r).
      repeat (progress (cbn [app]) || rewrite <- app_assoc). reflexivity. }
    assert (Hin3 : skipn (p + 3 + g0) input = sconj_text cj ++ sor_tail r ++ [41; 93] ++ rest).
    { pose proof (skipn_next input p ([91; 63; 40] ++ blanks g0) _ Hin') as H. rewrite app_length, blanks_len in H. cbn [List.length] in H.
      replace (p + (3 + g0))%nat with (p + 3 + g0)%nat in H by lia. exact H. }
    unfold sfq_tokens, sq_tokens. cbn [fst snd]. rewrite <- !app_assoc.
    destruct (exec_sconj input (p + 3 + g0) cj _ ps (sor_rest (p + 3 + g0 + List.length (sconj_text cj)) r ++ [TAct 23; TText p (p + 5 + g0 + List.length (sdnf_text (cj, r))); TAct 7] ++ toks) cps bg H1 P1 Hin3) as (c1 & b1 & E1).
    rewrite E1. clear E1.
    destruct (exec_sor_rest input r _ (conj_query cfg parse_float (unspace_conj cj)) ([41; 93] ++ rest) ps ([TAct 23; TText p (p + 5 + g0 + List.length (sdnf_text (cj, r))); TAct 7] ++ toks) c1 b1 H2 P2 (skipn_next input (p + 3 + g0) _ _ Hin3)) as (c2 & b2 & E2).
    rewrite E2. clear E2. cbn [app Actions.execute].
    assert (Eq : fold_left (fun q0 gc => QOr q0 (conj_query cfg parse_float (unspace_conj (snd gc)))) r (conj_query cfg parse_float (unspace_conj cj)) = dnf_query cfg parse_float (unspace_dnf (cj, r))).
    { unfold unspace_dnf, dnf_query. cbn [fst snd]. rewrite fold_left_map. reflexivity. }
    rewrite Eq.
    assert (E23 : forall c0 b0 q0, exec_action 23 c0 b0 (mk (ps ++ [IQuery q0])) = AOk (mk (ps ++ [INode (Node (KFilter q0) (mk_basic "" true (cfg_accessor cfg)) ONone)]))).
    { intros c0 b0 q0. cbn [Actions.exec_action]. unfold pop_query. rewrite pop_mk. reflexivity. }
    rewrite E23. cbn [abind].
    assert (Et : sub_list input p (p + 5 + g0 + List.length (sdnf_text (cj, r))) = sfq_text g0 (cj, r)).
    { pose proof (sub_at input p 0 [] (sfq_text g0 (cj, r)) rest) as H. rewrite Nat.add_0_r in H.
      replace (p + 5 + g0 + List.length (sdnf_text (cj, r)))%nat with (p + List.length (sfq_text g0 (cj, r)))%nat by (rewrite sfq_text_len; lia).
      apply H; [exact Hin|reflexivity]. }
    rewrite Et.
    assert (E7 : forall b0 q0, exec_action 7 (sfq_text g0 (cj, r)) b0 (mk (ps ++ [INode (Node (KFilter q0) (mk_basic "" true (cfg_accessor cfg)) ONone)])) =
                              AOk (mk (ps ++ [INode (Node (KFilter q0) (sfq_basic g0 (cj, r)) ONone)]))).
    { intros b0 q0. cbn [Actions.exec_action]. unfold set_last_node_text, pop_node. rewrite pop_mk. reflexivity. }
    rewrite E7. cbn [abind]. eexists _, _. reflexivity.
  Qed.
End QuerySpaceExec.
