(* Text.v — the lexical helpers of jsonpath_parser.go, on code points and bytes:
   UTF-8 encoding, strconv.Atoi, the three unescape routines, JSON string unquoting. Model only. *)
From Coq Require Export List String Ascii ZArith NArith Bool Arith.
From JP Require Import Slice.
Export ListNotations.
Local Open Scope N_scope.

(* ---------- bytes <-> Coq strings ---------- *)
Fixpoint string_of_bytes (bs : list N) : string :=
  match bs with
  | [] => EmptyString
  | b :: r => String (ascii_of_N b) (string_of_bytes r)
  end.
Fixpoint bytes_of_string (s : string) : list N :=
  match s with
  | EmptyString => []
  | String a r => N_of_ascii a :: bytes_of_string r
  end.

(* ---------- UTF-8 encoding of one code point (Go: string(rune)); surrogates and values
   above U+10FFFF become U+FFFD ---------- *)
Definition utf8_cp (c : N) : list N :=
  let c := if ((55296 <=? c) && (c <=? 57343)) || (1114111 <? c) then 65533 else c in
  if c <? 128 then [c]
  else if c <? 2048 then [192 + c / 64; 128 + c mod 64]
  else if c <? 65536 then [224 + c / 4096; 128 + (c / 64) mod 64; 128 + c mod 64]
  else [240 + c / 262144; 128 + (c / 4096) mod 64; 128 + (c / 64) mod 64; 128 + c mod 64].
Definition utf8 (cps : list N) : list N := flat_map utf8_cp cps.
Definition text_of (cps : list N) : string := string_of_bytes (utf8 cps).

(* ---------- strconv.Atoi on text the grammar has matched as [-+]?[0-9]+ ---------- *)
Definition digit_val (c : N) : option Z :=
  if (48 <=? c) && (c <=? 57) then Some (Z.of_N (c - 48)) else None.
Fixpoint digits_val (cs : list N) (acc : Z) : option Z :=
  match cs with
  | [] => Some acc
  | c :: r => match digit_val c with
              | Some d => digits_val r (acc * 10 + d)%Z
              | None => None
              end
  end.
(* None = strconv.ErrSyntax / ErrRange, reported by the library as ErrorInvalidArgument *)
Definition atoi (cs : list N) : option Z :=
  let '(neg, ds) := match cs with
                    | c :: r => if c =? 45 then (true, r) else if c =? 43 then (false, r) else (false, cs)
                    | [] => (false, cs)
                    end in
  match ds with
  | [] => None
  | _ => match digits_val ds 0%Z with
         | Some v => let v := if neg then (- v)%Z else v in
                     if in64b v then Some v else None
         | None => None
         end
  end.

(* ---------- jsonPathParser.unescape: regexp `\\(.)` -> $1 on code points
   (`.` does not match a newline; a trailing backslash stays) ---------- *)
Fixpoint unescape_cps (cs : list N) : list N :=
  match cs with
  | c0 :: tl =>
      if c0 =? 92 then
        match tl with
        | c :: r => if c =? 10 then 92 :: unescape_cps tl else c :: unescape_cps r
        | [] => [92]
        end
      else c0 :: unescape_cps tl
  | [] => []
  end.

(* ---------- JSON string unquoting (encoding/json on `"` ++ bytes ++ `"`) ----------
   Input: the bytes between the quotes, valid UTF-8.  None = json.Unmarshal error. *)
Definition hex_val (c : N) : option N :=
  if (48 <=? c) && (c <=? 57) then Some (c - 48)
  else if (97 <=? c) && (c <=? 102) then Some (c - 87)
  else if (65 <=? c) && (c <=? 70) then Some (c - 55)
  else None.
Definition hex4 (a b c d : N) : option N :=
  match hex_val a, hex_val b, hex_val c, hex_val d with
  | Some a, Some b, Some c, Some d => Some (a * 4096 + b * 256 + c * 16 + d)
  | _, _, _, _ => None
  end.
Definition is_hi_surr (u : N) := (55296 <=? u) && (u <? 56320).
Definition is_lo_surr (u : N) := (56320 <=? u) && (u <? 57344).

Fixpoint json_unquote (fuel : nat) (bs : list N) : option (list N) :=
  match fuel with
  | O => None
  | S f =>
      match bs with
      | [] => Some []
      | c :: r0 =>
          if c =? 92 then
            match r0 with
            | [] => None
            | e :: r =>
                let simple := fun (b : N) => option_map (cons b) (json_unquote f r) in
                if e =? 34 then simple 34
                else if e =? 92 then simple 92
                else if e =? 47 then simple 47
                else if e =? 98 then simple 8
                else if e =? 102 then simple 12
                else if e =? 110 then simple 10
                else if e =? 114 then simple 13
                else if e =? 116 then simple 9
                else if e =? 117 then
                  match r with
                  | a :: b :: c2 :: d :: r1 =>
                      match hex4 a b c2 d with
                      | None => None
                      | Some u =>
                          if is_hi_surr u then
                            match r1 with
                            | x1 :: x2 :: a2 :: b2 :: c3 :: d2 :: r2 =>
                                if (x1 =? 92) && (x2 =? 117) then
                                  match hex4 a2 b2 c3 d2 with
                                  | Some u2 =>
                                      if is_lo_surr u2 then
                                        option_map (app (utf8_cp (65536 + (u - 55296) * 1024 + (u2 - 56320))))
                                                   (json_unquote f r2)
                                      else option_map (app (utf8_cp 65533)) (json_unquote f r1)
                                  | None => None
                                  end
                                else option_map (app (utf8_cp 65533)) (json_unquote f r1)
                            | _ => option_map (app (utf8_cp 65533)) (json_unquote f r1)
                            end
                          else option_map (app (utf8_cp u)) (json_unquote f r1)   (* utf8_cp maps a lone low surrogate to U+FFFD *)
                      end
                  | _ => None
                  end
                else None
            end
          else if (c <? 32) || (c =? 34) then None
          else option_map (cons c) (json_unquote f r0)
      end
  end.

(* jsonPathParser.unescapeDoubleQuotedString *)
Definition unescape_double (text : list N) : option (list N) :=
  json_unquote (S (length text)) text.

(* jsonPathParser.unescapeSingleQuotedString: the byte state machine that re-escapes the
   text as a JSON string, then JSON unquoting *)
Fixpoint single_to_json (bs : list N) (found_escape : bool) : list N :=
  match bs with
  | [] => []
  | b :: r =>
      if b =? 34 then 92 :: 34 :: single_to_json r found_escape
      else if b =? 39 then 39 :: single_to_json r false
      else if b =? 92 then
        if found_escape then 92 :: 92 :: single_to_json r false
        else single_to_json r true
      else
        if found_escape then 92 :: b :: single_to_json r false
        else b :: single_to_json r false
  end.
Definition unescape_single (text : list N) : option (list N) :=
  let js := single_to_json text false in
  json_unquote (S (length js)) js.
