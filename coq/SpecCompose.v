(* SpecCompose.v — algebra of the specification: steps compose (C08), and a continuation that never
   looks at the root selects the same values wherever it is applied. *)
From JP Require Import Eval WF Spec Actions EvalInv3 Refine1.
From Coq Require Import Lia.
Open Scope string_scope.
Open Scope list_scope.

Section SC.
  Variable ffun : string -> value -> option value.
  Variable afun : string -> list value -> option value.
  Variable regex_match : string -> string -> bool.
  Notation sp := (sp ffun afun regex_match).
  Notation sp_ids := (sp_ids ffun afun regex_match).
  Notation holds := (holds ffun afun regex_match).
  Notation sfwd := (sfwd ffun afun regex_match).
  Notation skey := (skey ffun afun regex_match).
  Notation sidx := (sidx ffun afun regex_match).

  Definition then_ (x : node) (root : value) (rs : list sres) : list sres :=
    flat_map (fun r : sres => sp x root (snd r)) rs.

  Lemma then_app x root a b : then_ x root (a ++ b) = then_ x root a ++ then_ x root b.
  Proof. unfold then_. apply flat_map_app. Qed.
  Lemma then_flat_map {A} x root (g : A -> list sres) (l : list A) :
    then_ x root (flat_map g l) = flat_map (fun a => then_ x root (g a)) l.
  Proof. induction l as [|a l IH]; cbn [flat_map]; [reflexivity|]. rewrite then_app, IH. reflexivity. Qed.

  Definition C_node (n : node) : Prop := wf_node n = true -> forall x root cur, sp (append_deep n x) root cur = then_ x root (sp n root cur).
  Definition C_onode (o : onode) : Prop := match o with OSome n => C_node n | ONone => True end.
  Definition C_nodes (ids : nodes) : Prop := wf_nodes ids = true -> forall x root cur, sp_ids (append_ids ids x) root cur = then_ x root (sp_ids ids root cur).
  Definition C_kind (k : kind) : Prop :=
    match k with KMulti ids _ uq => C_nodes ids /\ C_onode uq | _ => True end.

  Definition next' (next : onode) (x : node) : onode :=
    match next with ONone => OSome x | OSome m => OSome (append_deep m x) end.

  Lemma append_deep_eq k b next x :
    append_deep (Node k b next) x =
    Node (match k with
          | KMulti ids aw uq => KMulti (append_ids ids x) aw (match uq with OSome u => OSome (append_deep u x) | ONone => ONone end)
          | _ => k
          end) b (next' next x).
  Proof. reflexivity. Qed.

  Definition wfo (o : onode) : bool := match o with OSome m => wf_node m | ONone => true end.
  Lemma sfwd_then b next x root settable cur' : C_onode next -> wfo next = true ->
    sfwd b (next' next x) root settable cur' = then_ x root (sfwd b next root settable cur').
  Proof.
    intros IH Hw. unfold Refine1.sfwd, next'. destruct next as [|m].
    - unfold then_. cbn [flat_map snd]. rewrite app_nil_r. reflexivity.
    - apply IH. exact Hw.
  Qed.
  Lemma skey_then b next x root cur m key : C_onode next -> wfo next = true ->
    skey b (next' next x) root cur m key = then_ x root (skey b next root cur m key).
  Proof. intros IH Hw. unfold Refine1.skey. destruct (lookup m key); [apply sfwd_then; assumption|reflexivity]. Qed.
  Lemma sidx_then b next x root cur iv : C_onode next -> wfo next = true ->
    sidx b (next' next x) root cur iv = then_ x root (sidx b next root cur iv).
  Proof. intros IH Hw. unfold Refine1.sidx. apply sfwd_then; assumption. Qed.

  Lemma node_compose k b next : C_kind k -> C_onode next -> C_node (Node k b next).
  Proof.
    intros IHk IHn Hwf x root cur. rewrite append_deep_eq.
    cbn [wf_node] in Hwf. apply andb_true_iff in Hwf. destruct Hwf as [Hk Hnx].
    change (match next with OSome m => wf_node m | ONone => true end) with (wfo next) in Hnx.
    destruct k as [| |key| |ids aw uq|mr lr|subs|q|f|f param]; rewrite !sp_unfold.
    - apply sfwd_then; assumption.
    - apply sfwd_then; assumption.
    - destruct (snd cur); cbv iota beta; try reflexivity. apply skey_then; assumption.
    - destruct (snd cur); cbv iota beta; try reflexivity.
      + rewrite then_flat_map. apply flat_map_ext. intros iv. apply sidx_then; assumption.
      + rewrite then_flat_map. apply flat_map_ext. intros key. apply skey_then; assumption.
    - destruct IHk as [IHids IHuq]. apply andb_true_iff in Hk. destruct Hk as [Hids Huq].
      destruct (snd cur); cbv iota beta; try (destruct aw; reflexivity).
      + destruct aw; [|reflexivity]. destruct uq as [|u]; [reflexivity|]. apply IHuq. exact Huq.
      + assert (H : sp_ids (append_ids ids x) root cur = then_ x root (sp_ids ids root cur)) by (apply IHids; exact Hids).
        destruct aw; exact H.
    - destruct next as [|nx]; [discriminate|]. cbn [next'].
      rewrite then_flat_map. apply flat_map_ext. intros cu.
      destruct (snd cu); try reflexivity; [destruct lr|destruct mr]; try reflexivity; apply IHn; exact Hnx.
    - destruct (snd cur); cbv iota beta; try reflexivity. rewrite then_flat_map. apply flat_map_ext. intros sub.
      destruct (get_indexes sub _); [|reflexivity]. rewrite then_flat_map. apply flat_map_ext. intros i.
      destruct (nth_value l i); [apply sidx_then; assumption|reflexivity].
    - destruct (snd cur); cbv iota beta zeta; try reflexivity; rewrite then_flat_map; apply flat_map_ext.
      + intros [iv hb]. cbn [fst snd]. destruct hb; [apply sidx_then; assumption|reflexivity].
      + intros [key hb]. cbn [fst snd]. destruct hb; [apply skey_then; assumption|reflexivity].
    - destruct (ffun f (snd cur)); [apply sfwd_then; assumption|reflexivity].
    - cbv zeta. destruct (sp param root cur); [reflexivity|].
      match goal with |- context [afun f ?a] => destruct (afun f a) end; [apply sfwd_then; assumption|reflexivity].
  Qed.

  (* P followed by Q selects what Q selects from every cursor P selects, in order *)
  Theorem sp_compose : forall n, C_node n.
  Proof.
    assert (H : (forall n, C_node n) /\ (forall o, C_onode o) /\ (forall k, C_kind k) /\ (forall ns, C_nodes ns) /\
                (forall q : query, True) /\ (forall cp : cparam, True) /\ (forall p : pquery, True)).
    { apply tree_mutind; try (intros; exact I).
      - intros k IHk b next IHn. apply node_compose; assumption.
      - intros n IH. exact IH.
      - intros ids IHids aw uq IHuq. split; assumption.
      - intros _ x root cur. reflexivity.
      - intros id IHid rest IHrest Hw x root cur.
        cbn [wf_nodes] in Hw. apply andb_true_iff in Hw. destruct Hw as [Hw1 Hw2].
        change (sp_ids (append_ids (NCons id rest) x) root cur) with (sp (append_deep id x) root cur ++ sp_ids (append_ids rest x) root cur).
        change (sp_ids (NCons id rest) root cur) with (sp id root cur ++ sp_ids rest root cur).
        rewrite then_app, IHid, IHrest by assumption. reflexivity. }
    exact (proj1 H).
  Qed.
End SC.
