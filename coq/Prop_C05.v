(* Prop_C05.v — property C05: a parsed function is pure across calls (partial).
   Proved: on the model, any history of calls of one parsed function returns, call by call, exactly
   what a call from the initial state returns (the tree is an immutable value: its literals are
   copied out on use; the package-level lists are never written, so each call starts from the same state).
   NOT modelled (tied by the correspondence check only): identity of the Go slices handed back to the
   caller or to user functions (aliasing with recycled pool buffers) — earlier results are re-read after
   later calls and after pool churn by the harness. *)
From JP Require Import Eval WF Verdict EvalInv1 EvalInv3 EvalInv4 EvalTop.

Section C05.
  Variable ffun : string -> value -> option value.
  Variable afun : string -> list value -> option value.
  Variable regex_match : string -> string -> bool.
  Hypothesis ffun_small : forall f v w, small v -> ffun f v = Some w -> small w.
  Hypothesis afun_small : forall f l w, Forall small l -> afun f l = Some w -> small w.

  Theorem C05_history_independent_partial : forall t, wf_node t = true -> forall docs, Forall small docs ->
    run_history ffun afun regex_match t docs st_init
    = map (fun d => outcome_of ffun afun regex_match t d st_init) docs.
  Proof. exact (history_independent ffun afun regex_match ffun_small afun_small). Qed.

  (* the state a later call starts from is the initial state again *)
  Theorem C05_state_restored : forall t doc, wf_node t = true -> small doc ->
    next_state (snd (eval_run ffun afun regex_match t doc st_init)) = st_init.
  Proof. exact (next_state_init ffun afun regex_match ffun_small afun_small). Qed.
End C05.
Print Assumptions C05_history_independent_partial.
Print Assumptions C05_state_restored.

(* From the path text (AccFilt.v): for every path of steps and filters, what the parsed function returns on a document is the
   same from any two admissible call histories (states st, st'): the same results in the same order, or an error in both. *)
From JP Require Import Json Text Tree Grammar Actions Eval WF EvalInv1 KeyDefs FiltChain FiltChainAddr AccFilt.
From Coq Require Import List. Import ListNotations.
Theorem C05_history_independent_from_text : forall cfg parse_float regex_ok ffun afun regex_match,
  (forall f v w, small v -> ffun f v = Some w -> small w) ->
  (forall f l w, Forall small l -> afun f l = Some w -> small w) ->
  forall x r doc st st', forallb fstep_ok (x :: r) = true -> forallb (fstep_okp parse_float regex_ok) (x :: r) = true -> small doc -> ok st -> ok st' ->
  exists t, parse_with cfg parse_float regex_ok jsonpath_grammar (fchain_path (x :: r)) = ParseOk t /\
            match fst (eval_run ffun afun regex_match t doc st) with
            | OOk rs => fst (eval_run ffun afun regex_match t doc st') = OOk rs
            | OErr _ => exists e, fst (eval_run ffun afun regex_match t doc st') = OErr e
            | OPanic _ => False
            end.
Proof. exact history_independent_from_text. Qed.
Print Assumptions C05_history_independent_from_text.

(* the same for paths of steps and filters followed by registered filter functions (FiltAgg.v, OutcomeFun) *)
From JP Require Import FiltFun FiltAgg FunParse.
Theorem C05_function_history_independent_from_text : forall cfg parse_float regex_ok ffun afun regex_match,
  (forall f v w, small v -> ffun f v = Some w -> small w) ->
  (forall f l w, Forall small l -> afun f l = Some w -> small w) ->
  forall x r f fs doc st st',
  forallb fstep_ok (x :: r) = true -> forallb (fstep_okp parse_float regex_ok) (x :: r) = true ->
  forallb fname_ok (f :: fs) = true -> forallb (fun_known cfg) (f :: fs) = true -> small doc -> ok st -> ok st' ->
  exists t, parse_with cfg parse_float regex_ok jsonpath_grammar (fchain_fun_path (x :: r) (f :: fs)) = ParseOk t /\
            match fst (eval_run ffun afun regex_match t doc st) with
            | OOk rs => fst (eval_run ffun afun regex_match t doc st') = OOk rs
            | OErr _ => exists e, fst (eval_run ffun afun regex_match t doc st') = OErr e
            | OPanic _ => False
            end.
Proof. exact fun_history_independent_from_text. Qed.
Print Assumptions C05_function_history_independent_from_text.
(* … and followed by an aggregate function (AggCor.v) *)
From JP Require Import AggParse AggCor.
Theorem C05_aggregate_history_independent_from_text : forall cfg parse_float regex_ok ffun afun regex_match,
  (forall f v w, small v -> ffun f v = Some w -> small w) ->
  (forall f l w, Forall small l -> afun f l = Some w -> small w) ->
  forall x r g fs doc st st',
  forallb fstep_ok (x :: r) = true -> forallb (fstep_okp parse_float regex_ok) (x :: r) = true ->
  forallb fname_ok (g :: fs) = true -> agg_known cfg g = true -> forallb (fun_known cfg) fs = true -> small doc -> ok st -> ok st' ->
  exists t, parse_with cfg parse_float regex_ok jsonpath_grammar (fchain_fun_path (x :: r) (g :: fs)) = ParseOk t /\
            match fst (eval_run ffun afun regex_match t doc st) with
            | OOk rs => fst (eval_run ffun afun regex_match t doc st') = OOk rs
            | OErr _ => exists e, fst (eval_run ffun afun regex_match t doc st') = OErr e
            | OPanic _ => False
            end.
Proof. exact agg_history_independent_from_text. Qed.
Print Assumptions C05_aggregate_history_independent_from_text.
