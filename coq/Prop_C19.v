(* Prop_C19.v — property C19: Parse depends only on the path and the Config given to that call.
   Model: coq/Api.v transcribes the mechanism of jsonpath.go — a single package-level parser whose
   action state and configuration fields persist, the configuration assigned only when a Config is
   passed, and the deferred zeroing of that state on every exit.  Proved: every call of every
   history returns what the same call returns on a fresh parser.  Tied to the code by histories of
   Parse/Retrieve calls (failing at every kind of action) compared with the same call alone and with
   the model, and by reading the parser's action state through the verif hook after every call.
   Tied by correspondence only: "the function keeps its functions when the Config is modified later". *)
From JP Require Import Peg Grammar Text Tree Actions Api.

Theorem C19_history_independent : forall parse_float regex_ok calls,
  api_history parse_float regex_ok gp_zero calls
  = map (fun c => fresh_parse parse_float regex_ok (fst c) (snd c)) calls.
Proof. exact api_history_independent. Qed.
Print Assumptions C19_history_independent.

Theorem C19_state_reset : forall parse_float regex_ok g cfg path,
  snd (api_parse parse_float regex_ok g cfg path) = gp_zero.
Proof. exact api_state_reset. Qed.
Print Assumptions C19_state_reset.
