(* ChainParse.v — from the path text: a path made of any number of steps — names in any of the three spellings
   ( ["k"]  ['k']  .k ), indexes [digits], wildcards .* [*], each possibly after `..` — is accepted by the grammar and
   builds the chain of nodes the steps stand for. *)
From JP Require Import Peg Grammar Slice Text Tree Actions PegFacts PegMono PegEv Codec FuelRules ParseFacts KeyDefs KeyParse IdxParse SliceParse UnionParse WildParse RecParse.
From Coq Require Import Lia.
Local Open Scope N_scope.
Open Scope list_scope.

Definition atoi_ok (t : list N) : bool := match t with [] => true | _ :: _ => match atoi t with Some _ => true | None => false end end.
Definition usub_atoi (u : usub) : bool :=
  match u with
  | UIdx t => atoi_ok t
  | USlice a b c0 => atoi_ok a && atoi_ok b && match c0 with Some t => atoi_ok t | None => true end
  | UWild => true
  end.
Definition step_ok (s : kstep) : bool :=
  match s with
  | SBr q _ => (q =? 34) || (q =? 39)
  | SDot k => match k with [] => false | _ :: _ => forallb dot_char k end
  | SIdx ds => match ds with [] => false | _ :: _ => forallb is_digit ds && (match atoi ds with Some _ => true | None => false end) end
  | SWild _ => true
  | SSlice a b c0 => slice_ok a b c0 && atoi_ok a && atoi_ok b && match c0 with Some t => atoi_ok t | None => true end
  | SUnion u us => union_ok u us && forallb usub_atoi (u :: us)
  end.
Definition step_tokens (p : nat) (s : kstep) : list token :=
  match s with
  | SBr q k => let n := List.length (esc_cps q k) in [TText (p + 2) (p + 2 + n); TAct (qact q); TText p (p + n + 4); TAct 7]
  | SDot k => let n := List.length (esc_dot_cps k) in [TText (p + 1) (p + 1 + n); TAct 10; TText p (p + 1 + n); TAct 4]
  | SIdx ds => idx_tokens p ds
  | SWild true => [TAct 12; TText p (p + 2); TAct 4]
  | SWild false => [TAct 12; TText p (p + 3); TAct 7]
  | SSlice a b c0 => slice_step_tokens p a b c0
  | SUnion u us => union_step_tokens p u us
  end.

Lemma render_len_br q k : List.length (render_step (SBr q k)) = (List.length (esc_cps q k) + 4)%nat.
Proof. cbn [render_step List.length]. rewrite app_length. cbn [List.length]. lia. Qed.
Lemma render_len_dot k : List.length (render_step (SDot k)) = (1 + List.length (esc_dot_cps k))%nat.
Proof. reflexivity. Qed.

Lemma render_len_idx ds : List.length (render_step (SIdx ds)) = (List.length ds + 2)%nat.
Proof. cbn [render_step List.length]. rewrite app_length. cbn [List.length]. lia. Qed.


Lemma render_len_slice a b c0 : List.length (render_step (SSlice a b c0)) = (List.length (slice_body a b c0) + 2)%nat.
Proof. cbn [render_step List.length]. rewrite app_length. cbn [List.length]. lia. Qed.
Lemma render_len_union u us : List.length (render_step (SUnion u us)) = (List.length (render_union u us) + 2)%nat.
Proof. cbn [render_step List.length]. rewrite app_length. cbn [List.length]. lia. Qed.
Lemma union_ok_of u us : step_ok (SUnion u us) = true -> union_ok u us = true.
Proof. cbn [step_ok]. intros H. apply andb_true_iff in H. tauto. Qed.
Lemma slice_ok_of a b c0 : step_ok (SSlice a b c0) = true -> slice_ok a b c0 = true.
Proof. cbn [step_ok]. intros H. apply andb_true_iff in H. destruct H as [H _]. apply andb_true_iff in H. destruct H as [H _]. apply andb_true_iff in H. tauto. Qed.

Lemma q_ok q : (q =? 34) || (q =? 39) = true -> q = 34 \/ q = 39.
Proof. intros H. apply orb_true_iff in H. destruct H as [H|H]; apply N.eqb_eq in H; auto. Qed.

(* one step, whatever steps follow *)
Lemma ev_rule7_step s rest pos : step_ok s = true -> dot_stop rest ->
  evG (PRef 7) (render_step s ++ rest) pos (POk rest (pos + List.length (render_step s)) (step_tokens pos s)).
Proof.
  intros Hs Hr. destruct s as [q k|k|ds|[|]|a b c0|u us].
  - cbn [step_ok] in Hs. apply q_ok in Hs. rewrite render_len_br. cbn [render_step step_tokens app].
    rewrite <- app_assoc. cbn [app]. eapply ev_conv; [apply ev_rule7; exact Hs|]. f_equal. lia.
  - destruct k as [|c k]; [discriminate Hs|]. cbn [step_ok] in Hs. rewrite render_len_dot. cbn [render_step step_tokens app].
    eapply ev_conv; [apply ev_rule7_dot; [exact Hs|exact Hr]|]. f_equal. lia.
  - destruct ds as [|d ds]; [discriminate Hs|]. cbn [step_ok] in Hs. apply andb_true_iff in Hs. destruct Hs as [Hd _].
    rewrite render_len_idx. cbn [render_step step_tokens]. cbn [app]. rewrite <- app_assoc. cbn [app].
    eapply ev_conv; [apply (ev_rule7_idx d ds rest pos); exact Hd|]. f_equal. lia.
  - cbn [render_step step_tokens app List.length]. apply ev_rule7_dotwild. exact Hr.
  - cbn [render_step step_tokens app List.length]. apply ev_rule7_brwild.
  - rewrite render_len_slice. cbn [render_step step_tokens]. cbn [app]. rewrite <- app_assoc. cbn [app].
    eapply ev_conv; [apply ev_rule7_slice; apply slice_ok_of; exact Hs|]. f_equal. lia.
  - rewrite render_len_union. cbn [render_step step_tokens]. cbn [app]. rewrite <- app_assoc. cbn [app].
    eapply ev_conv; [apply ev_rule7_union; apply union_ok_of; exact Hs|]. f_equal. lia.
Qed.
Lemma render_step_len_pos s : (1 <= List.length (render_step s))%nat.
Proof. destruct s as [q k|k|ds|[|]|a b c0|u us]; cbn [render_step List.length]; lia. Qed.

(* ---------- steps after `..` ---------- *)
Definition rstep_ok (x : rstep) : bool := match x with RPlain s | RRec s => step_ok s end.
Definition rstep_tokens (p : nat) (x : rstep) : list token :=
  match x with
  | RPlain s => step_tokens p s
  | RRec s => match s with
              | SDot k => let n := List.length (esc_dot_cps k) in [TText (p + 2) (p + 2 + n); TAct 10; TAct 3]
              | SWild true => [TAct 12; TAct 3]
              | _ => step_tokens (p + 2) s ++ [TAct 3]
              end
  end.
Fixpoint steps_tokens (p : nat) (steps : list rstep) : list token :=
  match steps with
  | [] => []
  | x :: r => rstep_tokens p x ++ steps_tokens (p + List.length (render_rstep x)) r
  end.

Lemma steps_stop steps : dot_stop (render_steps steps).
Proof. destruct steps as [|[[q k|k|ds|[|]|a b c0|u us]|s] r]; cbn; auto; repeat split; try reflexivity; discriminate. Qed.

Lemma rec_body_bracket s : (match s with SDot _ | SWild true => False | _ => True end) -> rec_body s = render_step s.
Proof. destruct s as [q k|k|ds|[|]|a b c0|u us]; intros H; try contradiction; reflexivity. Qed.

(* the bracket forms go through bracketNode whatever follows *)
Lemma ev_rule10_step s rest pos : step_ok s = true -> (match s with SDot _ | SWild true => False | _ => True end) ->
  evG (PRef 10) (render_step s ++ rest) pos (POk rest (pos + List.length (render_step s)) (step_tokens pos s)).
Proof.
  intros Hs Hb. destruct s as [q k|k|ds|[|]|a b c0|u us]; try contradiction.
  - cbn [step_ok] in Hs. apply q_ok in Hs. rewrite render_len_br. cbn [render_step step_tokens app].
    rewrite <- app_assoc. cbn [app]. eapply ev_conv; [apply ev_rule10; exact Hs|]. f_equal. lia.
  - destruct ds as [|d ds]; [discriminate Hs|]. cbn [step_ok] in Hs. apply andb_true_iff in Hs. destruct Hs as [Hd _].
    rewrite render_len_idx. cbn [render_step step_tokens]. cbn [app]. rewrite <- app_assoc. cbn [app].
    eapply ev_conv; [apply (ev_rule10_idx d ds rest pos); exact Hd|]. f_equal. lia.
  - cbn [render_step step_tokens app List.length]. apply ev_rule10_wild.
  - rewrite render_len_slice. cbn [render_step step_tokens]. cbn [app]. rewrite <- app_assoc. cbn [app].
    eapply ev_conv; [apply ev_rule10_slice; apply slice_ok_of; exact Hs|]. f_equal. lia.
  - rewrite render_len_union. cbn [render_step step_tokens]. cbn [app]. rewrite <- app_assoc. cbn [app].
    eapply ev_conv; [apply ev_rule10_union; apply union_ok_of; exact Hs|]. f_equal. lia.
Qed.

Lemma ev_rule7_rstep x rest pos : rstep_ok x = true -> dot_stop rest ->
  evG (PRef 7) (render_rstep x ++ rest) pos (POk rest (pos + List.length (render_rstep x)) (rstep_tokens pos x)).
Proof.
  intros Hs Hr. destruct x as [s|s]; [apply ev_rule7_step; assumption|]. cbn [rstep_ok] in Hs.
  destruct s as [q k|k|ds|[|]|a b c0|u us].
  - cbn [render_rstep rstep_tokens rec_body]. cbn [app List.length].
    pose proof (ev_rule10_step (SBr q k) rest (pos + 2)%nat Hs I) as H10.
    pose proof (ev_rule7_rec_br (render_step (SBr q k)) rest pos _ (List.length (render_step (SBr q k))) H10) as H7.
    eapply ev_conv; [exact H7|]. f_equal. lia.
  - destruct k as [|c k]; [discriminate Hs|]. cbn [step_ok] in Hs. cbn [render_rstep rstep_tokens rec_body]. cbn [app List.length].
    eapply ev_conv; [apply ev_rule7_rec_dot; [exact Hs|exact Hr]|]. f_equal. lia.
  - cbn [render_rstep rstep_tokens rec_body]. cbn [app List.length].
    pose proof (ev_rule10_step (SIdx ds) rest (pos + 2)%nat Hs I) as H10.
    pose proof (ev_rule7_rec_br (render_step (SIdx ds)) rest pos _ (List.length (render_step (SIdx ds))) H10) as H7.
    eapply ev_conv; [exact H7|]. f_equal. lia.
  - cbn [render_rstep rstep_tokens rec_body app List.length]. apply ev_rule7_rec_wild.
  - cbn [render_rstep rstep_tokens rec_body]. cbn [app List.length].
    pose proof (ev_rule10_step (SWild false) rest (pos + 2)%nat Hs I) as H10.
    pose proof (ev_rule7_rec_br (render_step (SWild false)) rest pos _ (List.length (render_step (SWild false))) H10) as H7.
    eapply ev_conv; [exact H7|]. f_equal.
    cbn [List.length]. lia.
  - cbn [render_rstep rstep_tokens rec_body]. cbn [app List.length].
    pose proof (ev_rule10_step (SSlice a b c0) rest (pos + 2)%nat Hs I) as H10.
    pose proof (ev_rule7_rec_br (render_step (SSlice a b c0)) rest pos _ (List.length (render_step (SSlice a b c0))) H10) as H7.
    eapply ev_conv; [exact H7|]. f_equal. lia.
  - cbn [render_rstep rstep_tokens rec_body]. cbn [app List.length].
    pose proof (ev_rule10_step (SUnion u us) rest (pos + 2)%nat Hs I) as H10.
    pose proof (ev_rule7_rec_br (render_step (SUnion u us)) rest pos _ (List.length (render_step (SUnion u us))) H10) as H7.
    eapply ev_conv; [exact H7|]. f_equal. lia.
Qed.
Lemma render_rstep_len_pos x : (1 <= List.length (render_rstep x))%nat.
Proof. destruct x as [s|s]; [apply render_step_len_pos|cbn [render_rstep List.length]; lia]. Qed.

(* the childNode repetition consumes all the steps *)
Lemma ev_steps_star steps pos : forallb rstep_ok steps = true ->
  evG (PStar (PRef 7)) (render_steps steps) pos (POk [] (pos + List.length (render_steps steps)) (steps_tokens pos steps)).
Proof.
  revert pos. induction steps as [|s r IH]; intros pos Hs.
  - cbn [render_steps flat_map List.length steps_tokens]. eapply ev_conv; [apply ev_star_stop; apply ev_rule7_eof|f_equal; lia].
  - cbn [forallb] in Hs. apply andb_true_iff in Hs. destruct Hs as [H1 H2].
    unfold render_steps in *. cbn [flat_map steps_tokens]. rewrite app_length.
    pose proof (ev_rule7_rstep s (flat_map render_rstep r) pos H1 (steps_stop r)) as E1.
    pose proof (render_rstep_len_pos s) as Hl.
    pose proof (ev_star_step G _ _ _ _ _ _ _ _ _ E1 ltac:(lia) (IH (pos + List.length (render_rstep s))%nat H2)) as E2.
    eapply ev_conv; [exact E2|]. f_equal. lia.
Qed.

Definition chain_tokens (steps : list rstep) : list token := TAct 8 :: steps_tokens 1 steps ++ [TAct 2; TAct 0].

Lemma ev_chain_path steps : forallb rstep_ok steps = true ->
  evG (PRef 0) (chain_path steps) 0 (POk [] (S (List.length (render_steps steps))) (chain_tokens steps)).
Proof.
  intros Hs. unfold chain_path, chain_tokens. eapply ev_conv.
  - eapply ev_ref; [reflexivity|]. apply ev_alt_l.
    eapply ev_seq_ok; [| |reflexivity].
    + eapply ev_ref; [reflexivity|].
      eapply ev_seq_ok; [apply ev_space_stop; discriminate| |reflexivity].
      eapply ev_seq_ok; [| |reflexivity].
      * eapply ev_ref; [reflexivity|]. apply ev_alt_l. eapply ev_ref; [reflexivity|].
        eapply ev_seq_ok; [apply (ev_lit_ok G [36]); apply strip1_ok|apply ev_act|reflexivity].
      * eapply ev_ref; [reflexivity|].
        eapply ev_seq_ok; [apply (ev_steps_star steps); exact Hs| |reflexivity].
        eapply ev_seq_ok; [apply ev_star_stop; apply ev_rule8_eof| |reflexivity].
        eapply ev_seq_ok; [apply ev_space_eof|apply ev_act|reflexivity].
    + eapply ev_seq_ok; [| apply ev_act |reflexivity].
      eapply ev_ref; [reflexivity|]. apply ev_not_ok. apply ev_any_fail.
  - cbn [List.length app Nat.add]. rewrite <- app_assoc. cbn [app]. reflexivity.
Qed.

Lemma peg_chain_path steps : forallb rstep_ok steps = true ->
  peg_parse G (chain_path steps) = POk [] (S (List.length (render_steps steps))) (chain_tokens steps).
Proof. intros Hs. apply ev_peg_parse; [apply ev_chain_path; exact Hs|apply peg_never_out_of_fuel]. Qed.

(* ---------- replaying the tokens ---------- *)
Lemma skipn_add {A} (l : list A) p j : skipn (p + j) l = skipn j (skipn p l).
Proof. revert l. induction p as [|p IH]; intros l; [reflexivity|]. destruct l as [|x l]; cbn [Nat.add skipn]; [destruct j; reflexivity|apply IH]. Qed.
Lemma sub_at {A} (input : list A) p j b a rest : skipn p input = b ++ a ++ rest -> List.length b = j ->
  sub_list input (p + j) (p + j + List.length a) = a.
Proof.
  intros H Hb. unfold sub_list. rewrite skipn_add, H. subst j. rewrite skipn_app, skipn_all, Nat.sub_diag. cbn [skipn app].
  replace (p + List.length b + List.length a - (p + List.length b))%nat with (List.length a) by lia.
  rewrite firstn_app, firstn_all, Nat.sub_diag. cbn [firstn]. apply app_nil_r.
Qed.
Lemma skipn_next {A} (input : list A) p a rest : skipn p input = a ++ rest -> skipn (p + List.length a) input = rest.
Proof. intros H. rewrite skipn_add, H, skipn_app, skipn_all, Nat.sub_diag. reflexivity. Qed.

Section ChainExec.
  Variable cfg : config.
  Variable parse_float : string -> option num.
  Variable regex_ok : string -> bool.
  Notation execute := (execute cfg parse_float regex_ok).
  Notation exec_action := (exec_action cfg parse_float regex_ok).

  Definition mk (ps : list item) : pstate := {| params := ps; saved := []; proot := None |}.
  Definition step_key (s : kstep) : string := string_of_bytes (utf8 (step_cps s)).
  Definition step_idx (ds : list N) : Z := match atoi ds with Some z => z | None => 0%Z end.
  (* a slice bound as the actions store it: the number, or "omitted" *)
  Definition bound_idx (t : list N) : idx :=
    match t with [] => {| number := 0; omitted := true |} | _ :: _ => {| number := step_idx t; omitted := false |} end.
  Definition slice_sub (a b : list N) (c0 : option (list N)) : subscript :=
    mk_slice (bound_idx a) (bound_idx b) (match c0 with Some t => bound_idx t | None => {| number := 1; omitted := false |} end).
  Definition sub_of (u : usub) : subscript :=
    match u with UIdx t => SubIndex (step_idx t) | USlice a b c0 => slice_sub a b c0 | UWild => SubWild end.
  Definition step_kind (s : kstep) : kind :=
    match s with
    | SIdx ds => KUnion [SubIndex (step_idx ds)]
    | SWild _ => KWild
    | SSlice a b c0 => KUnion [slice_sub a b c0]
    | SUnion u us => KUnion (map sub_of (u :: us))
    | _ => KSingle (step_key s)
    end.
  (* does the step select a group of values? *)
  Definition step_vg (s : kstep) : bool :=
    match s with
    | SWild _ | SSlice _ _ _ => true
    | SUnion u us => match us with [] => sub_value_group (sub_of u) | _ :: _ => true end
    | _ => false
    end.
  Definition step_text (s : kstep) : string := text_of (render_step s).
  Definition pre_basic_vg (vg : bool) (s : kstep) : basic := {| text := step_text s; ctext := ""; vgroup := vg; accessor := cfg_accessor cfg |}.
  Definition pre_basic (s : kstep) : basic := pre_basic_vg (step_vg s) s.
  Definition pre_node (s : kstep) : node := Node (step_kind s) (pre_basic s) ONone.

  Lemma step_kind_plain s : (forall ids aw uq, step_kind s <> KMulti ids aw uq) /\ (forall f p, step_kind s <> KAgg f p).
  Proof. destruct s; split; intros; discriminate. Qed.

  Lemma pop_mk ps x : pop (mk (ps ++ [x])) = AOk (x, mk ps).
  Proof. unfold pop, mk. cbn [params]. rewrite rev_unit. unfold with_params. cbn [saved proot]. rewrite rev_involutive. reflexivity. Qed.

  Lemma set_last_text_mk t ps k b : (forall ids aw uq, k <> KMulti ids aw uq) ->
    set_last_node_text t (mk (ps ++ [INode (Node k b ONone)])) = AOk (mk (ps ++ [INode (Node k (set_text t b) ONone)])).
  Proof.
    intros Hk. unfold set_last_node_text, pop_node. rewrite pop_mk. cbn [abind].
    unfold push, with_params, mk. cbn [params saved proot].
    destruct k; try reflexivity. contradiction (Hk ids allWild uq). reflexivity.
  Qed.

  Lemma exec21 t bg ps0 : atoi_ok t = true -> exec_action 21 t bg (mk ps0) = AOk (mk (ps0 ++ [IIdx (bound_idx t)])).
  Proof.
    intros Ht. destruct t as [|c1 r1]; [reflexivity|].
    cbn [atoi_ok] in Ht. change (exec_action 21 (c1 :: r1) bg (mk ps0)) with (push_index (c1 :: r1) false (mk ps0)).
    unfold push_index, bound_idx, step_idx. destruct (atoi (c1 :: r1)); [reflexivity|discriminate Ht].
  Qed.

  (* the tokens of a slice, then action 16: one slice subscript on the stack *)
  Lemma exec_slice_sub input q sa sb sc rest ps toks cps bg :
    atoi_ok sa = true -> atoi_ok sb = true -> (match sc with Some t => atoi_ok t | None => true end) = true ->
    skipn q input = slice_body sa sb sc ++ rest ->
    exists cps' bg', execute (slice_tokens q sa sb sc ++ TAct 16 :: toks) input cps bg (mk ps) =
                     execute toks input cps' bg' (mk (ps ++ [ISub (slice_sub sa sb sc)])).
  Proof.
    intros Ha Hb Hc Hin. unfold slice_tokens. rewrite <- !app_assoc. cbn [app Actions.execute].
    unfold slice_body in Hin. repeat (progress (cbn [app] in Hin) || rewrite <- app_assoc in Hin).
    assert (Ea : sub_list input q (q + List.length sa) = sa).
    { pose proof (sub_at input q 0 [] sa (58 :: sb ++ match sc with Some t => 58 :: t | None => [] end ++ rest)) as H.
      rewrite Nat.add_0_r in H. apply H; [|reflexivity]. rewrite Hin. reflexivity. }
    assert (Eb : sub_list input (q + List.length sa + 1) (q + List.length sa + 1 + List.length sb) = sb).
    { pose proof (sub_at input q (List.length sa + 1) (sa ++ [58]) sb (match sc with Some t => 58 :: t | None => [] end ++ rest)) as H.
      replace (q + List.length sa + 1)%nat with (q + (List.length sa + 1))%nat by lia. apply H.
      - rewrite Hin. repeat (progress (cbn [app]) || rewrite <- app_assoc). reflexivity.
      - rewrite app_length. cbn [List.length]. lia. }
    rewrite Ea, Eb. rewrite (exec21 sa _ ps Ha). cbn [abind]. rewrite (exec21 sb _ _ Hb). cbn [abind].
    set (stepi := match sc with Some t => bound_idx t | None => {| number := 1; omitted := false |} end).
    assert (E3 : exists cps1 bg1,
               execute (match sc with
                        | Some t => [TText (q + List.length sa + 1 + List.length sb + 1) (q + List.length sa + 1 + List.length sb + 1 + List.length t); TAct 21]
                        | None => [TAct 20] end ++ TAct 16 :: toks) input sb (q + List.length sa + 1)
                       (mk ((ps ++ [IIdx (bound_idx sa)]) ++ [IIdx (bound_idx sb)])) =
               execute (TAct 16 :: toks) input cps1 bg1 (mk (((ps ++ [IIdx (bound_idx sa)]) ++ [IIdx (bound_idx sb)]) ++ [IIdx stepi]))).
    { destruct sc as [t|]; cbn [app Actions.execute].
      - assert (Ec : sub_list input (q + List.length sa + 1 + List.length sb + 1) (q + List.length sa + 1 + List.length sb + 1 + List.length t) = t).
        { pose proof (sub_at input q (List.length sa + List.length sb + 2) (sa ++ 58 :: sb ++ [58]) t rest) as H.
          replace (q + List.length sa + 1 + List.length sb + 1)%nat with (q + (List.length sa + List.length sb + 2))%nat by lia. apply H.
          - rewrite Hin. repeat (progress (cbn [app]) || rewrite <- app_assoc). reflexivity.
          - rewrite app_length. cbn [List.length]. rewrite app_length. cbn [List.length]. lia. }
        rewrite Ec. rewrite (exec21 t _ _ Hc). cbn [abind]. eexists _, _. reflexivity.
      - eexists _, _. reflexivity. }
    destruct E3 as (cps1 & bg1 & E3). rewrite E3. clear E3. cbn [Actions.execute].
    change (exec_action 16 cps1 bg1 ?st) with
      (abind (pop_idx st) (fun '(sp0, st1) => abind (pop_idx st1) (fun '(en0, st2) => abind (pop_idx st2) (fun '(st0, st3) => AOk (push (ISub (mk_slice st0 en0 sp0)) st3))))).
    unfold pop_idx. rewrite !pop_mk. cbn [abind]. rewrite !pop_mk. cbn [abind]. rewrite !pop_mk. cbn [abind].
    unfold push, with_params, mk. cbn [params saved proot]. eexists _, _. reflexivity.
  Qed.

  (* ---------- union subscripts ---------- *)
  Definition sub_node (u : usub) : node := Node (KUnion [sub_of u]) (mk_basic "" (sub_value_group (sub_of u)) (cfg_accessor cfg)) ONone.

  Lemma slice_sub_vg a b c0 : sub_value_group (slice_sub a b c0) = true.
  Proof. unfold slice_sub, mk_slice. destruct (number (if omitted _ then _ else _) >=? 0)%Z; reflexivity. Qed.

  Lemma exec19_sub cps bg ps s toks input :
    execute (TAct 19 :: toks) input cps bg (mk (ps ++ [ISub s])) =
    execute toks input cps bg (mk (ps ++ [INode (Node (KUnion [s]) (mk_basic "" (sub_value_group s) (cfg_accessor cfg)) ONone)])).
  Proof.
    cbn [Actions.execute].
    change (exec_action 19 cps bg ?st) with
      (abind (pop st) (fun '(x, st1) => match x with
         | IIdx i => AOk (push (INode (Node (KUnion [SubIndex (number i)]) (mk_basic "" false (acc cfg)) ONone)) st1)
         | ISub sb => AOk (push (INode (Node (KUnion [sb]) (mk_basic "" (sub_value_group sb) (acc cfg)) ONone)) st1)
         | _ => ACrash "type assertion .(syntaxSubscript)" end)).
    rewrite pop_mk. cbn [abind]. reflexivity.
  Qed.

  Lemma exec_sub input q u x tail ps toks cps bg : usub_ok u = true -> usub_atoi u = true ->
    skipn q input = render_sub u ++ x :: tail ->
    exists cps' bg', execute (sub_tokens q u ++ toks) input cps bg (mk ps) = execute toks input cps' bg' (mk (ps ++ [INode (sub_node u)])).
  Proof.
    intros Hu Ha Hin. destruct u as [t|sa sb sc|]; cbn [usub_ok usub_atoi render_sub sub_tokens] in *.
    - cbn [app Actions.execute].
      assert (E1 : sub_list input q (q + List.length t) = t).
      { pose proof (sub_at input q 0 [] t (x :: tail)) as H. rewrite Nat.add_0_r in H. apply H; [exact Hin|reflexivity]. }
      rewrite E1. destruct t as [|c1 r1]; [discriminate Hu|]. cbn [atoi_ok] in Ha.
      change (exec_action 17 (c1 :: r1) q (mk ps)) with (push_index (c1 :: r1) false (mk ps)).
      unfold push_index. destruct (atoi (c1 :: r1)) as [z|] eqn:Ez; [|discriminate Ha]. cbn [abind].
      unfold push, with_params, mk. cbn [params saved proot]. fold (mk (ps ++ [IIdx {| number := z; omitted := false |}])).
      change (exec_action 19 (c1 :: r1) q ?st) with
        (abind (pop st) (fun '(x0, st1) => match x0 with
           | IIdx i => AOk (push (INode (Node (KUnion [SubIndex (number i)]) (mk_basic "" false (acc cfg)) ONone)) st1)
           | ISub sb0 => AOk (push (INode (Node (KUnion [sb0]) (mk_basic "" (sub_value_group sb0) (acc cfg)) ONone)) st1)
           | _ => ACrash "type assertion .(syntaxSubscript)" end)).
      rewrite pop_mk. cbn [abind number]. eexists _, _. unfold sub_node, sub_of, step_idx. rewrite Ez. reflexivity.
    - apply andb_true_iff in Ha. destruct Ha as [Ha Hc]. apply andb_true_iff in Ha. destruct Ha as [Ha Hb].
      rewrite <- app_assoc. cbn [app].
      destruct (exec_slice_sub input q sa sb sc (x :: tail) ps (TAct 19 :: toks) cps bg Ha Hb Hc Hin) as (c1 & b1 & E).
      rewrite E. rewrite exec19_sub. eexists _, _. unfold sub_node, sub_of. reflexivity.
    - cbn [app Actions.execute].
      change (exec_action 18 cps bg (mk ps)) with (AOk (push (ISub SubWild) (mk ps))). cbn [abind].
      unfold push, with_params, mk. cbn [params saved proot]. fold (mk (ps ++ [ISub SubWild])).
      pose proof (exec19_sub cps bg ps SubWild toks input) as E. cbn [Actions.execute] in E. rewrite E. eexists _, _. reflexivity.
  Qed.

  (* merging the subscripts that follow the first one *)
  Lemma exec15 cps bg ps subs b0 v toks input :
    execute (TAct 15 :: toks) input cps bg (mk ((ps ++ [INode (Node (KUnion subs) b0 ONone)]) ++ [INode (sub_node v)])) =
    execute toks input cps bg (mk (ps ++ [INode (Node (KUnion (subs ++ [sub_of v])) (set_vgroup true b0) ONone)])).
  Proof.
    cbn [Actions.execute].
    change (exec_action 15 cps bg ?st) with
      (abind (pop_node st) (fun '(child, st1) => abind (pop_node st1) (fun '(parent, st2) =>
         match child, parent with
         | Node (KUnion csubs) _ _, Node (KUnion psubs) pb pnx => AOk (push (INode (Node (KUnion (psubs ++ csubs)) (set_vgroup true pb) pnx)) st2)
         | _, _ => ACrash "type assertion .(*syntaxUnionQualifier)"
         end))).
    unfold pop_node. rewrite pop_mk. cbn [abind]. rewrite pop_mk. cbn [abind]. unfold sub_node. reflexivity.
  Qed.

  Lemma exec_rest input us : forall q ps subs b0 toks cps bg rest, forallb usub_ok us = true -> forallb usub_atoi us = true ->
    skipn q input = rest_text us ++ 93 :: rest ->
    exists cps' bg' b1, execute (rest_tokens q us ++ toks) input cps bg (mk (ps ++ [INode (Node (KUnion subs) b0 ONone)])) =
                        execute toks input cps' bg' (mk (ps ++ [INode (Node (KUnion (subs ++ map sub_of us)) b1 ONone)])) /\
                        b1 = match us with [] => b0 | _ :: _ => set_vgroup true b0 end.
  Proof.
    induction us as [|v r IH]; intros q ps subs b0 toks cps bg rest Hok Hat Hin.
    - exists cps, bg, b0. cbn [rest_tokens app map]. rewrite app_nil_r. split; reflexivity.
    - cbn [forallb] in Hok, Hat. apply andb_true_iff in Hok. destruct Hok as [Hv Hr]. apply andb_true_iff in Hat. destruct Hat as [Av Ar].
      cbn [rest_tokens]. rewrite <- !app_assoc. unfold rest_text in Hin. cbn [flat_map] in Hin. cbn [app] in Hin. rewrite <- app_assoc in Hin.
      assert (Hx : exists x tl, flat_map (fun v0 => 44 :: render_sub v0) r ++ 93 :: rest = x :: tl).
      { destruct r as [|w r']; cbn [flat_map app]; eexists _, _; reflexivity. }
      destruct Hx as (x & tl & Etail).
      assert (Hin1 : skipn (q + 1) input = render_sub v ++ x :: tl).
      { rewrite skipn_add, Hin. cbn [skipn]. rewrite Etail. reflexivity. }
      destruct (exec_sub input (q + 1) v x tl (ps ++ [INode (Node (KUnion subs) b0 ONone)]) ([TAct 15] ++ rest_tokens (q + 1 + List.length (render_sub v)) r ++ toks) cps bg Hv Av Hin1) as (c1 & g1 & E1).
      rewrite E1. cbn [app]. rewrite exec15.
      assert (Hin2 : skipn (q + 1 + List.length (render_sub v)) input = rest_text r ++ 93 :: rest).
      { rewrite (skipn_next input (q + 1) (render_sub v) (x :: tl) Hin1). rewrite <- Etail. reflexivity. }
      destruct (IH (q + 1 + List.length (render_sub v))%nat ps (subs ++ [sub_of v]) (set_vgroup true b0) toks c1 g1 rest Hr Ar Hin2) as (c2 & g2 & b2 & E2 & Hb2).
      exists c2, g2, (set_vgroup true b0). rewrite E2. cbn [map]. rewrite <- app_assoc. cbn [app]. split; [|reflexivity].
      rewrite Hb2. destruct r; reflexivity.
  Qed.

  Lemma exec_step input p s ps toks cps b rest : step_ok s = true -> skipn p input = render_step s ++ rest ->
    execute (step_tokens p s ++ toks) input cps b (mk ps) = execute toks input (render_step s) p (mk (ps ++ [INode (pre_node s)])).
  Proof.
    intros Hs Hin. destruct s as [q k|k|ds|[|]|sa sb sc|u us].
    - cbn [step_ok] in Hs. apply q_ok in Hs. cbn [step_tokens app Actions.execute].
      assert (E1 : sub_list input (p + 2) (p + 2 + List.length (esc_cps q k)) = esc_cps q k).
      { apply (sub_at input p 2 [91; q] (esc_cps q k) ([q; 93] ++ rest)); [|reflexivity]. rewrite Hin. cbn [render_step app]. rewrite <- app_assoc. reflexivity. }
      assert (E2 : sub_list input p (p + List.length (esc_cps q k) + 4) = render_step (SBr q k)).
      { pose proof (sub_at input p 0 [] (render_step (SBr q k)) rest Hin eq_refl) as H. rewrite Nat.add_0_r, render_len_br in H.
        replace (p + List.length (esc_cps q k) + 4)%nat with (p + (List.length (esc_cps q k) + 4))%nat by lia. exact H. }
      rewrite E1, E2. rewrite (exec_key_action cfg parse_float regex_ok q k _ _ Hs). cbn [abind].
      unfold push_single, push, with_params, mk. cbn [params saved proot].
      change (exec_action 7 (render_step (SBr q k)) p ?st) with (set_last_node_text (text_of (render_step (SBr q k))) st).
      fold (mk (ps ++ [INode (Node (KSingle (string_of_bytes (utf8 k))) (mk_basic (string_of_bytes (utf8 k)) false (acc cfg)) ONone)])).
      rewrite set_last_text_mk by discriminate. cbn [abind]. reflexivity.
    - destruct k as [|c k]; [discriminate Hs|]. cbn [step_ok] in Hs. cbn [step_tokens app Actions.execute].
      assert (E1 : sub_list input (p + 1) (p + 1 + List.length (esc_dot_cps (c :: k))) = esc_dot_cps (c :: k)).
      { apply (sub_at input p 1 [46] (esc_dot_cps (c :: k)) rest); [|reflexivity]. rewrite Hin. reflexivity. }
      assert (E2 : sub_list input p (p + 1 + List.length (esc_dot_cps (c :: k))) = render_step (SDot (c :: k))).
      { pose proof (sub_at input p 0 [] (render_step (SDot (c :: k))) rest Hin eq_refl) as H. rewrite Nat.add_0_r, render_len_dot in H.
        replace (p + 1 + List.length (esc_dot_cps (c :: k)))%nat with (p + (1 + List.length (esc_dot_cps (c :: k))))%nat by lia. exact H. }
      rewrite E1, E2.
      assert (E10 : forall bg st, exec_action 10 (esc_dot_cps (c :: k)) bg st = AOk (push_single cfg (string_of_bytes (utf8 (c :: k))) st)).
      { intros bg st. cbn [Actions.exec_action]. rewrite esc_dot_cps_eq, unescape_dot_esc; [reflexivity|exact dot_sym_92|apply dot_char_not_nl; exact Hs]. }
      rewrite E10. cbn [abind]. unfold push_single, push, with_params, mk. cbn [params saved proot].
      change (exec_action 4 (render_step (SDot (c :: k))) p ?st) with (set_last_node_text (text_of (render_step (SDot (c :: k)))) st).
      fold (mk (ps ++ [INode (Node (KSingle (string_of_bytes (utf8 (c :: k)))) (mk_basic (string_of_bytes (utf8 (c :: k))) false (acc cfg)) ONone)])).
      rewrite set_last_text_mk by discriminate. cbn [abind]. reflexivity.
    - destruct ds as [|d ds]; [discriminate Hs|]. cbn [step_ok] in Hs. apply andb_true_iff in Hs. destruct Hs as [Hd Ha].
      destruct (atoi (d :: ds)) as [z|] eqn:Ez; [|discriminate Ha].
      cbn [step_tokens]. unfold idx_tokens. cbn [app Actions.execute].
      assert (E1 : sub_list input (p + 1) (p + 1 + List.length (d :: ds)) = d :: ds).
      { apply (sub_at input p 1 [91] (d :: ds) ([93] ++ rest)); [|reflexivity]. rewrite Hin. cbn [render_step app]. rewrite <- app_assoc. reflexivity. }
      assert (E2 : sub_list input p (p + List.length (d :: ds) + 2) = render_step (SIdx (d :: ds))).
      { pose proof (sub_at input p 0 [] (render_step (SIdx (d :: ds))) rest Hin eq_refl) as H. rewrite Nat.add_0_r, render_len_idx in H.
        replace (p + List.length (d :: ds) + 2)%nat with (p + (List.length (d :: ds) + 2))%nat by lia. exact H. }
      rewrite E1, E2.
      change (exec_action 17 (d :: ds) (p + 1) (mk ps)) with (push_index (d :: ds) false (mk ps)).
      unfold push_index. rewrite Ez. cbn [abind]. unfold push, with_params, mk. cbn [params saved proot].
      fold (mk (ps ++ [IIdx {| number := z; omitted := false |}])).
      change (exec_action 19 (d :: ds) (p + 1) ?st) with
        (abind (pop st) (fun '(x, st1) => match x with
           | IIdx i => AOk (push (INode (Node (KUnion [SubIndex (number i)]) (mk_basic "" false (acc cfg)) ONone)) st1)
           | ISub sb => AOk (push (INode (Node (KUnion [sb]) (mk_basic "" (sub_value_group sb) (acc cfg)) ONone)) st1)
           | _ => ACrash "type assertion .(syntaxSubscript)" end)).
      rewrite pop_mk. cbn [abind number]. unfold push, with_params, mk. cbn [params saved proot].
      change (exec_action 7 (render_step (SIdx (d :: ds))) p ?st) with (set_last_node_text (text_of (render_step (SIdx (d :: ds)))) st).
      fold (mk (ps ++ [INode (Node (KUnion [SubIndex z]) (mk_basic "" false (acc cfg)) ONone)])).
      rewrite set_last_text_mk by discriminate. cbn [abind].
      unfold pre_node, step_kind, step_idx. rewrite Ez. reflexivity.
    - cbn [step_tokens app Actions.execute].
      assert (E2 : sub_list input p (p + 2) = render_step (SWild true)).
      { pose proof (sub_at input p 0 [] (render_step (SWild true)) rest Hin eq_refl) as H. rewrite Nat.add_0_r in H. exact H. }
      rewrite E2.
      change (exec_action 12 cps b (mk ps)) with (AOk (push (INode (Node KWild (mk_basic "*" true (acc cfg)) ONone)) (mk ps))). cbn [abind].
      unfold push, with_params, mk. cbn [params saved proot].
      change (exec_action 4 (render_step (SWild true)) p ?st) with (set_last_node_text (text_of (render_step (SWild true))) st).
      fold (mk (ps ++ [INode (Node KWild (mk_basic "*" true (acc cfg)) ONone)])).
      rewrite set_last_text_mk by discriminate. cbn [abind]. reflexivity.
    - cbn [step_tokens app Actions.execute].
      assert (E2 : sub_list input p (p + 3) = render_step (SWild false)).
      { pose proof (sub_at input p 0 [] (render_step (SWild false)) rest Hin eq_refl) as H. rewrite Nat.add_0_r in H. exact H. }
      rewrite E2.
      change (exec_action 12 cps b (mk ps)) with (AOk (push (INode (Node KWild (mk_basic "*" true (acc cfg)) ONone)) (mk ps))). cbn [abind].
      unfold push, with_params, mk. cbn [params saved proot].
      change (exec_action 7 (render_step (SWild false)) p ?st) with (set_last_node_text (text_of (render_step (SWild false))) st).
      fold (mk (ps ++ [INode (Node KWild (mk_basic "*" true (acc cfg)) ONone)])).
      rewrite set_last_text_mk by discriminate. cbn [abind]. reflexivity.
    - pose proof (slice_ok_of sa sb sc Hs) as Hok. cbn [step_ok] in Hs.
      apply andb_true_iff in Hs. destruct Hs as [Hs Hc]. apply andb_true_iff in Hs. destruct Hs as [Hs Hb]. apply andb_true_iff in Hs. destruct Hs as [_ Ha].
      cbn [step_tokens]. unfold slice_step_tokens, slice_tokens. rewrite <- !app_assoc. cbn [app Actions.execute].
      cbn [render_step] in Hin. unfold slice_body in Hin. repeat (progress (cbn [app] in Hin) || rewrite <- app_assoc in Hin).
      assert (Ea : sub_list input (p + 1) (p + 1 + List.length sa) = sa).
      { apply (sub_at input p 1 [91] sa ((58 :: sb ++ match sc with Some t => 58 :: t | None => [] end) ++ [93] ++ rest)); [|reflexivity].
        rewrite Hin. repeat (progress (cbn [app]) || rewrite <- app_assoc). reflexivity. }
      assert (Eb : sub_list input (p + 1 + List.length sa + 1) (p + 1 + List.length sa + 1 + List.length sb) = sb).
      { pose proof (sub_at input p (List.length sa + 2) (91 :: sa ++ [58]) sb (match sc with Some t => 58 :: t | None => [] end ++ [93] ++ rest)) as H.
        replace (p + 1 + List.length sa + 1)%nat with (p + (List.length sa + 2))%nat by lia. apply H.
        - rewrite Hin. repeat (progress (cbn [app]) || rewrite <- app_assoc). reflexivity.
        - cbn [List.length]. rewrite app_length. cbn [List.length]. lia. }
      rewrite Ea, Eb.
      assert (E21 : forall t bg ps0, atoi_ok t = true -> exec_action 21 t bg (mk ps0) = AOk (mk (ps0 ++ [IIdx (bound_idx t)]))).
      { intros t bg ps0 Ht. destruct t as [|c1 r1].
        - reflexivity.
        - cbn [atoi_ok] in Ht. change (exec_action 21 (c1 :: r1) bg (mk ps0)) with (push_index (c1 :: r1) false (mk ps0)).
          unfold push_index, bound_idx, step_idx. destruct (atoi (c1 :: r1)); [reflexivity|discriminate Ht]. }
      rewrite (E21 sa _ ps Ha). cbn [abind]. rewrite (E21 sb _ _ Hb). cbn [abind].
      set (stepi := match sc with Some t => bound_idx t | None => {| number := 1; omitted := false |} end).
      assert (E3 : forall toks', exists cps1 bg1,
                 execute (match sc with
                          | Some t => [TText (p + 1 + List.length sa + 1 + List.length sb + 1) (p + 1 + List.length sa + 1 + List.length sb + 1 + List.length t); TAct 21]
                          | None => [TAct 20] end ++ toks') input sb (p + 1 + List.length sa + 1)
                         (mk ((ps ++ [IIdx (bound_idx sa)]) ++ [IIdx (bound_idx sb)])) =
                 execute toks' input cps1 bg1 (mk (((ps ++ [IIdx (bound_idx sa)]) ++ [IIdx (bound_idx sb)]) ++ [IIdx stepi]))).
      { intros toks'. destruct sc as [t|]; cbn [app Actions.execute].
        - assert (Ec : sub_list input (p + 1 + List.length sa + 1 + List.length sb + 1) (p + 1 + List.length sa + 1 + List.length sb + 1 + List.length t) = t).
          { pose proof (sub_at input p (List.length sa + List.length sb + 3) (91 :: sa ++ 58 :: sb ++ [58]) t ([93] ++ rest)) as H.
            replace (p + 1 + List.length sa + 1 + List.length sb + 1)%nat with (p + (List.length sa + List.length sb + 3))%nat by lia. apply H.
            - rewrite Hin. repeat (progress (cbn [app]) || rewrite <- app_assoc). reflexivity.
            - cbn [List.length]. rewrite app_length. cbn [List.length]. rewrite app_length. cbn [List.length]. lia. }
          rewrite Ec. rewrite (E21 t _ _ Hc). cbn [abind]. eexists _, _. reflexivity.
        - eexists _, _. reflexivity. }
      destruct (E3 ([TAct 16; TAct 19; TText p (p + List.length (slice_body sa sb sc) + 2); TAct 7] ++ toks)) as (cps1 & bg1 & E3').
      cbn [app] in E3'. rewrite E3'. clear E3 E3'. cbn [Actions.execute].
      change (exec_action 16 cps1 bg1 ?st) with
        (abind (pop_idx st) (fun '(sp0, st1) => abind (pop_idx st1) (fun '(en0, st2) => abind (pop_idx st2) (fun '(st0, st3) => AOk (push (ISub (mk_slice st0 en0 sp0)) st3))))).
      unfold pop_idx. rewrite !pop_mk. cbn [abind]. rewrite !pop_mk. cbn [abind]. rewrite !pop_mk. cbn [abind].
      unfold push, with_params, mk. cbn [params saved proot].
      fold (mk (ps ++ [ISub (mk_slice (bound_idx sa) (bound_idx sb) stepi)])).
      change (exec_action 19 cps1 bg1 ?st) with
        (abind (pop st) (fun '(x, st1) => match x with
           | IIdx i => AOk (push (INode (Node (KUnion [SubIndex (number i)]) (mk_basic "" false (acc cfg)) ONone)) st1)
           | ISub sb => AOk (push (INode (Node (KUnion [sb]) (mk_basic "" (sub_value_group sb) (acc cfg)) ONone)) st1)
           | _ => ACrash "type assertion .(syntaxSubscript)" end)).
      rewrite pop_mk. cbn [abind]. unfold push, with_params, mk. cbn [params saved proot].
      assert (E2 : sub_list input p (p + List.length (slice_body sa sb sc) + 2) = render_step (SSlice sa sb sc)).
      { pose proof (sub_at input p 0 [] (render_step (SSlice sa sb sc)) rest) as H. rewrite Nat.add_0_r in H.
        rewrite render_len_slice in H.
        replace (p + List.length (slice_body sa sb sc) + 2)%nat with (p + (List.length (slice_body sa sb sc) + 2))%nat by lia.
        apply H; [|reflexivity]. rewrite Hin. cbn [render_step]. unfold slice_body. repeat (progress (cbn [app]) || rewrite <- app_assoc). reflexivity. }
      rewrite E2.
      change (exec_action 7 (render_step (SSlice sa sb sc)) p ?st) with (set_last_node_text (text_of (render_step (SSlice sa sb sc))) st).
      assert (Evg : sub_value_group (mk_slice (bound_idx sa) (bound_idx sb) stepi) = true).
      { unfold mk_slice. destruct (number (if omitted stepi then _ else stepi) >=? 0)%Z; reflexivity. }
      rewrite Evg.
      fold (mk (ps ++ [INode (Node (KUnion [mk_slice (bound_idx sa) (bound_idx sb) stepi]) (mk_basic "" true (acc cfg)) ONone)])).
      rewrite set_last_text_mk by discriminate. cbn [abind]. reflexivity.
    - pose proof (union_ok_of u us Hs) as Hok. cbn [step_ok] in Hs. apply andb_true_iff in Hs. destruct Hs as [_ Hat].
      cbn [forallb] in Hat. apply andb_true_iff in Hat. destruct Hat as [Au Aus].
      unfold union_ok in Hok. apply andb_true_iff in Hok. destruct Hok as [Hok Hus]. apply andb_true_iff in Hok. destruct Hok as [Hu _].
      cbn [step_tokens]. unfold union_step_tokens, union_tokens. rewrite <- !app_assoc.
      cbn [render_step] in Hin. unfold render_union in Hin. repeat (progress (cbn [app] in Hin) || rewrite <- app_assoc in Hin).
      fold (rest_text us) in Hin.
      assert (Hx : exists x tl, rest_text us ++ 93 :: rest = x :: tl).
      { unfold rest_text. destruct us as [|w r']; cbn [flat_map app]; eexists _, _; reflexivity. }
      destruct Hx as (x & tl & Etail).
      assert (Hin1 : skipn (p + 1) input = render_sub u ++ x :: tl).
      { rewrite skipn_add, Hin. cbn [skipn]. rewrite Etail. reflexivity. }
      destruct (exec_sub input (p + 1) u x tl ps (rest_tokens (p + 1 + List.length (render_sub u)) us ++ [TText p (p + List.length (render_sub u ++ flat_map (fun v => 44 :: render_sub v) us) + 2); TAct 7] ++ toks) cps b Hu Au Hin1) as (c1 & g1 & E1).
      unfold render_union. rewrite E1. clear E1.
      assert (Hin2 : skipn (p + 1 + List.length (render_sub u)) input = rest_text us ++ 93 :: rest).
      { rewrite (skipn_next input (p + 1) (render_sub u) (x :: tl) Hin1). rewrite <- Etail. reflexivity. }
      unfold sub_node.
      destruct (exec_rest input us (p + 1 + List.length (render_sub u))%nat ps [sub_of u] (mk_basic "" (sub_value_group (sub_of u)) (cfg_accessor cfg))
                          ([TText p (p + List.length (render_sub u ++ flat_map (fun v => 44 :: render_sub v) us) + 2); TAct 7] ++ toks) c1 g1 rest Hus Aus Hin2) as (c2 & g2 & b2 & E2 & Hb2).
      rewrite E2. clear E2. cbn [app Actions.execute].
      assert (E3 : sub_list input p (p + List.length (render_sub u ++ flat_map (fun v => 44 :: render_sub v) us) + 2) = render_step (SUnion u us)).
      { pose proof (sub_at input p 0 [] (render_step (SUnion u us)) rest) as H. rewrite Nat.add_0_r in H.
        rewrite render_len_union in H. unfold render_union in H.
        set (LL := List.length (render_sub u ++ flat_map (fun v => 44 :: render_sub v) us)) in *.
        replace (p + LL + 2)%nat with (p + (LL + 2))%nat by lia.
        apply H; [|reflexivity]. rewrite Hin. cbn [render_step]. unfold render_union, rest_text. repeat (progress (cbn [app]) || rewrite <- app_assoc). reflexivity. }
      rewrite E3.
      change (exec_action 7 (render_step (SUnion u us)) p ?st) with (set_last_node_text (text_of (render_step (SUnion u us))) st).
      rewrite set_last_text_mk by discriminate. cbn [abind].
      unfold pre_node, step_kind. cbn [map app]. subst b2.
      assert (Eb : set_text (text_of (render_step (SUnion u us))) (match us with [] => mk_basic "" (sub_value_group (sub_of u)) (cfg_accessor cfg) | _ :: _ => set_vgroup true (mk_basic "" (sub_value_group (sub_of u)) (cfg_accessor cfg)) end) = pre_basic (SUnion u us)).
      { unfold pre_basic, pre_basic_vg, step_vg, step_text. destruct us; reflexivity. }
      rewrite Eb. reflexivity.
  Qed.

  (* ---------- nodes a step stands for ---------- *)

  Definition rec_flags (s : kstep) : bool * bool :=
    match s with SWild _ => (true, true) | SIdx _ | SSlice _ _ _ | SUnion _ _ => (false, true) | _ => (true, false) end.
  Definition rec_inner_basic (s : kstep) : basic :=
    match s with
    | SDot k => mk_basic (step_key s) false (cfg_accessor cfg)
    | SWild true => mk_basic "*" true (cfg_accessor cfg)
    | _ => pre_basic s
    end.
  Definition rec_basic : basic := mk_basic ".." true (cfg_accessor cfg).
  Definition rstep_pre (x : rstep) : list (kind * basic) :=
    match x with
    | RPlain s => [(step_kind s, pre_basic s)]
    | RRec s => [(KRec (fst (rec_flags s)) (snd (rec_flags s)), rec_basic); (step_kind s, rec_inner_basic s)]
    end.
  Fixpoint link (l : list (kind * basic)) : onode :=
    match l with [] => ONone | x :: r => OSome (Node (fst x) (snd x) (link r)) end.
  Definition rpre_node (x : rstep) : node :=
    match rstep_pre x with x0 :: r => Node (fst x0) (snd x0) (link r) | [] => nil_node end.
  Definition plain_kind (k : kind) : Prop := (forall ids aw uq, k <> KMulti ids aw uq) /\ (forall f p, k <> KAgg f p).
  Lemma rstep_pre_plain x : Forall (fun kb => plain_kind (fst kb)) (rstep_pre x).
  Proof. destruct x as [s|s]; cbn [rstep_pre]; repeat constructor; cbn [fst]; try apply step_kind_plain; intros; discriminate. Qed.

  Lemma push_recursive_step s ps : push_recursive cfg (Node (step_kind s) (rec_inner_basic s) ONone) (mk ps) = mk (ps ++ [INode (rpre_node (RRec s))]).
  Proof. destruct s as [q k|k|ds|[|]|a b c0|u us]; reflexivity. Qed.

  Lemma exec_act3 cps b ps nd toks input :
    execute (TAct 3 :: toks) input cps b (mk (ps ++ [INode nd])) = execute toks input cps b (push_recursive cfg nd (mk ps)).
  Proof.
    cbn [Actions.execute].
    change (exec_action 3 cps b ?st) with (abind (pop_node st) (fun '(n, st1) => AOk (push_recursive cfg n st1))).
    unfold pop_node. rewrite pop_mk. cbn [abind]. reflexivity.
  Qed.

  Lemma exec_rstep input p x ps toks cps b rest : rstep_ok x = true -> skipn p input = render_rstep x ++ rest ->
    exists cps' b', execute (rstep_tokens p x ++ toks) input cps b (mk ps) = execute toks input cps' b' (mk (ps ++ [INode (rpre_node x)])).
  Proof.
    intros Hs Hin. destruct x as [s|s].
    - eexists _, _. cbn [rstep_tokens render_rstep] in *. rewrite (exec_step input p s ps toks cps b rest Hs Hin). reflexivity.
    - cbn [rstep_ok] in Hs. cbn [render_rstep] in Hin.
      assert (Hin2 : skipn (p + 2) input = rec_body s ++ rest) by (rewrite skipn_add, Hin; reflexivity).
      destruct s as [q k|k|ds|[|]|sa sb sc|u us].
      + cbn [rstep_tokens]. rewrite <- app_assoc. cbn [rec_body] in Hin2.
        rewrite (exec_step input (p + 2) (SBr q k) ps _ cps b rest Hs Hin2). cbn [app]. rewrite exec_act3.
        eexists _, _. unfold pre_node. change (pre_basic (SBr q k)) with (rec_inner_basic (SBr q k)). rewrite push_recursive_step. reflexivity.
      + destruct k as [|c k]; [discriminate Hs|]. cbn [step_ok] in Hs. cbn [rstep_tokens app Actions.execute]. cbn [rec_body] in Hin2.
        assert (E1 : sub_list input (p + 2) (p + 2 + List.length (esc_dot_cps (c :: k))) = esc_dot_cps (c :: k)).
        { pose proof (sub_at input (p + 2) 0 [] (esc_dot_cps (c :: k)) rest Hin2 eq_refl) as H. rewrite Nat.add_0_r in H. exact H. }
        rewrite E1.
        assert (E10 : forall bg st, exec_action 10 (esc_dot_cps (c :: k)) bg st = AOk (push_single cfg (string_of_bytes (utf8 (c :: k))) st)).
        { intros bg st. cbn [Actions.exec_action]. rewrite esc_dot_cps_eq, unescape_dot_esc; [reflexivity|exact dot_sym_92|apply dot_char_not_nl; exact Hs]. }
        rewrite E10. cbn [abind]. unfold push_single, push, with_params, mk. cbn [params saved proot].
        fold (mk (ps ++ [INode (Node (KSingle (string_of_bytes (utf8 (c :: k)))) (mk_basic (string_of_bytes (utf8 (c :: k))) false (acc cfg)) ONone)])).
        pose proof (exec_act3 (esc_dot_cps (c :: k)) (p + 2) ps (Node (KSingle (string_of_bytes (utf8 (c :: k)))) (mk_basic (string_of_bytes (utf8 (c :: k))) false (acc cfg)) ONone) toks input) as E3.
        cbn [Actions.execute] in E3. rewrite E3. eexists _, _.
        change (Node (KSingle (string_of_bytes (utf8 (c :: k)))) (mk_basic (string_of_bytes (utf8 (c :: k))) false (acc cfg)) ONone)
          with (Node (step_kind (SDot (c :: k))) (rec_inner_basic (SDot (c :: k))) ONone).
        rewrite push_recursive_step. reflexivity.
      + cbn [rstep_tokens]. rewrite <- app_assoc. cbn [rec_body] in Hin2.
        rewrite (exec_step input (p + 2) (SIdx ds) ps _ cps b rest Hs Hin2). cbn [app]. rewrite exec_act3.
        eexists _, _. unfold pre_node. change (pre_basic (SIdx ds)) with (rec_inner_basic (SIdx ds)). rewrite push_recursive_step. reflexivity.
      + cbn [rstep_tokens app Actions.execute].
        change (exec_action 12 cps b (mk ps)) with (AOk (push (INode (Node KWild (mk_basic "*" true (acc cfg)) ONone)) (mk ps))). cbn [abind].
        unfold push, with_params, mk. cbn [params saved proot].
        fold (mk (ps ++ [INode (Node KWild (mk_basic "*" true (acc cfg)) ONone)])).
        pose proof (exec_act3 cps b ps (Node KWild (mk_basic "*" true (acc cfg)) ONone) toks input) as E3.
        cbn [Actions.execute] in E3. rewrite E3. eexists _, _.
        change (Node KWild (mk_basic "*" true (acc cfg)) ONone) with (Node (step_kind (SWild true)) (rec_inner_basic (SWild true)) ONone).
        rewrite push_recursive_step. reflexivity.
      + cbn [rstep_tokens]. rewrite <- app_assoc. cbn [rec_body] in Hin2.
        rewrite (exec_step input (p + 2) (SWild false) ps _ cps b rest Hs Hin2). cbn [app]. rewrite exec_act3.
        eexists _, _. unfold pre_node. change (pre_basic (SWild false)) with (rec_inner_basic (SWild false)). rewrite push_recursive_step. reflexivity.
      + cbn [rstep_tokens]. rewrite <- app_assoc. cbn [rec_body] in Hin2.
        rewrite (exec_step input (p + 2) (SSlice sa sb sc) ps _ cps b rest Hs Hin2). cbn [app]. rewrite exec_act3.
        eexists _, _. unfold pre_node. change (pre_basic (SSlice sa sb sc)) with (rec_inner_basic (SSlice sa sb sc)). rewrite push_recursive_step. reflexivity.
      + cbn [rstep_tokens]. rewrite <- app_assoc. cbn [rec_body] in Hin2.
        rewrite (exec_step input (p + 2) (SUnion u us) ps _ cps b rest Hs Hin2). cbn [app]. rewrite exec_act3.
        eexists _, _. unfold pre_node. change (pre_basic (SUnion u us)) with (rec_inner_basic (SUnion u us)). rewrite push_recursive_step. reflexivity.
  Qed.

  Lemma exec_steps input steps : forall p ps toks cps b, forallb rstep_ok steps = true -> skipn p input = render_steps steps ->
    exists cps' b', execute (steps_tokens p steps ++ toks) input cps b (mk ps) =
                    execute toks input cps' b' (mk (ps ++ map (fun s => INode (rpre_node s)) steps)).
  Proof.
    induction steps as [|s r IH]; intros p ps toks cps b Hs Hin.
    - exists cps, b. cbn [steps_tokens app map]. rewrite app_nil_r. reflexivity.
    - cbn [forallb] in Hs. apply andb_true_iff in Hs. destruct Hs as [H1 H2].
      unfold render_steps in Hin. cbn [flat_map] in Hin. cbn [steps_tokens]. rewrite <- app_assoc.
      destruct (exec_rstep input p s ps (steps_tokens (p + List.length (render_rstep s)) r ++ toks) cps b _ H1 Hin) as (c1 & b1 & E1).
      rewrite E1.
      destruct (IH (p + List.length (render_rstep s))%nat (ps ++ [INode (rpre_node s)]) toks c1 b1 H2 (skipn_next input p _ _ Hin)) as (cps' & b' & E).
      exists cps', b'. rewrite E. cbn [map]. rewrite <- app_assoc. reflexivity.
  Qed.

  (* ---------- the chain before and after setConnectedText ---------- *)
  Definition pres (steps : list rstep) : list (kind * basic) := flat_map rstep_pre steps.
  Lemma pres_plain steps : Forall (fun kb => plain_kind (fst kb)) (pres steps).
  Proof. induction steps as [|x r IH]; [constructor|]. unfold pres. cbn [flat_map]. apply Forall_app. split; [apply rstep_pre_plain|exact IH]. Qed.

  Lemma append_link k b l seg : plain_kind k -> Forall (fun kb => plain_kind (fst kb)) l -> seg <> [] ->
    append_deep (Node k b (link l)) (match seg with x0 :: r => Node (fst x0) (snd x0) (link r) | [] => nil_node end) = Node k b (link (l ++ seg)).
  Proof.
    intros Hk Hl Hseg. destruct seg as [|x0 sr]; [contradiction Hseg; reflexivity|]. clear Hseg.
    revert k b Hk. induction Hl as [|y l Hy Hl IH]; intros k b [Hk1 Hk2].
    - cbn [link app]. destruct k; try reflexivity. contradiction (Hk1 ids allWild uq). reflexivity.
    - cbn [link app]. rewrite <- (IH (fst y) (snd y) Hy).
      destruct k; try reflexivity. contradiction (Hk1 ids allWild uq). reflexivity.
  Qed.

  Lemma rpre_not_agg root x : chain_step (AOk root) (INode (rpre_node x)) = AOk (append_deep root (rpre_node x)).
  Proof. destruct x as [s|s]; destruct s as [q k|k|ds|[|]|a b c0|u us]; reflexivity. Qed.

  Lemma chain_fold rb steps : forall done,
    fold_left chain_step (map (fun s => INode (rpre_node s)) steps) (AOk (Node KRoot rb (link (pres done)))) =
    AOk (Node KRoot rb (link (pres (done ++ steps)))).
  Proof.
    induction steps as [|s r IH]; intros done; cbn [map fold_left]; [rewrite app_nil_r; reflexivity|].
    rewrite rpre_not_agg. unfold rpre_node.
    rewrite (append_link KRoot rb (pres done) (rstep_pre s)).
    - replace (pres done ++ rstep_pre s) with (pres (done ++ [s])) by (unfold pres; rewrite flat_map_app; cbn [flat_map]; rewrite app_nil_r; reflexivity).
      rewrite IH, <- app_assoc. reflexivity.
    - split; intros; discriminate.
    - apply pres_plain.
    - destruct s; discriminate.
  Qed.

  Definition any_vg (l : list (kind * basic)) : bool := existsb (fun kb => vgroup (snd kb)) l.
  Lemma link_vg l : match link l with ONone => false | OSome m => chain_vg m end = any_vg l.
  Proof. induction l as [|x r IH]; [reflexivity|]. cbn [link chain_vg any_vg existsb]. rewrite IH. reflexivity. Qed.

  Fixpoint ctx (l : list (kind * basic)) : string :=
    match l with [] => ""%string | x :: r => (text (snd x) ++ ctx r)%string end.
  Fixpoint fin (l : list (kind * basic)) : onode :=
    match l with [] => ONone | x :: r => OSome (Node (fst x) (set_ctext (text (snd x) ++ ctx r) (snd x)) (fin r)) end.

  Lemma set_ctext_last k b p : plain_kind k -> set_ctext_deep (Node k b ONone) p = Node k (set_ctext (text b ++ p) b) ONone.
  Proof. intros [H1 H2]. destruct k; try reflexivity; [contradiction (H1 ids allWild uq)|contradiction (H2 f param)]; reflexivity. Qed.
  Lemma set_ctext_next k b m p : plain_kind k ->
    set_ctext_deep (Node k b (OSome m)) p =
    Node k (set_ctext (text b ++ ctext (node_basic (set_ctext_deep m p))) b) (OSome (set_ctext_deep m p)).
  Proof. intros [H1 H2]. destruct k; try reflexivity; [contradiction (H1 ids allWild uq)|contradiction (H2 f param)]; reflexivity. Qed.

  Lemma set_ctext_link k b r : plain_kind k -> Forall (fun kb => plain_kind (fst kb)) r ->
    set_ctext_deep (Node k b (link r)) "" = Node k (set_ctext (text b ++ ctx r) b) (fin r).
  Proof.
    intros Hk Hr. revert k b Hk. induction Hr as [|y r Hy Hr IH]; intros k b Hk.
    - cbn [link ctx fin]. apply set_ctext_last. exact Hk.
    - cbn [link ctx fin]. rewrite set_ctext_next by exact Hk. rewrite (IH (fst y) (snd y) Hy). reflexivity.
  Qed.

  (* the tree of a path: the first node carries the value-group flag of the whole path *)
  Definition chain_node (steps : list rstep) : node :=
    match pres steps with
    | x :: r => Node (fst x) (set_ctext (text (snd x) ++ ctx r) (set_vgroup (any_vg (x :: r)) (snd x))) (fin r)
    | [] => nil_node
    end.

  Definition root_basic : basic := mk_basic "$" false (cfg_accessor cfg).
  Lemma set_vgroup_same b : set_vgroup (vgroup b) b = b.
  Proof. destruct b; reflexivity. Qed.

  Theorem parse_chain_path s r : forallb rstep_ok (s :: r) = true ->
    parse_with cfg parse_float regex_ok G (chain_path (s :: r)) = ParseOk (chain_node (s :: r)).
  Proof.
    intros Hs. unfold parse_with, parse_from. rewrite (peg_chain_path (s :: r) Hs). unfold chain_tokens.
    cbn [Actions.execute].
    change (exec_action 8 [] 0 ps_init) with (AOk (mk [INode (Node KRoot root_basic ONone)])). cbn [abind].
    destruct (exec_steps (chain_path (s :: r)) (s :: r) 1 [INode (Node KRoot root_basic ONone)] [TAct 2; TAct 0] [] 0 Hs eq_refl) as (cps' & b' & E).
    rewrite E. clear E. cbn [map app Actions.execute].
    change (exec_action 2 cps' b' ?st) with (abind (set_node_chain st) update_root_vg).
    unfold set_node_chain, mk. cbn [params].
    pose proof (chain_fold root_basic (s :: r) []) as F. cbn [map app] in F. change (link (pres [])) with ONone in F. rewrite F. clear F.
    cbn [abind with_params params saved proot]. unfold update_root_vg. cbn [params with_params saved proot abind].
    unfold with_params. cbn [params saved proot].
    change (exec_action 0 cps' b' ?st) with
      (abind (pop_node st) (fun '(rt, st1) => AOk {| params := params st1; saved := saved st1; proot := Some (set_ctext_deep (delete_root rt) "") |})).
    unfold pop_node, pop. cbn [params rev app abind with_params saved proot].
    unfold chain_node. pose proof (pres_plain (s :: r)) as Hp.
    destruct (pres (s :: r)) as [|x l] eqn:Ep.
    { exfalso. unfold pres in Ep. cbn [flat_map] in Ep. destruct s as [s0|s0]; discriminate Ep. }
    inversion Hp as [|? ? Hx Hl]; subst.
    assert (Ev : delete_root (update_vg (Node KRoot root_basic (link (x :: l)))) = Node (fst x) (set_vgroup (any_vg (x :: l)) (snd x)) (link l)).
    { unfold update_vg. cbn [chain_vg]. rewrite link_vg. cbn [root_basic mk_basic vgroup orb].
      destruct (any_vg (x :: l)) eqn:Ea.
      - reflexivity.
      - cbn [link delete_root vgroup]. cbn [any_vg existsb] in Ea. apply orb_false_iff in Ea. destruct Ea as [Ea _].
        rewrite <- Ea at 1. rewrite set_vgroup_same. reflexivity. }
    rewrite Ev. rewrite (set_ctext_link _ _ l Hx Hl). reflexivity.
  Qed.
End ChainExec.
