(* ChainParse.v — C16 at every depth, from the path text: a path made of any number of name steps, each in any of
   the three spellings ( ["k"]  ['k']  .k ), is accepted by the grammar and builds the chain of single-name steps. *)
From JP Require Import Peg Grammar Slice Text Tree Actions PegFacts PegMono PegEv Codec FuelRules ParseFacts KeyDefs KeyParse IdxParse WildParse.
From Coq Require Import Lia.
Local Open Scope N_scope.
Open Scope list_scope.

Definition step_ok (s : kstep) : bool :=
  match s with
  | SBr q _ => (q =? 34) || (q =? 39)
  | SDot k => match k with [] => false | _ :: _ => forallb dot_char k end
  | SIdx ds => match ds with [] => false | _ :: _ => forallb is_digit ds && (match atoi ds with Some _ => true | None => false end) end
  | SWild _ => true
  end.
Definition step_tokens (p : nat) (s : kstep) : list token :=
  match s with
  | SBr q k => let n := List.length (esc_cps q k) in [TText (p + 2) (p + 2 + n); TAct (qact q); TText p (p + n + 4); TAct 7]
  | SDot k => let n := List.length (esc_dot_cps k) in [TText (p + 1) (p + 1 + n); TAct 10; TText p (p + 1 + n); TAct 4]
  | SIdx ds => idx_tokens p ds
  | SWild true => [TAct 12; TText p (p + 2); TAct 4]
  | SWild false => [TAct 12; TText p (p + 3); TAct 7]
  end.
Fixpoint steps_tokens (p : nat) (steps : list kstep) : list token :=
  match steps with
  | [] => []
  | s :: r => step_tokens p s ++ steps_tokens (p + List.length (render_step s)) r
  end.

Lemma render_len_br q k : List.length (render_step (SBr q k)) = (List.length (esc_cps q k) + 4)%nat.
Proof. cbn [render_step List.length]. rewrite app_length. cbn [List.length]. lia. Qed.
Lemma render_len_dot k : List.length (render_step (SDot k)) = (1 + List.length (esc_dot_cps k))%nat.
Proof. reflexivity. Qed.

Lemma render_len_idx ds : List.length (render_step (SIdx ds)) = (List.length ds + 2)%nat.
Proof. cbn [render_step List.length]. rewrite app_length. cbn [List.length]. lia. Qed.

Lemma steps_stop steps : dot_stop (render_steps steps).
Proof. destruct steps as [|[q k|k|ds|[|]] r]; cbn; auto. Qed.

Lemma q_ok q : (q =? 34) || (q =? 39) = true -> q = 34 \/ q = 39.
Proof. intros H. apply orb_true_iff in H. destruct H as [H|H]; apply N.eqb_eq in H; auto. Qed.

(* one step, whatever steps follow *)
Lemma ev_rule7_step s rest pos : step_ok s = true -> dot_stop rest ->
  evG (PRef 7) (render_step s ++ rest) pos (POk rest (pos + List.length (render_step s)) (step_tokens pos s)).
Proof.
  intros Hs Hr. destruct s as [q k|k|ds|[|]].
  - cbn [step_ok] in Hs. apply q_ok in Hs. rewrite render_len_br. cbn [render_step step_tokens app].
    rewrite <- app_assoc. cbn [app]. eapply ev_conv; [apply ev_rule7; exact Hs|]. f_equal. lia.
  - destruct k as [|c k]; [discriminate Hs|]. cbn [step_ok] in Hs. rewrite render_len_dot. cbn [render_step step_tokens app].
    eapply ev_conv; [apply ev_rule7_dot; [exact Hs|exact Hr]|]. f_equal. lia.
  - destruct ds as [|d ds]; [discriminate Hs|]. cbn [step_ok] in Hs. apply andb_true_iff in Hs. destruct Hs as [Hd _].
    rewrite render_len_idx. cbn [render_step step_tokens]. cbn [app]. rewrite <- app_assoc. cbn [app].
    eapply ev_conv; [apply (ev_rule7_idx d ds rest pos); exact Hd|]. f_equal. lia.
  - cbn [render_step step_tokens app List.length]. apply ev_rule7_dotwild. exact Hr.
  - cbn [render_step step_tokens app List.length]. apply ev_rule7_brwild.
Qed.
Lemma render_step_len_pos s : (1 <= List.length (render_step s))%nat.
Proof. destruct s as [q k|k|ds|[|]]; cbn [render_step List.length]; lia. Qed.

(* the childNode repetition consumes all the steps *)
Lemma ev_steps_star steps pos : forallb step_ok steps = true ->
  evG (PStar (PRef 7)) (render_steps steps) pos (POk [] (pos + List.length (render_steps steps)) (steps_tokens pos steps)).
Proof.
  revert pos. induction steps as [|s r IH]; intros pos Hs.
  - cbn [render_steps flat_map List.length steps_tokens]. eapply ev_conv; [apply ev_star_stop; apply ev_rule7_eof|f_equal; lia].
  - cbn [forallb] in Hs. apply andb_true_iff in Hs. destruct Hs as [H1 H2].
    unfold render_steps in *. cbn [flat_map steps_tokens]. rewrite app_length.
    pose proof (ev_rule7_step s (flat_map render_step r) pos H1 (steps_stop r)) as E1.
    pose proof (render_step_len_pos s) as Hl.
    pose proof (ev_star_step G _ _ _ _ _ _ _ _ _ E1 ltac:(lia) (IH (pos + List.length (render_step s))%nat H2)) as E2.
    eapply ev_conv; [exact E2|]. f_equal. lia.
Qed.

Definition chain_tokens (steps : list kstep) : list token := TAct 8 :: steps_tokens 1 steps ++ [TAct 2; TAct 0].

Lemma ev_chain_path steps : forallb step_ok steps = true ->
  evG (PRef 0) (chain_path steps) 0 (POk [] (S (List.length (render_steps steps))) (chain_tokens steps)).
Proof.
  intros Hs. unfold chain_path, chain_tokens. eapply ev_conv.
  - eapply ev_ref; [reflexivity|]. apply ev_alt_l.
    eapply ev_seq_ok; [| |reflexivity].
    + eapply ev_ref; [reflexivity|].
      eapply ev_seq_ok; [apply ev_space_stop; discriminate| |reflexivity].
      eapply ev_seq_ok; [| |reflexivity].
      * eapply ev_ref; [reflexivity|]. apply ev_alt_l. eapply ev_ref; [reflexivity|].
        eapply ev_seq_ok; [apply (ev_lit_ok G [36]); apply strip1_ok|apply ev_act|reflexivity].
      * eapply ev_ref; [reflexivity|].
        eapply ev_seq_ok; [apply (ev_steps_star steps); exact Hs| |reflexivity].
        eapply ev_seq_ok; [apply ev_star_stop; apply ev_rule8_eof| |reflexivity].
        eapply ev_seq_ok; [apply ev_space_eof|apply ev_act|reflexivity].
    + eapply ev_seq_ok; [| apply ev_act |reflexivity].
      eapply ev_ref; [reflexivity|]. apply ev_not_ok. apply ev_any_fail.
  - cbn [List.length app Nat.add]. rewrite <- app_assoc. cbn [app]. reflexivity.
Qed.

Lemma peg_chain_path steps : forallb step_ok steps = true ->
  peg_parse G (chain_path steps) = POk [] (S (List.length (render_steps steps))) (chain_tokens steps).
Proof. intros Hs. apply ev_peg_parse; [apply ev_chain_path; exact Hs|apply peg_never_out_of_fuel]. Qed.

(* ---------- replaying the tokens ---------- *)
Lemma skipn_add {A} (l : list A) p j : skipn (p + j) l = skipn j (skipn p l).
Proof. revert l. induction p as [|p IH]; intros l; [reflexivity|]. destruct l as [|x l]; cbn [Nat.add skipn]; [destruct j; reflexivity|apply IH]. Qed.
Lemma sub_at {A} (input : list A) p j b a rest : skipn p input = b ++ a ++ rest -> List.length b = j ->
  sub_list input (p + j) (p + j + List.length a) = a.
Proof.
  intros H Hb. unfold sub_list. rewrite skipn_add, H. subst j. rewrite skipn_app, skipn_all, Nat.sub_diag. cbn [skipn app].
  replace (p + List.length b + List.length a - (p + List.length b))%nat with (List.length a) by lia.
  rewrite firstn_app, firstn_all, Nat.sub_diag. cbn [firstn]. apply app_nil_r.
Qed.
Lemma skipn_next {A} (input : list A) p a rest : skipn p input = a ++ rest -> skipn (p + List.length a) input = rest.
Proof. intros H. rewrite skipn_add, H, skipn_app, skipn_all, Nat.sub_diag. reflexivity. Qed.

Section ChainExec.
  Variable cfg : config.
  Variable parse_float : string -> option num.
  Variable regex_ok : string -> bool.
  Notation execute := (execute cfg parse_float regex_ok).
  Notation exec_action := (exec_action cfg parse_float regex_ok).

  Definition mk (ps : list item) : pstate := {| params := ps; saved := []; proot := None |}.
  Definition step_key (s : kstep) : string := string_of_bytes (utf8 (step_cps s)).
  Definition step_idx (ds : list N) : Z := match atoi ds with Some z => z | None => 0%Z end.
  Definition step_kind (s : kstep) : kind :=
    match s with SIdx ds => KUnion [SubIndex (step_idx ds)] | SWild _ => KWild | _ => KSingle (step_key s) end.
  (* does the step select a group of values? *)
  Definition step_vg (s : kstep) : bool := match s with SWild _ => true | _ => false end.
  Definition step_text (s : kstep) : string := text_of (render_step s).
  Definition pre_basic_vg (vg : bool) (s : kstep) : basic := {| text := step_text s; ctext := ""; vgroup := vg; accessor := cfg_accessor cfg |}.
  Definition pre_basic (s : kstep) : basic := pre_basic_vg (step_vg s) s.
  Definition pre_node (s : kstep) : node := Node (step_kind s) (pre_basic s) ONone.

  Lemma step_kind_plain s : (forall ids aw uq, step_kind s <> KMulti ids aw uq) /\ (forall f p, step_kind s <> KAgg f p).
  Proof. destruct s; split; intros; discriminate. Qed.

  Lemma pop_mk ps x : pop (mk (ps ++ [x])) = AOk (x, mk ps).
  Proof. unfold pop, mk. cbn [params]. rewrite rev_unit. unfold with_params. cbn [saved proot]. rewrite rev_involutive. reflexivity. Qed.

  Lemma set_last_text_mk t ps k b : (forall ids aw uq, k <> KMulti ids aw uq) ->
    set_last_node_text t (mk (ps ++ [INode (Node k b ONone)])) = AOk (mk (ps ++ [INode (Node k (set_text t b) ONone)])).
  Proof.
    intros Hk. unfold set_last_node_text, pop_node. rewrite pop_mk. cbn [abind].
    unfold push, with_params, mk. cbn [params saved proot].
    destruct k; try reflexivity. contradiction (Hk ids allWild uq). reflexivity.
  Qed.

  Lemma exec_step input p s ps toks cps b rest : step_ok s = true -> skipn p input = render_step s ++ rest ->
    execute (step_tokens p s ++ toks) input cps b (mk ps) = execute toks input (render_step s) p (mk (ps ++ [INode (pre_node s)])).
  Proof.
    intros Hs Hin. destruct s as [q k|k|ds|[|]].
    - cbn [step_ok] in Hs. apply q_ok in Hs. cbn [step_tokens app Actions.execute].
      assert (E1 : sub_list input (p + 2) (p + 2 + List.length (esc_cps q k)) = esc_cps q k).
      { apply (sub_at input p 2 [91; q] (esc_cps q k) ([q; 93] ++ rest)); [|reflexivity]. rewrite Hin. cbn [render_step app]. rewrite <- app_assoc. reflexivity. }
      assert (E2 : sub_list input p (p + List.length (esc_cps q k) + 4) = render_step (SBr q k)).
      { pose proof (sub_at input p 0 [] (render_step (SBr q k)) rest Hin eq_refl) as H. rewrite Nat.add_0_r, render_len_br in H.
        replace (p + List.length (esc_cps q k) + 4)%nat with (p + (List.length (esc_cps q k) + 4))%nat by lia. exact H. }
      rewrite E1, E2. rewrite (exec_key_action cfg parse_float regex_ok q k _ _ Hs). cbn [abind].
      unfold push_single, push, with_params, mk. cbn [params saved proot].
      change (exec_action 7 (render_step (SBr q k)) p ?st) with (set_last_node_text (text_of (render_step (SBr q k))) st).
      fold (mk (ps ++ [INode (Node (KSingle (string_of_bytes (utf8 k))) (mk_basic (string_of_bytes (utf8 k)) false (acc cfg)) ONone)])).
      rewrite set_last_text_mk by discriminate. cbn [abind]. reflexivity.
    - destruct k as [|c k]; [discriminate Hs|]. cbn [step_ok] in Hs. cbn [step_tokens app Actions.execute].
      assert (E1 : sub_list input (p + 1) (p + 1 + List.length (esc_dot_cps (c :: k))) = esc_dot_cps (c :: k)).
      { apply (sub_at input p 1 [46] (esc_dot_cps (c :: k)) rest); [|reflexivity]. rewrite Hin. reflexivity. }
      assert (E2 : sub_list input p (p + 1 + List.length (esc_dot_cps (c :: k))) = render_step (SDot (c :: k))).
      { pose proof (sub_at input p 0 [] (render_step (SDot (c :: k))) rest Hin eq_refl) as H. rewrite Nat.add_0_r, render_len_dot in H.
        replace (p + 1 + List.length (esc_dot_cps (c :: k)))%nat with (p + (1 + List.length (esc_dot_cps (c :: k))))%nat by lia. exact H. }
      rewrite E1, E2.
      assert (E10 : forall bg st, exec_action 10 (esc_dot_cps (c :: k)) bg st = AOk (push_single cfg (string_of_bytes (utf8 (c :: k))) st)).
      { intros bg st. cbn [Actions.exec_action]. rewrite esc_dot_cps_eq, unescape_dot_esc; [reflexivity|exact dot_sym_92|apply dot_char_not_nl; exact Hs]. }
      rewrite E10. cbn [abind]. unfold push_single, push, with_params, mk. cbn [params saved proot].
      change (exec_action 4 (render_step (SDot (c :: k))) p ?st) with (set_last_node_text (text_of (render_step (SDot (c :: k)))) st).
      fold (mk (ps ++ [INode (Node (KSingle (string_of_bytes (utf8 (c :: k)))) (mk_basic (string_of_bytes (utf8 (c :: k))) false (acc cfg)) ONone)])).
      rewrite set_last_text_mk by discriminate. cbn [abind]. reflexivity.
    - destruct ds as [|d ds]; [discriminate Hs|]. cbn [step_ok] in Hs. apply andb_true_iff in Hs. destruct Hs as [Hd Ha].
      destruct (atoi (d :: ds)) as [z|] eqn:Ez; [|discriminate Ha].
      cbn [step_tokens]. unfold idx_tokens. cbn [app Actions.execute].
      assert (E1 : sub_list input (p + 1) (p + 1 + List.length (d :: ds)) = d :: ds).
      { apply (sub_at input p 1 [91] (d :: ds) ([93] ++ rest)); [|reflexivity]. rewrite Hin. cbn [render_step app]. rewrite <- app_assoc. reflexivity. }
      assert (E2 : sub_list input p (p + List.length (d :: ds) + 2) = render_step (SIdx (d :: ds))).
      { pose proof (sub_at input p 0 [] (render_step (SIdx (d :: ds))) rest Hin eq_refl) as H. rewrite Nat.add_0_r, render_len_idx in H.
        replace (p + List.length (d :: ds) + 2)%nat with (p + (List.length (d :: ds) + 2))%nat by lia. exact H. }
      rewrite E1, E2.
      change (exec_action 17 (d :: ds) (p + 1) (mk ps)) with (push_index (d :: ds) false (mk ps)).
      unfold push_index. rewrite Ez. cbn [abind]. unfold push, with_params, mk. cbn [params saved proot].
      fold (mk (ps ++ [IIdx {| number := z; omitted := false |}])).
      change (exec_action 19 (d :: ds) (p + 1) ?st) with
        (abind (pop st) (fun '(x, st1) => match x with
           | IIdx i => AOk (push (INode (Node (KUnion [SubIndex (number i)]) (mk_basic "" false (acc cfg)) ONone)) st1)
           | ISub sb => AOk (push (INode (Node (KUnion [sb]) (mk_basic "" (sub_value_group sb) (acc cfg)) ONone)) st1)
           | _ => ACrash "type assertion .(syntaxSubscript)" end)).
      rewrite pop_mk. cbn [abind number]. unfold push, with_params, mk. cbn [params saved proot].
      change (exec_action 7 (render_step (SIdx (d :: ds))) p ?st) with (set_last_node_text (text_of (render_step (SIdx (d :: ds)))) st).
      fold (mk (ps ++ [INode (Node (KUnion [SubIndex z]) (mk_basic "" false (acc cfg)) ONone)])).
      rewrite set_last_text_mk by discriminate. cbn [abind].
      unfold pre_node, step_kind, step_idx. rewrite Ez. reflexivity.
    - cbn [step_tokens app Actions.execute].
      assert (E2 : sub_list input p (p + 2) = render_step (SWild true)).
      { pose proof (sub_at input p 0 [] (render_step (SWild true)) rest Hin eq_refl) as H. rewrite Nat.add_0_r in H. exact H. }
      rewrite E2.
      change (exec_action 12 cps b (mk ps)) with (AOk (push (INode (Node KWild (mk_basic "*" true (acc cfg)) ONone)) (mk ps))). cbn [abind].
      unfold push, with_params, mk. cbn [params saved proot].
      change (exec_action 4 (render_step (SWild true)) p ?st) with (set_last_node_text (text_of (render_step (SWild true))) st).
      fold (mk (ps ++ [INode (Node KWild (mk_basic "*" true (acc cfg)) ONone)])).
      rewrite set_last_text_mk by discriminate. cbn [abind]. reflexivity.
    - cbn [step_tokens app Actions.execute].
      assert (E2 : sub_list input p (p + 3) = render_step (SWild false)).
      { pose proof (sub_at input p 0 [] (render_step (SWild false)) rest Hin eq_refl) as H. rewrite Nat.add_0_r in H. exact H. }
      rewrite E2.
      change (exec_action 12 cps b (mk ps)) with (AOk (push (INode (Node KWild (mk_basic "*" true (acc cfg)) ONone)) (mk ps))). cbn [abind].
      unfold push, with_params, mk. cbn [params saved proot].
      change (exec_action 7 (render_step (SWild false)) p ?st) with (set_last_node_text (text_of (render_step (SWild false))) st).
      fold (mk (ps ++ [INode (Node KWild (mk_basic "*" true (acc cfg)) ONone)])).
      rewrite set_last_text_mk by discriminate. cbn [abind]. reflexivity.
  Qed.

  Lemma exec_steps input steps : forall p ps toks cps b, forallb step_ok steps = true -> skipn p input = render_steps steps ->
    exists cps' b', execute (steps_tokens p steps ++ toks) input cps b (mk ps) =
                    execute toks input cps' b' (mk (ps ++ map (fun s => INode (pre_node s)) steps)).
  Proof.
    induction steps as [|s r IH]; intros p ps toks cps b Hs Hin.
    - exists cps, b. cbn [steps_tokens app map]. rewrite app_nil_r. reflexivity.
    - cbn [forallb] in Hs. apply andb_true_iff in Hs. destruct Hs as [H1 H2].
      unfold render_steps in Hin. cbn [flat_map] in Hin. cbn [steps_tokens]. rewrite <- app_assoc.
      rewrite (exec_step input p s ps _ cps b _ H1 Hin).
      destruct (IH (p + List.length (render_step s))%nat (ps ++ [INode (pre_node s)]) toks (render_step s) p H2 (skipn_next input p _ _ Hin)) as (cps' & b' & E).
      exists cps', b'. rewrite E. cbn [map]. rewrite <- app_assoc. reflexivity.
  Qed.

  (* the chain before and after setConnectedText *)
  Fixpoint chain0 (l : list kstep) : onode :=
    match l with [] => ONone | s :: r => OSome (Node (step_kind s) (pre_basic s) (chain0 r)) end.
  Fixpoint ctext_of (l : list kstep) : string :=
    match l with [] => ""%string | s :: r => (step_text s ++ ctext_of r)%string end.
  Definition fin_basic (vg : bool) (s : kstep) (r : list kstep) : basic :=
    {| text := step_text s; ctext := (step_text s ++ ctext_of r)%string; vgroup := vg; accessor := cfg_accessor cfg |}.
  Fixpoint chain1 (l : list kstep) : onode :=
    match l with [] => ONone | s :: r => OSome (Node (step_kind s) (fin_basic (step_vg s) s r) (chain1 r)) end.
  (* the first node carries the value-group flag of the whole path (updateRootValueGroup, deleteRootIdentifier) *)
  Definition chain_node (s : kstep) (r : list kstep) : node :=
    Node (step_kind s) (fin_basic (existsb step_vg (s :: r)) s r) (chain1 r).

  Lemma append_chain0 k b l s : (forall ids aw uq, k <> KMulti ids aw uq) ->
    append_deep (Node k b (chain0 l)) (pre_node s) = Node k b (chain0 (l ++ [s])).
  Proof.
    revert k b. induction l as [|x l IH]; intros k b Hk.
    - cbn [chain0 app]. destruct k; try reflexivity. contradiction (Hk ids allWild uq). reflexivity.
    - cbn [chain0 app]. rewrite <- (IH (step_kind x) (pre_basic x)) by (apply step_kind_plain).
      destruct k; try reflexivity. contradiction (Hk ids allWild uq). reflexivity.
  Qed.

  Lemma chain_step_pre root s : chain_step (AOk root) (INode (pre_node s)) = AOk (append_deep root (pre_node s)).
  Proof. destruct s; reflexivity. Qed.

  Lemma chain_fold rb steps : forall done,
    fold_left chain_step (map (fun s => INode (pre_node s)) steps) (AOk (Node KRoot rb (chain0 done))) =
    AOk (Node KRoot rb (chain0 (done ++ steps))).
  Proof.
    induction steps as [|s r IH]; intros done; cbn [map fold_left]; [rewrite app_nil_r; reflexivity|].
    rewrite chain_step_pre, append_chain0 by discriminate. rewrite IH, <- app_assoc. reflexivity.
  Qed.

  Lemma chain0_vg l : match chain0 l with ONone => false | OSome m => chain_vg m end = existsb step_vg l.
  Proof. induction l as [|s r IH]; [reflexivity|]. cbn [chain0 chain_vg existsb]. rewrite IH. reflexivity. Qed.

  Lemma set_ctext_last k b p : (forall ids aw uq, k <> KMulti ids aw uq) -> (forall f q, k <> KAgg f q) ->
    set_ctext_deep (Node k b ONone) p = Node k (set_ctext (text b ++ p) b) ONone.
  Proof. intros H1 H2. destruct k; try reflexivity; [contradiction (H1 ids allWild uq)|contradiction (H2 f param)]; reflexivity. Qed.
  Lemma set_ctext_next k b m p : (forall ids aw uq, k <> KMulti ids aw uq) -> (forall f q, k <> KAgg f q) ->
    set_ctext_deep (Node k b (OSome m)) p =
    Node k (set_ctext (text b ++ ctext (node_basic (set_ctext_deep m p))) b) (OSome (set_ctext_deep m p)).
  Proof. intros H1 H2. destruct k; try reflexivity; [contradiction (H1 ids allWild uq)|contradiction (H2 f param)]; reflexivity. Qed.

  Lemma set_ctext_chain vg s r :
    set_ctext_deep (Node (step_kind s) (pre_basic_vg vg s) (chain0 r)) "" = Node (step_kind s) (fin_basic vg s r) (chain1 r).
  Proof.
    revert vg s. induction r as [|x r IH]; intros vg s; destruct (step_kind_plain s) as [P1 P2].
    - cbn [chain0]. rewrite set_ctext_last by assumption. reflexivity.
    - cbn [chain0]. rewrite set_ctext_next by assumption. unfold pre_basic. rewrite IH. reflexivity.
  Qed.

  Definition root_basic : basic := mk_basic "$" false (cfg_accessor cfg).

  Theorem parse_chain_path s r : forallb step_ok (s :: r) = true ->
    parse_with cfg parse_float regex_ok G (chain_path (s :: r)) = ParseOk (chain_node s r).
  Proof.
    intros Hs. unfold parse_with, parse_from. rewrite (peg_chain_path (s :: r) Hs). unfold chain_tokens.
    cbn [Actions.execute].
    change (exec_action 8 [] 0 ps_init) with (AOk (mk [INode (Node KRoot root_basic ONone)])). cbn [abind].
    destruct (exec_steps (chain_path (s :: r)) (s :: r) 1 [INode (Node KRoot root_basic ONone)] [TAct 2; TAct 0] [] 0 Hs eq_refl) as (cps' & b' & E).
    rewrite E. clear E. cbn [map app Actions.execute].
    change (exec_action 2 cps' b' ?st) with (abind (set_node_chain st) update_root_vg).
    unfold set_node_chain, mk. cbn [params].
    pose proof (chain_fold root_basic (s :: r) []) as F. cbn [map app chain0] in F. rewrite F. clear F.
    cbn [abind with_params params saved proot]. unfold update_root_vg. cbn [params with_params saved proot abind].
    assert (Ev : delete_root (update_vg (Node KRoot root_basic (chain0 (s :: r)))) =
                 Node (step_kind s) (pre_basic_vg (existsb step_vg (s :: r)) s) (chain0 r)).
    { unfold update_vg. cbn [chain_vg]. rewrite chain0_vg. cbn [root_basic mk_basic vgroup orb].
      destruct (existsb step_vg (s :: r)) eqn:Ea.
      - reflexivity.
      - cbn [existsb] in Ea. apply orb_false_iff in Ea. destruct Ea as [Ea _]. cbn [chain0 delete_root vgroup]. unfold pre_basic. rewrite Ea. reflexivity. }
    unfold with_params. cbn [params saved proot].
    change (exec_action 0 cps' b' ?st) with
      (abind (pop_node st) (fun '(rt, st1) => AOk {| params := params st1; saved := saved st1; proot := Some (set_ctext_deep (delete_root rt) "") |})).
    unfold pop_node, pop. cbn [params rev app abind with_params saved proot].
    cbn [chain0] in Ev. rewrite Ev. rewrite set_ctext_chain. reflexivity.
  Qed.
End ChainExec.
