(* CallDefs.v — definitions for the call-log theorem (C14), also evaluated by the harness: which trees
   have function-free filters, and the call log the specification prescribes.  Definitions only. *)
From JP Require Export Eval WF Spec.
Open Scope string_scope.
Open Scope list_scope.

Section AggArgs.
  Variable ffun : string -> value -> option value.
  Variable afun : string -> list value -> option value.
  Variable regex_match : string -> string -> bool.
  (* the arguments an aggregate receives: every value its parameter path selects, or the elements of the single
     array when that path is not a value group *)
  Definition agg_args (param : node) (root : value) (cur : cursor) : list value :=
    let plain := map (fun x => res_value (Spec.wrap x)) (sp ffun afun regex_match param root cur) in
    if vgroup (node_basic param) then plain
    else match plain with VArr xs :: _ => xs | _ => plain end.
End AggArgs.

(* no user function anywhere below *)
Fixpoint call_free (n : node) : bool :=
  match n with
  | Node k _ next =>
      (match k with
       | KFFun _ | KAgg _ _ => false
       | KMulti ids _ uq => call_free_ids ids && match uq with OSome u => call_free u | ONone => true end
       | KFilter q => call_free_q q
       | _ => true
       end) && match next with OSome m => call_free m | ONone => true end
  end
with call_free_ids (ids : nodes) : bool :=
  match ids with NNil => true | NCons n r => call_free n && call_free_ids r end
with call_free_q (q : query) : bool :=
  match q with
  | QAnd a b | QOr a b => call_free_q a && call_free_q b
  | QNot a => call_free_q a
  | QCmp (CP l _) (CP r _) _ => call_free_p l && call_free_p r
  | QParam p => call_free_p p
  end
with call_free_p (p : pquery) : bool :=
  match p with PqLit _ => true | PqCur n | PqRoot n => call_free n end.

(* filters contain no user function (functions may sit anywhere else: in the chain, in aggregate parameters) *)
Fixpoint filters_call_free (n : node) : bool :=
  match n with
  | Node k _ next =>
      (match k with
       | KMulti ids _ uq => filters_call_free_ids ids && match uq with OSome u => filters_call_free u | ONone => true end
       | KFilter q => call_free_q q
       | KAgg _ p => filters_call_free p
       | _ => true
       end) && match next with OSome m => filters_call_free m | ONone => true end
  end
with filters_call_free_ids (ids : nodes) : bool :=
  match ids with NNil => true | NCons n r => filters_call_free n && filters_call_free_ids r end.

Section SC.
  Variable ffun : string -> value -> option value.
  Variable afun : string -> list value -> option value.
  Variable regex_match : string -> string -> bool.
  Notation sp := (sp ffun afun regex_match).
  Notation holds := (holds ffun afun regex_match).

  (* the calls the specification prescribes, in order *)
  Fixpoint sc (n : node) (root : value) (cur : cursor) {struct n} : list call :=
    match n with
    | Node k b next =>
        let fwd := fun (cur' : cursor) => match next with OSome nx => sc nx root cur' | ONone => [] end in
        let key_step := fun (m : list (string * value)) (key : string) =>
          match lookup m key with Some v => fwd (ext_loc (fst cur) (PKey key), v) | None => [] end in
        let idx_step := fun (iv : Z * value) => fwd (ext_loc (fst cur) (PIdx (fst iv)), snd iv) in
        match k with
        | KRoot => fwd (Some [], root)
        | KCurrent => fwd cur
        | KSingle key => match snd cur with VObj m => key_step m key | _ => [] end
        | KWild =>
            match snd cur with
            | VObj m => flat_map (key_step m) (sorted_keys m)
            | VArr xs => flat_map idx_step (index_list xs 0)
            | _ => []
            end
        | KMulti ids allWild uq =>
            match snd cur, allWild with
            | VArr _, true => match uq with OSome u => sc u root cur | ONone => [] end
            | VObj m, _ => sc_ids ids root cur
            | _, _ => []
            end
        | KRec mapReq listReq =>
            match next with
            | ONone => []
            | OSome nx =>
                flat_map (fun cu => match snd cu with
                                    | VObj _ => if mapReq then sc nx root cu else []
                                    | VArr _ => if listReq then sc nx root cu else []
                                    | _ => []
                                    end) (containers (fst cur) (snd cur))
            end
        | KUnion subs =>
            match snd cur with
            | VArr xs =>
                flat_map (fun sub =>
                  match get_indexes sub (Z.of_nat (List.length xs)) with
                  | IOk idxs => flat_map (fun i => match nth_value xs i with Some v => idx_step (i, v) | None => [] end) idxs
                  | IPanic => []
                  end) subs
            | _ => []
            end
        | KFilter q =>
            match snd cur with
            | VObj m =>
                let keys := sorted_keys m in
                let vals := flat_map (fun k => match lookup m k with Some v => [v] | None => [] end) keys in
                flat_map (fun kb : string * bool => if snd kb then key_step m (fst kb) else []) (combine keys (holds q root vals))
            | VArr xs =>
                flat_map (fun ib : (Z * value) * bool => if snd ib then idx_step (fst ib) else []) (combine (index_list xs 0) (holds q root xs))
            | _ => []
            end
        | KFFun f =>
            CallF f (snd cur) :: match ffun f (snd cur) with Some v => fwd (None, v) | None => [] end
        | KAgg f param =>
            sc param root cur ++
            match sp param root cur with
            | [] => []
            | _ :: _ =>
                let args := agg_args ffun afun regex_match param root cur in
                CallA f args :: match afun f args with Some v => fwd (None, v) | None => [] end
            end
        end
    end
  with sc_ids (ids : nodes) (root : value) (cur : cursor) {struct ids} : list call :=
    match ids with
    | NNil => []
    | NCons id rest => sc id root cur ++ sc_ids rest root cur
    end.
End SC.
