(* SpecText.v — what a path selects does not depend on the `text` / `ctext` fields of its nodes
   (they only appear inside error messages): rewriting the basics of a tree by any function that
   keeps the value-group and accessor flags selects the same cursors.  Used by C18: spellings that
   the parser turns into trees equal up to their texts select the same values. *)
From JP Require Import Eval WF Spec EvalInv3 Refine1.
Open Scope string_scope.
Open Scope list_scope.

Section T.
  Variable g : basic -> basic.
  Hypothesis g_vgroup : forall b, vgroup (g b) = vgroup b.
  Hypothesis g_accessor : forall b, accessor (g b) = accessor b.

  Fixpoint mapb (n : node) : node :=
    match n with
    | Node k b next =>
        Node (match k with
              | KMulti ids aw uq => KMulti (mapb_ids ids) aw (match uq with OSome u => OSome (mapb u) | ONone => ONone end)
              | KFilter q => KFilter (mapb_q q)
              | KAgg f p => KAgg f (mapb p)
              | other => other
              end) (g b) (match next with OSome m => OSome (mapb m) | ONone => ONone end)
    end
  with mapb_ids (ids : nodes) : nodes :=
    match ids with NNil => NNil | NCons n r => NCons (mapb n) (mapb_ids r) end
  with mapb_q (q : query) : query :=
    match q with
    | QAnd a b => QAnd (mapb_q a) (mapb_q b)
    | QOr a b => QOr (mapb_q a) (mapb_q b)
    | QNot a => QNot (mapb_q a)
    | QCmp (CP l ll) (CP r rl) c => QCmp (CP (mapb_p l) ll) (CP (mapb_p r) rl) c
    | QParam p => QParam (mapb_p p)
    end
  with mapb_p (p : pquery) : pquery :=
    match p with PqLit v => PqLit v | PqCur n => PqCur (mapb n) | PqRoot n => PqRoot (mapb n) end.

  Definition gres (r : sres) : sres := let '(b, s, c) := r in (g b, s, c).
  Lemma wrap_gres r : Spec.wrap (gres r) = Spec.wrap r.
  Proof. destruct r as [[b s] c]. cbn. rewrite g_accessor. reflexivity. Qed.

  Variable ffun : string -> value -> option value.
  Variable afun : string -> list value -> option value.
  Variable regex_match : string -> string -> bool.
  Notation sp := (sp ffun afun regex_match).
  Notation sp_ids := (sp_ids ffun afun regex_match).
  Notation holds := (holds ffun afun regex_match).
  Notation operand := (operand ffun afun regex_match).
  Notation sfwd := (sfwd ffun afun regex_match).
  Notation skey := (skey ffun afun regex_match).
  Notation sidx := (sidx ffun afun regex_match).

  Definition T_node (n : node) : Prop := forall root cur, sp (mapb n) root cur = map gres (sp n root cur).
  Definition T_onode (o : onode) : Prop := match o with OSome n => T_node n | ONone => True end.
  Definition T_nodes (ids : nodes) : Prop := forall root cur, sp_ids (mapb_ids ids) root cur = map gres (sp_ids ids root cur).
  Definition T_query (q : query) : Prop := forall root vals, holds (mapb_q q) root vals = holds q root vals.
  Definition T_pquery (p : pquery) : Prop := forall root vals, operand (mapb_p p) root vals = operand p root vals.
  Definition T_cparam (cp : cparam) : Prop := match cp with CP p _ => T_pquery p end.
  Definition T_kind (k : kind) : Prop :=
    match k with
    | KMulti ids _ uq => T_nodes ids /\ T_onode uq
    | KFilter q => T_query q
    | KAgg _ p => T_node p
    | _ => True
    end.
  Definition mo (o : onode) : onode := match o with OSome m => OSome (mapb m) | ONone => ONone end.

  Lemma sfwd_g b next root settable cu : T_onode next ->
    sfwd (g b) (mo next) root settable cu = map gres (sfwd b next root settable cu).
  Proof. intros IH. unfold Refine1.sfwd, mo. destruct next as [|m]; [reflexivity|apply IH]. Qed.
  Lemma skey_g b next root cur m key : T_onode next ->
    skey (g b) (mo next) root cur m key = map gres (skey b next root cur m key).
  Proof. intros IH. unfold Refine1.skey. destruct (lookup m key); [apply sfwd_g; exact IH|reflexivity]. Qed.
  Lemma sidx_g b next root cur iv : T_onode next ->
    sidx (g b) (mo next) root cur iv = map gres (sidx b next root cur iv).
  Proof. intros IH. unfold Refine1.sidx. apply sfwd_g; exact IH. Qed.

  Lemma mfm {A B C} (h : B -> C) (k : A -> list B) : forall l, map h (flat_map k l) = flat_map (fun a => map h (k a)) l.
  Proof. induction l as [|a l IH]; cbn [flat_map map]; [reflexivity|]. rewrite map_app, IH. reflexivity. Qed.

  Lemma map_value_gres l : map (fun x => res_value (Spec.wrap x)) (map gres l) = map (fun x => res_value (Spec.wrap x)) l.
  Proof. rewrite map_map. apply map_ext. intros r. rewrite wrap_gres. reflexivity. Qed.

  Lemma node_text k b next : T_kind k -> T_onode next -> T_node (Node k b next).
  Proof.
    intros IHk IHn root cur. cbn [mapb]. change (match next with OSome m => OSome (mapb m) | ONone => ONone end) with (mo next).
    destruct k as [| |key| |ids aw uq|mr lr|subs|q|f|f param]; rewrite !sp_unfold.
    - apply sfwd_g; exact IHn.
    - apply sfwd_g; exact IHn.
    - destruct (snd cur); cbv iota beta; try reflexivity. apply skey_g; exact IHn.
    - destruct (snd cur); cbv iota beta; try reflexivity; rewrite mfm; apply flat_map_ext; intros x;
        [apply sidx_g|apply skey_g]; exact IHn.
    - destruct IHk as [IHids IHuq].
      destruct (snd cur); cbv iota beta; try (destruct aw; reflexivity).
      + destruct aw; [|reflexivity]. destruct uq as [|u]; [reflexivity|]. apply IHuq.
      + assert (H : sp_ids (mapb_ids ids) root cur = map gres (sp_ids ids root cur)) by apply IHids.
        destruct aw; exact H.
    - destruct next as [|nx]; cbn [mo]; [reflexivity|].
      rewrite mfm. apply flat_map_ext. intros cu.
      destruct (snd cu); try reflexivity; [destruct lr|destruct mr]; try reflexivity; apply IHn.
    - destruct (snd cur); cbv iota beta; try reflexivity. rewrite mfm. apply flat_map_ext. intros sub.
      destruct (get_indexes sub _); [|reflexivity]. rewrite mfm. apply flat_map_ext. intros i.
      destruct (nth_value l i); [apply sidx_g; exact IHn|reflexivity].
    - destruct (snd cur); cbv iota beta zeta; try reflexivity; rewrite IHk, mfm; apply flat_map_ext.
      + intros [iv hb]. cbn [fst snd]. destruct hb; [apply sidx_g; exact IHn|reflexivity].
      + intros [key hb]. cbn [fst snd]. destruct hb; [apply skey_g; exact IHn|reflexivity].
    - destruct (ffun f (snd cur)); [apply sfwd_g; exact IHn|reflexivity].
    - cbv zeta. rewrite (IHk root cur).
      assert (Hvg : vgroup (node_basic (mapb param)) = vgroup (node_basic param)).
      { destruct param as [pk pb pn]. cbn. apply g_vgroup. }
      rewrite Hvg. destruct (sp param root cur) as [|x xs]; [reflexivity|].
      change (map gres (x :: xs)) with (gres x :: map gres xs).
      change (gres x :: map gres xs) with (map gres (x :: xs)). rewrite map_value_gres.
      match goal with |- context [afun f ?a] => destruct (afun f a) end; [apply sfwd_g; exact IHn|reflexivity].
  Qed.

  Theorem text_independent :
    (forall n, T_node n) /\ (forall o, T_onode o) /\ (forall k, T_kind k) /\ (forall ns, T_nodes ns) /\
    (forall q, T_query q) /\ (forall cp, T_cparam cp) /\ (forall p, T_pquery p).
  Proof.
    apply tree_mutind; try (intros; exact I).
    - intros k IHk b next IHn. apply node_text; assumption.
    - intros n IH. exact IH.
    - intros ids IHids aw uq IHuq. split; assumption.
    - intros q IH. exact IH.
    - intros f p IH. exact IH.
    - intros root cur. reflexivity.
    - intros id IHid rest IHrest root cur.
      change (sp_ids (mapb_ids (NCons id rest)) root cur) with (sp (mapb id) root cur ++ sp_ids (mapb_ids rest) root cur).
      change (sp_ids (NCons id rest) root cur) with (sp id root cur ++ sp_ids rest root cur).
      rewrite map_app, IHid, IHrest. reflexivity.
    - intros a IHa b IHb root vals.
      change (holds (mapb_q (QAnd a b)) root vals) with (andb_lists (holds (mapb_q a) root vals) (holds (mapb_q b) root vals)).
      rewrite IHa, IHb. reflexivity.
    - intros a IHa b IHb root vals.
      change (holds (mapb_q (QOr a b)) root vals) with (orb_lists (holds (mapb_q a) root vals) (holds (mapb_q b) root vals)).
      rewrite IHa, IHb. reflexivity.
    - intros a IHa root vals.
      change (holds (mapb_q (QNot a)) root vals) with (map negb (holds (mapb_q a) root vals)). rewrite IHa. reflexivity.
    - intros [lp ll] IHl [rp rl] IHr c root vals.
      change (holds (mapb_q (QCmp (CP lp ll) (CP rp rl) c)) root vals) with
        (cmp_holds regex_match c (List.length vals) (operand (mapb_p lp) root vals) (hd None (operand (mapb_p rp) root vals))).
      rewrite (IHl root vals), (IHr root vals). reflexivity.
    - intros p IH root vals.
      change (holds (mapb_q (QParam p)) root vals) with
        (let es := operand (mapb_p p) root vals in
         if Nat.eqb (List.length es) (List.length vals) then map (fun x => negb (isE x)) es
         else repeat (negb (isE (hd None es))) (List.length vals)).
      rewrite (IH root vals). reflexivity.
    - intros p IH lit. exact IH.
    - intros v root vals. reflexivity.
    - intros n IH root vals.
      change (operand (mapb_p (PqCur n)) root vals) with
        (let es := map (fun v => match sp (mapb n) root (None, v) with x :: _ => Some (res_value (Spec.wrap x)) | [] => None end) vals in
         if existsb (fun x => negb (isE x)) es then es else [None]).
      change (operand (PqCur n) root vals) with
        (let es := map (fun v => match sp n root (None, v) with x :: _ => Some (res_value (Spec.wrap x)) | [] => None end) vals in
         if existsb (fun x => negb (isE x)) es then es else [None]).
      assert (Hm : map (fun v => match sp (mapb n) root (None, v) with x :: _ => Some (res_value (Spec.wrap x)) | [] => None end) vals
                 = map (fun v => match sp n root (None, v) with x :: _ => Some (res_value (Spec.wrap x)) | [] => None end) vals).
      { apply map_ext. intros v. rewrite (IH root (None, v)). destruct (sp n root (None, v)) as [|x xs]; [reflexivity|].
        cbn [map]. rewrite wrap_gres. reflexivity. }
      cbv zeta. rewrite Hm. reflexivity.
    - intros n IH root vals.
      change (operand (mapb_p (PqRoot n)) root vals) with
        (match sp (mapb n) root (Some [], root) with
         | [] => [None] | [x] => [Some (res_value (Spec.wrap x))] | _ => [Some (VBool true)] end).
      change (operand (PqRoot n) root vals) with
        (match sp n root (Some [], root) with
         | [] => [None] | [x] => [Some (res_value (Spec.wrap x))] | _ => [Some (VBool true)] end).
      rewrite (IH root (Some [], root)). destruct (sp n root (Some [], root)) as [|x [|y l]]; try reflexivity.
      cbn [map]. rewrite wrap_gres. reflexivity.
  Qed.

  (* the values a path selects do not depend on the texts of its nodes *)
  Theorem results_text_independent t doc :
    spec_results ffun afun regex_match (mapb t) doc = spec_results ffun afun regex_match t doc.
  Proof.
    unfold spec_results. rewrite (proj1 text_independent t doc (Some [], doc)), map_map.
    apply map_ext. intros r. apply wrap_gres.
  Qed.
End T.
