(* Concurrency.v — a small generic fact used by C06: threads whose atomic steps never write the
   shared state can be interleaved arbitrarily: under every schedule the shared state stays what it
   was and every step returns what it returns when its thread runs alone. *)
From Coq Require Import List Arith Lia.
Import ListNotations.

Section Threads.
  Variables St Out : Type.
  Definition action := St -> St * Out.                       (* one atomic step: new shared state, output *)
  Definition read_only (a : action) : Prop := forall s, fst (a s) = s.

  (* a pool of threads, each a list of remaining actions; a schedule is a list of thread indices;
     scheduling an index that is out of range or a finished thread is a no-op *)
  Fixpoint take_step (ts : list (list action)) (i : nat) : option (action * list (list action)) :=
    match ts, i with
    | [], _ => None
    | (a :: rest) :: others, 0 => Some (a, rest :: others)
    | [] :: _, 0 => None
    | t :: others, S j => match take_step others j with
                          | Some (a, others') => Some (a, t :: others')
                          | None => None
                          end
    end.

  Fixpoint run (ts : list (list action)) (sched : list nat) (s : St) (trace : list (nat * Out)) : St * list (nat * Out) :=
    match sched with
    | [] => (s, trace)
    | i :: r => match take_step ts i with
                | Some (a, ts') => let '(s', o) := a s in run ts' r s' (trace ++ [(i, o)])
                | None => run ts r s trace
                end
    end.

  Definition all_read_only (ts : list (list action)) : Prop := Forall (Forall read_only) ts.

  Lemma take_step_read_only : forall ts i a ts', all_read_only ts -> take_step ts i = Some (a, ts') ->
    read_only a /\ all_read_only ts'.
  Proof.
    induction ts as [|t ts IH]; intros i a ts' H Ht; cbn [take_step] in Ht; [discriminate|].
    inversion H as [|? ? Ht0 Hts]; subst.
    destruct i as [|j].
    - destruct t as [|a0 rest]; [discriminate|]. inversion Ht; subst.
      inversion Ht0; subst. split; [assumption|constructor; assumption].
    - destruct (take_step ts j) as [[a0 others']|] eqn:E; [|destruct t; discriminate].
      assert (Ht' : Some (a0, t :: others') = Some (a, ts')) by (destruct t; exact Ht).
      inversion Ht'; subst. destruct (IH j a others' Hts E) as [Ha Ho]. split; [exact Ha|constructor; assumption].
  Qed.

  (* the shared state never changes, whatever the schedule *)
  Theorem read_only_state_constant : forall sched ts s trace, all_read_only ts ->
    fst (run ts sched s trace) = s.
  Proof.
    induction sched as [|i r IH]; intros ts s trace H; cbn [run]; [reflexivity|].
    destruct (take_step ts i) as [[a ts']|] eqn:E; [|apply IH; exact H].
    destruct (take_step_read_only ts i a ts' H E) as [Ha Hts'].
    pose proof (Ha s) as Hs. destruct (a s) as [s' o]. cbn [fst] in Hs. subst s'. apply IH. exact Hts'.
  Qed.

  (* every output in the trace is the output the action gives on the initial state: what the
     thread computes when it runs alone from that state *)
  Theorem read_only_outputs_solo : forall sched ts s trace, all_read_only ts ->
    exists outs, snd (run ts sched s trace) = trace ++ outs /\
      Forall (fun io => exists a, read_only a /\ snd io = snd (a s)) outs.
  Proof.
    induction sched as [|i r IH]; intros ts s trace H; cbn [run].
    - exists []. rewrite app_nil_r. split; [reflexivity|constructor].
    - destruct (take_step ts i) as [[a ts']|] eqn:E; [|apply IH; exact H].
      destruct (take_step_read_only ts i a ts' H E) as [Ha Hts'].
      pose proof (Ha s) as Hs. destruct (a s) as [s' o] eqn:Ea. cbn [fst] in Hs. subst s'.
      destruct (IH ts' s (trace ++ [(i, o)]) Hts') as [outs [Ho Hf]].
      exists ((i, o) :: outs). split; [rewrite Ho, <- app_assoc; reflexivity|].
      constructor; [|exact Hf]. exists a. split; [exact Ha|]. rewrite Ea. reflexivity.
  Qed.
End Threads.
