(* SliceParse.v — the slice step [start:end] / [start:end:step] (each bound possibly omitted, possibly signed)
   through the regenerated grammar: bracketNode -> qualifier -> union -> index -> slice -> anyIndex / sepSlice. *)
From JP Require Import Peg Grammar Text Tree Actions PegFacts PegMono PegEv FuelRules ParseFacts KeyDefs KeyParse IdxParse.
From Coq Require Import Lia.
Local Open Scope N_scope.
Open Scope list_scope.

(* a number as indexNumber reads it: an optional sign, then digits *)
Definition num_wf (t : list N) : bool :=
  match t with
  | c :: r => if (c =? 45) || (c =? 43) then (match r with [] => false | _ :: _ => forallb is_digit r end) else forallb is_digit t
  | [] => false
  end.
(* a slice bound: omitted or a number *)
Definition bound_wf (t : list N) : bool := match t with [] => true | _ :: _ => num_wf t end.
(* characters that end a bound: the colon and the closing bracket *)
Definition stopc (x : N) : Prop := x = 58 \/ x = 93 \/ x = 44.
(* what follows a whole subscript: the closing bracket, or the comma of a union *)
Definition endc (x : N) : Prop := x = 93 \/ x = 44.
Lemma endc_stopc x : endc x -> stopc x.
Proof. intros [-> | ->]; [right; left|right; right]; reflexivity. Qed.
Lemma stopc_not_digit x : stopc x -> in_ranges x [(48, 57)] = false.
Proof. intros [-> | [-> | ->]]; reflexivity. Qed.
Lemma stopc_not_sign x : stopc x -> in_ranges x [(45, 45); (43, 43)] = false.
Proof. intros [-> | [-> | ->]]; reflexivity. Qed.

Lemma ev_digits_stop ds x rest pos : forallb is_digit ds = true -> stopc x ->
  evG (PStar (PCls false [(48, 57)])) (ds ++ x :: rest) pos (POk (x :: rest) (pos + List.length ds) []).
Proof.
  intros Hd Hx. revert pos. induction ds as [|d ds IH]; intros pos.
  - cbn [app List.length]. eapply ev_conv; [apply ev_star_stop; apply ev_cls_fail; rewrite (stopc_not_digit x Hx); reflexivity|f_equal; lia].
  - cbn [forallb] in Hd. apply andb_true_iff in Hd. destruct Hd as [H1 H2]. cbn [app List.length].
    assert (E : evG (PCls false [(48, 57)]) (d :: ds ++ x :: rest) pos (POk (ds ++ x :: rest) (S pos) [])).
    { apply ev_cls_ok. rewrite digit_in, H1. reflexivity. }
    pose proof (ev_star_step G _ _ _ _ _ _ _ _ _ E ltac:(lia) (IH H2 (S pos))) as E2.
    eapply ev_conv; [exact E2|]. f_equal. lia.
Qed.
Lemma ev_digits_plus d ds x rest pos : forallb is_digit (d :: ds) = true -> stopc x ->
  evG (PPlus (PCls false [(48, 57)])) ((d :: ds) ++ x :: rest) pos (POk (x :: rest) (pos + List.length (d :: ds)) []).
Proof.
  intros Hd Hx. cbn [forallb] in Hd. apply andb_true_iff in Hd. destruct Hd as [H1 H2]. cbn [app List.length].
  assert (E : evG (PCls false [(48, 57)]) (d :: ds ++ x :: rest) pos (POk (ds ++ x :: rest) (S pos) [])).
  { apply ev_cls_ok. rewrite digit_in, H1. reflexivity. }
  pose proof (ev_plus G _ _ _ _ _ _ _ _ _ E ltac:(lia) (ev_digits_stop ds x rest (S pos) H2 Hx)) as E2.
  eapply ev_conv; [exact E2|]. f_equal. lia.
Qed.

(* indexNumber on a well-formed number, up to the stop character *)
Lemma ev_rule27_num t x rest pos : num_wf t = true -> stopc x ->
  evG (PRef 27) (t ++ x :: rest) pos (POk (x :: rest) (pos + List.length t) []).
Proof.
  intros Ht Hx. destruct t as [|c r]; [discriminate Ht|]. cbn [num_wf] in Ht. eapply ev_ref; [reflexivity|].
  destruct ((c =? 45) || (c =? 43)) eqn:Es.
  - destruct r as [|d ds]; [discriminate Ht|].
    assert (Hin : in_ranges c [(45, 45); (43, 43)] = true).
    { apply orb_true_iff in Es. destruct Es as [E|E]; apply N.eqb_eq in E; subst c; reflexivity. }
    eapply ev_conv.
    + eapply ev_seq_ok; [apply ev_opt_some; apply ev_cls_ok; rewrite Hin; reflexivity| |reflexivity].
      cbn [app]. apply (ev_digits_plus d ds x rest (S pos) Ht Hx).
    + f_equal. cbn [List.length]. lia.
  - assert (Hc : is_digit c = true) by (cbn [forallb] in Ht; apply andb_true_iff in Ht; tauto).
    eapply ev_seq_ok; [apply ev_opt_none; apply ev_cls_fail; rewrite (digit_not_sign c Hc); reflexivity| |reflexivity].
    apply (ev_digits_plus c r x rest pos Ht Hx).
Qed.
(* ... and it fails on the stop character itself (an omitted bound) *)
Lemma ev_rule27_omitted x rest pos : stopc x -> evG (PRef 27) (x :: rest) pos PFail.
Proof.
  intros Hx. eapply ev_ref; [reflexivity|].
  eapply ev_seq_fail2; [apply ev_opt_none; apply ev_cls_fail; rewrite (stopc_not_sign x Hx); reflexivity|].
  apply ev_plus_fail. apply ev_cls_fail. rewrite (stopc_not_digit x Hx). reflexivity.
Qed.

(* anyIndex: a bound, omitted or not *)
Lemma ev_rule26 t x rest pos : bound_wf t = true -> stopc x ->
  evG (PRef 26) (t ++ x :: rest) pos (POk (x :: rest) (pos + List.length t) [TText pos (pos + List.length t); TAct 21]).
Proof.
  intros Ht Hx. eapply ev_ref; [reflexivity|]. destruct t as [|c r].
  - cbn [app List.length]. eapply ev_conv.
    + eapply ev_seq_ok; [apply ev_cap; apply ev_opt_none; apply ev_rule27_omitted; exact Hx|apply ev_act|reflexivity].
    + cbn [app]. rewrite Nat.add_0_r. reflexivity.
  - eapply ev_conv.
    + eapply ev_seq_ok; [apply ev_cap; apply ev_opt_some; apply (ev_rule27_num (c :: r) x rest pos Ht Hx)|apply ev_act|reflexivity].
    + cbn [app]. reflexivity.
Qed.

(* the first character after a colon: not a blank *)
Definition bound_head_ok (t : list N) (x : N) : Prop := match t with c :: _ => c <> 32 | [] => x <> 32 end.
Lemma num_head t : num_wf t = true -> match t with c :: _ => c <> 32 | [] => True end.
Proof.
  destruct t as [|c r]; [trivial|]. cbn [num_wf]. destruct ((c =? 45) || (c =? 43)) eqn:Es; intros H.
  - apply orb_true_iff in Es. destruct Es as [E|E]; apply N.eqb_eq in E; subst c; discriminate.
  - cbn [forallb] in H. apply andb_true_iff in H. destruct H as [H _]. destruct (digit_bounds c H). lia.
Qed.

(* sepSlice: the colon (no blanks are written) *)
Lemma ev_rule29 c r pos : c <> 32 -> evG (PRef 29) (58 :: c :: r) pos (POk (c :: r) (S pos) []).
Proof.
  intros Hc. eapply ev_ref; [reflexivity|]. eapply ev_conv.
  - eapply ev_seq_ok; [apply ev_space_stop; discriminate| |reflexivity].
    eapply ev_seq_ok; [apply (ev_lit_ok G [58]); apply strip1_ok|apply ev_space_stop; exact Hc|reflexivity].
  - cbn [List.length app]. f_equal. lia.
Qed.
Lemma ev_rule29_fail x rest pos : endc x -> evG (PRef 29) (x :: rest) pos PFail.
Proof.
  intros Hx. eapply ev_ref; [reflexivity|]. eapply ev_seq_fail2; [apply ev_space_stop; destruct Hx as [-> | ->]; discriminate|].
  apply ev_seq_fail. apply (ev_lit_fail G [58]). apply strip1_no. destruct Hx as [-> | ->]; discriminate.
Qed.

Lemma ev_rule29_app t x rest pos : bound_wf t = true -> x <> 32 ->
  evG (PRef 29) (58 :: t ++ x :: rest) pos (POk (t ++ x :: rest) (S pos) []).
Proof.
  intros Ht Hx. destruct t as [|c r]; cbn [app]; [apply ev_rule29; exact Hx|].
  apply ev_rule29. exact (num_head (c :: r) Ht).
Qed.

Definition slice_tokens (p : nat) (a b : list N) (c : option (list N)) : list token :=
  let pa := (p + List.length a)%nat in
  let pb := (pa + 1 + List.length b)%nat in
  [TText p pa; TAct 21; TText (pa + 1) pb; TAct 21] ++
  match c with
  | Some t => [TText (pb + 1) (pb + 1 + List.length t); TAct 21]
  | None => [TAct 20]
  end.
Definition slice_ok (a b : list N) (c : option (list N)) : bool :=
  bound_wf a && bound_wf b && match c with Some t => bound_wf t | None => true end.
Lemma slice_body_len a b c : List.length (slice_body a b c) =
  (List.length a + 1 + List.length b + match c with Some t => 1 + List.length t | None => 0 end)%nat.
Proof. unfold slice_body. rewrite app_length. cbn [List.length]. rewrite app_length. destruct c; cbn [List.length]; lia. Qed.

(* slice *)
Lemma ev_rule25 a b c x rest pos : slice_ok a b c = true -> endc x ->
  evG (PRef 25) (slice_body a b c ++ x :: rest) pos
      (POk (x :: rest) (pos + List.length (slice_body a b c)) (slice_tokens pos a b c)).
Proof.
  intros Hok Hx. assert (Hx32 : x <> 32) by (destruct Hx as [-> | ->]; discriminate). pose proof (endc_stopc x Hx) as Hxs. unfold slice_ok in Hok. apply andb_true_iff in Hok. destruct Hok as [Hab Hc]. apply andb_true_iff in Hab. destruct Hab as [Ha Hb].
  rewrite slice_body_len. unfold slice_body, slice_tokens. eapply ev_ref; [reflexivity|]. rewrite <- app_assoc. cbn [app].
  destruct c as [t|].
  - rewrite <- app_assoc. cbn [app]. eapply ev_conv.
    + eapply ev_seq_ok; [apply (ev_rule26 a 58 _ pos Ha); left; reflexivity| |reflexivity].
      eapply ev_seq_ok; [apply (ev_rule29_app b 58 _ _ Hb); discriminate| |reflexivity].
      eapply ev_seq_ok; [apply (ev_rule26 b 58 _ _ Hb); left; reflexivity| |reflexivity].
      apply ev_alt_l.
      eapply ev_seq_ok; [apply (ev_rule29_app t x rest _ Hc); exact Hx32| |reflexivity].
      apply (ev_rule26 t x rest _ Hc). exact Hxs.
    + cbn [app]. f_equal; [lia|]. repeat (f_equal; try lia).
  - cbn [app]. rewrite app_nil_r. eapply ev_conv.
    + eapply ev_seq_ok; [apply (ev_rule26 a 58 _ pos Ha); left; reflexivity| |reflexivity].
      eapply ev_seq_ok; [apply (ev_rule29_app b x rest _ Hb); exact Hx32| |reflexivity].
      eapply ev_seq_ok; [apply (ev_rule26 b x rest _ Hb); exact Hxs| |reflexivity].
      apply ev_alt_r; [apply ev_seq_fail; apply ev_rule29_fail; exact Hx|].
      eapply ev_seq_ok; [apply ev_space_stop; exact Hx32|apply ev_act|reflexivity].
    + cbn [app]. f_equal; [lia|]. repeat (f_equal; try lia).
Qed.

Lemma ev_rule15_fail_gen c r pos : c <> 42 -> c <> 39 -> c <> 34 -> evG (PRef 15) (c :: r) pos PFail.
Proof.
  intros H42 H39 H34. eapply ev_ref; [reflexivity|]. apply ev_seq_fail. eapply ev_ref; [reflexivity|].
  apply ev_alt_r; [eapply ev_ref; [reflexivity|]; apply ev_seq_fail; apply (ev_lit_fail G [42]); apply strip1_no; exact H42|].
  apply ev_alt_r.
  - eapply ev_ref; [exact rule18_shape|]. apply ev_seq_fail. apply (ev_lit_fail G [39]). apply strip1_no. exact H39.
  - eapply ev_ref; [exact rule19_shape|]. apply ev_seq_fail. apply (ev_lit_fail G [34]). apply strip1_no. exact H34.
Qed.

(* the first character of a slice body: a sign, a digit or the colon *)
Lemma slice_head a b c rest : bound_wf a = true ->
  exists x r, slice_body a b c ++ 93 :: rest = x :: r /\ x <> 32 /\ x <> 42 /\ x <> 39 /\ x <> 34.
Proof.
  intros Ha. unfold slice_body. destruct a as [|c0 r0].
  - cbn [app]. eexists _, _. split; [reflexivity|]. repeat split; discriminate.
  - cbn [app]. eexists _, _. split; [reflexivity|]. cbn [bound_wf num_wf] in Ha.
    destruct ((c0 =? 45) || (c0 =? 43)) eqn:Es.
    + apply orb_true_iff in Es. destruct Es as [E|E]; apply N.eqb_eq in E; subst c0; repeat split; discriminate.
    + cbn [forallb] in Ha. apply andb_true_iff in Ha. destruct Ha as [Hd _]. destruct (digit_bounds c0 Hd). repeat split; lia.
Qed.

Definition slice_step_tokens (p : nat) (a b : list N) (c : option (list N)) : list token :=
  slice_tokens (p + 1) a b c ++ [TAct 16; TAct 19; TText p (p + List.length (slice_body a b c) + 2); TAct 7].

(* bracketNode on [ slice ] *)
Lemma ev_rule10_slice a b c rest pos : slice_ok a b c = true ->
  evG (PRef 10) (91 :: slice_body a b c ++ 93 :: rest) pos
      (POk rest (pos + List.length (slice_body a b c) + 2)%nat (slice_step_tokens pos a b c)).
Proof.
  intros Hok. assert (Ha : bound_wf a = true) by (unfold slice_ok in Hok; apply andb_true_iff in Hok; destruct Hok as [H _]; apply andb_true_iff in H; tauto).
  destruct (slice_head a b c rest Ha) as (x & r & Hx & H32 & H42 & H39 & H34).
  unfold slice_step_tokens. eapply ev_conv.
  - eapply ev_ref; [reflexivity|].
    eapply ev_seq_ok; [apply ev_cap| apply ev_act |reflexivity].
    eapply ev_seq_ok; [| |reflexivity].
    + eapply ev_ref; [reflexivity|]. eapply ev_seq_ok; [apply (ev_lit_ok G [91]); apply strip1_ok| |reflexivity].
      rewrite Hx. apply ev_space_stop. exact H32.
    + eapply ev_seq_ok; [| |reflexivity].
      * apply ev_alt_r; [apply ev_rule15_fail_gen; assumption|]. rewrite <- Hx.
        eapply ev_ref; [reflexivity|]. apply ev_alt_l.
        eapply ev_ref; [reflexivity|].
        eapply ev_seq_ok; [| |reflexivity].
        -- eapply ev_ref; [reflexivity|].
           eapply ev_seq_ok; [|apply ev_act|reflexivity].
           apply ev_alt_l. eapply ev_seq_ok; [apply (ev_rule25 a b c 93 rest _ Hok); left; reflexivity|apply ev_act|reflexivity].
        -- eapply ev_seq_ok; [apply ev_star_stop| |reflexivity].
           ++ apply ev_seq_fail. apply ev_sep_fail; discriminate.
           ++ apply ev_not_ok. apply ev_sep_fail; discriminate.
      * eapply ev_ref; [reflexivity|]. eapply ev_seq_ok; [apply ev_space_stop; discriminate| |reflexivity].
        apply (ev_lit_ok G [93]). apply strip1_ok.
  - set (L := List.length (slice_body a b c)). cbn [List.length app]. rewrite !app_nil_r, <- !app_assoc. cbn [app].
    replace (pos + 1 + L + 1)%nat with (pos + L + 2)%nat by lia. reflexivity.
Qed.
Lemma ev_rule7_slice a b c rest pos : slice_ok a b c = true ->
  evG (PRef 7) (91 :: slice_body a b c ++ 93 :: rest) pos
      (POk rest (pos + List.length (slice_body a b c) + 2)%nat (slice_step_tokens pos a b c)).
Proof.
  intros Hok. eapply ev_ref; [reflexivity|].
  apply ev_alt_r; [apply ev_seq_fail; apply (ev_lit_fail G [46; 46]); apply strip2_no; discriminate|].
  apply ev_alt_r; [apply ev_seq_fail; apply ev_cap_fail; apply ev_seq_fail; apply (ev_lit_fail G [46]); apply strip1_no; discriminate|].
  apply ev_rule10_slice. exact Hok.
Qed.
