(* AccFilt.v — accessors of paths with filters, from the path text (C13): in accessor mode EVERY result of a path of steps and
   filters is a settable accessor whose location is a location of the document holding exactly the returned value (the
   locations are those nav_allf walks), and the lens laws hold there: a value written is read back and nothing at a disjoint
   location changes. *)
From JP Require Import Peg Grammar Slice Text Tree Actions Json Eval WF Spec StackRules EvalInv1 EvalInv3 EvalInv4 EvalTop EndToEnd KeyDefs ChainParse ChainAddr FunParse FiltParse CmpParse QueryParse FiltChain FiltAddr CmpAddr QueryAddr FiltChainAddr.
Open Scope list_scope.

Section AccFilt.
  Variable cfg : config.
  Variable parse_float : string -> option num.
  Variable regex_ok : string -> bool.
  Variable ffun : string -> value -> option value.
  Variable afun : string -> list value -> option value.
  Variable regex_match : string -> string -> bool.
  Hypothesis ffun_small : forall f v w, small v -> ffun f v = Some w -> small w.
  Hypothesis afun_small : forall f l w, Forall small l -> afun f l = Some w -> small w.
  Hypothesis acc_on : cfg_accessor cfg = true.
  Notation parse := (parse_with cfg parse_float regex_ok jsonpath_grammar).
  Notation eval_run := (eval_run ffun afun regex_match).
  Notation nav_allf := (nav_allf parse_float regex_match).

  Definition location_of (doc : value) (lv : list pstep * value) : Prop :=
    get_loc doc (fst lv) = Some (snd lv) /\
    (forall w, get_loc (set_loc doc (fst lv) w) (fst lv) = Some w) /\
    (forall w q, disjoint (fst lv) q -> get_loc (set_loc doc (fst lv) w) q = get_loc doc q).

  Theorem filter_path_accessors x r doc st :
    forallb fstep_ok (x :: r) = true -> forallb (fstep_okp parse_float regex_ok) (x :: r) = true -> small doc -> ok st ->
    exists t, parse (fchain_path (x :: r)) = ParseOk t /\
              match nav_allf doc (x :: r) ([], doc) with
              | [] => exists e, fst (eval_run t doc st) = OErr e
              | l => fst (eval_run t doc st) = OOk (map (fun lv => RAcc true (Some (fst lv)) (snd lv)) l) /\ Forall (location_of doc) l
              end.
  Proof.
    intros Hs Hp Hd Hok.
    destruct (fchain_retrieval cfg parse_float regex_ok ffun afun regex_match ffun_small afun_small x r doc st Hs Hp Hd Hok) as (t & Ht & H).
    exists t. split; [exact Ht|].
    destruct (nav_allf doc (x :: r) ([], doc)) as [|a l]; [exact H|].
    assert (E : map (loc_result cfg) (a :: l) = map (fun lv => RAcc true (Some (fst lv)) (snd lv)) (a :: l)).
    { apply map_ext. intros lv. unfold loc_result. rewrite acc_on. reflexivity. }
    rewrite E in H. split; [exact H|].
    pose proof (parse_builds_wf cfg parse_float regex_ok (fchain_path (x :: r)) t Ht) as Hwf.
    pose proof (eval_run_spec ffun afun regex_match ffun_small afun_small t doc st Hwf Hd Hok) as Hspec.
    destruct (eval_run t doc st) as [o st']. cbn [fst] in H. subst o.
    destruct Hspec as [_ [[rs' [Heq [_ Hloc]]]|[e He]]]; [|discriminate].
    inversion Heq; subst rs'. rewrite Forall_forall in Hloc.
    apply Forall_forall. intros lv Hin.
    assert (Hg : get_loc doc (fst lv) = Some (snd lv)).
    { exact (proj1 (Hloc (RAcc true (Some (fst lv)) (snd lv)) (in_map (fun lv0 => RAcc true (Some (fst lv0)) (snd lv0)) _ lv Hin))). }
    split; [exact Hg|]. split.
    - intros w. apply get_set_same. rewrite Hg. discriminate.
    - intros w q Hdis. apply get_set_other. exact Hdis.
  Qed.
End AccFilt.

(* the two modes, from the text: the same path parsed with accessor mode off and on returns, value for value, the same results —
   plain in one, wrapped with their locations in the other — or fails in both *)
Section ModesText.
  Variable cfgP cfgA : config.
  Variable parse_float : string -> option num.
  Variable regex_ok : string -> bool.
  Variable ffun : string -> value -> option value.
  Variable afun : string -> list value -> option value.
  Variable regex_match : string -> string -> bool.
  Hypothesis ffun_small : forall f v w, small v -> ffun f v = Some w -> small w.
  Hypothesis afun_small : forall f l w, Forall small l -> afun f l = Some w -> small w.
  Hypothesis plain_off : cfg_accessor cfgP = false.
  Hypothesis acc_on : cfg_accessor cfgA = true.
  Notation eval_run := (eval_run ffun afun regex_match).

  Theorem modes_agree_from_text x r doc st st' :
    forallb fstep_ok (x :: r) = true -> forallb (fstep_okp parse_float regex_ok) (x :: r) = true -> small doc -> ok st -> ok st' ->
    exists tP tA, parse_with cfgP parse_float regex_ok jsonpath_grammar (fchain_path (x :: r)) = ParseOk tP /\
                  parse_with cfgA parse_float regex_ok jsonpath_grammar (fchain_path (x :: r)) = ParseOk tA /\
      match nav_allf parse_float regex_match doc (x :: r) ([], doc) with
      | [] => (exists e, fst (eval_run tP doc st) = OErr e) /\ (exists e, fst (eval_run tA doc st') = OErr e)
      | l => fst (eval_run tP doc st) = OOk (map (fun lv => RVal (snd lv)) l) /\
             fst (eval_run tA doc st') = OOk (map (fun lv => RAcc true (Some (fst lv)) (snd lv)) l)
      end.
  Proof.
    intros Hs Hp Hd Hok Hok'.
    destruct (fchain_retrieval cfgP parse_float regex_ok ffun afun regex_match ffun_small afun_small x r doc st Hs Hp Hd Hok) as (tP & HtP & HP).
    destruct (fchain_retrieval cfgA parse_float regex_ok ffun afun regex_match ffun_small afun_small x r doc st' Hs Hp Hd Hok') as (tA & HtA & HA).
    exists tP, tA. split; [exact HtP|]. split; [exact HtA|].
    destruct (nav_allf parse_float regex_match doc (x :: r) ([], doc)) as [|a l]; [split; assumption|].
    split.
    - rewrite HP. f_equal. apply map_ext. intros lv. unfold loc_result. rewrite plain_off. reflexivity.
    - rewrite HA. f_equal. apply map_ext. intros lv. unfold loc_result. rewrite acc_on. reflexivity.
  Qed.
End ModesText.

(* two more consequences, from the text: a retrieval never succeeds with an empty result and never panics (C03), and what a
   parsed function returns does not depend on the history of calls it starts from (C05: any two admissible histories) *)
Section OutcomeText.
  Variable cfg : config.
  Variable parse_float : string -> option num.
  Variable regex_ok : string -> bool.
  Variable ffun : string -> value -> option value.
  Variable afun : string -> list value -> option value.
  Variable regex_match : string -> string -> bool.
  Hypothesis ffun_small : forall f v w, small v -> ffun f v = Some w -> small w.
  Hypothesis afun_small : forall f l w, Forall small l -> afun f l = Some w -> small w.
  Notation eval_run := (eval_run ffun afun regex_match).

  Theorem outcome_from_text x r doc st :
    forallb fstep_ok (x :: r) = true -> forallb (fstep_okp parse_float regex_ok) (x :: r) = true -> small doc -> ok st ->
    exists t, parse_with cfg parse_float regex_ok jsonpath_grammar (fchain_path (x :: r)) = ParseOk t /\
              ((exists a l, fst (eval_run t doc st) = OOk (a :: l)) \/ (exists e, fst (eval_run t doc st) = OErr e)).
  Proof.
    intros Hs Hp Hd Hok.
    destruct (fchain_retrieval cfg parse_float regex_ok ffun afun regex_match ffun_small afun_small x r doc st Hs Hp Hd Hok) as (t & Ht & H).
    exists t. split; [exact Ht|].
    destruct (nav_allf parse_float regex_match doc (x :: r) ([], doc)) as [|a l]; [right; exact H|].
    left. cbn [map] in H. eexists _, _. exact H.
  Qed.

  Theorem history_independent_from_text x r doc st st' :
    forallb fstep_ok (x :: r) = true -> forallb (fstep_okp parse_float regex_ok) (x :: r) = true -> small doc -> ok st -> ok st' ->
    exists t, parse_with cfg parse_float regex_ok jsonpath_grammar (fchain_path (x :: r)) = ParseOk t /\
              match fst (eval_run t doc st) with
              | OOk rs => fst (eval_run t doc st') = OOk rs
              | OErr _ => exists e, fst (eval_run t doc st') = OErr e
              | OPanic _ => False
              end.
  Proof.
    intros Hs Hp Hd Hok Hok'.
    destruct (fchain_retrieval cfg parse_float regex_ok ffun afun regex_match ffun_small afun_small x r doc st Hs Hp Hd Hok) as (t & Ht & H).
    destruct (fchain_retrieval cfg parse_float regex_ok ffun afun regex_match ffun_small afun_small x r doc st' Hs Hp Hd Hok') as (t' & Ht' & H').
    rewrite Ht in Ht'. inversion Ht'; subst t'.
    exists t. split; [exact Ht|].
    destruct (nav_allf parse_float regex_match doc (x :: r) ([], doc)) as [|a l].
    - destruct H as [e He]. rewrite He. exact H'.
    - rewrite H. exact H'.
  Qed.
End OutcomeText.
