(* RefineTop.v — the refinement theorem for whole calls: Eval.eval_run returns exactly what the
   specification selects, and fails exactly when the specification selects nothing. *)
From JP Require Import Eval WF Verdict Spec EvalInv1 EvalInv3 EvalInv4 EvalTop Refine1 Refine2.
From Coq Require Import Lia.
Open Scope list_scope.

Section RT.
  Variable ffun : string -> value -> option value.
  Variable afun : string -> list value -> option value.
  Variable regex_match : string -> string -> bool.
  Hypothesis ffun_small : forall f v w, small v -> ffun f v = Some w -> small w.
  Hypothesis afun_small : forall f l w, Forall small l -> afun f l = Some w -> small w.

  Theorem eval_refines_spec t doc st :
    wf_node t = true -> small doc -> ok st ->
    let o := fst (eval_run ffun afun regex_match t doc st) in
    let s := spec_results ffun afun regex_match t doc in
    (s <> [] /\ o = OOk s) \/ (s = [] /\ exists e, o = OErr e).
  Proof.
    intros Hwf Hs Hok. unfold Eval.eval_run, spec_results.
    destruct (refinement ffun afun regex_match ffun_small afun_small) as [HQ _].
    pose proof (HQ t Hwf doc (Some [], doc) Hs (cur_ok_root doc Hs) [] st Hok) as Heq.
    pose proof (A_node ffun afun regex_match ffun_small afun_small t doc (Some [], doc) Hwf Hs (cur_ok_root doc Hs) [] st Hok) as Hp.
    unfold post in Hp.
    destruct (Eval.retrieve ffun afun regex_match t doc (Some [], doc) [] st) as [[c e] st']. cbn [fst app] in Heq.
    destruct Hp as [Hfr [r [Hc [He1 [He2 _]]]]]. cbn [app] in Hc. subst r.
    assert (Hpn : panicked st' = None) by (destruct Hfr as (_ & _ & _ & F4 & _); destruct Hok as [_ Hp]; congruence).
    rewrite Hpn. cbv zeta. rewrite <- Heq.
    destruct e as [err|]; cbn [fst].
    - right. split; [apply He1; discriminate|]. exists err. reflexivity.
    - left. split; [apply He2; reflexivity|reflexivity].
  Qed.
End RT.
