(* SpecCalls.v — the global call log of a retrieval (C14): for well-formed trees whose filters contain
   no user function, the calls the evaluator model makes are exactly, in order, the calls the
   specification prescribes (CallDefs.sc). *)
From JP Require Import Eval WF Verdict VerdictCompute Spec CallDefs SliceProofs EvalInv1 EvalInv2 EvalInv3 EvalInv4 Refine1 Refine2.
From Coq Require Import Lia.
Open Scope string_scope.
Open Scope list_scope.

(* ---------- functions that never touch the call log ---------- *)
Lemma calls_set_panic s st : calls (set_panic s st) = calls st.
Proof. unfold set_panic. destruct (panicked st); reflexivity. Qed.
Lemma calls_commit lv l ws st : calls (snd (commit lv l ws st)) = calls st.
Proof. destruct lv; cbn [commit snd]; try reflexivity; destruct ws; reflexivity. Qed.
Lemma calls_validate c lv st : calls (snd (validate c lv st)) = calls st.
Proof.
  unfold validate. destruct (validator_of c); [|reflexivity].
  destruct (rewrite_list _ _ _) as [l' ws]. pose proof (calls_commit lv l' ws st) as H.
  destruct (commit lv l' ws st) as [lv' st']. exact H.
Qed.
Lemma calls_comparator_run rm c left right st : calls (snd (comparator_run rm c left right st)) = calls st.
Proof.
  unfold comparator_run. destruct (cmp_list rm c right (lget st left) 0) as [[[l' ws] hv] pn].
  pose proof (calls_commit left l' ws st) as H. destruct (commit left l' ws st) as [lv' st']. cbn [snd] in *.
  destruct pn; [rewrite calls_set_panic|]; exact H.
Qed.

Section K.
  Variable ffun : string -> value -> option value.
  Variable afun : string -> list value -> option value.
  Variable regex_match : string -> string -> bool.
  Hypothesis ffun_small : forall f v w, small v -> ffun f v = Some w -> small w.
  Hypothesis afun_small : forall f l w, Forall small l -> afun f l = Some w -> small w.
  Notation retrieve := (retrieve ffun afun regex_match).
  Notation retrieve_ids := (retrieve_ids ffun afun regex_match).
  Notation compute := (compute ffun afun regex_match).
  Notation compute_p := (compute_p ffun afun regex_match).
  Notation sp := (sp ffun afun regex_match).
  Notation holds := (holds ffun afun regex_match).
  Notation sc := (sc ffun afun regex_match).
  Notation sc_ids := (sc_ids ffun afun regex_match).
  Notation fwd := (fwd ffun afun regex_match).
  Notation map_next := (map_next ffun afun regex_match).
  Notation list_next := (list_next ffun afun regex_match).

  (* ---------- closures of sc ---------- *)
  Definition cfwd (next : onode) (root : value) (cur' : cursor) : list call :=
    match next with OSome nx => sc nx root cur' | ONone => [] end.
  Definition ckey next root (cur : cursor) (m : list (string * value)) (key : string) : list call :=
    match lookup m key with Some v => cfwd next root (ext_loc (fst cur) (PKey key), v) | None => [] end.
  Definition cidx next root (cur : cursor) (iv : Z * value) : list call :=
    cfwd next root (ext_loc (fst cur) (PIdx (fst iv)), snd iv).

  Lemma sc_unfold k b next root cur :
    sc (Node k b next) root cur =
    match k with
    | KRoot => cfwd next root (Some [], root)
    | KCurrent => cfwd next root cur
    | KSingle key => match snd cur with VObj m => ckey next root cur m key | _ => [] end
    | KWild =>
        match snd cur with
        | VObj m => flat_map (ckey next root cur m) (sorted_keys m)
        | VArr xs => flat_map (cidx next root cur) (index_list xs 0)
        | _ => []
        end
    | KMulti ids allWild uq =>
        match snd cur, allWild with
        | VArr _, true => match uq with OSome u => sc u root cur | ONone => [] end
        | VObj m, _ => sc_ids ids root cur
        | _, _ => []
        end
    | KRec mapReq listReq =>
        match next with
        | ONone => []
        | OSome nx =>
            flat_map (fun cu => match snd cu with
                                | VObj _ => if mapReq then sc nx root cu else []
                                | VArr _ => if listReq then sc nx root cu else []
                                | _ => []
                                end) (containers (fst cur) (snd cur))
        end
    | KUnion subs =>
        match snd cur with
        | VArr xs =>
            flat_map (fun sub =>
              match get_indexes sub (Z.of_nat (List.length xs)) with
              | IOk idxs => flat_map (fun i => match nth_value xs i with Some v => cidx next root cur (i, v) | None => [] end) idxs
              | IPanic => []
              end) subs
        | _ => []
        end
    | KFilter q =>
        match snd cur with
        | VObj m =>
            let keys := sorted_keys m in
            let vals := flat_map (fun k => match lookup m k with Some v => [v] | None => [] end) keys in
            flat_map (fun kb : string * bool => if snd kb then ckey next root cur m (fst kb) else []) (combine keys (holds q root vals))
        | VArr xs =>
            flat_map (fun ib : (Z * value) * bool => if snd ib then cidx next root cur (fst ib) else []) (combine (index_list xs 0) (holds q root xs))
        | _ => []
        end
    | KFFun f => CallF f (snd cur) :: match ffun f (snd cur) with Some v => cfwd next root (None, v) | None => [] end
    | KAgg f param =>
        sc param root cur ++
        match sp param root cur with
        | [] => []
        | _ :: _ =>
            let args := agg_args ffun afun regex_match param root cur in
            CallA f args :: match afun f args with Some v => cfwd next root (None, v) | None => [] end
        end
    end.
  Proof. destruct k; reflexivity. Qed.

  (* ---------- what a step adds to the call log ---------- *)
  Definition step_calls (f : cont -> estate -> rresult) (cs : list call) : Prop :=
    forall c st, ok st -> calls (snd (f c st)) = calls st ++ cs.
  Definition fo (o : onode) : bool := match o with OSome m => filters_call_free m | ONone => true end.

  Definition K_node (n : node) : Prop :=
    wf_node n = true -> filters_call_free n = true -> forall root cur, small root -> cur_ok root cur ->
    step_calls (retrieve n root cur) (sc n root cur).
  Definition K_onode (o : onode) : Prop := match o with OSome n => K_node n | ONone => True end.

  Lemma nil_calls (f : cont -> estate -> rresult) : (forall c st, calls (snd (f c st)) = calls st) -> step_calls f [].
  Proof. intros H c st _. rewrite H, app_nil_r. reflexivity. Qed.

  Lemma fwd_calls b next root settable cur' :
    K_onode next -> wf_onode next = true -> fo next = true -> small root -> cur_ok root cur' ->
    step_calls (fwd b next root settable cur') (cfwd next root cur').
  Proof.
    intros IH Hwf Hf Hr Hc c st Hok. unfold EvalInv3.fwd, cfwd. destruct next as [|nx].
    - cbn [snd]. rewrite app_nil_r. reflexivity.
    - apply (IH Hwf Hf root cur' Hr Hc c st Hok).
  Qed.
  Lemma map_next_calls b next root cur m key :
    K_onode next -> wf_onode next = true -> fo next = true -> small root -> cur_ok root cur -> snd cur = VObj m ->
    step_calls (map_next b next root cur m key) (ckey next root cur m key).
  Proof.
    intros IH Hwf Hf Hr Hc Hm c st Hok. unfold EvalInv3.map_next, ckey.
    destruct (lookup m key) as [v|] eqn:El; [|cbn [snd]; rewrite app_nil_r; reflexivity].
    apply fwd_calls; try assumption. apply cur_ok_ext; [exact Hc|]. rewrite Hm. exact El.
  Qed.
  Lemma list_next_calls b next root cur xs iv :
    K_onode next -> wf_onode next = true -> fo next = true -> small root -> cur_ok root cur -> snd cur = VArr xs ->
    step_into (VArr xs) (PIdx (fst iv)) = Some (snd iv) ->
    step_calls (list_next b next root cur iv) (cidx next root cur iv).
  Proof.
    intros IH Hwf Hf Hr Hc Hm Hs. unfold EvalInv3.list_next, cidx.
    apply fwd_calls; try assumption. apply cur_ok_ext; [exact Hc|]. rewrite Hm. exact Hs.
  Qed.

  (* ---------- loops ---------- *)
  Definition lst (s : lstate) : estate := snd s.
  Lemma loop_finish_st b s : snd (loop_finish b s) = lst s.
  Proof. destruct s as [[[c dl] de] st]. unfold loop_finish, lst. destruct c; reflexivity. Qed.
  Lemma loop_step_st out dl de : lst (loop_step out dl de) = snd out.
  Proof.
    destruct out as [[c e] st]. unfold loop_step, lst. destruct e as [r|]; [|reflexivity].
    destruct c; [|reflexivity]. destruct (add_deepest r dl de). reflexivity.
  Qed.

  Definition linv3 (root : value) (c0 : cont) (st0 : estate) (acc : list call) (s : lstate) : Prop :=
    linv root c0 st0 s /\ calls (lst s) = calls st0 ++ acc.

  Lemma linv3_step root c0 st0 acc s f cs :
    ok st0 -> linv3 root c0 st0 acc s -> step_ok' root f -> step_calls f cs ->
    linv3 root c0 st0 (acc ++ cs) (let '(c, dl, de, st) := s in loop_step (f c st) dl de).
  Proof.
    intros Hok [Hl Hc] Hf Hg. split; [apply linv_step'; assumption|].
    destruct s as [[[c dl] de] st]. rewrite loop_step_st.
    assert (Hok' : ok st) by (destruct Hl as [Hfr _]; eapply ok_frame; eassumption).
    rewrite (Hg c st Hok'). unfold lst in Hc. cbn [snd] in Hc. rewrite Hc, app_assoc. reflexivity.
  Qed.
  Lemma fold_linv3 {A} root c0 st0 (h : lstate -> A -> lstate) (g : A -> list call) (xs : list A) :
    (forall s x acc, In x xs -> linv3 root c0 st0 acc s -> linv3 root c0 st0 (acc ++ g x) (h s x)) ->
    forall s acc, linv3 root c0 st0 acc s -> linv3 root c0 st0 (acc ++ flat_map g xs) (fold_left h xs s).
  Proof.
    induction xs as [|x xs IH]; intros Hh s acc Hs; cbn [fold_left flat_map]; [rewrite app_nil_r; exact Hs|].
    rewrite app_assoc. apply IH; [intros s' y acc' Hy; apply Hh; right; exact Hy|].
    apply Hh; [left; reflexivity|exact Hs].
  Qed.
  Lemma linv3_init root c st : linv3 root c st [] (c, 0%nat, None, st).
  Proof. split; [apply linv_init|]. unfold lst. cbn. rewrite app_nil_r. reflexivity. Qed.

  Lemma run_loop_calls {A} root b (f : A -> cont -> estate -> rresult) (g : A -> list call) (xs : list A) :
    (forall x, In x xs -> step_ok' root (f x) /\ step_calls (f x) (g x)) ->
    step_calls (run_loop b f xs) (flat_map g xs).
  Proof.
    intros Hf c st Hok. unfold run_loop. rewrite loop_finish_st.
    pose proof (fold_linv3 root c st (fun s x => let '(c, dl, de, st) := s in loop_step (f x c st) dl de) g xs) as H.
    destruct (H (fun s x acc Hx Hs => linv3_step root c st acc s (f x) (g x) Hok Hs (proj1 (Hf x Hx)) (proj2 (Hf x Hx)))
                (c, 0%nat, None, st) [] (linv3_init root c st)) as [_ Hc].
    exact Hc.
  Qed.

  Lemma filter_loop_calls {A} root b (next_of : A -> cont -> estate -> rresult) (g : A -> list call)
        (members : list A) lv (hs : list bool) :
    (forall x, In x members -> step_ok root (next_of x) /\ step_calls (next_of x) (g x)) ->
    forall c st1, ok st1 -> vl_ok (List.length members) (lget st1 lv) ->
    List.length hs = List.length members ->
    (forall i, (i < List.length members)%nat -> den (List.length members) (lget st1 lv) i = nth i hs false) ->
    calls (snd (filter_loop b next_of members lv c st1)) =
    calls st1 ++ flat_map (fun xb : A * bool => if snd xb then g (fst xb) else []) (combine members hs).
  Proof.
    intros Hf c st1 Hok Hvl Hlen Hden. unfold filter_loop.
    set (n := List.length members) in *.
    set (vl := lget st1 lv) in *.
    set (is_each := Nat.eqb (List.length vl) n).
    assert (Hst2 : (match vl with [] => if is_each then st1 else set_panic "filter: valueList[0]" st1 | _ => st1 end) = st1).
    { destruct vl as [|x vl'] eqn:Evl; [|reflexivity]. unfold is_each. cbn [List.length].
      destruct Hvl as [H|H]; cbn [List.length] in H; [rewrite <- H; reflexivity|discriminate]. }
    rewrite Hst2.
    set (ws := if is_each then vl else map (fun _ => Some VNull) members).
    set (selb := fun w : entry => negb (is_each && isE w)).
    assert (Hws : List.length ws = n).
    { unfold ws, is_each. destruct (Nat.eqb (List.length vl) n) eqn:E; [apply Nat.eqb_eq; exact E|apply map_length]. }
    destruct (negb is_each && isE (hd_entry vl)) eqn:Eb.
    - cbn [snd]. apply andb_true_iff in Eb. destruct Eb as [Ee Eh]. apply negb_true_iff in Ee.
      assert (Hall : forall i, (i < n)%nat -> nth i hs false = false).
      { intros i Hi. rewrite <- Hden by exact Hi. unfold den. fold vl. fold is_each. rewrite Ee, Eh.
        cbn. apply andb_false_r. }
      assert (Hnil : flat_map (fun xb : A * bool => if snd xb then g (fst xb) else []) (combine members hs) = []).
      { clear - Hall Hlen. fold n in Hlen. revert hs Hlen Hall. subst n.
        induction members as [|x xs IH]; intros [|h hs] Hl Ha; cbn in *; try reflexivity; try discriminate.
        rewrite (Ha 0%nat ltac:(lia)). cbn. apply IH; [lia|]. intros i Hi. apply (Ha (S i)). lia. }
      rewrite Hnil, app_nil_r. reflexivity.
    - rewrite loop_finish_st.
      assert (Hsel : map selb ws = hs).
      { apply (nth_ext _ _ false false); [rewrite map_length; congruence|].
        intros i Hi. rewrite map_length, Hws in Hi.
        rewrite <- Hden by exact Hi.
        rewrite (nth_indep (map selb ws) false (selb (Some VNull))) by (rewrite map_length; lia).
        rewrite map_nth. unfold selb, den. fold vl. fold is_each.
        apply Nat.ltb_lt in Hi. rewrite Hi. cbn [andb]. unfold ws.
        destruct is_each eqn:Ei.
        + cbn [andb]. rewrite (nth_indep vl (Some VNull) None); [reflexivity|].
          apply Nat.ltb_lt in Hi. apply Nat.eqb_eq in Ei. lia.
        + cbn [andb negb] in *. rewrite Eb. reflexivity. }
      rewrite <- Hsel, combine_map_r, flat_map_map. cbn [fst snd].
      refine (proj2 (fold_linv3 root c st1 _ (fun xw : A * entry => if selb (snd xw) then g (fst xw) else []) (combine members ws) _
                                 (c, 0%nat, None, st1) [] (linv3_init root c st1))).
      intros s [x w] acc Hin Hs. destruct s as [[[c' dl] de] st']. cbn [fst snd]. unfold selb.
      destruct (is_each && isE w); cbn [negb].
      + rewrite app_nil_r. exact Hs.
      + apply in_combine_l in Hin.
        apply (linv3_step root c st1 acc (c', dl, de, st') (next_of x) (g x) Hok Hs).
        * apply step_ok_weaken. apply (proj1 (Hf x Hin)).
        * apply (proj2 (Hf x Hin)).
  Qed.

  (* ---------- call-free trees make no call ---------- *)
  Definition Z_node (n : node) : Prop := call_free n = true -> filters_call_free n = true /\ forall root cur, sc n root cur = [].
  Definition Z_onode (o : onode) : Prop := match o with OSome n => Z_node n | ONone => True end.
  Definition Z_nodes (ids : nodes) : Prop := call_free_ids ids = true -> filters_call_free_ids ids = true /\ forall root cur, sc_ids ids root cur = [].
  Definition Z_kind (k : kind) : Prop := match k with KMulti ids _ uq => Z_nodes ids /\ Z_onode uq | _ => True end.

  Lemma flat_map_nil {A B} (f : A -> list B) (l : list A) : (forall a, f a = []) -> flat_map f l = [].
  Proof. intros H. induction l as [|a l IH]; cbn; [reflexivity|]. rewrite H, IH. reflexivity. Qed.

  Lemma call_free_nocalls :
    (forall n, Z_node n) /\ (forall o, Z_onode o) /\ (forall k, Z_kind k) /\ (forall ns, Z_nodes ns) /\
    (forall q : query, True) /\ (forall cp : cparam, True) /\ (forall p : pquery, True).
  Proof.
    apply tree_mutind; try (intros; exact I).
    - intros k IHk b next IHn Hcf. cbn [call_free] in Hcf. apply andb_true_iff in Hcf. destruct Hcf as [Hk Hnx].
      assert (Hn : fo next = true /\ forall root cur', cfwd next root cur' = []).
      { destruct next as [|nx]; [split; reflexivity|]. destruct (IHn Hnx) as [A B]. split; [exact A|intros; apply B]. }
      destruct Hn as [Hfo Hcf0].
      assert (Hck : forall root cur m key, ckey next root cur m key = []) by (intros; unfold ckey; destruct (lookup m key); [apply Hcf0|reflexivity]).
      assert (Hci : forall root cur iv, cidx next root cur iv = []) by (intros; unfold cidx; apply Hcf0).
      split.
      + cbn [filters_call_free]. apply andb_true_iff. split; [|exact Hfo].
        destruct k as [| |key| |ids aw uq|mr lr|subs|q|f|f param]; try reflexivity; try discriminate.
        * destruct IHk as [IHids IHuq]. apply andb_true_iff in Hk. destruct Hk as [Hi Hu].
          apply andb_true_iff. split; [apply (IHids Hi)|]. destruct uq as [|u]; [reflexivity|apply (IHuq Hu)].
        * exact Hk.
      + intros root cur. rewrite sc_unfold.
        destruct k as [| |key| |ids aw uq|mr lr|subs|q|f|f param]; try discriminate.
        * apply Hcf0. * apply Hcf0.
        * destruct (snd cur); try reflexivity. apply Hck.
        * destruct (snd cur); try reflexivity; apply flat_map_nil; intros; [apply Hci|apply Hck].
        * destruct IHk as [IHids IHuq]. apply andb_true_iff in Hk. destruct Hk as [Hi Hu].
          destruct (snd cur); try (destruct aw; reflexivity).
          -- destruct aw; [|reflexivity]. destruct uq as [|u]; [reflexivity|apply (IHuq Hu)].
          -- assert (H : sc_ids ids root cur = []) by apply (IHids Hi). destruct aw; exact H.
        * destruct next as [|nx]; [reflexivity|]. apply flat_map_nil. intros cu.
          destruct (snd cu); try reflexivity; [destruct lr|destruct mr]; try reflexivity; apply (proj2 (IHn Hnx)).
        * destruct (snd cur); try reflexivity. apply flat_map_nil. intros sub.
          destruct (get_indexes sub _); [|reflexivity]. apply flat_map_nil. intros i. destruct (nth_value l i); [apply Hci|reflexivity].
        * destruct (snd cur); try reflexivity; cbv zeta; apply flat_map_nil; intros [x hb]; cbn [fst snd]; destruct hb; try reflexivity;
            [apply Hci|apply Hck].
    - intros n IH. exact IH.
    - intros ids IHids aw uq IHuq. split; assumption.
    - intros _. split; [reflexivity|intros; reflexivity].
    - intros id IHid rest IHrest Hcf. cbn [call_free_ids] in Hcf. apply andb_true_iff in Hcf. destruct Hcf as [H1 H2].
      destruct (IHid H1) as [A1 A2]. destruct (IHrest H2) as [B1 B2]. split.
      + cbn [filters_call_free_ids]. rewrite A1, B1. reflexivity.
      + intros root cur. change (sc_ids (NCons id rest) root cur) with (sc id root cur ++ sc_ids rest root cur).
        rewrite A2, B2. reflexivity.
  Qed.

  (* ---------- queries without user functions leave the call log alone ---------- *)
  Definition K_query (q : query) : Prop :=
    wf_query q = true -> call_free_q q = true -> forall root vals st, small root -> Forall small vals -> ok st ->
    calls (snd (compute q root vals st)) = calls st.
  Definition K_pquery (p : pquery) : Prop :=
    wf_pquery p = true -> call_free_p p = true -> forall root vals st, small root -> Forall small vals -> ok st ->
    calls (snd (compute_p p root vals st)) = calls st.
  Definition K_cparam (cp : cparam) : Prop := match cp with CP p _ => K_pquery p end.
  Definition K_nodes (ids : nodes) : Prop :=
    wf_nodes ids = true -> filters_call_free_ids ids = true ->
    forall m root cur c0 st0 s acc, small root -> cur_ok root cur -> snd cur = VObj m -> ok st0 ->
    linv3 root c0 st0 acc s -> linv3 root c0 st0 (acc ++ sc_ids ids root cur) (retrieve_ids ids m root cur s).
  Definition K_kind (k : kind) : Prop :=
    match k with
    | KMulti ids _ uq => K_nodes ids /\ K_onode uq
    | KFilter q => K_query q
    | KAgg _ param => K_node param
    | _ => True
    end.

  Lemma A_query' q root vals st : wf_query q = true -> small root -> Forall small vals -> ok st ->
    qpost (List.length vals) st (compute q root vals st).
  Proof. apply (A_query ffun afun regex_match ffun_small afun_small). Qed.

  Lemma kquery_and a b : K_query a -> K_query b -> K_query (QAnd a b).
  Proof.
    intros IHa IHb Hwf Hcf root vals st Hr Hv Hok.
    cbn [wf_query] in Hwf. apply andb_true_iff in Hwf. destruct Hwf as [Hwa Hwb].
    cbn [call_free_q] in Hcf. apply andb_true_iff in Hcf. destruct Hcf as [Hca Hcb].
    pose proof (IHa Hwa Hca root vals st Hr Hv Hok) as Ha. pose proof (A_query' a root vals st Hwa Hr Hv Hok) as Aa.
    destruct (compute a root vals st) as [L st1] eqn:Ea. destruct Aa as [Hf1 Hv1]. cbn [snd] in Ha.
    assert (Hok1 : ok st1) by (eapply ok_frame; eassumption).
    pose proof (IHb Hwb Hcb root vals st1 Hr Hv Hok1) as Hb. pose proof (A_query' b root vals st1 Hwb Hr Hv Hok1) as Ab.
    destruct (compute b root vals st1) as [R st2] eqn:Eb. destruct Ab as [Hf2 Hv2]. cbn [snd] in Hb.
    assert (Hok2 : ok st2) by (eapply ok_frame; eassumption).
    destruct (compute (QAnd a b) root vals st) as [X st3] eqn:Eab.
    destruct (compute_and ffun afun regex_match _ a b root vals st L st1 R st2 X st3 Ea Eb Eab (proj1 Hok1) (proj1 Hok2) Hv1 Hv2)
      as [_ [_ [->| ->]]]; cbn [snd]; congruence.
  Qed.
  Lemma kquery_or a b : K_query a -> K_query b -> K_query (QOr a b).
  Proof.
    intros IHa IHb Hwf Hcf root vals st Hr Hv Hok.
    cbn [wf_query] in Hwf. apply andb_true_iff in Hwf. destruct Hwf as [Hwa Hwb].
    cbn [call_free_q] in Hcf. apply andb_true_iff in Hcf. destruct Hcf as [Hca Hcb].
    pose proof (IHa Hwa Hca root vals st Hr Hv Hok) as Ha. pose proof (A_query' a root vals st Hwa Hr Hv Hok) as Aa.
    destruct (compute a root vals st) as [L st1] eqn:Ea. destruct Aa as [Hf1 Hv1]. cbn [snd] in Ha.
    assert (Hok1 : ok st1) by (eapply ok_frame; eassumption).
    pose proof (IHb Hwb Hcb root vals st1 Hr Hv Hok1) as Hb. pose proof (A_query' b root vals st1 Hwb Hr Hv Hok1) as Ab.
    destruct (compute b root vals st1) as [R st2] eqn:Eb. destruct Ab as [Hf2 Hv2]. cbn [snd] in Hb.
    assert (Hok2 : ok st2) by (eapply ok_frame; eassumption).
    destruct (compute (QOr a b) root vals st) as [X st3] eqn:Eab.
    destruct (compute_or ffun afun regex_match _ a b root vals st L st1 R st2 X st3 Ea Eb Eab (proj1 Hok1) (proj1 Hok2) Hv1 Hv2)
      as [_ [_ [->| ->]]]; cbn [snd]; congruence.
  Qed.
  Lemma kquery_not a : K_query a -> K_query (QNot a).
  Proof.
    intros IHa Hwf Hcf root vals st Hr Hv Hok. cbn [wf_query] in Hwf. cbn [call_free_q] in Hcf.
    pose proof (IHa Hwf Hcf root vals st Hr Hv Hok) as Ha. pose proof (A_query' a root vals st Hwf Hr Hv Hok) as Aa.
    destruct (compute a root vals st) as [L st1] eqn:Ea. destruct Aa as [Hf1 Hv1]. cbn [snd] in Ha.
    assert (Hok1 : ok st1) by (eapply ok_frame; eassumption).
    destruct (compute (QNot a) root vals st) as [X st2] eqn:En.
    destruct (compute_not ffun afun regex_match _ a root vals st L st1 X st2 Ea En (proj1 Hok1) Hv1) as [_ [_ ->]].
    cbn [snd]. exact Ha.
  Qed.

  Lemma kquery_cmp lp ll rp rl cmp : K_pquery lp -> K_pquery rp -> K_query (QCmp (CP lp ll) (CP rp rl) cmp).
  Proof.
    intros IHl IHr Hwf Hcf root vals st Hr Hv Hok. rewrite compute_cmp_eq.
    cbn [wf_query] in Hwf. repeat (apply andb_true_iff in Hwf; destruct Hwf as [Hwf ?]).
    rename H into Hrs, H0 into Hls, H1 into Hwr. cbn [call_free_q] in Hcf. apply andb_true_iff in Hcf. destruct Hcf as [Hcl Hcr].
    pose proof (IHl Hwf Hcl root vals st Hr Hv Hok) as Hl.
    pose proof (A_pquery ffun afun regex_match ffun_small afun_small lp Hwf root vals st Hr Hv Hok) as Al.
    destruct (compute_p lp root vals st) as [L st1]. destruct Al as [Hf1 [Hv1 [HnF1 _]]]. cbn [snd] in Hl.
    assert (Hok1 : ok st1) by (eapply ok_frame; eassumption).
    assert (HL : L <> GFull).
    { intros ->. specialize (HnF1 eq_refl). destruct lp; try contradiction. rewrite HnF1 in Hls. discriminate. }
    destruct (validate_spec cmp L st1 (proj1 Hok1) HL) as [L1 [Ev1 _]]. rewrite Ev1.
    pose proof (IHr Hwr Hcr root vals st1 Hr Hv Hok1) as Hrr.
    pose proof (A_pquery ffun afun regex_match ffun_small afun_small rp Hwr root vals st1 Hr Hv Hok1) as Ar.
    destruct (compute_p rp root vals st1) as [R st3]. destruct Ar as [Hf3 [Hv3 [HnF3 _]]]. cbn [snd] in Hrr.
    assert (Hok3 : ok st3) by (eapply ok_frame; eassumption).
    assert (HR : R <> GFull).
    { intros ->. specialize (HnF3 eq_refl). destruct rp; try contradiction. rewrite HnF3 in Hrs. discriminate. }
    destruct (validate_spec cmp R st3 (proj1 Hok3) HR) as [R1 [Ev3 _]]. rewrite Ev3.
    assert (Hc3 : calls st3 = calls st) by congruence.
    destruct (_ && _).
    - cbv zeta. set (rl0 := lget st3 R1).
      assert (Hc5 : calls (match rl0 with [] => set_panic "compare: rightValues[0]" st3 | _ => st3 end) = calls st).
      { destruct rl0; [rewrite calls_set_panic|]; exact Hc3. }
      pose proof (calls_comparator_run regex_match cmp L1 (hd_entry rl0)
                    (match rl0 with [] => set_panic "compare: rightValues[0]" st3 | _ => st3 end)) as Hc6.
      rewrite Hc5 in Hc6.
      destruct (comparator_run regex_match cmp L1 (hd_entry rl0) _) as [[hv L2] st6]. cbn [snd] in Hc6.
      destruct hv; cbn [snd]; exact Hc6.
    - destruct (Bool.eqb _ _); [destruct cmp|]; cbn [snd]; exact Hc3.
  Qed.

  Lemma kquery_param p : K_pquery p -> K_query (QParam p).
  Proof.
    intros IH Hwf Hcf root vals st Hr Hv Hok. cbn [wf_query] in Hwf. cbn [call_free_q] in Hcf.
    change (compute (QParam p) root vals st) with (compute_p p root vals st). apply IH; assumption.
  Qed.

  Lemma kpquery_cur n : K_node n -> K_pquery (PqCur n).
  Proof.
    intros IH Hwf Hcf root vals st Hr Hv Hok. cbn [wf_pquery] in Hwf. cbn [call_free_p] in Hcf.
    destruct (proj1 call_free_nocalls n Hcf) as [Hfc Hsc].
    rewrite compute_p_cur_eq.
    assert (Hfold : forall vs res hv st', Forall small vs -> frame st st' -> calls st' = calls st ->
              let '(res2, hv2, st2) := fold_left (pcur_step ffun afun regex_match n root) vs (res, hv, st') in
              calls st2 = calls st).
    { induction vs as [|v vs IHvs]; intros res hv st' Hsm Hfr Hcs; cbn [fold_left]; [exact Hcs|].
      inversion Hsm as [|? ? Hv0 Hvs]; subst.
      assert (Hok' : ok st') by (eapply ok_frame; eassumption).
      pose proof (A_node ffun afun regex_match ffun_small afun_small n root (None, v) Hwf Hr (cur_ok_none root v Hv0) [] st' Hok') as Hp.
      pose proof (IH Hwf Hfc root (None, v) Hr (cur_ok_none root v Hv0) [] st' Hok') as Hk. rewrite Hsc, app_nil_r in Hk.
      unfold pcur_step at 2. unfold post in Hp.
      destruct (retrieve n root (None, v) [] st') as [[c e] st1]. cbn [snd] in Hk.
      destruct Hp as [Hfr1 [r [Hc [He1 [He2 _]]]]]. cbn [app] in Hc. subst r.
      assert (Hfr2 : frame st st1) by (eapply frame_trans; eassumption).
      destruct e as [err|]; [apply IHvs; try assumption; congruence|].
      destruct c as [|x c']; [contradiction (He2 eq_refl); reflexivity|].
      apply IHvs; try assumption; congruence. }
    specialize (Hfold vals [] false st Hv (frame_refl st) eq_refl).
    destruct (fold_left (pcur_step ffun afun regex_match n root) vals ([], false, st)) as [[res hv] st'].
    destruct hv; cbn [snd]; exact Hfold.
  Qed.

  Lemma kpquery_root n : K_node n -> K_pquery (PqRoot n).
  Proof.
    intros IH Hwf Hcf root vals st Hr Hv Hok. cbn [wf_pquery] in Hwf. cbn [call_free_p] in Hcf.
    destruct (proj1 call_free_nocalls n Hcf) as [Hfc Hsc]. rewrite compute_p_root_eq.
    pose proof (IH Hwf Hfc root (Some [], root) Hr (cur_ok_root root Hr) [] st Hok) as Hk. rewrite Hsc, app_nil_r in Hk.
    destruct (retrieve n root (Some [], root) [] st) as [[c e] st1]. cbn [snd] in Hk.
    destruct e; [exact Hk|]. destruct c as [|x [|y l]]; exact Hk.
  Qed.

  Lemma A_node' n root cur : wf_node n = true -> small root -> cur_ok root cur -> step_ok root (retrieve n root cur).
  Proof. apply (A_node ffun afun regex_match ffun_small afun_small). Qed.
  Lemma A_onode' next : P_onode ffun afun regex_match next.
  Proof. apply (A_onode ffun afun regex_match ffun_small afun_small). Qed.

  Lemma sc_single_missing key b next root cur m :
    snd cur = VObj m -> lookup m key = None -> sc (Node (KSingle key) b next) root cur = [].
  Proof. intros Hm Hl. rewrite sc_unfold. rewrite Hm. unfold ckey. rewrite Hl. reflexivity. Qed.

  Lemma knodes_case id rest : K_node id -> K_nodes rest -> K_nodes (NCons id rest).
  Proof.
    intros IHid IHrest Hwf Hfc m root cur c0 st0 s acc Hr Hc Hm Hok Hs.
    cbn [wf_nodes] in Hwf. apply andb_true_iff in Hwf. destruct Hwf as [Hwid Hwrest].
    cbn [filters_call_free_ids] in Hfc. apply andb_true_iff in Hfc. destruct Hfc as [Hfid Hfrest].
    rewrite retrieve_ids_unfold.
    change (sc_ids (NCons id rest) root cur) with (sc id root cur ++ sc_ids rest root cur).
    rewrite app_assoc. destruct s as [[[c dl] de] st]. cbv zeta.
    destruct id as [k b next]. cbn [node_kind].
    assert (Hstep : linv3 root c0 st0 (acc ++ sc (Node k b next) root cur)
                      (loop_step (retrieve (Node k b next) root cur c st) dl de)).
    { apply (linv3_step root c0 st0 acc (c, dl, de, st) (retrieve (Node k b next) root cur) _ Hok Hs).
      - apply step_ok_weaken. apply A_node'; assumption.
      - apply (IHid Hwid Hfid root cur Hr Hc). }
    destruct k; try (apply IHrest; assumption).
    destruct (lookup m key) eqn:El; [apply IHrest; assumption|].
    rewrite (sc_single_missing key b next root cur m Hm El), app_nil_r. apply IHrest; assumption.
  Qed.

  Lemma knode k b next : K_kind k -> K_onode next -> K_node (Node k b next).
  Proof.
    intros IHk IHn Hwf Hfc root cur Hr Hc.
    cbn [wf_node] in Hwf. apply andb_true_iff in Hwf. destruct Hwf as [Hk Hnx].
    change (match next with OSome m => wf_node m | ONone => true end) with (wf_onode next) in Hnx.
    cbn [filters_call_free] in Hfc. apply andb_true_iff in Hfc. destruct Hfc as [Hfk Hfn].
    change (match next with OSome m => filters_call_free m | ONone => true end) with (fo next) in Hfn.
    intros c st Hok. rewrite retrieve_unfold, sc_unfold.
    destruct k as [| |key| |ids aw uq|mr lr|subs|q|f|f param].
    - apply fwd_calls; try assumption. apply cur_ok_root. exact Hr.
    - apply fwd_calls; assumption.
    - destruct (snd cur) eqn:E; try (cbn [snd]; rewrite app_nil_r; reflexivity). eapply map_next_calls; eassumption.
    - destruct (snd cur) eqn:E; try (cbn [snd]; rewrite app_nil_r; reflexivity).
      + apply (run_loop_calls root). 2: exact Hok. intros [i v] Hin. split.
        * apply step_ok_weaken. eapply list_next_ok; try eassumption; try apply A_onode'. apply index_list_step. exact Hin.
        * eapply list_next_calls; try eassumption. apply index_list_step. exact Hin.
      + apply (run_loop_calls root). 2: exact Hok. intros key Hin. split.
        * apply step_ok_weaken. eapply map_next_ok; try eassumption; apply A_onode'.
        * eapply map_next_calls; eassumption.
    - (* multi *)
      destruct IHk as [IHids IHuq]. apply andb_true_iff in Hk. destruct Hk as [Hids Huq].
      apply andb_true_iff in Hfk. destruct Hfk as [Hfids Hfuq].
      destruct (snd cur) eqn:E; try (destruct aw; cbn [snd]; rewrite app_nil_r; reflexivity).
      + destruct aw; [|cbn [snd]; rewrite app_nil_r; reflexivity].
        destruct uq as [|u]; [discriminate|]. apply (IHuq Huq Hfuq root cur Hr Hc c st Hok).
      + assert (Hl : calls (snd (loop_finish b (retrieve_ids ids m root cur (c, 0%nat, None, st)))) = calls st ++ sc_ids ids root cur).
        { rewrite loop_finish_st.
          apply (proj2 (IHids Hids Hfids m root cur c st (c, 0%nat, None, st) [] Hr Hc E Hok (linv3_init root c st))). }
        destruct aw; exact Hl.
    - (* recursive descent *)
      destruct (is_container (snd cur)) eqn:Ec.
      + destruct next as [|nx]; [discriminate|].
        apply (run_loop_calls root). 2: exact Hok. intros cu Hin.
        destruct cur as [l v]. cbn [fst snd] in Hin.
        destruct (containers_cur_ok root v l Hc cu Hin) as [Hcu _].
        split.
        * intros c' st' Hok'. unfold rec_step. destruct (snd cu) eqn:E; try (right; reflexivity).
          -- destruct lr; [left; apply A_node'; assumption|right; reflexivity].
          -- destruct mr; [left; apply A_node'; assumption|right; reflexivity].
        * unfold rec_step. destruct (snd cu) eqn:E; try (apply nil_calls; reflexivity).
          -- destruct lr; [apply (IHn Hnx Hfn root cu Hr Hcu)|apply nil_calls; reflexivity].
          -- destruct mr; [apply (IHn Hnx Hfn root cu Hr Hcu)|apply nil_calls; reflexivity].
      + cbn [snd]. destruct next as [|nx]; [rewrite app_nil_r; reflexivity|].
        destruct cur as [l v]. cbn [fst snd] in *. destruct v; try discriminate; cbn [containers flat_map]; rewrite app_nil_r; reflexivity.
    - (* union *)
      destruct (snd cur) eqn:E; try (cbn [snd]; rewrite app_nil_r; reflexivity).
      rewrite loop_finish_st. rewrite forallb_forall in Hk.
      assert (Hlen : (0 <= Z.of_nat (List.length l) < two62)%Z).
      { apply small_arr_len. destruct Hc as [_ Hsm]. rewrite E in Hsm. exact Hsm. }
      refine (proj2 (fold_linv3 root c st _ _ subs _ (c, 0%nat, None, st) [] (linv3_init root c st))).
      intros s sub acc Hin Hs. unfold union_outer.
      pose proof (sub_okb_built sub (Hk sub Hin)) as Hb.
      destruct (get_indexes_total sub _ Hlen Hb) as [idxs [Hg Hrange]]. rewrite Hg.
      apply fold_linv3; [|exact Hs].
      intros s' i acc' Hi Hs'. unfold union_inner. destruct s' as [[[c' dl] de] st'].
      destruct (nth_value_some l i (Hrange i Hi)) as [v Hv]. rewrite Hv.
      apply (linv3_step root c st acc' (c', dl, de, st') (list_next b next root cur (i, v)) _ Hok Hs').
      + apply step_ok_weaken. eapply list_next_ok; try eassumption; apply A_onode'.
      + eapply list_next_calls; eassumption.
    - (* filter *)
      destruct (snd cur) eqn:E; try (cbn [snd]; rewrite app_nil_r; reflexivity).
      + assert (Hsm : Forall small l) by (apply small_arr_forall; destruct Hc as [_ H]; rewrite E in H; exact H).
        pose proof (IHk Hk Hfk root l st Hr Hsm Hok) as Hq. pose proof (A_query' q root l st Hk Hr Hsm Hok) as Aq.
        destruct (refinement ffun afun regex_match ffun_small afun_small) as (_ & _ & _ & _ & HQ & _).
        pose proof (HQ q Hk root l st Hr Hsm Hok) as Hh.
        destruct (compute q root l st) as [lv st1]. destruct Aq as [Hfr Hvl]. destruct Hh as [Hlen Hden]. cbn [snd] in Hq.
        assert (Hok1 : ok st1) by (eapply ok_frame; eassumption).
        rewrite <- Hq.
        apply (filter_loop_calls root b (list_next b next root cur) (cidx next root cur) (index_list l 0) lv (holds q root l)); try assumption.
        * intros [i v] Hin. split.
          -- eapply list_next_ok; try eassumption; try apply A_onode'. apply index_list_step. exact Hin.
          -- eapply list_next_calls; try eassumption. apply index_list_step. exact Hin.
        * rewrite index_list_length. exact Hvl.
        * rewrite index_list_length. exact Hlen.
        * rewrite index_list_length. exact Hden.
      + cbv zeta.
        set (keys := sorted_keys m).
        set (vals := flat_map (fun k => match lookup m k with Some v => [v] | None => [] end) keys).
        assert (Hsm : Forall small vals) by (apply member_values_small; destruct Hc as [_ H]; rewrite E in H; exact H).
        assert (Hvlen : List.length vals = List.length keys).
        { unfold vals. apply member_values_length. intros k Hk'. apply sorted_keys_lookup. exact Hk'. }
        pose proof (IHk Hk Hfk root vals st Hr Hsm Hok) as Hq. pose proof (A_query' q root vals st Hk Hr Hsm Hok) as Aq.
        destruct (refinement ffun afun regex_match ffun_small afun_small) as (_ & _ & _ & _ & HQ & _).
        pose proof (HQ q Hk root vals st Hr Hsm Hok) as Hh.
        destruct (compute q root vals st) as [lv st1]. destruct Aq as [Hfr Hvl]. destruct Hh as [Hlen Hden]. cbn [snd] in Hq.
        assert (Hok1 : ok st1) by (eapply ok_frame; eassumption).
        rewrite <- Hq. rewrite Hvlen in *.
        apply (filter_loop_calls root b (map_next b next root cur m) (ckey next root cur m) keys lv (holds q root vals)); try assumption.
        intros k Hin. split.
        -- eapply map_next_ok; try eassumption; apply A_onode'.
        -- eapply map_next_calls; eassumption.
    - (* filter function *)
      cbv zeta.
      assert (Hok1 : ok (log_call (CallF f (snd cur)) st)) by (eapply ok_frame; [exact Hok|apply frame_log_call]).
      destruct (ffun f (snd cur)) as [v|] eqn:Ef.
      + assert (Hcv : cur_ok root (None, v)) by (apply cur_ok_none; eapply ffun_small; [|exact Ef]; apply Hc).
        rewrite (fwd_calls b next root false (None, v) IHn Hnx Hfn Hr Hcv c _ Hok1). cbn [log_call calls].
        rewrite <- app_assoc. reflexivity.
      + cbn [snd log_call calls]. reflexivity.
    - (* aggregate function *)
      pose proof (A_node' param root cur Hk Hr Hc [] st Hok) as Hp.
      pose proof (IHk Hk Hfk root cur Hr Hc [] st Hok) as Hkp.
      destruct (refinement ffun afun regex_match ffun_small afun_small) as [HQ _].
      pose proof (HQ param Hk root cur Hr Hc [] st Hok) as Heq. unfold post in Hp.
      destruct (retrieve param root cur [] st) as [[vals e] st1]. cbn [fst snd app] in Heq, Hkp.
      destruct Hp as [Hfr [r [Hvals [He1 [He2 Hloc]]]]]. cbn [app] in Hvals. subst r.
      cbv zeta.
      destruct e as [err|].
      + assert (Hv0 : vals = []) by (apply He1; discriminate). rewrite Hv0 in Heq.
        destruct (sp param root cur); [|discriminate]. cbn [snd]. rewrite Hkp, app_nil_r. reflexivity.
      + specialize (He2 eq_refl).
        destruct (sp param root cur) as [|x0 xs0] eqn:Esp; [cbn [map] in Heq; contradiction|].
        assert (Hplain : map res_value vals = map (fun x => res_value (Spec.wrap x)) (x0 :: xs0)) by (rewrite Heq, map_map; reflexivity).
        assert (Hargs_eq : (if vgroup (node_basic param) then map res_value vals
                            else match map res_value vals with VArr xs :: _ => xs | _ => map res_value vals end)
                           = agg_args ffun afun regex_match param root cur).
        { unfold agg_args. rewrite Esp, Hplain. reflexivity. }
        rewrite Hargs_eq.
        set (args := agg_args ffun afun regex_match param root cur).
        assert (Hst2 : (if vgroup (node_basic param) then st1
                        else match vals with [] => set_panic "aggregate: values.result[0]" st1 | _ => st1 end) = st1).
        { destruct (vgroup (node_basic param)); [reflexivity|]. destruct vals; [contradiction He2; reflexivity|reflexivity]. }
        rewrite Hst2.
        assert (Hok1 : ok st1) by (eapply ok_frame; eassumption).
        assert (Hok3 : ok (log_call (CallA f args) st1)) by (eapply ok_frame; [exact Hok1|apply frame_log_call]).
        assert (Hargs : Forall small args).
        { unfold args, agg_args. rewrite Esp.
          assert (Hpl : Forall small (map (fun x => res_value (Spec.wrap x)) (x0 :: xs0))).
          { rewrite <- Hplain. apply Forall_forall. intros v Hv'. apply in_map_iff in Hv'. destruct Hv' as [y [<- Hy]].
            rewrite Forall_forall in Hloc. eapply res_value_small. apply Hloc. exact Hy. }
          destruct (vgroup (node_basic param)); [exact Hpl|].
          destruct (map (fun x => res_value (Spec.wrap x)) (x0 :: xs0)) as [|v0 rest]; [exact Hpl|]. destruct v0; try exact Hpl.
          apply small_arr_forall. inversion Hpl; assumption. }
        destruct (afun f args) as [v|] eqn:Ea.
        * assert (Hcv : cur_ok root (None, v)) by (apply cur_ok_none; eapply afun_small; eassumption).
          rewrite (fwd_calls b next root false (None, v) IHn Hnx Hfn Hr Hcv c _ Hok3). cbn [log_call calls].
          rewrite Hkp, <- !app_assoc. reflexivity.
        * cbn [snd log_call calls]. rewrite Hkp, <- app_assoc. reflexivity.
  Qed.

  Theorem call_log_refinement :
    (forall n, K_node n) /\ (forall o, K_onode o) /\ (forall k, K_kind k) /\ (forall ns, K_nodes ns) /\
    (forall q, K_query q) /\ (forall cp, K_cparam cp) /\ (forall p, K_pquery p).
  Proof.
    apply tree_mutind.
    - intros k IHk b next IHn. apply knode; assumption.
    - exact I.
    - intros n IH. exact IH.
    - exact I. - exact I. - intros; exact I. - exact I.
    - intros ids IHids aw uq IHuq. split; assumption.
    - intros; exact I. - intros; exact I.
    - intros q IH. exact IH.
    - intros; exact I.
    - intros f param IH. exact IH.
    - intros _ _ m root cur c0 st0 s acc _ _ _ _ Hs. rewrite retrieve_ids_unfold.
      change (sc_ids NNil root cur) with (@nil call). rewrite app_nil_r. exact Hs.
    - intros id IHid rest IHrest. apply knodes_case; assumption.
    - intros a IHa b IHb. apply kquery_and; assumption.
    - intros a IHa b IHb. apply kquery_or; assumption.
    - intros a IHa. apply kquery_not; assumption.
    - intros [lp ll] IHl [rp rl] IHr c. apply kquery_cmp; assumption.
    - intros p IH. apply kquery_param; assumption.
    - intros p IH lit. exact IH.
    - intros v _ _ root vals st _ _ _. reflexivity.
    - intros n IH. apply kpquery_cur; assumption.
    - intros n IH. apply kpquery_root; assumption.
  Qed.

  (* the call log of a whole retrieval *)
  Theorem eval_call_log t doc st :
    wf_node t = true -> filters_call_free t = true -> small doc -> ok st ->
    calls (snd (eval_run ffun afun regex_match t doc st)) = calls st ++ sc t doc (Some [], doc).
  Proof.
    intros Hwf Hfc Hs Hok. unfold Eval.eval_run.
    pose proof (proj1 call_log_refinement t Hwf Hfc doc (Some [], doc) Hs (cur_ok_root doc Hs) [] st Hok) as H.
    destruct (retrieve t doc (Some [], doc) [] st) as [[c e] st']. cbn [snd] in H.
    destruct (panicked st'); [exact H|]. destruct e; exact H.
  Qed.
End K.
