(* WildParse.v — the wildcard steps .* and [*] through the regenerated grammar. *)
From JP Require Import Peg Grammar Text Tree Actions PegFacts PegMono PegEv FuelRules ParseFacts KeyDefs KeyParse.
From Coq Require Import Lia.
Local Open Scope N_scope.
Open Scope list_scope.

Lemma ev_rule17 r pos : evG (PRef 17) (42 :: r) pos (POk r (S pos) [TAct 12]).
Proof.
  eapply ev_ref; [reflexivity|]. eapply ev_conv; [eapply ev_seq_ok; [apply (ev_lit_ok G [42]); apply strip1_ok|apply ev_act|reflexivity]|].
  f_equal. cbn [List.length]. lia.
Qed.

(* .*  followed by the end of the path or by another step *)
Lemma ev_rule7_dotwild rest pos : dot_stop rest ->
  evG (PRef 7) (46 :: 42 :: rest) pos (POk rest (pos + 2)%nat [TAct 12; TText pos (pos + 2); TAct 4]).
Proof.
  intros Hs. eapply ev_ref; [reflexivity|].
  apply ev_alt_r; [apply ev_seq_fail; apply (ev_lit_fail G [46; 46]); apply strip2_no2; discriminate|].
  apply ev_alt_l. eapply ev_conv.
  - eapply ev_seq_ok; [apply ev_cap| apply ev_act |reflexivity].
    eapply ev_seq_ok; [apply (ev_lit_ok G [46]); apply strip1_ok| |reflexivity].
    eapply ev_ref; [exact rule13_shape|]. apply ev_alt_l. apply ev_rule17.
  - cbn [List.length app]. replace (S (pos + 1)) with (pos + 2)%nat by lia. reflexivity.
Qed.

(* [*] *)
Lemma ev_rule10_wild rest pos :
  evG (PRef 10) (91 :: 42 :: 93 :: rest) pos (POk rest (pos + 3)%nat [TAct 12; TText pos (pos + 3); TAct 7]).
Proof.
  eapply ev_conv.
  - eapply ev_ref; [reflexivity|].
    eapply ev_seq_ok; [apply ev_cap| apply ev_act |reflexivity].
    eapply ev_seq_ok; [| |reflexivity].
    + eapply ev_ref; [reflexivity|]. eapply ev_seq_ok; [apply (ev_lit_ok G [91]); apply strip1_ok| |reflexivity].
      apply ev_space_stop. discriminate.
    + eapply ev_seq_ok; [| |reflexivity].
      * apply ev_alt_l. eapply ev_ref; [reflexivity|].
        eapply ev_seq_ok; [eapply ev_ref; [reflexivity|]; apply ev_alt_l; apply ev_rule17| |reflexivity].
        eapply ev_seq_ok; [apply ev_star_stop| |reflexivity].
        -- apply ev_seq_fail. apply ev_sep_fail; discriminate.
        -- apply ev_not_ok. apply ev_sep_fail; discriminate.
      * eapply ev_ref; [reflexivity|]. eapply ev_seq_ok; [apply ev_space_stop; discriminate| |reflexivity].
        apply (ev_lit_ok G [93]). apply strip1_ok.
  - cbn [List.length app]. replace (S (pos + 1) + 1)%nat with (pos + 3)%nat by lia. reflexivity.
Qed.
Lemma ev_rule7_brwild rest pos :
  evG (PRef 7) (91 :: 42 :: 93 :: rest) pos (POk rest (pos + 3)%nat [TAct 12; TText pos (pos + 3); TAct 7]).
Proof.
  eapply ev_ref; [reflexivity|].
  apply ev_alt_r; [apply ev_seq_fail; apply (ev_lit_fail G [46; 46]); apply strip2_no; discriminate|].
  apply ev_alt_r; [apply ev_seq_fail; apply ev_cap_fail; apply ev_seq_fail; apply (ev_lit_fail G [46]); apply strip1_no; discriminate|].
  apply ev_rule10_wild.
Qed.
