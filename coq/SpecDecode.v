(* SpecDecode.v — numbers compare by value whatever the decoding (C10), on the specification:
   converting every float64 of a document into a json.Number (with a spelling that determines the
   value, e.g. Go's shortest formatting) selects the same members with every filter, and the same
   cursors with every function-free path. *)
From JP Require Import Eval WF Spec EvalInv1 EvalInv3 EvalInv4 Refine1.
From Coq Require Import Lia.
Open Scope string_scope.
Open Scope list_scope.

Definition finite (x : num) : bool := match x with Fin _ _ => true | _ => false end.

(* documents decoded without UseNumber: no json.Number, finite numbers *)
Fixpoint float_doc (v : value) : Prop :=
  match v with
  | VNum x => finite x = true
  | VJNum _ _ => False
  | VArr l => (fix go (l : list value) : Prop := match l with [] => True | x :: r => float_doc x /\ go r end) l
  | VObj m => (fix go (m : list (string * value)) : Prop := match m with [] => True | (_, x) :: r => float_doc x /\ go r end) m
  | _ => True
  end.

Section Decode.
  Variable spell : num -> string.
  (* the spelling determines the value (true of Go's shortest formatting of a finite float64) *)
  Hypothesis spell_eq : forall x y, finite x = true -> finite y = true -> String.eqb (spell x) (spell y) = num_eqb x y.

  Fixpoint tojn (v : value) : value :=
    match v with
    | VNum x => VJNum (spell x) x
    | VArr l => VArr (map tojn l)
    | VObj m => VObj (map (fun kv => (fst kv, tojn (snd kv))) m)
    | other => other
    end.

  Lemma float_arr_in l x : float_doc (VArr l) -> In x l -> float_doc x.
  Proof.
    cbn [float_doc]. induction l as [|a l IH]; intros H Hin; [contradiction|].
    destruct H as [Ha Hl]. destruct Hin as [->|Hin]; [exact Ha|apply IH; assumption].
  Qed.
  Lemma float_obj_lookup m k x : float_doc (VObj m) -> lookup m k = Some x -> float_doc x.
  Proof.
    cbn [float_doc]. induction m as [|[k' a] m IH]; cbn [lookup]; intros H Hl; [discriminate|].
    destruct H as [Ha Hm]. destruct (String.eqb k k'); [inversion Hl; subst; exact Ha|apply IH; assumption].
  Qed.
  Lemma float_arr_forall l : float_doc (VArr l) -> Forall float_doc l.
  Proof. intros H. apply Forall_forall. intros x Hx. eapply float_arr_in; eassumption. Qed.

  Lemma lookup_tojn m k : lookup (map (fun kv => (fst kv, tojn (snd kv))) m) k = option_map tojn (lookup m k).
  Proof.
    induction m as [|[k' a] m IH]; cbn [map lookup fst snd]; [reflexivity|].
    destruct (String.eqb k k'); [reflexivity|exact IH].
  Qed.
  Lemma sorted_keys_tojn m : sorted_keys (map (fun kv => (fst kv, tojn (snd kv))) m) = sorted_keys m.
  Proof. unfold sorted_keys. rewrite map_map. reflexivity. Qed.
  Lemma nth_value_tojn : forall xs i, nth_value (map tojn xs) i = option_map tojn (nth_value xs i).
  Proof.
    induction xs as [|x xs IH]; intros i; cbn [map nth_value]; [reflexivity|].
    destruct (i =? 0)%Z; [reflexivity|]. destruct (i <? 0)%Z; [reflexivity|apply IH].
  Qed.
  Lemma index_list_tojn : forall xs z, index_list (map tojn xs) z = map (fun iv => (fst iv, tojn (snd iv))) (index_list xs z).
  Proof. induction xs as [|x xs IH]; intros z; cbn [map index_list fst snd]; [reflexivity|]. rewrite IH. reflexivity. Qed.
  Lemma go_type_tojn_container v : match v with VNum _ => True | _ => go_type (tojn v) = go_type v end.
  Proof. destruct v; try exact I; reflexivity. Qed.

  (* deep equality is insensitive to the decoding of the two documents *)
  Lemma deep_eq_tojn : forall v w, float_doc v -> float_doc w -> deep_eq (tojn v) (tojn w) = deep_eq v w.
  Proof.
    induction v as [|b|x|s x|s|xs IH|m IH|t i s] using value_ind_strong; intros w Hv Hw; destruct w; try reflexivity;
      try (cbn in Hv; contradiction); try (cbn in Hw; contradiction).
    - cbn [tojn deep_eq]. apply spell_eq; [exact Hv|exact Hw].
    - cbn [tojn deep_eq]. apply float_arr_forall in Hv. apply float_arr_forall in Hw.
      revert l Hw. induction xs as [|a xs IHxs]; intros [|b l] Hw; cbn [map deq_list]; try reflexivity.
      inversion IH as [|? ? Ha Hxs]; subst. inversion Hv as [|? ? Hva Hvxs]; subst. inversion Hw as [|? ? Hwb Hwl]; subst.
      rewrite (Ha b Hva Hwb). f_equal. apply IHxs; assumption.
    - cbn [tojn deep_eq]. rewrite !map_length. f_equal.
      assert (Hm0 : forall kv, In kv m -> float_doc (snd kv)).
      { intros [k a] Hin. cbn [snd]. clear -Hv Hin. cbn [float_doc] in Hv. induction m as [|[k' a'] m IHm]; [contradiction|].
        destruct Hv as [H1 H2]. destruct Hin as [Heq|Hin]; [inversion Heq; subst; exact H1|apply IHm; assumption]. }
      clear Hv. induction m as [|[k a] m IHm]; cbn [map fst snd]; [reflexivity|].
      inversion IH as [|? ? Ha Hrest]; subst. cbn [snd] in Ha.
      rewrite lookup_tojn. destruct (lookup m0 k) as [y|] eqn:El; cbn [option_map]; [|reflexivity].
      rewrite (Ha y (Hm0 (k, a) (or_introl eq_refl)) (float_obj_lookup m0 k y Hw El)).
      f_equal. apply IHm; [exact Hrest|]. intros kv Hin. apply Hm0. right. exact Hin.
  Qed.
End Decode.

(* ---------- trees without user functions ---------- *)
Fixpoint fun_free (n : node) : bool :=
  match n with
  | Node k _ next =>
      (match k with
       | KFFun _ | KAgg _ _ => false
       | KMulti ids _ uq => fun_free_ids ids && match uq with OSome u => fun_free u | ONone => true end
       | KFilter q => fun_free_q q
       | _ => true
       end) && match next with OSome m => fun_free m | ONone => true end
  end
with fun_free_ids (ids : nodes) : bool :=
  match ids with NNil => true | NCons n r => fun_free n && fun_free_ids r end
with fun_free_q (q : query) : bool :=
  match q with
  | QAnd a b | QOr a b => fun_free_q a && fun_free_q b
  | QNot a => fun_free_q a
  | QCmp (CP l _) (CP r _) c =>
      fun_free_p l && fun_free_p r &&
      (* reflect.DeepEqual is only built for two paths (a literal operand picks a typed comparator) *)
      match c with CDeepEq => match l, r with PqLit _, _ | _, PqLit _ => false | _, _ => true end | _ => true end
  | QParam p => fun_free_p p
  end
with fun_free_p (p : pquery) : bool :=
  match p with PqLit v => match v with VNum x => finite x | VStr _ | VBool _ | VNull => true | _ => false end
             | PqCur n | PqRoot n => fun_free n end.

Section Sim.
  Variable spell : num -> string.
  Hypothesis spell_eq : forall x y, finite x = true -> finite y = true -> String.eqb (spell x) (spell y) = num_eqb x y.
  Notation tojn := (tojn spell).
  Variable ffun : string -> value -> option value.
  Variable afun : string -> list value -> option value.
  Variable regex_match : string -> string -> bool.
  Notation sp := (sp ffun afun regex_match).
  Notation sp_ids := (sp_ids ffun afun regex_match).
  Notation holds := (holds ffun afun regex_match).
  Notation operand := (operand ffun afun regex_match).
  Notation sfwd := (sfwd ffun afun regex_match).
  Notation skey := (skey ffun afun regex_match).
  Notation sidx := (sidx ffun afun regex_match).

  Definition tj_e (x : entry) : entry := option_map tojn x.
  Definition efloat (x : entry) : Prop := match x with Some v => float_doc v | None => True end.
  Definition tjc (cur : cursor) : cursor := (fst cur, tojn (snd cur)).
  Definition tjres (r : sres) : sres := let '(b, s, c) := r in (b, s, tjc c).
  Definition rfloat (r : sres) : Prop := float_doc (sres_value r).

  (* ---------- comparisons ---------- *)
  Lemma validate_to_tojn c x : efloat x ->
    validate_to c (tj_e x) = match validator_of c with Some _ => validate_to c x | None => tj_e x end.
  Proof.
    intros Hx. unfold validate_to. destruct (validator_of c) as [vd|]; [|reflexivity].
    destruct x as [v|]; [|reflexivity]. cbn [tj_e option_map].
    destruct vd, v; cbn in Hx |- *; try reflexivity; try contradiction.
  Qed.
  Lemma is_valid_tojn c x : efloat x -> is_valid c (tj_e x) = is_valid c x.
  Proof.
    intros Hx. unfold is_valid. destruct (validator_of c) as [vd|].
    - destruct x as [v|]; [|reflexivity]. cbn [tj_e option_map]. destruct vd, v; cbn in Hx |- *; try reflexivity; try contradiction.
    - destruct x; reflexivity.
  Qed.
  Lemma existsb_valid_tojn c l : Forall efloat l -> existsb (is_valid c) (map tj_e l) = existsb (is_valid c) l.
  Proof.
    induction 1 as [|x l Hx Hl IH]; cbn [map existsb]; [reflexivity|]. rewrite (is_valid_tojn c x Hx), IH. reflexivity.
  Qed.

  Lemma cmp_keeps_deep r x : efloat r -> efloat x ->
    cmp_keeps regex_match CDeepEq (tj_e r) (tj_e x) = cmp_keeps regex_match CDeepEq r x.
  Proof.
    intros Hr Hx. unfold Spec.cmp_keeps. destruct x as [v|], r as [w|]; cbn; try reflexivity.
    cbn in Hr, Hx. rewrite (deep_eq_tojn spell spell_eq v w Hx Hr). reflexivity.
  Qed.

  Lemma cmp_holds_tojn c n lefts right : Forall efloat lefts -> efloat right ->
    cmp_holds regex_match c n (map tj_e lefts) (tj_e right) = cmp_holds regex_match c n lefts right.
  Proof.
    intros Hl Hr. unfold cmp_holds. rewrite (existsb_valid_tojn c lefts Hl), (is_valid_tojn c right Hr), map_length.
    destruct (existsb (is_valid c) lefts && is_valid c right); [|reflexivity].
    assert (Hk : map (Spec.cmp_keeps regex_match c (validate_to c (tj_e right))) (map (validate_to c) (map tj_e lefts))
               = map (Spec.cmp_keeps regex_match c (validate_to c right)) (map (validate_to c) lefts)).
    { rewrite !map_map. rewrite (validate_to_tojn c right Hr).
      destruct (validator_of c) as [vd|] eqn:Ev.
      - apply map_ext_in. intros x Hx. rewrite Forall_forall in Hl. rewrite (validate_to_tojn c x (Hl x Hx)), Ev. reflexivity.
      - assert (Hc : c = CDeepEq) by (destruct c; try discriminate; reflexivity). subst c.
        apply map_ext_in. intros x Hx. rewrite Forall_forall in Hl.
        rewrite (validate_to_tojn CDeepEq x (Hl x Hx)). cbn [validator_of].
        unfold validate_to at 1 2. cbn [validator_of]. apply cmp_keeps_deep; [exact Hr|apply Hl; exact Hx]. }
    rewrite Hk. reflexivity.
  Qed.

  (* with a typed comparator it does not matter which operands were converted *)
  Definition conv (lit : bool) (x : entry) : entry := if lit then x else tj_e x.
  Lemma cmp_holds_vd c vd n lefts right ll lr : validator_of c = Some vd -> Forall efloat lefts -> efloat right ->
    cmp_holds regex_match c n (map (conv ll) lefts) (conv lr right) = cmp_holds regex_match c n lefts right.
  Proof.
    intros Ev Hl Hr. unfold cmp_holds.
    assert (Hv : forall b x, efloat x -> validate_to c (conv b x) = validate_to c x).
    { intros b x Hx. destruct b; cbn [conv]; [reflexivity|]. rewrite (validate_to_tojn c x Hx), Ev. reflexivity. }
    assert (Hi : forall b x, efloat x -> is_valid c (conv b x) = is_valid c x).
    { intros b x Hx. destruct b; cbn [conv]; [reflexivity|apply is_valid_tojn; exact Hx]. }
    assert (He : existsb (is_valid c) (map (conv ll) lefts) = existsb (is_valid c) lefts).
    { clear -Hl Hi. induction Hl as [|x l Hx Hl IH]; cbn [map existsb]; [reflexivity|]. rewrite (Hi ll x Hx), IH. reflexivity. }
    rewrite He, (Hi lr right Hr), (Hv lr right Hr), map_length, !map_map.
    assert (Hm : map (fun x => Spec.cmp_keeps regex_match c (validate_to c right) (validate_to c (conv ll x))) lefts
               = map (fun x => Spec.cmp_keeps regex_match c (validate_to c right) (validate_to c x)) lefts).
    { apply map_ext_in. intros x Hx. rewrite Forall_forall in Hl. rewrite (Hv ll x (Hl x Hx)). reflexivity. }
    rewrite Hm. reflexivity.
  Qed.
End Sim.

Section Sim2.
  Variable spell : num -> string.
  Hypothesis spell_eq : forall x y, finite x = true -> finite y = true -> String.eqb (spell x) (spell y) = num_eqb x y.
  Notation tojn := (tojn spell).
  Variable ffun : string -> value -> option value.
  Variable afun : string -> list value -> option value.
  Variable regex_match : string -> string -> bool.
  Notation sp := (sp ffun afun regex_match).
  Notation sp_ids := (sp_ids ffun afun regex_match).
  Notation holds := (holds ffun afun regex_match).
  Notation operand := (operand ffun afun regex_match).
  Notation sfwd := (sfwd ffun afun regex_match).
  Notation skey := (skey ffun afun regex_match).
  Notation sidx := (sidx ffun afun regex_match).
  Notation tj_e := (tj_e spell).
  Notation tjc := (tjc spell).
  Notation tjres := (tjres spell).

  Definition is_lit (p : pquery) : bool := match p with PqLit _ => true | _ => false end.
  Definition D_node (n : node) : Prop :=
    fun_free n = true -> forall root cur, float_doc root -> float_doc (snd cur) ->
    sp n (tojn root) (tjc cur) = map tjres (sp n root cur) /\ Forall rfloat (sp n root cur).
  Definition D_onode (o : onode) : Prop := match o with OSome n => D_node n | ONone => True end.
  Definition D_nodes (ids : nodes) : Prop :=
    fun_free_ids ids = true -> forall root cur, float_doc root -> float_doc (snd cur) ->
    sp_ids ids (tojn root) (tjc cur) = map tjres (sp_ids ids root cur) /\ Forall rfloat (sp_ids ids root cur).
  Definition D_query (q : query) : Prop :=
    fun_free_q q = true -> forall root vals, float_doc root -> Forall float_doc vals ->
    holds q (tojn root) (map tojn vals) = holds q root vals.
  Definition D_pquery (p : pquery) : Prop :=
    fun_free_p p = true -> forall root vals, float_doc root -> Forall float_doc vals ->
    operand p (tojn root) (map tojn vals) = map (conv spell (is_lit p)) (operand p root vals) /\ Forall efloat (operand p root vals).
  Definition D_cparam (cp : cparam) : Prop := match cp with CP p _ => D_pquery p end.
  Definition D_kind (k : kind) : Prop :=
    match k with
    | KMulti ids _ uq => D_nodes ids /\ D_onode uq
    | KFilter q => D_query q
    | _ => True
    end.
  Definition ffo (o : onode) : bool := match o with OSome m => fun_free m | ONone => true end.

  Lemma two_flat_map {A} (f g : A -> list sres) (h : sres -> sres) (P : sres -> Prop) (l : list A) :
    (forall a, In a l -> f a = map h (g a) /\ Forall P (g a)) ->
    flat_map f l = map h (flat_map g l) /\ Forall P (flat_map g l).
  Proof.
    induction l as [|a l IH]; intros H; cbn [flat_map map]; [split; [reflexivity|constructor]|].
    destruct (H a (or_introl eq_refl)) as [H1 H2]. destruct (IH (fun b Hb => H b (or_intror Hb))) as [I1 I2].
    rewrite H1, I1, map_app. split; [reflexivity|apply Forall_app; split; assumption].
  Qed.

  Lemma sfwd_d b next root settable cu : D_onode next -> ffo next = true -> float_doc root -> float_doc (snd cu) ->
    sfwd b next (tojn root) settable (tjc cu) = map tjres (sfwd b next root settable cu) /\ Forall rfloat (sfwd b next root settable cu).
  Proof.
    intros IH Hf Hr Hc. unfold Refine1.sfwd. destruct next as [|m]; [|apply IH; assumption].
    split; [reflexivity|]. constructor; [exact Hc|constructor].
  Qed.
  Lemma skey_d b next root cur m key : D_onode next -> ffo next = true -> float_doc root -> float_doc (VObj m) ->
    skey b next (tojn root) (tjc cur) (map (fun kv => (fst kv, tojn (snd kv))) m) key = map tjres (skey b next root cur m key)
    /\ Forall rfloat (skey b next root cur m key).
  Proof.
    intros IH Hf Hr Hm. unfold Refine1.skey. rewrite lookup_tojn. destruct (lookup m key) as [v|] eqn:El; cbn [option_map].
    - apply (sfwd_d b next root true (ext_loc (fst cur) (PKey key), v) IH Hf Hr). cbn [snd]. eapply float_obj_lookup; eassumption.
    - split; [reflexivity|constructor].
  Qed.
  Lemma sidx_d b next root cur iv : D_onode next -> ffo next = true -> float_doc root -> float_doc (snd iv) ->
    sidx b next (tojn root) (tjc cur) (fst iv, tojn (snd iv)) = map tjres (sidx b next root cur iv) /\ Forall rfloat (sidx b next root cur iv).
  Proof.
    intros IH Hf Hr Hv. unfold Refine1.sidx. cbn [fst snd].
    apply (sfwd_d b next root true (ext_loc (fst cur) (PIdx (fst iv)), snd iv) IH Hf Hr). exact Hv.
  Qed.

  Lemma containers_tojn : forall v l, float_doc v ->
    containers l (tojn v) = map tjc (containers l v) /\ Forall (fun cu => float_doc (snd cu)) (containers l v).
  Proof.
    induction v as [|b|x|s x|s|xs IH|m IH|t i s] using value_ind_strong; intros l Hv;
      try (split; [reflexivity|constructor]).
    - cbn [tojn]. rewrite !containers_arr. rewrite index_list_tojn, flat_map_map. cbn [map fst snd].
      assert (H : flat_map (fun iv : Z * value => containers (ext_loc l (PIdx (fst iv))) (tojn (snd iv))) (index_list xs 0)
                  = map tjc (flat_map (fun iv => containers (ext_loc l (PIdx (fst iv))) (snd iv)) (index_list xs 0))
                  /\ Forall (fun cu => float_doc (snd cu)) (flat_map (fun iv => containers (ext_loc l (PIdx (fst iv))) (snd iv)) (index_list xs 0))).
      { generalize 0%Z. pose proof (float_arr_forall xs Hv) as Hf. clear Hv.
        induction xs as [|x xs IHxs]; intros z; cbn [index_list flat_map map fst snd]; [split; [reflexivity|constructor]|].
        inversion IH as [|? ? Hx Hxs]; subst. inversion Hf as [|? ? Hfx Hfxs]; subst.
        destruct (Hx (ext_loc l (PIdx z)) Hfx) as [A1 A2]. destruct (IHxs Hxs Hfxs (z + 1)%Z) as [B1 B2].
        rewrite A1, B1, map_app. split; [reflexivity|apply Forall_app; split; assumption]. }
      destruct H as [H1 H2]. rewrite H1. split; [reflexivity|constructor; [exact Hv|exact H2]].
    - cbn [tojn]. rewrite !containers_obj. rewrite sorted_keys_tojn. cbn [map].
      assert (H : flat_map (fun k => match lookup (map (fun kv => (fst kv, tojn (snd kv))) m) k with
                                     | Some x => containers (ext_loc l (PKey k)) x | None => [] end) (sorted_keys m)
                  = map tjc (flat_map (fun k => match lookup m k with Some x => containers (ext_loc l (PKey k)) x | None => [] end) (sorted_keys m))
                  /\ Forall (fun cu => float_doc (snd cu)) (flat_map (fun k => match lookup m k with Some x => containers (ext_loc l (PKey k)) x | None => [] end) (sorted_keys m))).
      { induction (sorted_keys m) as [|k ks IHks]; cbn [flat_map map]; [split; [reflexivity|constructor]|].
        destruct IHks as [B1 B2]. rewrite lookup_tojn. destruct (lookup m k) as [x|] eqn:El; cbn [option_map].
        - destruct (lookup_in m k x El) as [k' Hk']. rewrite Forall_forall in IH.
          destruct (IH (k', x) Hk' (ext_loc l (PKey k)) (float_obj_lookup m k x Hv El)) as [A1 A2]. cbn [snd] in A1, A2.
          rewrite A1, B1, map_app. split; [reflexivity|apply Forall_app; split; assumption].
        - rewrite B1. split; [reflexivity|exact B2]. }
      destruct H as [H1 H2]. rewrite H1. split; [reflexivity|constructor; [exact Hv|exact H2]].
  Qed.

  Lemma rv_tjres x : res_value (Spec.wrap (tjres x)) = tojn (res_value (Spec.wrap x)).
  Proof. destruct x as [[b s] [l v]]. cbn. destruct (accessor b); reflexivity. Qed.
  Lemma rv_float x : rfloat x -> float_doc (res_value (Spec.wrap x)).
  Proof. destruct x as [[b s] [l v]]. unfold rfloat, sres_value. cbn. intros H. destruct (accessor b); [exact I|exact H]. Qed.

  Lemma node_decode k b next : D_kind k -> D_onode next -> D_node (Node k b next).
  Proof.
    intros IHk IHn Hff root cur Hr Hc. cbn [fun_free] in Hff. apply andb_true_iff in Hff. destruct Hff as [Hk Hnx].
    change (match next with OSome m => fun_free m | ONone => true end) with (ffo next) in Hnx.
    assert (Hs : snd (tjc cur) = tojn (snd cur)) by reflexivity.
    assert (Hf : fst (tjc cur) = fst cur) by reflexivity.
    rewrite !sp_unfold. rewrite ?Hs, ?Hf.
    destruct k as [| |key| |ids aw uq|mr lr|subs|q|f|f param]; try discriminate.
    - apply (sfwd_d b next root false (Some [], root) IHn Hnx Hr). exact Hr.
    - apply (sfwd_d b next root false cur IHn Hnx Hr Hc).
    - destruct (snd cur) as [|vb|vx|vs vx|vs|l|m|vt vi vs] eqn:E; cbn [tojn]; try (split; [reflexivity|constructor]).
      apply (skey_d b next root cur m key IHn Hnx Hr). exact Hc.
    - destruct (snd cur) as [|vb|vx|vs vx|vs|l|m|vt vi vs] eqn:E; cbn [tojn]; try (split; [reflexivity|constructor]).
      + rewrite index_list_tojn, flat_map_map. apply two_flat_map. intros [i v] Hin.
        apply (sidx_d b next root cur (i, v) IHn Hnx Hr). cbn [snd].
        eapply float_arr_in; [exact Hc|]. apply (nth_value_in l i v). apply (index_list_step l i v Hin).
      + rewrite sorted_keys_tojn. apply two_flat_map. intros key _. apply (skey_d b next root cur m key IHn Hnx Hr). exact Hc.
    - destruct IHk as [IHids IHuq]. apply andb_true_iff in Hk. destruct Hk as [Hids Huq].
      destruct (snd cur) as [|vb|vx|vs vx|vs|l|m|vt vi vs] eqn:E; cbn [tojn]; try (split; [reflexivity|constructor]).
      + destruct aw; [|split; [reflexivity|constructor]]. destruct uq as [|u]; [split; [reflexivity|constructor]|].
        apply (IHuq Huq root cur Hr). rewrite E. exact Hc.
      + assert (H : sp_ids ids (tojn root) (tjc cur) = map tjres (sp_ids ids root cur) /\ Forall rfloat (sp_ids ids root cur))
          by (apply (IHids Hids root cur Hr); rewrite E; exact Hc).
        destruct aw; exact H.
    - destruct next as [|nx]; [split; [reflexivity|constructor]|].
      destruct (containers_tojn (snd cur) (fst cur) Hc) as [C1 C2]. rewrite C1, flat_map_map.
      apply two_flat_map. intros cu Hin. rewrite Forall_forall in C2. pose proof (C2 cu Hin) as Hcu.
      assert (Hscu : snd (tjc cu) = tojn (snd cu)) by reflexivity. rewrite Hscu.
      destruct (snd cu) as [|vb|vx|vs vx|vs|l|m|vt vi vs] eqn:Ecu; cbn [tojn]; try (split; [reflexivity|constructor]).
      + destruct lr; [|split; [reflexivity|constructor]]. apply (IHn Hnx root cu Hr). rewrite Ecu. exact Hcu.
      + destruct mr; [|split; [reflexivity|constructor]]. apply (IHn Hnx root cu Hr). rewrite Ecu. exact Hcu.
    - destruct (snd cur) as [|vb|vx|vs vx|vs|l|m|vt vi vs] eqn:E; cbn [tojn]; try (split; [reflexivity|constructor]).
      rewrite map_length. apply two_flat_map. intros sub _.
      destruct (get_indexes sub _); [|split; [reflexivity|constructor]]. apply two_flat_map. intros i _.
      rewrite nth_value_tojn. destruct (nth_value l i) as [v|] eqn:En; cbn [option_map]; [|split; [reflexivity|constructor]].
      apply (sidx_d b next root cur (i, v) IHn Hnx Hr). cbn [snd]. eapply float_arr_in; [exact Hc|eapply nth_value_in; exact En].
    - (* filter *)
      destruct (snd cur) as [|vb|vx|vs vx|vs|l|m|vt vi vs] eqn:E; cbn [tojn]; try (split; [reflexivity|constructor]); cbv zeta.
      + rewrite (IHk Hk root l Hr (float_arr_forall l Hc)).
        rewrite index_list_tojn.
        assert (Hcomb : combine (map (fun iv : Z * value => (fst iv, tojn (snd iv))) (index_list l 0)) (holds q root l)
                      = map (fun ib : (Z * value) * bool => ((fst (fst ib), tojn (snd (fst ib))), snd ib)) (combine (index_list l 0) (holds q root l))).
        { generalize (holds q root l). generalize (index_list l 0). clear.
          intros xs. induction xs as [|a xs IH]; intros [|h hs]; cbn; try reflexivity. rewrite IH. reflexivity. }
        rewrite Hcomb, flat_map_map. apply two_flat_map. intros [iv hb] Hin. cbn [fst snd].
        destruct hb; [|split; [reflexivity|constructor]].
        destruct iv as [i v]. apply (sidx_d b next root cur (i, v) IHn Hnx Hr). apply in_combine_l in Hin. cbn [snd].
        eapply float_arr_in; [exact Hc|]. apply (nth_value_in l i v). apply (index_list_step l i v Hin).
      + rewrite sorted_keys_tojn.
        set (keys := sorted_keys m).
        assert (Hvals : flat_map (fun k => match lookup (map (fun kv => (fst kv, tojn (snd kv))) m) k with Some v => [v] | None => [] end) keys
                      = map tojn (flat_map (fun k => match lookup m k with Some v => [v] | None => [] end) keys)).
        { induction keys as [|k ks IHks]; cbn [flat_map map]; [reflexivity|]. rewrite lookup_tojn, IHks, map_app.
          destruct (lookup m k); reflexivity. }
        rewrite Hvals. rewrite (IHk Hk root _ Hr).
        * apply two_flat_map. intros [key hb] _. cbn [fst snd]. destruct hb; [|split; [reflexivity|constructor]].
          apply (skey_d b next root cur m key IHn Hnx Hr). exact Hc.
        * clear Hvals. induction keys as [|k ks IHks]; cbn [flat_map]; [constructor|]. apply Forall_app. split; [|exact IHks].
          destruct (lookup m k) as [v|] eqn:El; [|constructor]. constructor; [eapply float_obj_lookup; eassumption|constructor].
  Qed.

  Lemma operand_float_cur n root vals : D_node n -> fun_free n = true -> float_doc root -> Forall float_doc vals ->
    map (fun v => match sp n (tojn root) (None, v) with x :: _ => Some (res_value (Spec.wrap x)) | [] => None end) (map tojn vals)
    = map tj_e (map (fun v => match sp n root (None, v) with x :: _ => Some (res_value (Spec.wrap x)) | [] => None end) vals)
    /\ Forall efloat (map (fun v => match sp n root (None, v) with x :: _ => Some (res_value (Spec.wrap x)) | [] => None end) vals).
  Proof.
    intros IH Hff Hr Hv. induction Hv as [|v vs Hv0 Hvs IHvs]; cbn [map]; [split; [reflexivity|constructor]|].
    destruct IHvs as [I1 I2]. destruct (IH Hff root (None, v) Hr Hv0) as [A1 A2].
    unfold SpecDecode.tjc in A1. cbn [fst snd] in A1. rewrite A1, I1.
    destruct (sp n root (None, v)) as [|x xs]; cbn [map].
    - split; [reflexivity|constructor; [exact I|exact I2]].
    - rewrite rv_tjres. split; [reflexivity|]. constructor; [|exact I2]. cbn [efloat]. apply rv_float. inversion A2; assumption.
  Qed.

  Theorem decode_sim :
    (forall n, D_node n) /\ (forall o, D_onode o) /\ (forall k, D_kind k) /\ (forall ns, D_nodes ns) /\
    (forall q, D_query q) /\ (forall cp, D_cparam cp) /\ (forall p, D_pquery p).
  Proof.
    apply tree_mutind; try (intros; exact I).
    - intros k IHk b next IHn. apply node_decode; assumption.
    - intros n IH. exact IH.
    - intros ids IHids aw uq IHuq. split; assumption.
    - intros q IH. exact IH.
    - intros _ root cur _ _. split; [reflexivity|constructor].
    - intros id IHid rest IHrest Hff root cur Hr Hc.
      cbn [fun_free_ids] in Hff. apply andb_true_iff in Hff. destruct Hff as [H1 H2].
      change (sp_ids (NCons id rest) (tojn root) (tjc cur)) with (sp id (tojn root) (tjc cur) ++ sp_ids rest (tojn root) (tjc cur)).
      change (sp_ids (NCons id rest) root cur) with (sp id root cur ++ sp_ids rest root cur).
      destruct (IHid H1 root cur Hr Hc) as [A1 A2]. destruct (IHrest H2 root cur Hr Hc) as [B1 B2].
      rewrite A1, B1, map_app. split; [reflexivity|apply Forall_app; split; assumption].
    - intros a IHa b IHb Hff root vals Hr Hv. cbn [fun_free_q] in Hff. apply andb_true_iff in Hff. destruct Hff as [H1 H2].
      change (holds (QAnd a b) (tojn root) (map tojn vals)) with (andb_lists (holds a (tojn root) (map tojn vals)) (holds b (tojn root) (map tojn vals))).
      rewrite (IHa H1 root vals Hr Hv), (IHb H2 root vals Hr Hv). reflexivity.
    - intros a IHa b IHb Hff root vals Hr Hv. cbn [fun_free_q] in Hff. apply andb_true_iff in Hff. destruct Hff as [H1 H2].
      change (holds (QOr a b) (tojn root) (map tojn vals)) with (orb_lists (holds a (tojn root) (map tojn vals)) (holds b (tojn root) (map tojn vals))).
      rewrite (IHa H1 root vals Hr Hv), (IHb H2 root vals Hr Hv). reflexivity.
    - intros a IHa Hff root vals Hr Hv. cbn [fun_free_q] in Hff.
      change (holds (QNot a) (tojn root) (map tojn vals)) with (map negb (holds a (tojn root) (map tojn vals))).
      rewrite (IHa Hff root vals Hr Hv). reflexivity.
    - intros [lp ll] IHl [rp rl] IHr c Hff root vals Hr Hv. cbn [fun_free_q] in Hff.
      apply andb_true_iff in Hff. destruct Hff as [Hff H3]. apply andb_true_iff in Hff. destruct Hff as [H1 H2].
      change (holds (QCmp (CP lp ll) (CP rp rl) c) (tojn root) (map tojn vals)) with
        (cmp_holds regex_match c (List.length (map tojn vals)) (operand lp (tojn root) (map tojn vals)) (hd None (operand rp (tojn root) (map tojn vals)))).
      change (holds (QCmp (CP lp ll) (CP rp rl) c) root vals) with
        (cmp_holds regex_match c (List.length vals) (operand lp root vals) (hd None (operand rp root vals))).
      destruct (IHl H1 root vals Hr Hv) as [L1 L2]. destruct (IHr H2 root vals Hr Hv) as [R1 R2].
      rewrite L1, R1, map_length.
      assert (Hhd : hd None (map (conv spell (is_lit rp)) (operand rp root vals)) = conv spell (is_lit rp) (hd None (operand rp root vals))).
      { destruct (operand rp root vals); [destruct (is_lit rp); reflexivity|reflexivity]. }
      rewrite Hhd.
      assert (Hre : efloat (hd None (operand rp root vals))).
      { destruct (operand rp root vals) as [|x xs]; [exact I|]. inversion R2; assumption. }
      destruct (validator_of c) as [vd|] eqn:Ev.
      + apply (cmp_holds_vd spell regex_match c vd); assumption.
      + assert (Hc : c = CDeepEq) by (destruct c; try discriminate; reflexivity). subst c.
        assert (Hll : is_lit lp = false) by (destruct lp; [discriminate|reflexivity|reflexivity]).
        assert (Hlr : is_lit rp = false) by (destruct lp, rp; try discriminate; reflexivity).
        rewrite Hll, Hlr. cbn [conv]. apply (cmp_holds_tojn spell spell_eq regex_match); assumption.
    - intros p IH Hff root vals Hr Hv. cbn [fun_free_q] in Hff.
      change (holds (QParam p) (tojn root) (map tojn vals)) with
        (let es := operand p (tojn root) (map tojn vals) in
         if Nat.eqb (List.length es) (List.length (map tojn vals)) then map (fun x => negb (isE x)) es
         else repeat (negb (isE (hd None es))) (List.length (map tojn vals))).
      change (holds (QParam p) root vals) with
        (let es := operand p root vals in
         if Nat.eqb (List.length es) (List.length vals) then map (fun x => negb (isE x)) es
         else repeat (negb (isE (hd None es))) (List.length vals)).
      destruct (IH Hff root vals Hr Hv) as [P1 _]. cbv zeta. rewrite P1, !map_length, map_map.
      assert (Hi : forall x, negb (isE (conv spell (is_lit p) x)) = negb (isE x)) by (intros [v|]; destruct (is_lit p); reflexivity).
      destruct (Nat.eqb (List.length (operand p root vals)) (List.length vals)).
      + apply map_ext. intros x. apply Hi.
      + f_equal. destruct (operand p root vals) as [|x xs]; [reflexivity|]. cbn [map hd]. apply Hi.
    - intros p IH lit. exact IH.
    - intros v Hff root vals _ _. split; [reflexivity|].
      change (operand (PqLit v) root vals) with [Some v]. constructor; [|constructor].
      cbn [fun_free_p] in Hff. destruct v; try discriminate; try exact I. exact Hff.
    - intros n IH Hff root vals Hr Hv. cbn [fun_free_p] in Hff.
      change (operand (PqCur n) (tojn root) (map tojn vals)) with
        (let es := map (fun v => match sp n (tojn root) (None, v) with x :: _ => Some (res_value (Spec.wrap x)) | [] => None end) (map tojn vals) in
         if existsb (fun x => negb (isE x)) es then es else [None]).
      change (operand (PqCur n) root vals) with
        (let es := map (fun v => match sp n root (None, v) with x :: _ => Some (res_value (Spec.wrap x)) | [] => None end) vals in
         if existsb (fun x => negb (isE x)) es then es else [None]).
      destruct (operand_float_cur n root vals IH Hff Hr Hv) as [O1 O2]. cbv zeta. rewrite O1.
      set (es := map (fun v => match sp n root (None, v) with x :: _ => Some (res_value (Spec.wrap x)) | [] => None end) vals) in *.
      assert (He : existsb (fun x => negb (isE x)) (map tj_e es) = existsb (fun x => negb (isE x)) es).
      { clear. induction es as [|x es IH]; cbn [map existsb]; [reflexivity|]. rewrite IH. destruct x; reflexivity. }
      rewrite He. destruct (existsb (fun x => negb (isE x)) es); [split; [reflexivity|exact O2]|].
      split; [reflexivity|constructor; [exact I|constructor]].
    - intros n IH Hff root vals Hr Hv. cbn [fun_free_p] in Hff.
      change (operand (PqRoot n) (tojn root) (map tojn vals)) with
        (match sp n (tojn root) (Some [], tojn root) with
         | [] => [None] | [x] => [Some (res_value (Spec.wrap x))] | _ => [Some (VBool true)] end).
      change (operand (PqRoot n) root vals) with
        (match sp n root (Some [], root) with
         | [] => [None] | [x] => [Some (res_value (Spec.wrap x))] | _ => [Some (VBool true)] end).
      destruct (IH Hff root (Some [], root) Hr Hr) as [A1 A2]. unfold SpecDecode.tjc in A1. cbn [fst snd] in A1. unfold loc in A1. rewrite A1.
      cbn [is_lit conv].
      destruct (sp n root (Some [], root)) as [|x [|y l]]; cbn [map].
      + split; [reflexivity|constructor; [exact I|constructor]].
      + rewrite rv_tjres. split; [reflexivity|]. constructor; [|constructor]. cbn [efloat]. apply rv_float. inversion A2; assumption.
      + split; [reflexivity|constructor; [exact I|constructor]].
  Qed.

  (* every filter selects the same members under both decodings of the document *)
  Theorem filter_decode_invariant q root vals :
    fun_free_q q = true -> float_doc root -> Forall float_doc vals ->
    holds q (tojn root) (map tojn vals) = holds q root vals.
  Proof. intros H. exact (proj1 (proj2 (proj2 (proj2 (proj2 decode_sim)))) q H root vals). Qed.

  (* a function-free path selects the same cursors; the values differ only by the decoding *)
  Theorem path_decode_invariant t doc :
    fun_free t = true -> float_doc doc ->
    sp t (tojn doc) (Some [], tojn doc) = map tjres (sp t doc (Some [], doc)).
  Proof. intros H Hd. exact (proj1 (proj1 decode_sim t H doc (Some [], doc) Hd Hd)). Qed.
End Sim2.
